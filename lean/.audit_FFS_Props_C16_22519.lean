import FFS.Props.C16
#print axioms FFS.Props.C16.facts
#print axioms FFS.Props.C16.errResp_wf
#print axioms FFS.Props.C16.syncRequest_wf
#print axioms FFS.Props.C16.signAndSend_wf
#print axioms FFS.Props.C16.sendTransaction_wf
#print axioms FFS.Props.C16.processRPC_wf
#print axioms FFS.Props.C16.mapM_some_length
#print axioms FFS.Props.C16.parseErrorReply_ok
#print axioms FFS.Props.C16.batchReply_ok
#print axioms FFS.Props.C16.handle_wf
#print axioms FFS.Props.C16.handle_survives
#print axioms FFS.Props.C16.history_survives
#print axioms FFS.Props.C16.batch_length
#print axioms FFS.Props.C16.null_member_is_error
#print axioms FFS.Props.C16.missing_id_is_error
#print axioms FFS.Props.C16.bad_params_is_error
