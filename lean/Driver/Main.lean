import FFS.Driver.Rlp
import FFS.Driver.Secp
import FFS.Driver.Tx
import FFS.Driver.Eth
import FFS.Driver.Abi
import FFS.Driver.AbiCodec
import FFS.Driver.AbiEntry
import FFS.Driver.Eip712
import FFS.Driver.Ffi
import FFS.Driver.Keystore
import FFS.Driver.FsWallet
import FFS.Driver.Proxy
import FFS.Driver.FsWalletConc
import FFS.Driver.RpcClients
open Lean FFS FFS.Driver

def dispatch (op : String) (j : Json) : Json :=
  match op with
  | "rlp.decode" => opRlpDecode j
  | "rlp.encode" => opRlpEncode j
  | "rlp.roundtrip" => opRlpRoundtrip j
  | "secp.vnorm" => opSecpVnorm j
  | "secp.recover" => opSecpRecover j
  | "secp.judgesig" => opSecpJudgeSig j
  | "secp.compact" => opSecpCompact j
  | "secp.addr" => opSecpAddr j
  | "secp.decodecompact" => opSecpDecodeCompact j
  | "keccak" => opKeccak j
  | "tx.sign" => opTxSign j
  | "tx.recover" => opTxRecover j
  | "tx.judge" => opTxJudge j
  | "tx.decode1559" => opTxDecode1559 j
  | "eth.bigint" => opEthBigInt j
  | "eth.hexint" => opEthHexInt j
  | "eth.addr" => opEthAddr j
  | "eth.hexbytes" => opEthHexBytes j
  | "abi.validate" => opAbiValidate j
  | "abi.encode" => opAbiEncode j
  | "abi.roundtrip" => opAbiRoundtrip j
  | "abi.decode" => opAbiDecode j
  | "abi.entry" => opAbiEntry j
  | "abi.calldata" => opAbiCalldata j
  | "abi.event" => opAbiEvent j
  | "abi.error" => opAbiError j
  | "abi.rawentry" => opAbiRawEntry j
  | "eip712.encode" => opEip712Encode j
  | "eip712.spec" => opEip712Spec j
  | "eip712.doc" => opEip712Doc j
  | "ffi.toABI" => opFfiToABI j
  | "ffi.roundtrip" => opFfiRoundtrip j
  | "ks.read" => opKsRead j
  | "ks.create" => opKsCreate j
  | "prim" => opPrim j
  | "fsw.run" => opFswRun j
  | "proxy.handle" => opProxyHandle j
  | "fswc.run" => opFswcRun j
  | "rpcws.run" => opRpcWsRun j
  | "rpchttp.run" => opRpcHttpRun j
  | _ => Json.mkObj [("bad", "op")]

partial def loop (hin : IO.FS.Stream) (hout : IO.FS.Stream) : IO Unit := do
  let line ← hin.getLine
  if line.isEmpty then return ()
  let out :=
    match Json.parse line with
    | .ok j =>
      let op := Json.getStr! j "op"
      -- `noModel`: the case is judged against the property alone (e.g. a loop of 2^32 iterations in a defective tree)
      let r := match j.getObjVal? "noModel" with
        | .ok (.bool true) => Json.mkObj [("skipped", true)]
        | _ => dispatch op j
      match j.getObjVal? "i" with
      | .ok i => r.setObjVal! "i" i
      | .error _ => r
    | .error e => Json.mkObj [("bad", Json.str e)]
  hout.putStrLn out.compress
  hout.flush
  loop hin hout

def main : IO Unit := do
  let hin ← IO.getStdin
  let hout ← IO.getStdout
  loop hin hout
  hout.flush
