/- Hex and JSON glue for the driver (I/O only; no theorem depends on this file). -/
import FFS.Util.Basic
import Lean.Data.Json
namespace FFS
open Lean

def hexDigit (n : Nat) : Char :=
  if n < 10 then Char.ofNat (48 + n) else Char.ofNat (87 + n)

def hexOfBytes (bs : Bytes) : String :=
  String.ofList (bs.foldr (fun b acc => hexDigit (b.toNat / 16) :: hexDigit (b.toNat % 16) :: acc) [])

def hexVal? (c : Char) : Option Nat :=
  if '0' ≤ c ∧ c ≤ '9' then some (c.toNat - 48)
  else if 'a' ≤ c ∧ c ≤ 'f' then some (c.toNat - 87)
  else if 'A' ≤ c ∧ c ≤ 'F' then some (c.toNat - 55)
  else none

/-- tail recursive: inputs of tens of megabytes must not exhaust the stack -/
def bytesOfHexChars (cs : List Char) : Option Bytes :=
  let rec go : List Char → Array UInt8 → Option (Array UInt8)
    | [], acc => some acc
    | [_], _ => none
    | a :: b :: rest, acc =>
      match hexVal? a, hexVal? b with
      | some x, some y => go rest (acc.push (UInt8.ofNat (x * 16 + y)))
      | _, _ => none
  (go cs #[]).map (·.toList)

def bytesOfHex? (s : String) : Option Bytes := bytesOfHexChars s.toList

def Json.getStr! (j : Json) (k : String) : String :=
  match j.getObjValAs? String k with
  | .ok s => s
  | .error _ => ""

def Json.getNat! (j : Json) (k : String) : Nat :=
  match j.getObjValAs? Nat k with
  | .ok s => s
  | .error _ => 0

def Json.getHex! (j : Json) (k : String) : Bytes :=
  (bytesOfHex? (Json.getStr! j k)).getD []

/-- canonical rendering of an Outcome: {"ok": v} | "err" | "panic" -/
def outcomeJson {α : Type} (f : α → Json) : Outcome α → Json
  | .ok a => Json.mkObj [("ok", f a)]
  | .err => Json.str "err"
  | .panic => Json.str "panic"

end FFS
