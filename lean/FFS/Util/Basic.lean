/-
  FFS.Util.Basic — shared vocabulary of every model.

  * `Outcome α` : result of a Go operation — a value, an `error` return, or a run-time panic.
  * `Bytes`     : `List UInt8`.
  * Go partial operations (`slice?`, `index?`, `fillBytes?`) that yield `.panic` exactly where Go does.
  * Big-endian integer helpers.
-/
namespace FFS

inductive Outcome (α : Type) where
  | ok (a : α)
  | err
  | panic
deriving Repr, DecidableEq, Inhabited

namespace Outcome

@[inline] def bind {α β : Type} (x : Outcome α) (f : α → Outcome β) : Outcome β :=
  match x with
  | .ok a => f a
  | .err => .err
  | .panic => .panic

@[inline] def map {α β : Type} (f : α → β) (x : Outcome α) : Outcome β :=
  match x with
  | .ok a => .ok (f a)
  | .err => .err
  | .panic => .panic

instance : Monad Outcome where
  pure := .ok
  bind := Outcome.bind

def isOk {α : Type} : Outcome α → Bool
  | .ok _ => true
  | _ => false

def isPanic {α : Type} : Outcome α → Bool
  | .panic => true
  | _ => false

def ofOption {α : Type} : Option α → Outcome α
  | some a => .ok a
  | none => .err

@[simp] theorem bind_ok {α β : Type} (a : α) (f : α → Outcome β) : (Outcome.ok a >>= f) = f a := rfl
@[simp] theorem bind_err {α β : Type} (f : α → Outcome β) : ((Outcome.err : Outcome α) >>= f) = .err := rfl
@[simp] theorem bind_panic {α β : Type} (f : α → Outcome β) : ((Outcome.panic : Outcome α) >>= f) = .panic := rfl
@[simp] theorem pure_eq {α : Type} (a : α) : (pure a : Outcome α) = .ok a := rfl

/-- A bind does not panic if neither side does. -/
theorem bind_ne_panic {α β : Type} {x : Outcome α} {f : α → Outcome β}
    (hx : x ≠ .panic) (hf : ∀ a, x = .ok a → f a ≠ .panic) : (x >>= f) ≠ .panic := by
  cases x with
  | ok a => exact hf a rfl
  | err => simp
  | panic => exact absurd rfl hx

end Outcome

abbrev Bytes := List UInt8

/-- Go slice expression `xs[lo:hi]` on a slice whose `len = cap`: panics unless `lo ≤ hi ≤ len`. -/
def slice? {α : Type} (xs : List α) (lo hi : Nat) : Outcome (List α) :=
  if lo ≤ hi ∧ hi ≤ xs.length then .ok ((xs.drop lo).take (hi - lo)) else .panic

/-- Go index expression `xs[i]`. -/
def index? {α : Type} (xs : List α) (i : Nat) : Outcome α :=
  match xs[i]? with
  | some a => .ok a
  | none => .panic

/-- Fixed-width big-endian bytes of `v` (low `8*w` bits), most significant first. -/
def toBE : (w : Nat) → (v : Nat) → Bytes
  | 0, _ => []
  | w + 1, v => toBE w (v / 256) ++ [UInt8.ofNat (v % 256)]

/-- Big-endian bytes to natural number (`big.Int.SetBytes`). -/
def fromBE (bs : Bytes) : Nat :=
  bs.foldl (fun acc b => acc * 256 + b.toNat) 0

/-- Minimal big-endian bytes (`big.Int.Bytes()`): no leading zero; `0 ↦ []`. -/
def minBE (v : Nat) : Bytes :=
  if h : v = 0 then [] else minBE (v / 256) ++ [UInt8.ofNat (v % 256)]
termination_by v
decreasing_by omega

/-- `big.Int.FillBytes(make([]byte, w))` of a non-negative value: panics if it does not fit. -/
def fillBytes? (v : Nat) (w : Nat) : Outcome Bytes :=
  if v < 256 ^ w then .ok (toBE w v) else .panic

/-- number of bytes in the minimal representation. -/
def byteLen (v : Nat) : Nat := (minBE v).length

def zeros (n : Nat) : Bytes := List.replicate n 0

end FFS
