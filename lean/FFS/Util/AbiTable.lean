/- Shape of the regenerated elementary-type table (FFS.Gen.AbiTypeTable). -/
namespace FFS

inductive SuffixType where
  | none | mOptional | mRequired | mxnRequired
deriving Repr, DecidableEq, Inhabited

/-- how `dynamic(tc)` is decided for an elementary type -/
inductive DynKind where
  | never          -- alwaysFixed
  | always         -- string
  | whenNoSuffix   -- bytes: dynamic iff there is no <M> suffix
deriving Repr, DecidableEq, Inhabited

structure ElemInfo where
  name : String
  suffixType : SuffixType
  defaultSuffix : String
  defaultM : Nat
  mMin : Nat
  mMax : Nat
  mMod : Nat
  nMin : Nat
  nMax : Nat
  fixed32 : Bool
  dyn : DynKind
  enc : String   -- name of the encodeABIData function
  dec : String   -- name of the decodeABIData function
  reader : String -- name of the function readExternalData delegates to
  json : String   -- JSONEncodingType constant name
deriving Repr, DecidableEq, Inhabited

end FFS
