/-
  FFS.Lemmas.Eip55 — the model of `AddressWithChecksum.String()` (zip the lower-case hex of the address with the hex of
  its Keccak-256 hash) equals the EIP-55 specification function (upper-case a letter when the hash nibble at the same
  index is ≥ 8), for every 20-byte address. Used by Props.C19 (`checksum_is_eip55`).
-/
import FFS.Model.EthTypes
import FFS.Spec.Numeric
namespace FFS.Lemmas.Eip55
open FFS FFS.Model.EthTypes

theorem hexEncode_eq_hexOf : ∀ a : Bytes, hexEncode a = Spec.Numeric.hexOf a
  | [] => rfl
  | b :: bs => by
    have ih := hexEncode_eq_hexOf bs
    simp only [hexEncode, Spec.Numeric.hexOf, List.flatMap_cons, List.cons_append, List.nil_append] at ih ⊢
    rw [ih]; rfl

theorem hexEncode_length : ∀ a : Bytes, (hexEncode a).length = 2 * a.length
  | [] => rfl
  | b :: bs => by simp [hexEncode, hexEncode_length bs]; omega

/-- the nibble of `H` at hex position `i` -/
def nibAt (H : Bytes) (i : Nat) : Nat :=
  let b := (H.getD (i / 2) 0).toNat
  if i % 2 = 0 then b / 16 else b % 16

theorem nibAt_lt (H : Bytes) (i : Nat) : nibAt H i < 16 := by
  unfold nibAt
  have := (H.getD (i / 2) 0).toNat_lt
  simp only []
  split <;> omega

theorem hexEncode_getD : ∀ (H : Bytes) (i : Nat), i < 2 * H.length → (hexEncode H).getD i 'z' = hexChar (nibAt H i)
  | [], i, h => by simp at h
  | b :: bs, 0, _ => by simp [hexEncode, nibAt]
  | b :: bs, 1, _ => by simp [hexEncode, nibAt]
  | b :: bs, i + 2, h => by
    have ih := hexEncode_getD bs i (by simp at h; omega)
    have h2 : (i + 2) / 2 = i / 2 + 1 := by omega
    have h3 : (i + 2) % 2 = i % 2 := by omega
    simp only [hexEncode, List.getD_cons_succ, ih, nibAt, h2, h3]

theorem hexChar_facts : ∀ k : Fin 16, hexDigitVal (hexChar k.val) = some k.val ∧ (hexChar k.val).toLower = hexChar k.val ∧
    ((hexChar k.val).isAlpha = false → (hexChar k.val).toUpper = hexChar k.val) := by decide

/-- the per-character rule of the model and of the specification agree on a lower-case hex digit -/
theorem rule_agrees (k n : Nat) (hk : k < 16) (hn : n < 16) :
    (if (hexDigitVal (hexChar n)).getD 0 ≥ 8 then (hexChar k).toUpper else (hexChar k).toLower) =
    (if (hexChar k).isAlpha ∧ n ≥ 8 then (hexChar k).toUpper else hexChar k) := by
  have fk := hexChar_facts ⟨k, hk⟩
  have fn := hexChar_facts ⟨n, hn⟩
  simp only [] at fk fn
  rw [fn.1, Option.getD_some, fk.2.1]
  by_cases h8 : n ≥ 8
  · cases ha : (hexChar k).isAlpha with
    | true => simp [h8]
    | false => simp [h8, fk.2.2 ha]
  · simp [h8]

theorem hexEncode_mem : ∀ (a : Bytes) (c : Char), c ∈ hexEncode a → ∃ k, k < 16 ∧ c = hexChar k
  | [], c, h => by simp [hexEncode] at h
  | b :: bs, c, h => by
    simp only [hexEncode, List.mem_cons] at h
    have hb := b.toNat_lt
    rcases h with rfl | rfl | h
    · exact ⟨_, by omega, rfl⟩
    · exact ⟨_, by omega, rfl⟩
    · exact hexEncode_mem bs c h

/-- zipping lower-case hex digits with the hex of `H` under the model's rule = mapping them, with their index, under
    the specification's rule -/
theorem zip_rule (h : List Char) (H : Bytes) (hh : ∀ c ∈ h, ∃ k, k < 16 ∧ c = hexChar k) (hlen : h.length ≤ 2 * H.length) :
    List.zipWith (fun c x => if (hexDigitVal x).getD 0 ≥ 8 then c.toUpper else c.toLower) h (hexEncode H) =
    h.zipIdx.map (fun p => if p.1.isAlpha ∧ nibAt H p.2 ≥ 8 then p.1.toUpper else p.1) := by
  have hl := hexEncode_length H
  apply List.ext_getElem
  · simp [hl]; omega
  · intro i h1 h2
    have hi : i < h.length := by simp at h2; exact h2
    have hiH : i < (hexEncode H).length := by omega
    rw [List.getElem_zipWith, List.getElem_map, List.getElem_zipIdx]
    obtain ⟨k, hk, hc⟩ := hh h[i] (List.getElem_mem hi)
    have hx : (hexEncode H)[i] = hexChar (nibAt H i) := by
      have := hexEncode_getD H i (by omega)
      simpa [List.getD, hiH] using this
    simp only [hx, hc, Nat.zero_add]
    exact rule_agrees k (nibAt H i) hk (nibAt_lt H i)

/-- **`AddressWithChecksum.String()` is the EIP-55 form** of every 20-byte address -/
theorem checksum_eq_eip55 (a : Bytes) (h20 : a.length = 20) : addressChecksumString a = Spec.Numeric.eip55 a := by
  have hz := zip_rule (hexEncode a) (Prim.keccak256 (charBytes (hexEncode a))) (hexEncode_mem a)
    (by rw [hexEncode_length, Prim.keccak256_length, h20]; decide)
  unfold addressChecksumString Spec.Numeric.eip55
  simp only []
  rw [← hexEncode_eq_hexOf, hz]
  rfl

/-! ### the checksum spelling parses back to the address -/

/-- two characters that denote the same hex digit (or are both not hex digits) -/
def SameDigit (a b : Char) : Prop := hexDigitVal a = hexDigitVal b

def SameDigits : List Char → List Char → Prop
  | [], [] => True
  | a :: l, b :: m => SameDigit a b ∧ SameDigits l m
  | _, _ => False

theorem hexDecode_congr : ∀ (l1 l2 : List Char), SameDigits l1 l2 → hexDecode l1 = hexDecode l2
  | [], [], _ => rfl
  | [_], [_], _ => rfl
  | a :: b :: r, a' :: b' :: r', h => by
    simp only [SameDigits] at h
    obtain ⟨h1, h2, h3⟩ := h
    unfold SameDigit at h1 h2
    simp only [hexDecode, h1, h2, hexDecode_congr r r' h3]
  | [], _ :: _, h => by simp [SameDigits] at h
  | _ :: _, [], h => by simp [SameDigits] at h
  | [_], _ :: _ :: _, h => by simp [SameDigits] at h
  | _ :: _ :: _, [_], h => by simp [SameDigits] at h

theorem upper_same : ∀ k : Fin 16, hexDigitVal (hexChar k.val).toUpper = hexDigitVal (hexChar k.val) := by decide

theorem cased_same (g : Char × Nat → Bool) : ∀ (l : List Char) (n : Nat), (∀ c ∈ l, ∃ k, k < 16 ∧ c = hexChar k) →
    SameDigits ((l.zipIdx n).map fun p => if g p then p.1.toUpper else p.1) l
  | [], _, _ => by simp [SameDigits]
  | c :: l, n, h => by
    simp only [List.zipIdx_cons, List.map_cons, SameDigits]
    refine ⟨?_, cased_same g l (n + 1) (fun c' hc' => h c' (List.mem_cons_of_mem _ hc'))⟩
    obtain ⟨k, hk, rfl⟩ := h c List.mem_cons_self
    unfold SameDigit
    split
    · exact upper_same ⟨k, hk⟩
    · rfl

/-- decoding the EIP-55 spelling (without its prefix) gives the address bytes -/
theorem eip55_decodes (a : Bytes) : ∃ cs, Spec.Numeric.eip55 a = '0' :: 'x' :: cs ∧ hexDecode cs = hexDecode (hexEncode a) := by
  unfold Spec.Numeric.eip55
  simp only []
  rw [← hexEncode_eq_hexOf]
  refine ⟨_, rfl, ?_⟩
  apply hexDecode_congr
  have := cased_same (fun p => decide (p.1.isAlpha ∧
      (let b := ((Prim.keccak256 ((hexEncode a).map fun c => UInt8.ofNat c.toNat)).getD (p.2 / 2) 0).toNat
       if p.2 % 2 = 0 then b / 16 else b % 16) ≥ 8)) (hexEncode a) 0 (hexEncode_mem a)
  simpa using this

theorem cased_small_digit : ∀ k : Fin 16, (hexChar k.val).toUpper.toNat < 256 ∧ (hexChar k.val).toNat < 256 := by decide

theorem cased_small (g : Char × Nat → Bool) : ∀ (l : List Char) (n : Nat), (∀ c ∈ l, ∃ k, k < 16 ∧ c = hexChar k) →
    ∀ c ∈ ((l.zipIdx n).map fun p => if g p then p.1.toUpper else p.1), c.toNat < 256
  | [], _, _ => by simp
  | c :: l, n, h => by
    intro x hx
    simp only [List.zipIdx_cons, List.map_cons, List.mem_cons] at hx
    rcases hx with rfl | hx
    · obtain ⟨k, hk, rfl⟩ := h c List.mem_cons_self
      split
      · exact (cased_small_digit ⟨k, hk⟩).1
      · exact (cased_small_digit ⟨k, hk⟩).2
    · exact cased_small g l (n + 1) (fun c' hc' => h c' (List.mem_cons_of_mem _ hc')) x hx

/-- the EIP-55 spelling is ASCII -/
theorem eip55_small (a : Bytes) : ∀ c ∈ Spec.Numeric.eip55 a, c.toNat < 256 := by
  unfold Spec.Numeric.eip55
  simp only []
  rw [← hexEncode_eq_hexOf]
  intro c hc
  simp only [List.mem_cons] at hc
  rcases hc with rfl | rfl | hc
  · decide
  · decide
  · exact cased_small (fun p => decide (p.1.isAlpha ∧
      (let b := ((Prim.keccak256 ((hexEncode a).map fun c => UInt8.ofNat c.toNat)).getD (p.2 / 2) 0).toNat
       if p.2 % 2 = 0 then b / 16 else b % 16) ≥ 8)) (hexEncode a) 0 (hexEncode_mem a) c (by simpa using hc)

end FFS.Lemmas.Eip55
