/- Helper lemmas for the RLP model (core-only). Property theorems are in FFS.Props.C06. -/
import FFS.Lemmas.Bytes
import FFS.Model.Rlp
namespace FFS.Model.Rlp
open FFS FFS.Gen.RlpConsts

/-- simp set turning the generated Bool guards into arithmetic propositions -/
macro "guards_to_props" : tactic =>
  `(tactic| simp only [decCase0, decCase1, decCase2, decCase3, decCase4, decCase5, encSingle, encShort,
      lenReject, Bool.and_eq_true, Bool.or_eq_true, decide_eq_true_eq, Bool.not_eq_true',
      decide_eq_false_iff_not] at *)

theorem slice?_ne_panic {α : Type} {xs : List α} {lo hi : Nat} (h1 : lo ≤ hi) (h2 : hi ≤ xs.length) :
    slice? xs lo hi = .ok ((xs.drop lo).take (hi - lo)) := by
  simp [slice?, h1, h2]

theorem minimalBytesToInt64_ne_panic (d : Bytes) : minimalBytesToInt64 d ≠ .panic := by
  unfold minimalBytesToInt64
  simp only []
  split <;> simp

theorem minimalBytesToInt64_ok {d : Bytes} {v : Nat} (h : minimalBytesToInt64 d = .ok v) :
    v ≤ maxInt32 ∧ v = fromBE d % 2 ^ 64 := by
  unfold minimalBytesToInt64 at h
  simp only [] at h
  split at h
  · cases h
  · rename_i hc
    injection h with h
    guards_to_props
    simp only [maxInt32]
    omega

theorem extractLongLenAux_ne_panic (k : Nat) {bs : Bytes} (hne : 0 < bs.length) :
    extractLongLenAux k bs ≠ .panic := by
  unfold extractLongLenAux
  split
  · simp
  · rename_i h
    rw [slice?_ne_panic (by omega) (by omega)]
    simp only []
    cases hm : minimalBytesToInt64 _ with
    | ok v => simp only []; split <;> simp
    | err => simp
    | panic => exact absurd hm (minimalBytesToInt64_ne_panic _)

theorem extractLongLenAux_ok {k : Nat} {bs : Bytes} {dl pos : Nat} (hne : 0 < bs.length)
    (h : extractLongLenAux k bs = .ok (dl, pos)) :
    pos = 1 + k ∧ pos + dl ≤ bs.length ∧ dl ≤ maxInt32 ∧
      dl = fromBE ((bs.drop 1).take k) % 2 ^ 64 := by
  unfold extractLongLenAux at h
  split at h
  · cases h
  · rename_i hc
    rw [slice?_ne_panic (by omega) (by omega)] at h
    simp only [] at h
    cases hm : minimalBytesToInt64 _ with
    | ok v =>
      rw [hm] at h
      simp only [] at h
      split at h
      · cases h
      · injection h with h
        injection h with h1 h2
        have := minimalBytesToInt64_ok hm
        simp only [Nat.add_sub_cancel_left] at this
        subst h1 h2
        refine ⟨rfl, by omega, this.1, this.2⟩
    | err => rw [hm] at h; cases h
    | panic => rw [hm] at h; cases h

theorem extractLongLen_ne_panic (isList : Bool) (p : Nat) {bs : Bytes} (hne : 0 < bs.length) :
    extractLongLen isList p bs ≠ .panic := extractLongLenAux_ne_panic _ hne

theorem extractLongLen_ok {isList : Bool} {p : Nat} {bs : Bytes} {dl pos : Nat} (hne : 0 < bs.length)
    (h : extractLongLen isList p bs = .ok (dl, pos)) :
    1 ≤ pos ∧ pos + dl ≤ bs.length ∧ dl ≤ maxInt32 := by
  have := extractLongLenAux_ok hne h
  omega

/-! The translated guards, pinned to the arithmetic facts the proofs use. A change of a constant or a
    comparison in /repo/pkg/rlp changes `Gen.RlpConsts` and breaks these. -/
theorem decCase0_iff (p : Nat) : decCase0 p = true ↔ p < 128 := by simp [decCase0]
theorem decCase1_iff (p : Nat) : decCase1 p = true ↔ p = 128 := by simp [decCase1]
theorem decCase2_iff (p : Nat) : decCase2 p = true ↔ (128 < p ∧ p ≤ 183) := by simp [decCase2]
theorem decCase3_iff (p : Nat) : decCase3 p = true ↔ (183 < p ∧ p < 192) := by simp [decCase3]
theorem decCase4_iff (p : Nat) : decCase4 p = true ↔ (192 ≤ p ∧ p ≤ 247) := by simp [decCase4]
theorem decCase5_iff (p : Nat) : decCase5 p = true ↔ 247 < p := by simp [decCase5]
theorem lenReject_iff (v : Nat) : lenReject v = true ↔ (2 ^ 63 ≤ v ∨ 2147483647 < v) := by
  simp [lenReject]
theorem encSingle_iff (len b0 : Nat) (isList : Bool) :
    encSingle len b0 isList = true ↔ (len = 1 ∧ isList = false ∧ b0 ≤ 127) := by
  simp [encSingle, and_assoc]
theorem encShort_iff (len : Nat) : encShort len = true ↔ len ≤ 55 := by simp [encShort]

theorem decCase5_of_not {p : Nat} (h0 : ¬ decCase0 p = true) (h1 : ¬ decCase1 p = true)
    (h2 : ¬ decCase2 p = true) (h3 : ¬ decCase3 p = true) (h4 : ¬ decCase4 p = true) :
    decCase5 p = true := by
  guards_to_props
  omega

theorem header_ne_panic {bs : Bytes} (hne : bs ≠ []) : header bs ≠ .panic := by
  cases bs with
  | nil => exact absurd rfl hne
  | cons b t =>
    unfold header
    simp only []
    split
    · simp
    split
    · simp
    split
    · split
      · simp
      · rw [slice?_ne_panic (by omega) (by simp at *; omega)]
        simp [Outcome.bind]
    split
    · cases he : extractLongLen false b.toNat (b :: t) with
      | ok r =>
        obtain ⟨dl, pos⟩ := r
        have := extractLongLen_ok (by simp) he
        simp only [Outcome.bind]
        rw [slice?_ne_panic (by omega) (by omega)]
        simp
      | err => simp [Outcome.bind]
      | panic => exact absurd he (extractLongLen_ne_panic _ _ (by simp))
    split
    · split
      · simp
      · rw [slice?_ne_panic (by omega) (by simp at *; omega)]
        simp [Outcome.bind]
    · rename_i h0 h1 h2 h3 h4
      rw [if_pos (decCase5_of_not h0 h1 h2 h3 h4)]
      cases he : extractLongLen true b.toNat (b :: t) with
      | ok r =>
        obtain ⟨dl, pos⟩ := r
        have := extractLongLen_ok (by simp) he
        simp only [Outcome.bind]
        rw [slice?_ne_panic (by omega) (by omega)]
        simp
      | err => simp [Outcome.bind]
      | panic => exact absurd he (extractLongLen_ne_panic _ _ (by simp))


/-- What `header` returns stays inside the input: consumed count in [1, len]; a string payload
    or list payload is strictly shorter than the consumed count and no longer than maxInt32. -/
theorem header_leaf_bounds {bs : Bytes} {it : Item} {n : Nat} (h : header bs = .ok (.leaf it n)) :
    1 ≤ n ∧ n ≤ bs.length ∧ ∃ d, it = .str d ∧ d.length < n + 1 ∧ d.length ≤ maxInt32 := by
  cases bs with
  | nil => simp [header] at h
  | cons b t =>
    unfold header at h
    simp only [] at h
    split at h
    · injection h with h; injection h with h1 h2; subst h1 h2
      exact ⟨by omega, by simp, [b], rfl, by simp, by simp [maxInt32]⟩
    split at h
    · injection h with h; injection h with h1 h2; subst h1 h2
      exact ⟨by omega, by simp, [], rfl, by simp, by simp⟩
    split at h
    · rename_i h3
      split at h
      · cases h
      · rename_i hc
        rw [slice?_ne_panic (by omega) (by simp at *; omega)] at h
        simp only [Outcome.bind] at h
        injection h with h; injection h with h1 h2; subst h1 h2
        refine ⟨by omega, by simp at *; omega, _, rfl, ?_, ?_⟩
        · simp; omega
        · simp [longString, shortString, maxInt32] at *; omega
    split at h
    · cases he : extractLongLen false b.toNat (b :: t) with
      | ok r =>
        obtain ⟨dl, pos⟩ := r
        have hb := extractLongLen_ok (by simp) he
        rw [he] at h
        simp only [Outcome.bind] at h
        rw [slice?_ne_panic (by omega) (by omega)] at h
        simp only [] at h
        injection h with h; injection h with h1 h2; subst h1 h2
        refine ⟨by omega, by omega, _, rfl, ?_, ?_⟩
        · simp; omega
        · simp; omega
      | err => rw [he] at h; simp [Outcome.bind] at h
      | panic => rw [he] at h; simp [Outcome.bind] at h
    split at h
    · split at h
      · cases h
      · rename_i hc
        rw [slice?_ne_panic (by omega) (by simp at *; omega)] at h
        simp [Outcome.bind] at h
    · rename_i h0 h1 h2 h3 h4
      rw [if_pos (decCase5_of_not h0 h1 h2 h3 h4)] at h
      cases he : extractLongLen true b.toNat (b :: t) with
      | ok r =>
        obtain ⟨dl, pos⟩ := r
        have hb := extractLongLen_ok (by simp) he
        rw [he] at h
        simp only [Outcome.bind] at h
        rw [slice?_ne_panic (by omega) (by omega)] at h
        simp at h
      | err => rw [he] at h; simp [Outcome.bind] at h
      | panic => rw [he] at h; simp [Outcome.bind] at h

theorem header_sub_bounds {bs : Bytes} {p : Bytes} {n : Nat} (h : header bs = .ok (.sub p n)) :
    1 ≤ n ∧ n ≤ bs.length ∧ p.length < n ∧ p.length ≤ maxInt32 := by
  cases bs with
  | nil => simp [header] at h
  | cons b t =>
    unfold header at h
    simp only [] at h
    split at h
    · simp at h
    split at h
    · simp at h
    split at h
    · split at h
      · cases h
      · rename_i hc
        rw [slice?_ne_panic (by omega) (by simp at *; omega)] at h
        simp [Outcome.bind] at h
    split at h
    · cases he : extractLongLen false b.toNat (b :: t) with
      | ok r =>
        obtain ⟨dl, pos⟩ := r
        have hb := extractLongLen_ok (by simp) he
        rw [he] at h
        simp only [Outcome.bind] at h
        rw [slice?_ne_panic (by omega) (by omega)] at h
        simp at h
      | err => rw [he] at h; simp [Outcome.bind] at h
      | panic => rw [he] at h; simp [Outcome.bind] at h
    split at h
    · rename_i h5
      split at h
      · cases h
      · rename_i hc
        rw [slice?_ne_panic (by omega) (by simp at *; omega)] at h
        simp only [Outcome.bind] at h
        injection h with h; injection h with h1 h2; subst h1 h2
        refine ⟨by omega, by simp at *; omega, ?_, ?_⟩
        · simp; omega
        · simp [longList, shortList, maxInt32] at *; omega
    · rename_i h0 h1 h2 h3 h4
      rw [if_pos (decCase5_of_not h0 h1 h2 h3 h4)] at h
      cases he : extractLongLen true b.toNat (b :: t) with
      | ok r =>
        obtain ⟨dl, pos⟩ := r
        have hb := extractLongLen_ok (by simp) he
        rw [he] at h
        simp only [Outcome.bind] at h
        rw [slice?_ne_panic (by omega) (by omega)] at h
        simp only [] at h
        injection h with h; injection h with h1 h2; subst h1 h2
        refine ⟨by omega, by omega, ?_, ?_⟩
        · simp; omega
        · simp; omega
      | err => rw [he] at h; simp [Outcome.bind] at h
      | panic => rw [he] at h; simp [Outcome.bind] at h


theorem decOne_bounds {fuel : Nat} {bs : Bytes} {it : Item} {n : Nat}
    (h : decOne fuel bs = .ok (it, n)) : 1 ≤ n ∧ n ≤ bs.length := by
  cases fuel with
  | zero => simp [decOne] at h
  | succ f =>
    unfold decOne at h
    split at h
    · rename_i it' n' hh
      injection h with h; injection h with h1 h2; subst h1 h2
      have := header_leaf_bounds hh
      omega
    · rename_i p n' hh
      have := header_sub_bounds hh
      split at h
      · injection h with h; injection h with h1 h2; subst h2; omega
      · cases h
      · cases h
    · cases h
    · cases h

theorem dec_total : ∀ fuel,
    (∀ bs : Bytes, bs ≠ [] → 2 * bs.length ≤ fuel → decOne fuel bs ≠ .panic) ∧
    (∀ bs : Bytes, 2 * bs.length + 1 ≤ fuel → decMany fuel bs ≠ .panic) := by
  intro fuel
  induction fuel with
  | zero =>
    constructor
    · intro bs hne hf
      cases bs with
      | nil => exact absurd rfl hne
      | cons b t => simp at hf
    · intro bs hf; omega
  | succ f ih =>
    constructor
    · intro bs hne hf
      unfold decOne
      split
      · simp
      · rename_i p n hh
        have hb := header_sub_bounds hh
        have := ih.2 p (by omega)
        split
        · simp
        · simp
        · rename_i hp; exact absurd hp this
      · simp
      · rename_i hh; exact absurd hh (header_ne_panic hne)
    · intro bs hf
      unfold decMany
      split
      · simp
      · rename_i b t
        have h1 := ih.1 (b :: t) (by simp) (by omega)
        split
        · rename_i it n hd
          have hb := decOne_bounds hd
          have h2 := ih.2 ((b :: t).drop n) (by simp only [List.length_drop]; omega)
          split
          · simp
          · simp
          · rename_i hp; exact absurd hp h2
        · simp
        · rename_i hp; exact absurd hp h1


/-- More fuel never changes a result that was not an out-of-fuel panic. -/
theorem dec_mono : ∀ f,
    (∀ bs : Bytes, decOne f bs ≠ .panic → decOne (f + 1) bs = decOne f bs) ∧
    (∀ bs : Bytes, decMany f bs ≠ .panic → decMany (f + 1) bs = decMany f bs) := by
  intro f
  induction f with
  | zero =>
    constructor
    · intro bs h; simp [decOne] at h
    · intro bs h; simp [decMany] at h
  | succ f ih =>
    constructor
    · intro bs h
      rw [decOne.eq_def (f + 1 + 1), decOne.eq_def (f + 1)]
      simp only []
      rw [decOne.eq_def (f + 1)] at h
      simp only [] at h
      split
      · rfl
      · rename_i p n hh
        rw [hh] at h
        simp only [] at h
        have hp : decMany f p ≠ .panic := by
          intro hp; rw [hp] at h; exact h rfl
        rw [ih.2 p hp]
      · rfl
      · rfl
    · intro bs h
      rw [decMany.eq_def (f + 1 + 1), decMany.eq_def (f + 1)]
      simp only []
      rw [decMany.eq_def (f + 1)] at h
      simp only [] at h
      split
      · rfl
      · rename_i b t
        simp only [] at h
        have h1 : decOne f (b :: t) ≠ .panic := by
          intro hp; rw [hp] at h; exact h rfl
        rw [ih.1 _ h1]
        cases hd : decOne f (b :: t) with
        | ok r =>
          obtain ⟨it, n⟩ := r
          rw [hd] at h
          simp only [] at h ⊢
          have h2 : decMany f ((b :: t).drop n) ≠ .panic := by
            intro hp; rw [hp] at h; exact h rfl
          rw [ih.2 _ h2]
        | err => rfl
        | panic => rfl

theorem decOne_mono_le {f f' : Nat} {bs : Bytes} (h : decOne f bs ≠ .panic) (hle : f ≤ f') :
    decOne f' bs = decOne f bs := by
  induction hle with
  | refl => rfl
  | step _ ih => rw [(dec_mono _).1 bs (by rw [ih]; exact h), ih]

theorem decMany_mono_le {f f' : Nat} {bs : Bytes} (h : decMany f bs ≠ .panic) (hle : f ≤ f') :
    decMany f' bs = decMany f bs := by
  induction hle with
  | refl => rfl
  | step _ ih => rw [(dec_mono _).2 bs (by rw [ih]; exact h), ih]


theorem drop_take_mid {α : Type} (pre mid post : List α) :
    ((pre ++ (mid ++ post)).drop pre.length).take mid.length = mid := by
  simp

/-- the long-form header (`pfx`, minimal length bytes, payload) is read back exactly -/
theorem extractLongLenAux_long (pfx : UInt8) (payload rest : Bytes)
    (h56 : 56 ≤ payload.length) (hmax : payload.length ≤ maxInt32) :
    extractLongLenAux (minBE payload.length).length
        (pfx :: (minBE payload.length ++ (payload ++ rest))) =
      .ok (payload.length, 1 + (minBE payload.length).length) := by
  unfold extractLongLenAux
  have hk : (minBE payload.length).length ≤ 4 :=
    minBE_length_le (by simp [maxInt32] at hmax; omega)
  rw [if_neg (by simp)]
  rw [slice?_ne_panic (by omega) (by simp; omega)]
  simp only [Nat.add_sub_cancel_left, List.drop_succ_cons, List.drop_zero]
  have : (minBE payload.length ++ (payload ++ rest)).take (minBE payload.length).length
      = minBE payload.length := by simp
  rw [this]
  have hm : minimalBytesToInt64 (minBE payload.length) = .ok payload.length := by
    unfold minimalBytesToInt64
    simp only [fromBE_minBE]
    simp [maxInt32] at hmax
    have : payload.length % 2 ^ 64 = payload.length := Nat.mod_eq_of_lt (by omega)
    rw [this]
    rw [if_neg (by rw [lenReject_iff]; omega)]
  rw [hm]
  simp only []
  rw [if_neg (by simp; omega)]

theorem header_Rb (b rest : Bytes) (hmax : b.length ≤ maxInt32) :
    header (Spec.Rlp.Rb b ++ rest) = .ok (.leaf (.str b) (Spec.Rlp.Rb b).length) := by
  unfold Spec.Rlp.Rb
  split
  · rename_i x
    split
    · rename_i hx
      simp [header, decCase0_iff, hx]
    · rename_i hx
      have hx2 := x.toNat_lt
      simp only [List.cons_append, List.nil_append, header, UInt8.toNat_ofNat', shortString, longString,
        decCase0_iff, decCase1_iff, decCase2_iff]
      simp [slice?, Outcome.bind]
  · rename_i hns
    split
    · rename_i h56
      have hp : (UInt8.ofNat (128 + b.length)).toNat = 128 + b.length := by
        simp [UInt8.toNat_ofNat']; omega
      simp only [List.cons_append, header, hp, shortString, longString, decCase0_iff, decCase1_iff,
        decCase2_iff]
      by_cases h0 : b.length = 0
      · have : b = [] := List.eq_nil_of_length_eq_zero h0
        subst this
        simp
      · rw [if_neg (by omega), if_neg (by omega), if_pos (by omega)]
        simp only [Nat.add_sub_cancel_left, List.length_cons, List.length_append, Nat.add_sub_cancel]
        rw [if_neg (by omega)]
        rw [slice?_ne_panic (by omega) (by simp; omega)]
        have hm : b.length % 256 = b.length := by omega
        simp [Outcome.bind, Nat.add_comm, hm]
    · rename_i h56
      have hk : (minBE b.length).length ≤ 4 :=
        minBE_length_le (by simp [maxInt32] at hmax; omega)
      have hk1 : 0 < (minBE b.length).length := minBE_length_pos (by omega)
      have hp : (UInt8.ofNat (183 + (minBE b.length).length)).toNat = 183 + (minBE b.length).length := by
        simp [UInt8.toNat_ofNat']; omega
      simp only [List.cons_append, header, hp, shortString, longString, shortList, longList,
        decCase0_iff, decCase1_iff, decCase2_iff, decCase3_iff]
      rw [if_neg (by omega), if_neg (by omega), if_neg (by omega), if_pos (by omega)]
      unfold extractLongLen
      have hsub : (183 + (minBE b.length).length + 256 - 183) % 256 = (minBE b.length).length := by omega
      simp only [Bool.false_eq_true, if_false, longString, hsub, List.append_assoc]
      rw [extractLongLenAux_long _ _ _ (by omega) hmax]
      simp only [Outcome.bind]
      rw [slice?_ne_panic (by omega) (by simp; omega)]
      simp only [Nat.add_sub_cancel_left]
      have := drop_take_mid (UInt8.ofNat (183 + (minBE b.length).length) :: minBE b.length) b rest
      simp only [List.cons_append, List.length_cons] at this
      rw [Nat.add_comm 1, this]
      simp [Nat.add_comm]
      omega


theorem header_Rl (s rest : Bytes) (hmax : s.length ≤ maxInt32) :
    header (Spec.Rlp.Rl s ++ rest) = .ok (.sub s (Spec.Rlp.Rl s).length) := by
  unfold Spec.Rlp.Rl
  split
  · rename_i h56
    have hp : (UInt8.ofNat (192 + s.length)).toNat = 192 + s.length := by
      simp [UInt8.toNat_ofNat']; omega
    simp only [List.cons_append, header, hp, shortString, longString, shortList, longList,
      decCase0_iff, decCase1_iff, decCase2_iff, decCase3_iff, decCase4_iff]
    rw [if_neg (by omega), if_neg (by omega), if_neg (by omega), if_neg (by omega), if_pos (by omega)]
    have hsub : (192 + s.length + 256 - 192) % 256 = s.length := by omega
    simp only [hsub, List.length_cons, List.length_append, Nat.add_sub_cancel]
    rw [if_neg (by omega)]
    rw [slice?_ne_panic (by omega) (by simp; omega)]
    simp [Outcome.bind, Nat.add_comm]
  · rename_i h56
    have hk : (minBE s.length).length ≤ 4 :=
      minBE_length_le (by simp [maxInt32] at hmax; omega)
    have hk1 : 0 < (minBE s.length).length := minBE_length_pos (by omega)
    have hp : (UInt8.ofNat (247 + (minBE s.length).length)).toNat = 247 + (minBE s.length).length := by
      simp [UInt8.toNat_ofNat']; omega
    simp only [List.cons_append, header, hp, shortString, longString, shortList, longList,
      decCase0_iff, decCase1_iff, decCase2_iff, decCase3_iff, decCase4_iff, decCase5_iff]
    rw [if_neg (by omega), if_neg (by omega), if_neg (by omega), if_neg (by omega), if_neg (by omega),
      if_pos (by omega)]
    unfold extractLongLen
    have hsub : (247 + (minBE s.length).length + 256 - 247) % 256 = (minBE s.length).length := by omega
    simp only [if_true, longList, hsub, List.append_assoc]
    rw [extractLongLenAux_long _ _ _ (by omega) hmax]
    simp only [Outcome.bind]
    rw [slice?_ne_panic (by omega) (by simp; omega)]
    simp only [Nat.add_sub_cancel_left]
    have := drop_take_mid (UInt8.ofNat (247 + (minBE s.length).length) :: minBE s.length) s rest
    simp only [List.cons_append, List.length_cons] at this
    rw [Nat.add_comm 1, this]
    simp [Nat.add_comm]
    omega

theorem Rb_ne_nil (b : Bytes) : Spec.Rlp.Rb b ≠ [] := by
  unfold Spec.Rlp.Rb
  split
  · split <;> simp
  · split <;> simp

theorem Rl_ne_nil (s : Bytes) : Spec.Rlp.Rl s ≠ [] := by
  unfold Spec.Rlp.Rl
  split <;> simp

theorem rlp_ne_nil (t : Item) : Spec.Rlp.rlp t ≠ [] := by
  cases t with
  | str b => simp only [Spec.Rlp.rlp]; exact Rb_ne_nil b
  | list xs => simp only [Spec.Rlp.rlp]; exact Rl_ne_nil _


theorem int64ToMinimalBytes_eq {v : Nat} (h : v < 2 ^ 64) : int64ToMinimalBytes v = minBE v := by
  unfold int64ToMinimalBytes int64ToBytes
  exact dropWhile_toBE8 (by omega)

theorem encodeBytes_str (b : Bytes) (h : b.length < 2 ^ 64) :
    encodeBytes b false = Spec.Rlp.Rb b := by
  match b, h with
  | [], _ => simp [encodeBytes, Spec.Rlp.Rb, shortString, encSingle_iff, encShort_iff]
  | [x], _ =>
    by_cases hx : x.toNat < 128
    · have : x.toNat ≤ 127 := by omega
      simp [encodeBytes, Spec.Rlp.Rb, encSingle_iff, hx, this]
    · have : ¬ x.toNat ≤ 127 := by omega
      simp [encodeBytes, Spec.Rlp.Rb, encSingle_iff, encShort_iff, shortString, hx, this]
  | x :: y :: t, h =>
    simp only [encodeBytes, Spec.Rlp.Rb, shortString, shortToLong, encSingle_iff, encShort_iff,
      Bool.false_eq_true, if_false]
    rw [if_neg (by simp)]
    by_cases h56 : (x :: y :: t).length < 56
    · rw [if_pos (by omega), if_pos h56]
    · rw [if_neg (by omega), if_neg h56, int64ToMinimalBytes_eq h]

theorem encodeBytes_list (s : Bytes) (h : s.length < 2 ^ 64) :
    encodeBytes s true = Spec.Rlp.Rl s := by
  simp only [encodeBytes, Spec.Rlp.Rl, shortList, shortToLong, encSingle_iff, encShort_iff, if_true]
  rw [if_neg (by simp)]
  by_cases h56 : s.length < 56
  · rw [if_pos (by omega), if_pos h56]
  · rw [if_neg (by omega), if_neg h56, int64ToMinimalBytes_eq h]


theorem extractLongLenAux_lt {k : Nat} {bs : Bytes} {dl pos : Nat} (hne : 0 < bs.length)
    (h : extractLongLenAux k bs = .ok (dl, pos)) : dl < 256 ^ k := by
  have hb := extractLongLenAux_ok hne h
  obtain ⟨hpos, hfit, hmax, hdl⟩ := hb
  have h1 := fromBE_lt ((bs.drop 1).take k)
  have hl : ((bs.drop 1).take k).length = k := by simp; omega
  rw [hl] at h1
  have := Nat.mod_le (fromBE ((bs.drop 1).take k)) (2 ^ 64)
  omega

theorem Rb_length_le (d : Bytes) (k : Nat) (hk : d.length < 256 ^ k) :
    (Spec.Rlp.Rb d).length ≤ 1 + k + d.length := by
  cases k with
  | zero =>
    have : d = [] := List.eq_nil_of_length_eq_zero (by simpa using hk)
    subst this; simp [Spec.Rlp.Rb]
  | succ k =>
    unfold Spec.Rlp.Rb
    split
    · split <;> simp
    · split
      · simp; omega
      · have := minBE_length_le hk
        simp; omega

theorem Rb_length_le_short (d : Bytes) (h : d.length < 56) : (Spec.Rlp.Rb d).length ≤ 1 + d.length := by
  unfold Spec.Rlp.Rb
  split
  · split <;> simp
  · rw [if_pos h]; simp; omega

theorem Rl_length_le (s : Bytes) (k m : Nat) (hm : s.length ≤ m) (hk : m < 256 ^ k) :
    (Spec.Rlp.Rl s).length ≤ 1 + k + m := by
  unfold Spec.Rlp.Rl
  split
  · simp; omega
  · have := minBE_length_le (w := k) (v := s.length) (by omega)
    simp; omega

theorem Rl_length_le_short (s : Bytes) (m : Nat) (hm : s.length ≤ m) (h : m < 56) :
    (Spec.Rlp.Rl s).length ≤ 1 + m := by
  unfold Spec.Rlp.Rl
  rw [if_pos (by omega)]; simp; omega

/-- canonical re-encoding of a decoded string is never longer than what was consumed -/
theorem header_leaf_canon {bs : Bytes} {it : Item} {n : Nat} (h : header bs = .ok (.leaf it n)) :
    ∃ d, it = .str d ∧ (Spec.Rlp.Rb d).length ≤ n ∧ d.length < 2 ^ 31 := by
  cases bs with
  | nil => simp [header] at h
  | cons b t =>
    unfold header at h
    simp only [] at h
    split at h
    · rename_i h0
      injection h with h; injection h with h1 h2; subst h1 h2
      rw [decCase0_iff] at h0
      refine ⟨[b], rfl, ?_, by simp⟩
      simp [Spec.Rlp.Rb, h0]
    split at h
    · injection h with h; injection h with h1 h2; subst h1 h2
      exact ⟨[], rfl, by simp [Spec.Rlp.Rb], by simp⟩
    split at h
    · rename_i h2
      rw [decCase2_iff] at h2
      split at h
      · cases h
      · rename_i hc
        rw [slice?_ne_panic (by omega) (by simp at *; omega)] at h
        simp only [Outcome.bind] at h
        injection h with h; injection h with h1 h2'; subst h1 h2'
        have hlen : (List.take (1 + (b.toNat + 256 - shortString) % 256 - 1) (List.drop 1 (b :: t))).length
            = (b.toNat + 256 - shortString) % 256 := by
          simp at *; omega
        refine ⟨_, rfl, ?_, ?_⟩
        · have := Rb_length_le_short _ (by rw [hlen]; simp [shortString]; omega)
          rw [hlen] at this; exact this
        · rw [hlen]; simp [shortString]; omega
    split at h
    · cases he : extractLongLen false b.toNat (b :: t) with
      | ok r =>
        obtain ⟨dl, pos⟩ := r
        have hb := extractLongLenAux_ok (by simp) he
        rw [he] at h
        simp only [Outcome.bind] at h
        rw [slice?_ne_panic (by omega) (by omega)] at h
        simp only [] at h
        injection h with h; injection h with h1 h2; subst h1 h2
        have hlt := extractLongLenAux_lt (by simp) he
        obtain ⟨hpos, hfit, hmax, hdl⟩ := hb
        have hlen : (List.take (pos + dl - pos) (List.drop pos (b :: t))).length = dl := by
          simp only [List.length_take, List.length_drop]; omega
        refine ⟨_, rfl, ?_, ?_⟩
        · have := Rb_length_le _ _ (by rw [hlen]; exact hlt)
          rw [hlen] at this
          omega
        · rw [hlen]; simp [maxInt32] at hmax; omega
      | err => rw [he] at h; simp [Outcome.bind] at h
      | panic => rw [he] at h; simp [Outcome.bind] at h
    split at h
    · split at h
      · cases h
      · rename_i hc
        rw [slice?_ne_panic (by omega) (by simp at *; omega)] at h
        simp [Outcome.bind] at h
    · rename_i h0 h1 h2 h3 h4
      rw [if_pos (decCase5_of_not h0 h1 h2 h3 h4)] at h
      cases he : extractLongLen true b.toNat (b :: t) with
      | ok r =>
        obtain ⟨dl, pos⟩ := r
        have hb := extractLongLen_ok (by simp) he
        rw [he] at h
        simp only [Outcome.bind] at h
        rw [slice?_ne_panic (by omega) (by omega)] at h
        simp at h
      | err => rw [he] at h; simp [Outcome.bind] at h
      | panic => rw [he] at h; simp [Outcome.bind] at h


/-- canonical re-encoding of a decoded list is never longer than what was consumed, provided its
    re-encoded payload `s` is no longer than the payload that was read -/
theorem header_sub_canon {bs p : Bytes} {n : Nat} (h : header bs = .ok (.sub p n)) (s : Bytes)
    (hs : s.length ≤ p.length) : (Spec.Rlp.Rl s).length ≤ n ∧ p.length < 2 ^ 31 := by
  cases bs with
  | nil => simp [header] at h
  | cons b t =>
    unfold header at h
    simp only [] at h
    split at h
    · simp at h
    split at h
    · simp at h
    split at h
    · split at h
      · cases h
      · rename_i hc
        rw [slice?_ne_panic (by omega) (by simp at *; omega)] at h
        simp [Outcome.bind] at h
    split at h
    · cases he : extractLongLen false b.toNat (b :: t) with
      | ok r =>
        obtain ⟨dl, pos⟩ := r
        have hb := extractLongLen_ok (by simp) he
        rw [he] at h
        simp only [Outcome.bind] at h
        rw [slice?_ne_panic (by omega) (by omega)] at h
        simp at h
      | err => rw [he] at h; simp [Outcome.bind] at h
      | panic => rw [he] at h; simp [Outcome.bind] at h
    split at h
    · rename_i h4
      rw [decCase4_iff] at h4
      split at h
      · cases h
      · rename_i hc
        rw [slice?_ne_panic (by omega) (by simp at *; omega)] at h
        simp only [Outcome.bind] at h
        injection h with h; injection h with h1 h2; subst h1 h2
        have hlen : (List.take (1 + (b.toNat + 256 - shortList) % 256 - 1) (List.drop 1 (b :: t))).length
            = (b.toNat + 256 - shortList) % 256 := by
          simp only [List.length_take, List.length_drop]; simp at *; omega
        rw [hlen] at hs ⊢
        refine ⟨Rl_length_le_short s _ hs (by simp [shortList]; omega), by simp [shortList]; omega⟩
    · rename_i h0 h1 h2 h3 h4
      rw [if_pos (decCase5_of_not h0 h1 h2 h3 h4)] at h
      cases he : extractLongLen true b.toNat (b :: t) with
      | ok r =>
        obtain ⟨dl, pos⟩ := r
        have hb := extractLongLenAux_ok (by simp) he
        have hlt := extractLongLenAux_lt (by simp) he
        rw [he] at h
        simp only [Outcome.bind] at h
        rw [slice?_ne_panic (by omega) (by omega)] at h
        simp only [] at h
        injection h with h; injection h with h1' h2'; subst h1' h2'
        obtain ⟨hpos, hfit, hmax, hdl⟩ := hb
        have hlen : (List.take (pos + dl - pos) (List.drop pos (b :: t))).length = dl := by
          simp only [List.length_take, List.length_drop]; omega
        rw [hlen] at hs ⊢
        have := Rl_length_le s _ dl hs hlt
        refine ⟨by omega, by simp [maxInt32] at hmax; omega⟩
      | err => rw [he] at h; simp [Outcome.bind] at h
      | panic => rw [he] at h; simp [Outcome.bind] at h

end FFS.Model.Rlp
