/-
  FFS.Lemmas.Eip712Fuel — the six mutually recursive encoders of FFS.Model.Eip712 are monotone in their fuel: once a
  result is not `.panic` (= out of fuel), more fuel gives the same result. So "the digest of a document" does not depend
  on the amount of fuel the driver happens to pass, as long as it suffices (`docNeed`, Props.C14).
-/
import FFS.Model.Eip712
namespace FFS.Lemmas.Eip712Fuel
open FFS FFS.Model.Abi FFS.Model.Eip712

theorem ite_congr_panic {α : Type} {c : Prop} [Decidable c] (x y : Outcome α) (hxy : y ≠ .panic → x = y)
    (h : (if c then Outcome.err else y) ≠ .panic) : (if c then Outcome.err else x) = (if c then Outcome.err else y) := by
  by_cases hc : c
  · simp [hc]
  · simp only [hc, if_false] at h ⊢
    exact hxy h

theorem encoders_mono (ts : TypeSet) : ∀ f : Nat,
    (∀ tn v, encodeElement f tn v ts ≠ .panic → encodeElement (f + 1) tn v ts = encodeElement f tn v ts) ∧
    (∀ tn v, hashStruct f tn v ts ≠ .panic → hashStruct (f + 1) tn v ts = hashStruct f tn v ts) ∧
    (∀ tn v, Model.Eip712.encodeData f tn v ts ≠ .panic →
      Model.Eip712.encodeData (f + 1) tn v ts = Model.Eip712.encodeData f tn v ts) ∧
    (∀ ms ks vs, encodeMembers f ms ks vs ts ≠ .panic → encodeMembers (f + 1) ms ks vs ts = encodeMembers f ms ks vs ts) ∧
    (∀ tn v, hashArray f tn ts v ≠ .panic → hashArray (f + 1) tn ts v = hashArray f tn ts v) ∧
    (∀ t xs, hashElems f t xs ts ≠ .panic → hashElems (f + 1) t xs ts = hashElems f t xs ts) := by
  intro f
  induction f with
  | zero =>
    refine ⟨?_, ?_, ?_, ?_, ?_, ?_⟩ <;> intros <;> rename_i h <;>
      simp [encodeElement, hashStruct, Model.Eip712.encodeData, encodeMembers, hashArray, hashElems] at h
  | succ f ih =>
    obtain ⟨iE, iS, iD, iM, iA, iH⟩ := ih
    refine ⟨?_, ?_, ?_, ?_, ?_, ?_⟩
    · intro tn v h
      rw [encodeElement] at h
      rw [encodeElement, encodeElement]
      split
      · rename_i harr
        simp only [harr, if_true] at h
        rw [iA tn v h]
      · rename_i harr
        simp only [harr, if_false] at h
        split
        · rename_i hst
          simp only [hst, if_true] at h
          rw [iS tn v h]
        · rfl
    · intro tn v h
      rw [hashStruct] at h
      rw [hashStruct, hashStruct]
      have hd : Model.Eip712.encodeData f tn v ts ≠ .panic := by
        intro e; rw [e] at h; exact h rfl
      rw [iD tn v hd]
    · intro tn v h
      rw [Model.Eip712.encodeData] at h
      rw [Model.Eip712.encodeData, Model.Eip712.encodeData]
      cases he : encodeType tn ts with
      | err => rfl
      | panic => rfl
      | ok r =>
        obtain ⟨members, enc⟩ := r
        rw [he] at h
        simp only [] at h ⊢
        cases v with
        | obj ks vs =>
          simp only [] at h ⊢
          have hm : encodeMembers f members ks vs ts ≠ .panic := by
            intro e; rw [e] at h; exact h rfl
          rw [iM members ks vs hm]
        | _ => rfl
    · intro ms ks vs h
      cases ms with
      | nil => simp [encodeMembers]
      | cons m ms =>
        rw [encodeMembers] at h
        rw [encodeMembers, encodeMembers]
        have h1 : encodeElement f m.type ((lookupKey ks vs m.name).getD .null) ts ≠ .panic := by
          intro e; rw [e] at h; exact h rfl
        rw [iE _ _ h1]
        cases hx : encodeElement f m.type ((lookupKey ks vs m.name).getD .null) ts with
        | err => rfl
        | panic => exact absurd hx h1
        | ok b =>
          rw [hx] at h
          simp only [] at h ⊢
          have h2 : encodeMembers f ms ks vs ts ≠ .panic := by
            intro e; rw [e] at h; exact h rfl
          rw [iM ms ks vs h2]
    · intro tn v h
      rw [hashArray] at h
      rw [hashArray, hashArray]
      simp only [] at h ⊢
      cases hl : lastOpen tn.toList with
      | none => rfl
      | some openPos =>
        rw [hl] at h
        simp only [] at h ⊢
        split
        · rfl
        · rename_i hc
          rw [if_neg hc] at h
          cases v with
          | arr va =>
            simp only [] at h ⊢
            refine ite_congr_panic _ _ (fun hy => ?_) h
            have h2 : hashElems f (String.ofList (tn.toList.take openPos)) va ts ≠ .panic := by
              intro e; rw [e] at hy; exact hy rfl
            rw [iH _ va h2]
          | _ => rfl
    · intro t xs h
      cases xs with
      | nil => simp [hashElems]
      | cons x xs =>
        rw [hashElems] at h
        rw [hashElems, hashElems]
        have h1 : encodeElement f t x ts ≠ .panic := by
          intro e; rw [e] at h; exact h rfl
        rw [iE _ _ h1]
        cases hx : encodeElement f t x ts with
        | err => rfl
        | panic => exact absurd hx h1
        | ok b =>
          rw [hx] at h
          simp only [] at h ⊢
          have h2 : hashElems f t xs ts ≠ .panic := by
            intro e; rw [e] at h; exact h rfl
          rw [iH t xs h2]

end FFS.Lemmas.Eip712Fuel
