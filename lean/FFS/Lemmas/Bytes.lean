/- Helper lemmas on big-endian byte strings (core-only). -/
import FFS.Util.Basic
namespace FFS

@[simp] theorem toBE_length (w v : Nat) : (toBE w v).length = w := by
  induction w generalizing v with
  | zero => simp [toBE]
  | succ w ih => simp [toBE, ih]

theorem fromBE_append_single (bs : Bytes) (b : UInt8) :
    fromBE (bs ++ [b]) = fromBE bs * 256 + b.toNat := by
  simp [fromBE, List.foldl_append]

theorem fromBE_nil : fromBE [] = 0 := rfl

theorem minBE_zero : minBE 0 = [] := by
  rw [minBE]; simp

theorem minBE_pos {v : Nat} (h : v ≠ 0) :
    minBE v = minBE (v / 256) ++ [UInt8.ofNat (v % 256)] := by
  rw [minBE]; simp [h]

theorem fromBE_minBE (v : Nat) : fromBE (minBE v) = v := by
  induction v using Nat.strongRecOn with
  | _ v ih =>
    by_cases h : v = 0
    · subst h; simp [minBE_zero, fromBE_nil]
    · rw [minBE_pos h, fromBE_append_single, ih (v / 256) (by omega)]
      simp [UInt8.toNat_ofNat']
      omega

theorem fromBE_toBE (w v : Nat) : fromBE (toBE w v) = v % 256 ^ w := by
  induction w generalizing v with
  | zero => simp [toBE, fromBE_nil, Nat.mod_one]
  | succ w ih =>
    simp only [toBE]
    rw [fromBE_append_single, ih]
    simp [UInt8.toNat_ofNat']
    rw [Nat.pow_succ, Nat.mul_comm (256 ^ w) 256, Nat.mod_mul]
    omega

theorem minBE_length_le {w v : Nat} (h : v < 256 ^ w) : (minBE v).length ≤ w := by
  induction w generalizing v with
  | zero =>
    have : v = 0 := by simpa using h
    subst this; simp [minBE_zero]
  | succ w ih =>
    by_cases hv : v = 0
    · subst hv; simp [minBE_zero]
    · rw [minBE_pos hv]
      have : v / 256 < 256 ^ w := by
        rw [Nat.pow_succ] at h
        exact Nat.div_lt_of_lt_mul (by rw [Nat.mul_comm]; exact h)
      have := ih this
      simp; omega

theorem minBE_length_pos {v : Nat} (h : v ≠ 0) : 0 < (minBE v).length := by
  rw [minBE_pos h]; simp

/-- the first byte of a minimal representation is non-zero -/
theorem minBE_head_ne_zero (v : Nat) : ∀ b t, minBE v = b :: t → b ≠ 0 := by
  induction v using Nat.strongRecOn with
  | _ v ih =>
    intro b t hbt
    by_cases h : v = 0
    · subst h; simp [minBE_zero] at hbt
    · rw [minBE_pos h] at hbt
      by_cases h2 : v / 256 = 0
      · rw [h2, minBE_zero] at hbt
        simp at hbt
        have hlt : v < 256 := by omega
        intro hb
        rw [← hbt.1] at hb
        have : (UInt8.ofNat (v % 256)).toNat = 0 := by rw [hb]; rfl
        simp [UInt8.toNat_ofNat'] at this
        omega
      · cases hm : minBE (v / 256) with
        | nil =>
          have := minBE_length_pos h2
          simp [hm] at this
        | cons b' t' =>
          rw [hm] at hbt
          simp at hbt
          have := ih (v / 256) (by omega) b' t' hm
          rw [hbt.1] at this
          exact this

theorem toBE_zero (w : Nat) : toBE w 0 = zeros w := by
  induction w with
  | zero => simp [toBE, zeros]
  | succ w ih =>
    simp only [toBE, Nat.zero_div, ih, zeros]
    rw [List.replicate_succ']
    rfl

theorem toBE_eq_zeros_minBE {w v : Nat} (h : v < 256 ^ w) :
    toBE w v = zeros (w - (minBE v).length) ++ minBE v := by
  induction w generalizing v with
  | zero =>
    have : v = 0 := by simpa using h
    subst this; simp [toBE, minBE_zero, zeros]
  | succ w ih =>
    by_cases hv : v = 0
    · subst hv
      rw [toBE_zero]; simp [minBE_zero]
    · have hd : v / 256 < 256 ^ w := by
        rw [Nat.pow_succ] at h
        exact Nat.div_lt_of_lt_mul (by rw [Nat.mul_comm]; exact h)
      simp only [toBE]
      rw [ih hd, minBE_pos hv]
      have hl := minBE_length_le hd
      simp only [List.length_append, List.length_singleton, List.append_assoc]
      have : w + 1 - ((minBE (v / 256)).length + 1) = w - (minBE (v / 256)).length := by omega
      rw [this]

theorem dropWhile_zeros_append (k : Nat) (l : Bytes) (hl : ∀ b t, l = b :: t → b ≠ 0) :
    (zeros k ++ l).dropWhile (· == 0) = l := by
  induction k with
  | zero =>
    simp only [zeros, List.replicate_zero, List.nil_append]
    cases l with
    | nil => rfl
    | cons b t =>
      have := hl b t rfl
      simp [List.dropWhile_cons, this]
  | succ k ih =>
    simp only [zeros, List.replicate_succ, List.cons_append, List.dropWhile_cons] at *
    simpa using ih

/-- Go's "eight bytes then strip leading zeros" equals the minimal big-endian form. -/
theorem dropWhile_toBE8 {v : Nat} (h : v < 256 ^ 8) :
    (toBE 8 v).dropWhile (· == 0) = minBE v := by
  rw [toBE_eq_zeros_minBE h]
  exact dropWhile_zeros_append _ _ (minBE_head_ne_zero v)

theorem minBE_length_ge {w v : Nat} (h : 256 ^ w ≤ v) : w < (minBE v).length := by
  induction w generalizing v with
  | zero =>
    have : v ≠ 0 := by simp at h; omega
    exact minBE_length_pos this
  | succ w ih =>
    have hv : v ≠ 0 := by
      have : 0 < 256 ^ (w+1) := Nat.pow_pos (by decide)
      omega
    rw [minBE_pos hv]
    have : 256 ^ w ≤ v / 256 := by
      rw [Nat.pow_succ] at h
      rw [Nat.le_div_iff_mul_le (by decide)]
      exact h
    have := ih this
    simp; omega

end FFS

namespace FFS

theorem rev_ind {α : Type} {P : List α → Prop} (hnil : P [])
    (hsnoc : ∀ l a, P l → P (l ++ [a])) : ∀ l, P l := by
  intro l
  rw [← List.reverse_reverse l]
  induction l.reverse with
  | nil => exact hnil
  | cons a t ih => rw [List.reverse_cons]; exact hsnoc _ _ ih

theorem fromBE_lt (bs : Bytes) : fromBE bs < 256 ^ bs.length := by
  induction bs using rev_ind with
  | hnil => simp [fromBE_nil]
  | hsnoc bs b ih =>
    rw [fromBE_append_single]
    have hb := b.toNat_lt
    simp only [List.length_append, List.length_singleton, Nat.pow_succ]
    omega

/-- a byte string without a leading zero is the minimal representation of its value -/
theorem minBE_fromBE_canon (bs : Bytes) (h : ∀ b t, bs = b :: t → b ≠ 0) : minBE (fromBE bs) = bs := by
  induction bs using rev_ind with
  | hnil => simp [fromBE_nil, minBE_zero]
  | hsnoc bs b ih =>
    rw [fromBE_append_single]
    have hb := b.toNat_lt
    have hne : fromBE bs * 256 + b.toNat ≠ 0 := by
      cases bs with
      | nil =>
        simp only [fromBE_nil, Nat.zero_mul, Nat.zero_add]
        have := h b [] rfl
        intro h0
        apply this
        exact UInt8.toNat_inj.mp (by simpa using h0)
      | cons c t =>
        have hc := h c (t ++ [b]) rfl
        have : fromBE (c :: t) ≠ 0 := by
          intro h0
          have hih := ih (fun b' t' e => by
            have := h b' (t' ++ [b]) (by rw [e]; rfl)
            exact this)
          rw [h0, minBE_zero] at hih
          cases hih
        omega
    rw [minBE_pos hne]
    have h1 : (fromBE bs * 256 + b.toNat) / 256 = fromBE bs := by omega
    have h2 : (fromBE bs * 256 + b.toNat) % 256 = b.toNat := by omega
    rw [h1, h2, UInt8.ofNat_toNat]
    congr 1
    apply ih
    intro b' t' e
    exact h b' (t' ++ [b]) (by rw [e]; rfl)

end FFS
