/-
  FFS.Lemmas.Eip712Closure — helper lemmas about the dependency closure `addNestedTypes` of FFS.Model.Eip712:
  * the fuel the model gives it (`allTypes.length + 2`) is sufficient: from that amount on, more fuel never changes
    the result (`stable_add`) — the Go recursion has no fuel, so this removes a modelling artefact;
  * the closure, `encodeType` and all six mutually recursive encoders do not depend on a definition whose name is
    not (a prefix of) any name the walk can look up (`encoders_unref`).
  Used by Props.C04 (`unreferenced_irrelevant`).
-/
import FFS.Model.Eip712
namespace FFS.Lemmas.Eip712Closure
open FFS FFS.Model.Abi FFS.Model.Eip712

/-- the "already visited" test of `addNestedTypes` -/
def visited (vis : TypeSet) (k : String) : Bool :=
  match tsLookup vis k with
  | some (some _) => true
  | _ => false

/-- the fold `addNestedTypes` runs over the members of a definition -/
def foldF (f : Nat) (all : TypeSet) : TypeSet → Option Member → TypeSet :=
  fun acc m => match m with
    | none => acc
    | some mem => addNestedTypes f mem.type all acc

/-! ### one step of `addNestedTypes`, case by case -/

theorem ant_none (f : Nat) (tn : String) (all vis : TypeSet) (h : tsLookup all (baseName tn) = none) :
    addNestedTypes (f + 1) tn all vis = vis := by
  simp only [addNestedTypes, h]

theorem ant_vis (f : Nat) (tn : String) (all vis : TypeSet) (t : TypeDef) (h : tsLookup all (baseName tn) = some t)
    (hv : visited vis (baseName tn) = true) : addNestedTypes (f + 1) tn all vis = vis := by
  simp only [addNestedTypes, h]
  unfold visited at hv
  cases hl : tsLookup vis (baseName tn) with
  | none => rw [hl] at hv; simp at hv
  | some o =>
    cases o with
    | none => rw [hl] at hv; simp at hv
    | some _ => simp

theorem ant_nil (f : Nat) (tn : String) (all vis : TypeSet) (h : tsLookup all (baseName tn) = some none)
    (hv : visited vis (baseName tn) = false) :
    addNestedTypes (f + 1) tn all vis = tsInsert vis (baseName tn) none := by
  simp only [addNestedTypes, h]
  unfold visited at hv
  cases hl : tsLookup vis (baseName tn) with
  | none => simp
  | some o =>
    cases o with
    | none => simp
    | some _ => rw [hl] at hv; simp at hv

theorem foldF_eq (f : Nat) (all : TypeSet) :
    (fun (acc : TypeSet) (m : Option Member) => match m with
      | none => if Gen.Eip712Facts.nilMemberGuard then acc else acc
      | some mem => addNestedTypes f mem.type all acc) = foldF f all := by
  funext acc m
  cases m <;> simp [foldF]

theorem ant_some (f : Nat) (tn : String) (all vis : TypeSet) (ms : List (Option Member))
    (h : tsLookup all (baseName tn) = some (some ms)) (hv : visited vis (baseName tn) = false) :
    addNestedTypes (f + 1) tn all vis = ms.foldl (foldF f all) (tsInsert vis (baseName tn) (some ms)) := by
  simp only [addNestedTypes, h]
  unfold visited at hv
  cases hl : tsLookup vis (baseName tn) with
  | none => simp; first | rfl | (congr 1; funext acc m; cases m <;> rfl)
  | some o =>
    cases o with
    | none => simp; first | rfl | (congr 1; funext acc m; cases m <;> rfl)
    | some _ => rw [hl] at hv; simp at hv

/-! ### lookups after an insertion -/

theorem tsLookup_insert_self (vis : TypeSet) (n : String) (t : TypeDef) : tsLookup (tsInsert vis n t) n = some t := by
  simp [tsLookup, tsInsert]

theorem tsLookup_insert_other (vis : TypeSet) (n k : String) (t : TypeDef) (hne : k ≠ n) :
    tsLookup (tsInsert vis n t) k = tsLookup vis k := by
  unfold tsLookup tsInsert
  have h1 : ((n, t).1 == k) = false := by simpa using (fun e => hne e.symm)
  have hfun : (fun a : String × TypeDef => decide ((a.1 != n) = true ∧ (a.1 == k) = true)) = (fun a => a.1 == k) := by
    funext a
    by_cases hak : a.1 = k
    · simp [hak, hne]
    · simp [hak]
  rw [List.find?_cons, h1, List.find?_filter]
  simp only [hfun]

theorem visited_insert_self (vis : TypeSet) (n : String) (ms : List (Option Member)) :
    visited (tsInsert vis n (some ms)) n = true := by
  simp [visited, tsLookup_insert_self]

theorem visited_insert_other (vis : TypeSet) (n k : String) (t : TypeDef) (hne : k ≠ n) :
    visited (tsInsert vis n t) k = visited vis k := by
  simp [visited, tsLookup_insert_other vis n k t hne]

/-- an insertion made by `addNestedTypes` (the name was not yet visited) keeps every visited name visited -/
theorem visited_insert_mono (vis : TypeSet) (n : String) (t : TypeDef) (hv : visited vis n = false) (k : String)
    (hk : visited vis k = true) : visited (tsInsert vis n t) k = true := by
  by_cases hkn : k = n
  · subst hkn; rw [hv] at hk; cases hk
  · rw [visited_insert_other vis n k t hkn]; exact hk

/-! ### the closure only grows -/

theorem foldl_mono (all : TypeSet) (f : Nat)
    (ih : ∀ (tn : String) (vis : TypeSet) (k : String), visited vis k = true → visited (addNestedTypes f tn all vis) k = true) :
    ∀ (ms : List (Option Member)) (acc : TypeSet) (k : String), visited acc k = true →
      visited (ms.foldl (foldF f all) acc) k = true := by
  intro ms
  induction ms with
  | nil => intro acc k hk; simpa using hk
  | cons m ms ihm =>
    intro acc k hk
    rw [List.foldl_cons]
    apply ihm
    cases m with
    | none => simpa [foldF] using hk
    | some mem => simp only [foldF]; exact ih mem.type acc k hk

theorem visited_mono (all : TypeSet) : ∀ (f : Nat) (tn : String) (vis : TypeSet) (k : String),
    visited vis k = true → visited (addNestedTypes f tn all vis) k = true := by
  intro f
  induction f with
  | zero => intro tn vis k hk; simpa [addNestedTypes] using hk
  | succ f ih =>
    intro tn vis k hk
    cases hl : tsLookup all (baseName tn) with
    | none => rw [ant_none f tn all vis hl]; exact hk
    | some t =>
      cases hv : visited vis (baseName tn) with
      | true => rw [ant_vis f tn all vis t hl hv]; exact hk
      | false =>
        cases t with
        | none => rw [ant_nil f tn all vis hl hv]; exact visited_insert_mono vis _ _ hv k hk
        | some ms =>
          rw [ant_some f tn all vis ms hl hv]
          exact foldl_mono all f ih ms _ k (visited_insert_mono vis _ _ hv k hk)

/-! ### the measure: definitions not yet visited -/

def unv (all vis : TypeSet) : Nat := (all.filter (fun e => !visited vis e.1)).length

theorem filter_len_mono {α : Type} (p q : α → Bool) (h : ∀ a, p a = true → q a = true) :
    ∀ l : List α, (l.filter p).length ≤ (l.filter q).length
  | [] => by simp
  | a :: l => by
    have ih := filter_len_mono p q h l
    simp only [List.filter_cons]
    cases hp : p a with
    | true => rw [h a hp]; simp; omega
    | false =>
      cases hq : q a with
      | true => simp; omega
      | false => simpa using ih

theorem filter_len_lt {α : Type} (p q : α → Bool) (h : ∀ a, p a = true → q a = true) :
    ∀ l : List α, (∃ x ∈ l, q x = true ∧ p x = false) → (l.filter p).length < (l.filter q).length
  | [], hx => by obtain ⟨x, hx, _⟩ := hx; cases hx
  | a :: l, hx => by
    have hle := filter_len_mono p q h l
    simp only [List.filter_cons]
    cases hp : p a with
    | true =>
      rw [h a hp]
      obtain ⟨x, hxm, hqx, hpx⟩ := hx
      rcases List.mem_cons.mp hxm with rfl | hm
      · rw [hp] at hpx; cases hpx
      · have := filter_len_lt p q h l ⟨x, hm, hqx, hpx⟩
        simp; omega
    | false =>
      cases hq : q a with
      | true => simp; omega
      | false =>
        obtain ⟨x, hxm, hqx, hpx⟩ := hx
        rcases List.mem_cons.mp hxm with rfl | hm
        · rw [hq] at hqx; cases hqx
        · simpa using filter_len_lt p q h l ⟨x, hm, hqx, hpx⟩

theorem unv_mono (all vis vis' : TypeSet) (h : ∀ k, visited vis k = true → visited vis' k = true) :
    unv all vis' ≤ unv all vis := by
  unfold unv
  apply filter_len_mono
  intro a ha
  cases hv : visited vis a.1 with
  | true => rw [h a.1 hv] at ha; simp at ha
  | false => rfl

theorem unv_lt (all vis vis' : TypeSet) (h : ∀ k, visited vis k = true → visited vis' k = true) (n : String)
    (t : TypeDef) (hl : tsLookup all n = some t) (hv : visited vis n = false) (hv' : visited vis' n = true) :
    unv all vis' < unv all vis := by
  unfold unv
  apply filter_len_lt
  · intro a ha
    cases hva : visited vis a.1 with
    | true => rw [h a.1 hva] at ha; simp at ha
    | false => rfl
  · unfold tsLookup at hl
    cases hf : all.find? (·.1 == n) with
    | none => rw [hf] at hl; cases hl
    | some e =>
      have hmem : e ∈ all := List.mem_of_find?_eq_some hf
      have hen : e.1 = n := by simpa using List.find?_some hf
      exact ⟨e, hmem, by rw [hen, hv]; rfl, by rw [hen, hv']; rfl⟩

theorem unv_le_length (all vis : TypeSet) : unv all vis ≤ all.length := List.length_filter_le _ _

/-! ### fuel sufficiency -/

theorem foldl_stable (all : TypeSet) (g : Nat)
    (ih : ∀ (tn : String) (vis : TypeSet), unv all vis < g → addNestedTypes (g + 1) tn all vis = addNestedTypes g tn all vis) :
    ∀ (ms : List (Option Member)) (acc : TypeSet), unv all acc < g →
      ms.foldl (foldF (g + 1) all) acc = ms.foldl (foldF g all) acc := by
  intro ms
  induction ms with
  | nil => intro acc _; rfl
  | cons m ms ihm =>
    intro acc hacc
    rw [List.foldl_cons, List.foldl_cons]
    cases m with
    | none => simp only [foldF]; exact ihm acc hacc
    | some mem =>
      simp only [foldF]
      rw [ih mem.type acc hacc]
      apply ihm
      exact Nat.lt_of_le_of_lt (unv_mono all acc _ (fun k hk => visited_mono all g mem.type acc k hk)) hacc

/-- **Fuel sufficiency, one step**: with more fuel than definitions still unvisited, one more unit changes nothing. -/
theorem stable (all : TypeSet) : ∀ (f : Nat) (tn : String) (vis : TypeSet), unv all vis < f →
    addNestedTypes (f + 1) tn all vis = addNestedTypes f tn all vis := by
  intro f
  induction f with
  | zero => intro tn vis h; omega
  | succ g ih =>
    intro tn vis h
    cases hl : tsLookup all (baseName tn) with
    | none => rw [ant_none _ tn all vis hl, ant_none _ tn all vis hl]
    | some t =>
      cases hv : visited vis (baseName tn) with
      | true => rw [ant_vis _ tn all vis t hl hv, ant_vis _ tn all vis t hl hv]
      | false =>
        cases t with
        | none => rw [ant_nil _ tn all vis hl hv, ant_nil _ tn all vis hl hv]
        | some ms =>
          rw [ant_some _ tn all vis ms hl hv, ant_some _ tn all vis ms hl hv]
          apply foldl_stable all g ih
          have := unv_lt all vis (tsInsert vis (baseName tn) (some ms)) (visited_insert_mono vis _ _ hv) (baseName tn)
            (some ms) hl hv (visited_insert_self vis _ ms)
          omega

theorem stable_add (all : TypeSet) (f : Nat) (tn : String) (vis : TypeSet) (h : unv all vis < f) :
    ∀ j, addNestedTypes (f + j) tn all vis = addNestedTypes f tn all vis
  | 0 => rfl
  | j + 1 => by
    rw [← Nat.add_assoc, stable all (f + j) tn vis (by omega)]
    exact stable_add all f tn vis h j

/-- the fuel `encodeType` supplies is sufficient: any larger amount computes the same closure -/
theorem closure_fuel (all : TypeSet) (tn : String) (j : Nat) :
    addNestedTypes (all.length + 2 + j) tn all [] = addNestedTypes (all.length + 2) tn all [] :=
  stable_add all _ tn [] (by have := unv_le_length all []; omega) j

/-! ### a definition nobody refers to -/

/-- `u` is not a prefix of `x`: then `x`, its base name and every array-trimmed form of `x` differ from `u` -/
def Good (u x : String) : Prop := ¬ (u.toList <+: x.toList)

instance (u x : String) : Decidable (Good u x) := by unfold Good; infer_instance

theorem good_ne {u x : String} (h : Good u x) : x ≠ u := by
  intro e; subst e; exact h List.prefix_rfl

theorem good_base {u x : String} (h : Good u x) : baseName x ≠ u := by
  intro e
  apply h
  rw [← e]
  simp only [baseName, String.toList_ofList]
  exact List.takeWhile_prefix _

theorem good_take {u x : String} (h : Good u x) (n : Nat) : Good u (String.ofList (x.toList.take n)) := by
  intro hp
  apply h
  simp only [String.toList_ofList] at hp
  exact hp.trans (List.take_prefix _ _)

/-- no member of any definition in `all` has a type that `u` is a prefix of -/
def Unref (u : String) (all : TypeSet) : Prop :=
  ∀ e ∈ all, ∀ raw, e.2 = some raw → ∀ mem, some mem ∈ raw → Good u mem.type

theorem lookup_mem (all : TypeSet) (n : String) (t : TypeDef) (h : tsLookup all n = some t) : ∃ e ∈ all, e.2 = t := by
  unfold tsLookup at h
  cases hf : all.find? (·.1 == n) with
  | none => rw [hf] at h; cases h
  | some e =>
    rw [hf] at h
    exact ⟨e, List.mem_of_find?_eq_some hf, by simpa using h⟩

theorem lookup_cons_ne (u : String) (d : TypeDef) (all : TypeSet) (n : String) (h : n ≠ u) :
    tsLookup ((u, d) :: all) n = tsLookup all n := by
  unfold tsLookup
  have : ((u, d).1 == n) = false := by simpa using (fun e => h e.symm)
  rw [List.find?_cons, this]

theorem foldl_unref (u : String) (d : TypeDef) (all : TypeSet) (f : Nat)
    (ih : ∀ (tn : String) (vis : TypeSet), baseName tn ≠ u →
      addNestedTypes f tn ((u, d) :: all) vis = addNestedTypes f tn all vis) :
    ∀ (ms : List (Option Member)), (∀ mem, some mem ∈ ms → Good u mem.type) → ∀ acc : TypeSet,
      ms.foldl (foldF f ((u, d) :: all)) acc = ms.foldl (foldF f all) acc := by
  intro ms
  induction ms with
  | nil => intro _ acc; rfl
  | cons m ms ihm =>
    intro hg acc
    rw [List.foldl_cons, List.foldl_cons]
    have hg' : ∀ mem, some mem ∈ ms → Good u mem.type := fun mem hm => hg mem (List.mem_cons_of_mem _ hm)
    cases m with
    | none => simp only [foldF]; exact ihm hg' acc
    | some mem =>
      simp only [foldF]
      rw [ih mem.type acc (good_base (hg mem (List.mem_cons_self)))]
      exact ihm hg' _

theorem addNested_unref (u : String) (d : TypeDef) (all : TypeSet) (hU : Unref u all) :
    ∀ (f : Nat) (tn : String) (vis : TypeSet), baseName tn ≠ u →
      addNestedTypes f tn ((u, d) :: all) vis = addNestedTypes f tn all vis := by
  intro f
  induction f with
  | zero => intro tn vis _; simp [addNestedTypes]
  | succ f ih =>
    intro tn vis hb
    have hlk := lookup_cons_ne u d all (baseName tn) hb
    cases hl : tsLookup all (baseName tn) with
    | none => rw [ant_none _ tn _ vis (hlk.trans hl), ant_none _ tn all vis hl]
    | some t =>
      cases hv : visited vis (baseName tn) with
      | true => rw [ant_vis _ tn _ vis t (hlk.trans hl) hv, ant_vis _ tn all vis t hl hv]
      | false =>
        cases t with
        | none => rw [ant_nil _ tn _ vis (hlk.trans hl) hv, ant_nil _ tn all vis hl hv]
        | some ms =>
          rw [ant_some _ tn _ vis ms (hlk.trans hl) hv, ant_some _ tn all vis ms hl hv]
          obtain ⟨e, he, het⟩ := lookup_mem all _ _ hl
          exact foldl_unref u d all f ih ms (fun mem hm => hU e he ms het mem hm) _

/-- `encodeType` does not see an unreferenced definition (this is where fuel sufficiency is needed: the larger type
    set gives the closure one more unit of fuel) -/
theorem encodeType_unref (u : String) (d : TypeDef) (all : TypeSet) (hU : Unref u all) (tn : String) (hg : Good u tn) :
    encodeType tn ((u, d) :: all) = encodeType tn all := by
  unfold encodeType
  rw [lookup_cons_ne u d all tn (good_ne hg), addNested_unref u d all hU _ tn [] (good_base hg)]
  have : ((u, d) :: all).length + 2 = all.length + 2 + 1 := by simp
  rw [this, closure_fuel all tn 1]

theorem encodeType_members (all : TypeSet) (tn : String) (ms : List Member) (enc : String)
    (h : encodeType tn all = .ok (ms, enc)) : ∃ raw, tsLookup all tn = some (some raw) ∧ ms = raw.filterMap id := by
  unfold encodeType at h
  cases hl : tsLookup all tn with
  | none => rw [hl] at h; cases h
  | some t =>
    cases t with
    | none => rw [hl] at h; cases h
    | some raw =>
      rw [hl] at h
      simp only [] at h
      split at h
      · split at h <;> cases h
      · injection h with h
        injection h with h1 h2
        exact ⟨raw, rfl, h1.symm⟩

/-- all six mutually recursive encoders at once: none of them sees the unreferenced definition -/
theorem encoders_unref (u : String) (d : TypeDef) (all : TypeSet) (hU : Unref u all) : ∀ fuel : Nat,
    (∀ tn v, Good u tn → encodeElement fuel tn v ((u, d) :: all) = encodeElement fuel tn v all) ∧
    (∀ tn v, Good u tn → hashStruct fuel tn v ((u, d) :: all) = hashStruct fuel tn v all) ∧
    (∀ tn v, Good u tn → Model.Eip712.encodeData fuel tn v ((u, d) :: all) = Model.Eip712.encodeData fuel tn v all) ∧
    (∀ ms ks vs, (∀ m ∈ ms, Good u m.type) → encodeMembers fuel ms ks vs ((u, d) :: all) = encodeMembers fuel ms ks vs all) ∧
    (∀ tn v, Good u tn → hashArray fuel tn ((u, d) :: all) v = hashArray fuel tn all v) ∧
    (∀ t xs, Good u t → hashElems fuel t xs ((u, d) :: all) = hashElems fuel t xs all) := by
  intro fuel
  induction fuel with
  | zero =>
    refine ⟨?_, ?_, ?_, ?_, ?_, ?_⟩ <;> intros <;>
      simp [encodeElement, hashStruct, Model.Eip712.encodeData, encodeMembers, hashArray, hashElems]
  | succ f ih =>
    obtain ⟨iE, iS, iD, iM, iA, iH⟩ := ih
    refine ⟨?_, ?_, ?_, ?_, ?_, ?_⟩
    · intro tn v hg
      rw [encodeElement, encodeElement, iA tn v hg, iS tn v hg, lookup_cons_ne u d all tn (good_ne hg)]
    · intro tn v hg
      rw [hashStruct, hashStruct, iD tn v hg]
    · intro tn v hg
      rw [Model.Eip712.encodeData, Model.Eip712.encodeData, encodeType_unref u d all hU tn hg]
      cases he : encodeType tn all with
      | err => rfl
      | panic => rfl
      | ok r =>
        obtain ⟨ms, enc⟩ := r
        obtain ⟨raw, hl, hms⟩ := encodeType_members all tn ms enc he
        obtain ⟨e, hmem, het⟩ := lookup_mem all _ _ hl
        have hgood : ∀ m ∈ ms, Good u m.type := by
          intro m hm
          rw [hms] at hm
          obtain ⟨o, ho, hoe⟩ := List.mem_filterMap.mp hm
          simp only [id] at hoe
          subst hoe
          exact hU e hmem raw het m ho
        simp only []
        cases v with
        | obj ks vs => simp only [iM ms ks vs hgood]
        | _ => rfl
    · intro ms ks vs hg
      cases ms with
      | nil => simp [encodeMembers]
      | cons m ms =>
        rw [encodeMembers, encodeMembers, iE _ _ (hg m (by simp)), iM ms ks vs (fun m' hm' => hg m' (by simp [hm']))]
    · intro tn v hg
      rw [hashArray, hashArray]
      simp only []
      cases lastOpen tn.toList with
      | none => rfl
      | some openPos =>
        simp only []
        split
        · rfl
        · cases v with
          | arr va => simp only [iH _ va (good_take hg openPos)]
          | _ => rfl
    · intro t xs hg
      cases xs with
      | nil => simp [hashElems]
      | cons x xs => rw [hashElems, hashElems, iE t x hg, iH t xs hg]

end FFS.Lemmas.Eip712Closure
