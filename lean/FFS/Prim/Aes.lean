/-
  FFS.Prim.Aes — executable reference AES-128 block encryption (FIPS 197) and CTR mode (SP 800-38A, 128-bit
  big-endian counter as in Go's cipher.NewCTR). Validated against Go's crypto/aes + crypto/cipher by the harness.
-/
import FFS.Util.Basic
namespace FFS.Prim

def xtime (b : UInt8) : UInt8 := (b <<< 1) ^^^ (if b &&& 0x80 != 0 then 0x1b else 0)

def gmul (a b : UInt8) : UInt8 := Id.run do
  let mut p : UInt8 := 0; let mut x := a; let mut y := b
  for _ in [0:8] do
    if y &&& 1 != 0 then p := p ^^^ x
    x := xtime x
    y := y >>> 1
  return p

/-- multiplicative inverse in GF(2^8) (0 ↦ 0), by exponentiation to 254 -/
def ginv (a : UInt8) : UInt8 := Id.run do
  let mut r : UInt8 := 1
  for _ in [0:254] do r := gmul r a
  return if a == 0 then 0 else r

def rotl8 (x : UInt8) (n : UInt8) : UInt8 := (x <<< n) ||| (x >>> (8 - n))

/-- the AES S-box, computed from its definition (inverse then affine map) -/
def sboxTable : Array UInt8 := (Array.range 256).map fun i =>
  let b := ginv (UInt8.ofNat i)
  b ^^^ rotl8 b 1 ^^^ rotl8 b 2 ^^^ rotl8 b 3 ^^^ rotl8 b 4 ^^^ 0x63

def sbox (b : UInt8) : UInt8 := sboxTable.getD b.toNat 0

/-- key expansion for AES-128: 11 round keys of 16 bytes -/
def expandKey128 (key : Array UInt8) : Array UInt8 := Id.run do
  let mut w := key
  let mut rcon : UInt8 := 1
  for i in [4:44] do
    let mut t0 := w.getD (4 * (i - 1)) 0; let mut t1 := w.getD (4 * (i - 1) + 1) 0
    let mut t2 := w.getD (4 * (i - 1) + 2) 0; let mut t3 := w.getD (4 * (i - 1) + 3) 0
    if i % 4 == 0 then
      let a := sbox t1 ^^^ rcon; let b := sbox t2; let c := sbox t3; let d := sbox t0
      t0 := a; t1 := b; t2 := c; t3 := d
      rcon := xtime rcon
    w := w.push (w.getD (4 * (i - 4)) 0 ^^^ t0) |>.push (w.getD (4 * (i - 4) + 1) 0 ^^^ t1)
          |>.push (w.getD (4 * (i - 4) + 2) 0 ^^^ t2) |>.push (w.getD (4 * (i - 4) + 3) 0 ^^^ t3)
  return w

def aesEncryptBlock (rk : Array UInt8) (inp : Array UInt8) : Array UInt8 := Id.run do
  let addRK (s : Array UInt8) (round : Nat) : Array UInt8 := (Array.range 16).map fun i => s.getD i 0 ^^^ rk.getD (16 * round + i) 0
  let subShift (s : Array UInt8) : Array UInt8 :=
    -- state is column-major: index = 4*col + row; ShiftRows moves row r left by r
    (Array.range 16).map fun i => let c := i / 4; let r := i % 4; sbox (s.getD (4 * ((c + r) % 4) + r) 0)
  let mixCols (s : Array UInt8) : Array UInt8 :=
    (Array.range 16).map fun i =>
      let c := i / 4; let r := i % 4
      let a (k : Nat) : UInt8 := s.getD (4 * c + (r + k) % 4) 0
      gmul 2 (a 0) ^^^ gmul 3 (a 1) ^^^ a 2 ^^^ a 3
  let mut s := addRK inp 0
  for round in [1:10] do
    s := addRK (mixCols (subShift s)) round
  return addRK (subShift s) 10

/-- increment a 16-byte big-endian counter -/
def incCounter (c : Array UInt8) : Array UInt8 := Id.run do
  let mut out := c
  let mut carry := true
  for k in [0:16] do
    let i := 15 - k
    if carry then
      let v := out.getD i 0 + 1
      out := out.set! i v
      carry := v == 0
  return out

/-- one keystream block: E_k(counter), 16 bytes (padded / cut to 16 by construction) -/
def ctrBlock (rk : Array UInt8) (ctr : Array UInt8) : Bytes :=
  ((aesEncryptBlock rk ctr).toList ++ List.replicate 16 0).take 16

/-- `n` keystream blocks starting at counter `ctr` -/
def keystream (rk : Array UInt8) : Array UInt8 → Nat → Bytes
  | _, 0 => []
  | ctr, n + 1 => ctrBlock rk ctr ++ keystream rk (incCounter ctr) n

def xorStream (a b : Bytes) : Bytes := List.zipWith (· ^^^ ·) a b

/-- AES-128-CTR: requires a 16-byte key and a 16-byte IV; data ⊕ keystream -/
def aes128Ctr (key iv data : Bytes) : Bytes :=
  xorStream data (keystream (expandKey128 key.toArray) iv.toArray ((data.length + 15) / 16))

theorem ctrBlock_length (rk : Array UInt8) (ctr : Array UInt8) : (ctrBlock rk ctr).length = 16 := by
  simp [ctrBlock]

theorem keystream_length (rk : Array UInt8) : ∀ (ctr : Array UInt8) (n : Nat), (keystream rk ctr n).length = 16 * n
  | _, 0 => by simp [keystream]
  | ctr, n + 1 => by simp [keystream, ctrBlock_length, keystream_length rk (incCounter ctr) n]; omega

theorem xorStream_length (a b : Bytes) (h : a.length ≤ b.length) : (xorStream a b).length = a.length := by
  simp [xorStream, List.length_zipWith]; omega

theorem xorStream_involutive : ∀ (a b : Bytes), a.length ≤ b.length → xorStream (xorStream a b) b = a
  | [], _, _ => by simp [xorStream]
  | x :: a, [], h => by simp at h
  | x :: a, y :: b, h => by
    have ih := xorStream_involutive a b (by simpa using h)
    simp only [xorStream, List.zipWith_cons_cons] at ih ⊢
    rw [ih]
    congr 1
    rw [UInt8.xor_assoc, UInt8.xor_self, UInt8.xor_zero]

/-- **CTR mode is an involution**: decrypting what was encrypted under the same key and IV returns the data. -/
theorem aes128Ctr_involutive (key iv data : Bytes) : aes128Ctr key iv (aes128Ctr key iv data) = data := by
  have hks : data.length ≤ (keystream (expandKey128 key.toArray) iv.toArray ((data.length + 15) / 16)).length := by
    rw [keystream_length]; omega
  have hlen : (aes128Ctr key iv data).length = data.length := xorStream_length _ _ hks
  unfold aes128Ctr at hlen ⊢
  rw [hlen]
  exact xorStream_involutive _ _ hks

end FFS.Prim
