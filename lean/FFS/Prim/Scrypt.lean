/-
  FFS.Prim.Scrypt — executable reference scrypt (RFC 7914): Salsa20/8 core, BlockMix, ROMix, scrypt.
  Validated against golang.org/x/crypto/scrypt by the harness.
-/
import FFS.Prim.Sha256
namespace FFS.Prim

@[inline] def rotl32 (x : UInt32) (n : UInt32) : UInt32 := (x <<< n) ||| (x >>> (32 - n))

/-- Salsa20/8 core on 16 little-endian words -/
def salsa208 (inp : Array UInt32) : Array UInt32 := Id.run do
  let mut x := inp
  let qr (x : Array UInt32) (a b c d : Nat) : Array UInt32 :=
    let x := x.set! b (x.getD b 0 ^^^ rotl32 (x.getD a 0 + x.getD d 0) 7)
    let x := x.set! c (x.getD c 0 ^^^ rotl32 (x.getD b 0 + x.getD a 0) 9)
    let x := x.set! d (x.getD d 0 ^^^ rotl32 (x.getD c 0 + x.getD b 0) 13)
    x.set! a (x.getD a 0 ^^^ rotl32 (x.getD d 0 + x.getD c 0) 18)
  for _ in [0:4] do
    x := qr x 0 4 8 12; x := qr x 5 9 13 1; x := qr x 10 14 2 6; x := qr x 15 3 7 11
    x := qr x 0 1 2 3; x := qr x 5 6 7 4; x := qr x 10 11 8 9; x := qr x 15 12 13 14
  let mut out : Array UInt32 := Array.mkEmpty 16
  for i in [0:16] do
    out := out.push (x.getD i 0 + inp.getD i 0)
  return out

/-- scryptBlockMix over 2r 64-byte blocks represented as 32r words -/
def blockMix (b : Array UInt32) (r : Nat) : Array UInt32 := Id.run do
  let mut x : Array UInt32 := b.extract ((2 * r - 1) * 16) (2 * r * 16)
  let mut y : Array UInt32 := Array.replicate (32 * r) 0
  for i in [0:2 * r] do
    let mut t : Array UInt32 := Array.mkEmpty 16
    for k in [0:16] do
      t := t.push (x.getD k 0 ^^^ b.getD (16 * i + k) 0)
    x := salsa208 t
    let dst := if i % 2 == 0 then (i / 2) * 16 else (r + i / 2) * 16
    for k in [0:16] do
      y := y.set! (dst + k) (x.getD k 0)
  return y

def integerify (b : Array UInt32) (r : Nat) : Nat :=
  let j := (2 * r - 1) * 16
  (b.getD j 0).toNat + (b.getD (j + 1) 0).toNat * 2 ^ 32

/-- scryptROMix -/
def roMix (b : Array UInt32) (r n : Nat) : Array UInt32 := Id.run do
  let mut x := b
  let mut v : Array (Array UInt32) := Array.mkEmpty n
  for _ in [0:n] do
    v := v.push x
    x := blockMix x r
  for _ in [0:n] do
    let j := integerify x r % n
    let vj := v.getD j #[]
    let mut t : Array UInt32 := Array.mkEmpty (32 * r)
    for k in [0:32 * r] do
      t := t.push (x.getD k 0 ^^^ vj.getD k 0)
    x := blockMix t r
  return x

def wordsOfBytesLE (bs : Bytes) : Array UInt32 := Id.run do
  let a := bs.toArray
  let mut out : Array UInt32 := Array.mkEmpty (a.size / 4)
  for i in [0:a.size / 4] do
    let g (k : Nat) : UInt32 := (a.getD (4 * i + k) 0).toUInt32
    out := out.push (g 0 ||| (g 1 <<< 8) ||| (g 2 <<< 16) ||| (g 3 <<< 24))
  return out

def bytesOfWordsLE (ws : Array UInt32) : Bytes :=
  ws.toList.flatMap fun (w : UInt32) => [w.toUInt8, (w >>> 8).toUInt8, (w >>> 16).toUInt8, (w >>> 24).toUInt8]

/-- scrypt(P, S, N, r, p, dkLen) for N a power of two > 1, r ≥ 1, p ≥ 1 -/
def scrypt (pw salt : Bytes) (n r p dkLen : Nat) : Bytes :=
  let b := pbkdf2Sha256 pw salt 1 (p * 128 * r)
  let mixed := (List.range p).flatMap fun i =>
    bytesOfWordsLE (roMix (wordsOfBytesLE ((b.drop (i * 128 * r)).take (128 * r))) r n)
  pbkdf2Sha256 pw mixed 1 dkLen

theorem scrypt_length (pw salt : Bytes) (n r p dkLen : Nat) : (scrypt pw salt n r p dkLen).length = dkLen := by
  simp [scrypt, pbkdf2Sha256_length]

end FFS.Prim
