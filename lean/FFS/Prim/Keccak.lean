/-
  FFS.Prim.Keccak — executable reference Keccak-256 (original Keccak padding 0x01, as used by Ethereum).
  Trusted as its own specification; validated against golang.org/x/crypto/sha3 by the harness
  (known-answer + random differential on every run that uses it). No theorem looks inside.
-/
import FFS.Util.Basic
namespace FFS.Prim

def keccakRC : Array UInt64 := #[
  0x0000000000000001, 0x0000000000008082, 0x800000000000808A, 0x8000000080008000,
  0x000000000000808B, 0x0000000080000001, 0x8000000080008081, 0x8000000000008009,
  0x000000000000008A, 0x0000000000000088, 0x0000000080008009, 0x000000008000000A,
  0x000000008000808B, 0x800000000000008B, 0x8000000000008089, 0x8000000000008003,
  0x8000000000008002, 0x8000000000000080, 0x000000000000800A, 0x800000008000000A,
  0x8000000080008081, 0x8000000000008080, 0x0000000080000001, 0x8000000080008008]

def keccakRot : Array UInt64 := #[
   0,  1, 62, 28, 27,
  36, 44,  6, 55, 20,
   3, 10, 43, 25, 39,
  41, 45, 15, 21,  8,
  18,  2, 61, 56, 14]

@[inline] def rotl64 (x : UInt64) (n : UInt64) : UInt64 :=
  if n == 0 then x else (x <<< n) ||| (x >>> (64 - n))

/-- one round on a 25-lane state, index = x + 5*y -/
def keccakRound (a : Array UInt64) (rc : UInt64) : Array UInt64 := Id.run do
  let g (i : Nat) : UInt64 := a.getD i 0
  -- θ
  let c0 := g 0 ^^^ g 5 ^^^ g 10 ^^^ g 15 ^^^ g 20
  let c1 := g 1 ^^^ g 6 ^^^ g 11 ^^^ g 16 ^^^ g 21
  let c2 := g 2 ^^^ g 7 ^^^ g 12 ^^^ g 17 ^^^ g 22
  let c3 := g 3 ^^^ g 8 ^^^ g 13 ^^^ g 18 ^^^ g 23
  let c4 := g 4 ^^^ g 9 ^^^ g 14 ^^^ g 19 ^^^ g 24
  let d0 := c4 ^^^ rotl64 c1 1
  let d1 := c0 ^^^ rotl64 c2 1
  let d2 := c1 ^^^ rotl64 c3 1
  let d3 := c2 ^^^ rotl64 c4 1
  let d4 := c3 ^^^ rotl64 c0 1
  let d : Array UInt64 := #[d0, d1, d2, d3, d4]
  -- ρ and π: B[y, 2x+3y] = rot(A[x,y], r[x,y])
  let mut b : Array UInt64 := Array.replicate 25 0
  for y in [0:5] do
    for x in [0:5] do
      let i := x + 5 * y
      let v := rotl64 (g i ^^^ d.getD x 0) (keccakRot.getD i 0)
      let nx := y
      let ny := (2 * x + 3 * y) % 5
      b := b.set! (nx + 5 * ny) v
  -- χ
  let mut o : Array UInt64 := Array.replicate 25 0
  for y in [0:5] do
    for x in [0:5] do
      let i := x + 5 * y
      let v := b.getD i 0 ^^^ ((~~~ b.getD ((x + 1) % 5 + 5 * y) 0) &&& b.getD ((x + 2) % 5 + 5 * y) 0)
      o := o.set! i v
  -- ι
  o := o.set! 0 (o.getD 0 0 ^^^ rc)
  return o

def keccakF (a : Array UInt64) : Array UInt64 :=
  keccakRC.foldl keccakRound a

def le64 (bs : Array UInt8) (off : Nat) : UInt64 := Id.run do
  let mut v : UInt64 := 0
  for k in [0:8] do
    v := v ||| ((bs.getD (off + k) 0).toUInt64 <<< (8 * k).toUInt64)
  return v

/-- absorb one 136-byte block -/
def keccakAbsorb (st : Array UInt64) (blk : Array UInt8) : Array UInt64 := Id.run do
  let mut s := st
  for i in [0:17] do
    s := s.set! i (s.getD i 0 ^^^ le64 blk (8 * i))
  return keccakF s

def keccak256Arr (msg : Array UInt8) : Array UInt8 := Id.run do
  let rate := 136
  let mut st : Array UInt64 := Array.replicate 25 0
  let nFull := msg.size / rate
  for k in [0:nFull] do
    st := keccakAbsorb st (msg.extract (k * rate) ((k + 1) * rate))
  -- final block with padding
  let rem := msg.extract (nFull * rate) msg.size
  let mut last : Array UInt8 := rem ++ Array.replicate (rate - rem.size) 0
  last := last.set! rem.size (last.getD rem.size 0 ||| 0x01)
  last := last.set! (rate - 1) (last.getD (rate - 1) 0 ||| 0x80)
  st := keccakAbsorb st last
  let mut out : Array UInt8 := Array.mkEmpty 32
  for i in [0:4] do
    let lane := st.getD i 0
    for k in [0:8] do
      out := out.push (lane >>> (8 * k).toUInt64).toUInt8
  return out

/-- Keccak-256 of a byte string (32 bytes: padded / cut to 32 by construction, which changes nothing — the sponge
    squeezes exactly 32 bytes, see the known-answer tests — but makes the length a one-line lemma). -/
def keccak256 (msg : Bytes) : Bytes := ((keccak256Arr msg.toArray).toList ++ List.replicate 32 0).take 32

theorem keccak256_length (msg : Bytes) : (keccak256 msg).length = 32 := by
  simp [keccak256]

end FFS.Prim
