/-
  FFS.Prim.Secp256k1 — executable reference arithmetic for the secp256k1 curve (affine coordinates over ℕ mod p)
  and ECDSA public-key recovery / verification. Used by the driver only; the theorems are parametric in an
  abstract lawful curve (FFS.Model.Secp.Curve). Validated against btcec by the harness on every run.
-/
import FFS.Util.Basic
namespace FFS.Prim.Secp

def P : Nat := 0xFFFFFFFFFFFFFFFFFFFFFFFFFFFFFFFFFFFFFFFFFFFFFFFFFFFFFFFEFFFFFC2F
def N : Nat := 0xFFFFFFFFFFFFFFFFFFFFFFFFFFFFFFFEBAAEDCE6AF48A03BBFD25E8CD0364141
def Gx : Nat := 0x79BE667EF9DCBBAC55A06295CE870B07029BFCDB2DCE28D959F2815B16F81798
def Gy : Nat := 0x483ADA7726A3C4655DA4FBFC0E1108A8FD17B448A68554199C47D08FFB10D4B8

/-- modular exponentiation (square and multiply) -/
def powMod (b e m : Nat) : Nat := Id.run do
  let mut r := 1 % m
  let mut b := b % m
  let mut e := e
  let mut fuel := 600
  while e > 0 && fuel > 0 do
    if e % 2 == 1 then r := r * b % m
    b := b * b % m
    e := e / 2
    fuel := fuel - 1
  return r

/-- modular inverse for prime modulus (Fermat) -/
def invMod (a m : Nat) : Nat := powMod a (m - 2) m

/-- affine point; `none` = point at infinity -/
abbrev Pt := Option (Nat × Nat)

def G : Pt := some (Gx, Gy)

def onCurve : Pt → Bool
  | none => true
  | some (x, y) => x < P && y < P && (y * y) % P == (x * x % P * x + 7) % P

def ptNeg : Pt → Pt
  | none => none
  | some (x, y) => some (x, (P - y) % P)

def ptAdd (a b : Pt) : Pt :=
  match a, b with
  | none, _ => b
  | _, none => a
  | some (x1, y1), some (x2, y2) =>
    if x1 == x2 then
      if (y1 + y2) % P == 0 then none
      else
        let l := (3 * x1 % P * x1) % P * invMod (2 * y1 % P) P % P
        let x3 := (l * l + 2 * (P - x1)) % P
        let y3 := (l * ((x1 + P - x3) % P) + (P - y1)) % P
        some (x3, y3)
    else
      let l := ((y2 + P - y1) % P) * invMod ((x2 + P - x1) % P) P % P
      let x3 := (l * l + (P - x1) + (P - x2)) % P
      let y3 := (l * ((x1 + P - x3) % P) + (P - y1)) % P
      some (x3, y3)

/-- Jacobian coordinates (X, Y, Z), Z = 0 is infinity; used for scalar multiplication speed -/
structure Jac where
  x : Nat
  y : Nat
  z : Nat

def jacInf : Jac := ⟨1, 1, 0⟩

def jacOfPt : Pt → Jac
  | none => jacInf
  | some (x, y) => ⟨x, y, 1⟩

def ptOfJac (j : Jac) : Pt :=
  if j.z == 0 then none
  else
    let zi := invMod j.z P
    let zi2 := zi * zi % P
    some (j.x * zi2 % P, j.y * (zi2 * zi % P) % P)

def jacDouble (a : Jac) : Jac :=
  if a.z == 0 || a.y == 0 then jacInf
  else
    let ysq := a.y * a.y % P
    let s := 4 * a.x % P * ysq % P
    let m := 3 * (a.x * a.x % P) % P
    let nx := (m * m + 2 * (P - s)) % P
    let ny := (m * ((s + P - nx) % P) + (P - 8 * (ysq * ysq % P) % P)) % P
    let nz := 2 * a.y % P * a.z % P
    ⟨nx, ny, nz⟩

def jacAdd (a b : Jac) : Jac :=
  if a.z == 0 then b
  else if b.z == 0 then a
  else
    let z1z1 := a.z * a.z % P
    let z2z2 := b.z * b.z % P
    let u1 := a.x * z2z2 % P
    let u2 := b.x * z1z1 % P
    let s1 := a.y * (z2z2 * b.z % P) % P
    let s2 := b.y * (z1z1 * a.z % P) % P
    if u1 == u2 then
      if s1 == s2 then jacDouble a else jacInf
    else
      let h := (u2 + P - u1) % P
      let r := (s2 + P - s1) % P
      let h2 := h * h % P
      let h3 := h2 * h % P
      let u1h2 := u1 * h2 % P
      let nx := (r * r + (P - h3) + 2 * (P - u1h2)) % P
      let ny := (r * ((u1h2 + P - nx) % P) + (P - s1 * h3 % P)) % P
      let nz := h * a.z % P * b.z % P
      ⟨nx, ny, nz⟩

/-- scalar multiplication k·A (double-and-add, most significant bit first) -/
def ptMul (k : Nat) (a : Pt) : Pt := Id.run do
  let ja := jacOfPt a
  let mut r := jacInf
  let bits := Nat.log2 k + 1
  for i in [0:bits] do
    r := jacDouble r
    if k.testBit (bits - 1 - i) then r := jacAdd r ja
  return ptOfJac r

/-- uncompressed serialisation without the 0x04 prefix: X ‖ Y, 32 bytes each -/
def ptSer : Pt → Bytes
  | none => []
  | some (x, y) => toBE 32 x ++ toBE 32 y

/-- ECDSA public key recovery. `v` ∈ {27,28,29,30} (btcec compact header minus compression flag):
    bit 0 of (v-27) = parity of R.y, bit 1 = x overflow. `z` = message digest as integer. -/
def recoverPub (v r s z : Nat) : Pt :=
  if v < 27 || v > 30 then none
  else if r == 0 || r ≥ N || s == 0 || s ≥ N then none
  else
    let rec_ := v - 27
    let x := if rec_ / 2 == 1 then r + N else r
    if x ≥ P then none
    else
      let ysq := (x * x % P * x + 7) % P
      let y := powMod ysq ((P + 1) / 4) P
      if y * y % P != ysq then none
      else
        let y := if y % 2 == rec_ % 2 then y else P - y
        let R : Pt := some (x, y)
        let ri := invMod r N
        let u1 := (N - z % N) % N * ri % N
        let u2 := s * ri % N
        let q := ptAdd (ptMul u1 G) (ptMul u2 R)
        q

/-- ECDSA verification of (r,s) over digest z for public key Q. -/
def verify (q : Pt) (r s z : Nat) : Bool :=
  if r == 0 || r ≥ N || s == 0 || s ≥ N then false
  else match q with
    | none => false
    | some _ =>
      let si := invMod s N
      let u1 := z % N * si % N
      let u2 := r * si % N
      match ptAdd (ptMul u1 G) (ptMul u2 q) with
      | none => false
      | some (x, _) => x % N == r

def pubOfPriv (k : Nat) : Pt := ptMul (k % N) G

end FFS.Prim.Secp
