/-
  FFS.Prim.Sha256 — executable reference SHA-256 (FIPS 180-4), HMAC-SHA256 (RFC 2104), PBKDF2-HMAC-SHA256 (RFC 8018).
  Trusted as specifications; validated against Go's crypto/sha256 and x/crypto/pbkdf2 by the harness.
-/
import FFS.Util.Basic
namespace FFS.Prim

def sha256K : Array UInt32 := #[
  0x428a2f98, 0x71374491, 0xb5c0fbcf, 0xe9b5dba5, 0x3956c25b, 0x59f111f1, 0x923f82a4, 0xab1c5ed5,
  0xd807aa98, 0x12835b01, 0x243185be, 0x550c7dc3, 0x72be5d74, 0x80deb1fe, 0x9bdc06a7, 0xc19bf174,
  0xe49b69c1, 0xefbe4786, 0x0fc19dc6, 0x240ca1cc, 0x2de92c6f, 0x4a7484aa, 0x5cb0a9dc, 0x76f988da,
  0x983e5152, 0xa831c66d, 0xb00327c8, 0xbf597fc7, 0xc6e00bf3, 0xd5a79147, 0x06ca6351, 0x14292967,
  0x27b70a85, 0x2e1b2138, 0x4d2c6dfc, 0x53380d13, 0x650a7354, 0x766a0abb, 0x81c2c92e, 0x92722c85,
  0xa2bfe8a1, 0xa81a664b, 0xc24b8b70, 0xc76c51a3, 0xd192e819, 0xd6990624, 0xf40e3585, 0x106aa070,
  0x19a4c116, 0x1e376c08, 0x2748774c, 0x34b0bcb5, 0x391c0cb3, 0x4ed8aa4a, 0x5b9cca4f, 0x682e6ff3,
  0x748f82ee, 0x78a5636f, 0x84c87814, 0x8cc70208, 0x90befffa, 0xa4506ceb, 0xbef9a3f7, 0xc67178f2]

@[inline] def rotr32 (x : UInt32) (n : UInt32) : UInt32 := (x >>> n) ||| (x <<< (32 - n))

def sha256Block (h : Array UInt32) (blk : Array UInt8) (off : Nat) : Array UInt32 := Id.run do
  let mut w : Array UInt32 := Array.replicate 64 0
  for i in [0:16] do
    let b (k : Nat) : UInt32 := (blk.getD (off + 4 * i + k) 0).toUInt32
    w := w.set! i ((b 0 <<< 24) ||| (b 1 <<< 16) ||| (b 2 <<< 8) ||| b 3)
  for i in [16:64] do
    let w15 := w.getD (i - 15) 0; let w2 := w.getD (i - 2) 0
    let s0 := rotr32 w15 7 ^^^ rotr32 w15 18 ^^^ (w15 >>> 3)
    let s1 := rotr32 w2 17 ^^^ rotr32 w2 19 ^^^ (w2 >>> 10)
    w := w.set! i (w.getD (i - 16) 0 + s0 + w.getD (i - 7) 0 + s1)
  let mut a := h.getD 0 0; let mut b := h.getD 1 0; let mut c := h.getD 2 0; let mut d := h.getD 3 0
  let mut e := h.getD 4 0; let mut f := h.getD 5 0; let mut g := h.getD 6 0; let mut hh := h.getD 7 0
  for i in [0:64] do
    let s1 := rotr32 e 6 ^^^ rotr32 e 11 ^^^ rotr32 e 25
    let ch := (e &&& f) ^^^ ((~~~ e) &&& g)
    let t1 := hh + s1 + ch + sha256K.getD i 0 + w.getD i 0
    let s0 := rotr32 a 2 ^^^ rotr32 a 13 ^^^ rotr32 a 22
    let maj := (a &&& b) ^^^ (a &&& c) ^^^ (b &&& c)
    let t2 := s0 + maj
    hh := g; g := f; f := e; e := d + t1; d := c; c := b; b := a; a := t1 + t2
  return #[h.getD 0 0 + a, h.getD 1 0 + b, h.getD 2 0 + c, h.getD 3 0 + d,
           h.getD 4 0 + e, h.getD 5 0 + f, h.getD 6 0 + g, h.getD 7 0 + hh]

def sha256Arr (msg : Array UInt8) : Array UInt8 := Id.run do
  let bitLen := msg.size * 8
  let padLen := (55 + 64 - msg.size % 64) % 64
  let mut m := msg.push 0x80
  m := m ++ Array.replicate padLen 0
  for k in [0:8] do
    m := m.push (UInt8.ofNat ((bitLen >>> (8 * (7 - k))) % 256))
  let mut h : Array UInt32 := #[0x6a09e667, 0xbb67ae85, 0x3c6ef372, 0xa54ff53a, 0x510e527f, 0x9b05688c, 0x1f83d9ab, 0x5be0cd19]
  for blk in [0:m.size / 64] do
    h := sha256Block h m (64 * blk)
  let mut out : Array UInt8 := Array.mkEmpty 32
  for i in [0:8] do
    let v := h.getD i 0
    out := out.push (v >>> 24).toUInt8 |>.push (v >>> 16).toUInt8 |>.push (v >>> 8).toUInt8 |>.push v.toUInt8
  return out

def sha256 (msg : Bytes) : Bytes := (sha256Arr msg.toArray).toList

/-- HMAC-SHA256 -/
def hmacSha256 (key msg : Bytes) : Bytes :=
  let k0 := if key.length > 64 then sha256 key else key
  let k := k0 ++ List.replicate (64 - k0.length) 0
  let ipad := k.map (· ^^^ 0x36)
  let opad := k.map (· ^^^ 0x5c)
  sha256 (opad ++ sha256 (ipad ++ msg))

def xorBytes (a b : Bytes) : Bytes := List.zipWith (· ^^^ ·) a b

/-- one PBKDF2 block T_i = U_1 ⊕ … ⊕ U_c -/
def pbkdf2Block (pw salt : Bytes) (c i : Nat) : Bytes := Id.run do
  let u1 := hmacSha256 pw (salt ++ toBE 4 i)
  let mut u := u1
  let mut t := u1
  for _ in [1:c] do
    u := hmacSha256 pw u
    t := xorBytes t u
  return t

/-- PBKDF2-HMAC-SHA256(password, salt, c, dkLen) for c ≥ 1 -/
def pbkdf2Sha256 (pw salt : Bytes) (c dkLen : Nat) : Bytes :=
  let nBlocks := (dkLen + 31) / 32
  -- the blocks supply at least dkLen bytes; the zero padding only makes the length hold by construction
  (((List.range nBlocks).flatMap fun i => pbkdf2Block pw salt c (i + 1)) ++ List.replicate dkLen 0).take dkLen

theorem pbkdf2Sha256_length (pw salt : Bytes) (c dkLen : Nat) : (pbkdf2Sha256 pw salt c dkLen).length = dkLen := by
  simp [pbkdf2Sha256]

end FFS.Prim
