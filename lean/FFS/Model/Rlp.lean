/-
  FFS.Model.Rlp — model of /repo/pkg/rlp (encode.go, decode.go, rlp.go), function by function.
  Constants come from FFS.Gen.RlpConsts (regenerated from the source on every run).
  Positions are modelled relative to the remaining input `rlpData[pos:]`.
  Every Go slice expression is a `slice?` (panics when out of range).
-/
import FFS.Util.Basic
import FFS.Spec.Rlp
import FFS.Gen.RlpConsts
namespace FFS.Model.Rlp
open FFS FFS.Gen.RlpConsts

/-- `int64ToBytes`: the eight `(v >> k) & 0xff` bytes. -/
def int64ToBytes (v : Nat) : Bytes := toBE 8 v

/-- `int64ToMinimalBytes`: strip leading zero bytes. -/
def int64ToMinimalBytes (v : Nat) : Bytes := (int64ToBytes v).dropWhile (· == 0)

/-- `encodeBytes(inBytes, isList)`. The two `if` conditions are the translated Go expressions
    `Gen.RlpConsts.encSingle` / `encShort`. `inBytes[0]` is only evaluated when `len == 1` (short-circuit). -/
def encodeBytes (inp : Bytes) (isList : Bool) : Bytes :=
  let shortOffset := if isList then shortList else shortString
  let b0 : Nat := match inp with | b :: _ => b.toNat | [] => 0
  if encSingle inp.length b0 isList then inp
  else if encShort inp.length then UInt8.ofNat (shortOffset + inp.length) :: inp
  else
    let l := int64ToMinimalBytes inp.length
    UInt8.ofNat (shortOffset + shortToLong + l.length) :: (l ++ inp)

mutual
  /-- `Element.Encode()` -/
  def enc : Item → Bytes
    | .str b => encodeBytes b false
    | .list xs => encodeBytes (encList xs) true
  /-- the `append` loop of `List.Encode` -/
  def encList : List Item → Bytes
    | [] => []
    | x :: xs => enc x ++ encList xs
end

/-- `minimalBytesToInt64`: accumulate-and-shift in wrapping int64, then the `v < 0 || v > maxInt32` test. -/
def minimalBytesToInt64 (data : Bytes) : Outcome Nat :=
  let v := fromBE data % 2 ^ 64
  if lenReject v then .err else .ok v

/-- body of `extractLongLen` after `lenOfLen` is computed, on the remaining input (`pos = 0`).
    Returns (dataLen, newPos). -/
def extractLongLenAux (lenOfLen : Nat) (bs : Bytes) : Outcome (Nat × Nat) :=
  if lenOfLen > bs.length - 1 then .err
  else
    match slice? bs 1 (1 + lenOfLen) with
    | .ok lb =>
      match minimalBytesToInt64 lb with
      | .ok dataLen =>
        if dataLen > bs.length - (1 + lenOfLen) then .err else .ok (dataLen, 1 + lenOfLen)
      | .err => .err
      | .panic => .panic
    | .err => .err
    | .panic => .panic

/-- `extractLongLen(isList, prefixByte, pos, rlpData)`. -/
def extractLongLen (isList : Bool) (pfx : Nat) (bs : Bytes) : Outcome (Nat × Nat) :=
  extractLongLenAux ((pfx + 256 - (if isList then longList else longString)) % 256) bs

/-- What one iteration of the `for` loop of `decode` finds at the front of the remaining input:
    a finished string element, or a list whose payload still has to be decoded recursively.
    Second component: number of input bytes the element occupies. -/
inductive Hdr where
  | leaf (it : Item) (n : Nat)
  | sub (payload : Bytes) (n : Nat)

/-- The six-way prefix `switch` of `decode` (guards = translated Go expressions `Gen.RlpConsts.decCase0..5`,
    tried in order as Go does), with its bounds checks and slice expressions, up to (not including)
    the recursive call. Byte subtractions `prefix - shortString` etc. wrap modulo 256 as Go `byte` arithmetic does. -/
def header (bs : Bytes) : Outcome Hdr :=
  match bs with
  | [] => .panic  -- `rlpData[pos]` with pos = len; unreachable behind the loop guard
  | b :: _ =>
    let p := b.toNat
    if decCase0 p then .ok (.leaf (.str [b]) 1)
    else if decCase1 p then .ok (.leaf (.str []) 1)
    else if decCase2 p then
      let strLen := (p + 256 - shortString) % 256
      if strLen > bs.length - 1 then .err
      else (slice? bs 1 (1 + strLen)).bind fun d => .ok (.leaf (.str d) (1 + strLen))
    else if decCase3 p then
      (extractLongLen false p bs).bind fun (strLen, pos) =>
      (slice? bs pos (pos + strLen)).bind fun d => .ok (.leaf (.str d) (pos + strLen))
    else if decCase4 p then
      let listLen := (p + 256 - shortList) % 256
      if listLen > bs.length - 1 then .err
      else (slice? bs 1 (1 + listLen)).bind fun sub => .ok (.sub sub (1 + listLen))
    else if decCase5 p then
      (extractLongLen true p bs).bind fun (listLen, pos) =>
      (slice? bs pos (pos + listLen)).bind fun sub => .ok (.sub sub (pos + listLen))
    else .panic  -- no `case` matches: the Go loop would spin forever without advancing

mutual
  /-- one iteration of the `for` loop of `decode` on the remaining input: element and bytes consumed.
      Running out of fuel is modelled as `.panic`, so totality theorems also show the fuel suffices. -/
  def decOne : Nat → Bytes → Outcome (Item × Nat)
    | 0, _ => .panic
    | fuel + 1, bs =>
      match header bs with
      | .ok (.leaf it n) => .ok (it, n)
      | .ok (.sub payload n) =>
        match decMany fuel payload with
        | .ok child => .ok (.list child, n)
        | .err => .err
        | .panic => .panic
      | .err => .err
      | .panic => .panic
  /-- `decode(data, -1)`: all elements until the input is exhausted. -/
  def decMany : Nat → Bytes → Outcome (List Item)
    | 0, _ => .panic
    | fuel + 1, bs =>
      match bs with
      | [] => .ok []
      | _ :: _ =>
        match decOne fuel bs with
        | .ok (it, n) =>
          match decMany fuel (bs.drop n) with
          | .ok more => .ok (it :: more)
          | .err => .err
          | .panic => .panic
        | .err => .err
        | .panic => .panic
end

/-- fuel that always suffices for an input of this length (proved in Props.C06). -/
def fuelFor (bs : Bytes) : Nat := 2 * bs.length + 2

/-- `Decode(rlpData)`: first element only, with the end position. `(nil, 0, nil)` on empty input. -/
def Decode (bs : Bytes) : Outcome (Option Item × Nat) :=
  match bs with
  | [] => .ok (none, 0)
  | _ :: _ =>
    match decOne (fuelFor bs) bs with
    | .ok (it, n) => .ok (some it, n)
    | .err => .err
    | .panic => .panic

/-- `WrapInt(i)` for non-negative i. -/
def wrapInt (n : Nat) : Item := .str (minBE n)

/-- `Data.Int()` on non-nil data. -/
def dataInt (b : Bytes) : Nat := fromBE b

/-- `Element.ToData()` : a list is treated as nil data. -/
def toData : Item → Option Bytes
  | .str b => some b
  | .list _ => none

end FFS.Model.Rlp
