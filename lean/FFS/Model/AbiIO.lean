/-
  FFS.Model.AbiIO — model of /repo/pkg/abi/inputparsing.go (coercion of external values, walkInput) and
  outputserialization.go (walkOutput for every formatting mode and built-in serializer).
-/
import FFS.Model.AbiCodec
import FFS.Model.EthTypes
import FFS.Model.Secp
namespace FFS.Model.Abi
open FFS FFS.Model.EthTypes

/-- an external input value: what `json.Decoder.UseNumber` produces, plus Go-typed values -/
inductive Ext where
  | null
  | bool (b : Bool)
  | num (lit : String) (fl rat : ExtNum)   -- json.Number (external float / rational parse results attached)
  | str (s : String) (fl rat : ExtNum)     -- string
  | arr (xs : List Ext)                    -- any slice
  | obj (keys : List String) (vals : List Ext)  -- map[string]interface{}
  | int (z : Int)                          -- int…int64, uint…uint64, *big.Int : the exact value
  | float (integral : Bool) (z : Int)      -- float32 / float64 / *big.Float : finite-and-integral flag, integer value
  | goBytes (b : Bytes)                    -- []byte
deriving Repr, Inhabited

def utf8 (s : String) : Bytes := s.toUTF8.toList

/-- `getIntegerFromInterface` -/
def getInteger : Ext → Outcome Int
  | .num lit fl rat => bigIntegerFromString lit.toList fl rat
  | .str s fl rat => bigIntegerFromString s.toList fl rat
  | .int z => .ok z
  | .float integral z => if integral then .ok z else .err
  | _ => .err

/-- `strings.EqualFold(s, "true")` (ASCII letters only matter here) -/
def equalFoldTrue (s : String) : Bool := s.toLower == "true" && s.length == 4

/-- `getBoolAsUnsignedIntegerFromInterface`: json.Number has string kind, so it takes the string arm -/
def getBool : Ext → Outcome Int
  | .bool b => .ok (if b then 1 else 0)
  | .str s _ _ => .ok (if equalFoldTrue s then 1 else 0)
  | .num lit _ _ => .ok (if equalFoldTrue lit then 1 else 0)
  | _ => .err

/-- `getStringFromInterface` -/
def getString : Ext → Outcome Bytes
  | .str s _ _ => .ok (utf8 s)
  | .goBytes b => .ok b
  | .num lit _ _ => .ok (utf8 lit)
  | _ => .err

/-- `getBytesFromInterface` -/
def getBytes : Ext → Outcome Bytes
  | .goBytes b => .ok b
  | .str s _ _ => match hexDecode (trim0x s.toList) with | some b => .ok b | none => .err
  | .num lit _ _ => match hexDecode (trim0x lit.toList) with | some b => .ok b | none => .err
  | _ => .err

/-- `readElementaryType` via the table's reader -/
def readElementary (info : ElemInfo) (v : Ext) : Outcome CV :=
  if info.reader = "getIntegerFromInterface" then (getInteger v).map .int
  else if info.reader = "getUintBytesFromInterface" then (getBytes v).map fun b => .int (fromBE b)
  else if info.reader = "getBoolAsUnsignedIntegerFromInterface" then (getBool v).map .int
  else if info.reader = "getBytesFromInterface" then (getBytes v).map .bytes
  else if info.reader = "getStringFromInterface" then (getString v).map .str
  else .err  -- getFloatFromInterface: not modelled

def lookupKey (keys : List String) (vals : List Ext) (k : String) : Option Ext :=
  -- a Go map holds one value per key; a duplicate key in the JSON text is resolved by encoding/json (last wins)
  ((keys.zip vals).reverse.find? (·.1 == k)).map (·.2)

/-- a slice value as `getInterfaceArray` sees it -/
def asSlice : Ext → Option (List Ext)
  | .arr xs => some xs
  | .goBytes b => some (b.map fun x => .int x.toNat)
  | _ => none

mutual
  /-- `walkInput` -/
  def walkInput : Ty → Ext → Outcome CV
    | .elem info _ _ _, v => readElementary info v
    | .farr t k, v =>
      match asSlice v with
      | some xs => if xs.length ≠ k then .err else (walkSame t xs).map .kids
      | none => .err
    | .darr t, v =>
      match asSlice v with
      | some xs => (walkSame t xs).map .kids
      | none => .err
    | .tuple names ts, v =>
      match asSlice v with
      | some xs => if xs.length ≠ ts.length then .err else (walkEach ts xs).map .kids
      | none =>
        match v with
        | .obj keys vals => (walkNamed names ts 0 keys vals).map .kids
        | _ => .err
  def walkSame : Ty → List Ext → Outcome (List CV)
    | _, [] => .ok []
    | t, x :: xs =>
      match walkInput t x with
      | .ok c => (walkSame t xs).map (c :: ·)
      | .err => .err
      | .panic => .panic
  def walkEach : List Ty → List Ext → Outcome (List CV)
    | t :: ts, x :: xs =>
      match walkInput t x with
      | .ok c => (walkEach ts xs).map (c :: ·)
      | .err => .err
      | .panic => .panic
    | _, _ => .ok []
  /-- the map arm of `walkTupleInput`: child i is looked up under its keyName, or its index when unnamed -/
  def walkNamed : List String → List Ty → Nat → List String → List Ext → Outcome (List CV)
    | n :: ns, t :: ts, i, keys, vals =>
      let key := if n == "" then toString i else n
      match lookupKey keys vals key with
      | none => .err
      | some x =>
        match walkInput t x with
        | .ok c => (walkNamed ns ts (i + 1) keys vals).map (c :: ·)
        | .err => .err
        | .panic => .panic
    | _, _, _, _, _ => .ok []
end

/-! ### Output serialization -/

inductive FormattingMode where | objects | flatArrays | selfDescribing
deriving Repr, DecidableEq
inductive IntSer where | base10 | hex0x | jsonNumber | numberIfFits
deriving Repr, DecidableEq
inductive ByteSer where | hex | hex0x | base64
deriving Repr, DecidableEq
inductive AddrSer where | none | hex0x | plain | checksum
deriving Repr, DecidableEq

structure SerCfg where
  mode : FormattingMode
  ints : IntSer
  bytes : ByteSer
  addr : AddrSer

/-- serialized output tree; strings are kept as bytes (the harness compares them as bytes) -/
inductive J where
  | bool (b : Bool)
  | num (lit : String)
  | str (b : Bytes)
  | arr (xs : List J)
  | obj (keys : List String) (vals : List J)
deriving Repr, Inhabited

def asciiBytes (cs : List Char) : Bytes := cs.map fun c => UInt8.ofNat c.toNat

def b64Char (n : Nat) : Char :=
  if n < 26 then Char.ofNat (65 + n) else if n < 52 then Char.ofNat (97 + n - 26)
  else if n < 62 then Char.ofNat (48 + n - 52) else if n = 62 then '+' else '/'

/-- `base64.StdEncoding.EncodeToString` -/
def base64 : Bytes → List Char
  | [] => []
  | [a] =>
    let x := a.toNat
    [b64Char (x / 4), b64Char (x % 4 * 16), '=', '=']
  | [a, b] =>
    let x := a.toNat; let y := b.toNat
    [b64Char (x / 4), b64Char (x % 4 * 16 + y / 16), b64Char (y % 16 * 4), '=']
  | a :: b :: c :: rest =>
    let x := a.toNat; let y := b.toNat; let z := c.toNat
    b64Char (x / 4) :: b64Char (x % 4 * 16 + y / 16) :: b64Char (y % 16 * 4 + z / 64) :: b64Char (z % 64) :: base64 rest

def serInt (s : IntSer) (z : Int) : J :=
  match s with
  | .base10 => .str (asciiBytes (toString z).toList)
  | .hex0x => .str (asciiBytes ((if z < 0 then ['-'] else []) ++ '0' :: 'x' :: natToHex z.natAbs))
  | .jsonNumber => .num (toString z)
  | .numberIfFits =>
    if z > 9007199254740991 ∨ z < -9007199254740991 then .str (asciiBytes (toString z).toList)
    else .num (toString z)

def serBytes (s : ByteSer) (b : Bytes) : J :=
  match s with
  | .hex => .str (asciiBytes (hexEncode b))
  | .hex0x => .str (asciiBytes ('0' :: 'x' :: hexEncode b))
  | .base64 => .str (asciiBytes (base64 b))

/-- `serializeElementaryType` -/
def serElem (cfg : SerCfg) (info : ElemInfo) (v : CV) : Outcome J :=
  if info.name = "int" ∨ info.name = "uint" then
    match v with | .int z => .ok (serInt cfg.ints z) | _ => .panic
  else if info.name = "address" then
    match v with
    | .int z =>
      match fillBytes? z.natAbs 20 with
      | .ok a =>
        match cfg.addr with
        | .none => .ok (serBytes cfg.bytes a)
        | .hex0x => .ok (.str (asciiBytes (address0xString a)))
        | .plain => .ok (.str (asciiBytes (addressPlainString a)))
        | .checksum => .ok (.str (asciiBytes (addressChecksumString a)))
      | _ => .panic
    | _ => .panic
  else if info.name = "bool" then
    match v with | .int z => .ok (.bool (FFS.Model.Secp.bigInt64 z == 1)) | _ => .panic
  else if info.name = "bytes" ∨ info.name = "function" then
    match v with | .bytes b => .ok (serBytes cfg.bytes b) | _ => .panic
  else if info.name = "string" then
    match v with | .str s => .ok (.str s) | _ => .panic
  else .err   -- fixed / ufixed: not modelled

mutual
  /-- `walkOutput`; `keyName` of each tuple child comes from the tuple's `names` -/
  def walkOutput (cfg : SerCfg) : Ty → CV → Outcome J
    | .elem info _ _ _, v => serElem cfg info v
    | .farr t _, .kids cs => (outSame cfg t cs).map .arr
    | .darr t, .kids cs => (outSame cfg t cs).map .arr
    | .tuple names ts, .kids cs =>
      match cfg.mode with
      | .objects => (outEach cfg names ts cs 0).map fun kvs => .obj (kvs.map (·.1)) (kvs.map (·.2.2))
      | .flatArrays => (outEach cfg names ts cs 0).map fun kvs => .arr (kvs.map (·.2.2))
      | .selfDescribing => (outEach cfg names ts cs 0).map fun kvs =>
          .arr (kvs.map fun (n, ty, v) => .obj ["name", "type", "value"] [.str (utf8 n), .str (utf8 ty), v])
    | _, _ => .panic
  def outSame (cfg : SerCfg) : Ty → List CV → Outcome (List J)
    | _, [] => .ok []
    | t, c :: cs =>
      match walkOutput cfg t c with
      | .ok j => (outSame cfg t cs).map (j :: ·)
      | .err => .err
      | .panic => .panic
  /-- (effective name, type label, value) per tuple child -/
  def outEach (cfg : SerCfg) : List String → List Ty → List CV → Nat → Outcome (List (String × String × J))
    | n :: ns, t :: ts, c :: cs, i =>
      match walkOutput cfg t c with
      | .ok j => (outEach cfg ns ts cs (i + 1)).map (((if n == "" then toString i else n), render t, j) :: ·)
      | .err => .err
      | .panic => .panic
    | _, _, _, _ => .ok []
end

end FFS.Model.Abi
