/-
  FFS.Model.Tx — model of /repo/pkg/ethsigner/transaction.go (signing and recovery), over
  FFS.Model.Rlp and FFS.Model.Secp. Guards and index tables come from FFS.Gen.TxConsts.
-/
import FFS.Model.Rlp
import FFS.Model.Secp
import FFS.Spec.Tx
import FFS.Gen.TxConsts
namespace FFS.Model.Tx
open FFS FFS.Model.Rlp FFS.Model.Secp FFS.Gen.TxConsts

/-- `Transaction` (the fields that matter for signing). `none` = nil pointer; `BigInt()` reads nil as 0. -/
structure Tx where
  nonce : Option Nat
  gasPrice : Option Nat
  tip : Option Nat
  feeCap : Option Nat
  gasLimit : Option Nat
  to : Option Bytes
  value : Option Nat
  data : Bytes
deriving Repr, DecidableEq

def big (x : Option Nat) : Nat := x.getD 0

/-- the mathematical field values a `Transaction` denotes (nil integer = 0) -/
def fields (t : Tx) : Spec.Tx.Fields :=
  { nonce := big t.nonce, gasPrice := big t.gasPrice, tip := big t.tip, feeCap := big t.feeCap,
    gasLimit := big t.gasLimit, to := t.to, value := big t.value, data := t.data }

/-- `rlp.WrapAddress` -/
def wrapAddress : Option Bytes → Item
  | none => .str []
  | some a => .str a

/-- `BuildLegacy()` -/
def buildLegacy (t : Tx) : List Item :=
  [wrapInt (big t.nonce), wrapInt (big t.gasPrice), wrapInt (big t.gasLimit), wrapAddress t.to,
   wrapInt (big t.value), .str t.data]

/-- `AddEIP155HashValuesToRLPList`: `big.NewInt(chainID).Bytes()` is the magnitude -/
def addEIP155 (l : List Item) (cid : Int) : List Item :=
  l ++ [wrapInt cid.natAbs, wrapInt 0, wrapInt 0]

/-- `Build1559(chainID)` -/
def build1559 (t : Tx) (cid : Int) : List Item :=
  [wrapInt cid.natAbs, wrapInt (big t.nonce), wrapInt (big t.tip), wrapInt (big t.feeCap),
   wrapInt (big t.gasLimit), wrapAddress t.to, wrapInt (big t.value), .str t.data, .list []]

def payloadLegacyOriginal (t : Tx) : Bytes := enc (.list (buildLegacy t))
def payloadLegacyEIP155 (t : Tx) (cid : Int) : Bytes := enc (.list (addEIP155 (buildLegacy t) cid))
def payloadEIP1559 (t : Tx) (cid : Int) : Bytes :=
  UInt8.ofNat type1559 :: enc (.list (build1559 t cid))

/-- the automatic choice: `MaxPriorityFeePerGas.Sign() > 0 || MaxFeePerGas.Sign() > 0` -/
def wants1559 (t : Tx) : Bool := decide (big t.tip > 0) || decide (big t.feeCap > 0)

def payloadAuto (t : Tx) (cid : Int) : Bytes :=
  if wants1559 t then payloadEIP1559 t cid else payloadLegacyEIP155 t cid

/-- `addSignature`: append WrapInt(V), WrapInt(R), WrapInt(S) (magnitudes) -/
def addSignature (l : List Item) (v r s : Int) : List Item :=
  l ++ [wrapInt v.natAbs, wrapInt r.natAbs, wrapInt s.natAbs]

inductive Mode where
  | legacyOriginal | eip155 | eip1559 | auto
deriving Repr, DecidableEq

/-- `Sign*` for a signature (v,r,s) as returned by `signer.Sign(payload)` -/
def finalize (mode : Mode) (t : Tx) (cid : Int) (v r s : Int) : Bytes :=
  match mode with
  | .legacyOriginal => enc (.list (addSignature (buildLegacy t) v r s))
  | .eip155 => enc (.list (addSignature ((addEIP155 (buildLegacy t) cid).take 6) (updateEIP155 v cid) r s))
  | .eip1559 => UInt8.ofNat type1559 :: enc (.list (addSignature (build1559 t cid) (updateEIP2930 v) r s))
  | .auto =>
    if wants1559 t then UInt8.ofNat type1559 :: enc (.list (addSignature (build1559 t cid) (updateEIP2930 v) r s))
    else enc (.list (addSignature ((addEIP155 (buildLegacy t) cid).take 6) (updateEIP155 v cid) r s))

def payload (mode : Mode) (t : Tx) (cid : Int) : Bytes :=
  match mode with
  | .legacyOriginal => payloadLegacyOriginal t
  | .eip155 => payloadLegacyEIP155 t cid
  | .eip1559 => payloadEIP1559 t cid
  | .auto => payloadAuto t cid

/-- `Sign*(signer, chainID)` with the library signer of curve `C` and private key `k` -/
def signTx (C : Curve) (mode : Mode) (t : Tx) (k : Nat) (cid : Int) : Bytes :=
  let sig := sign C k (payload mode t cid)
  finalize mode t cid (sig.V.getD 0) (sig.R.getD 0) (sig.S.getD 0)

/-! ### Recovery -/

def isStr : Item → Bool
  | .str _ => true
  | .list _ => false

/-- canonical RLP integer: a string without a leading zero byte -/
def isCanonInt : Item → Bool
  | .str (b :: _) => b != 0
  | .str [] => true
  | .list _ => false

def isAddrOrEmpty : Item → Bool
  | .str b => b.length == 0 || b.length == 20
  | .list _ => false

/-- `validTxScalars(rlpList, intFields, toField, bytesFields)`; indices are in range at every call site
    (length checked first), an out-of-range index would be a Go panic. -/
def validTxScalars (l : List Item) (ints : List Nat) (to : Nat) (bytesF : List Nat) : Outcome Bool :=
  if (ints ++ bytesF ++ [to]).any (fun i => decide (l.length ≤ i)) then .panic
  else .ok (ints.all (fun i => isCanonInt (l.getD i (.list []))) &&
            bytesF.all (fun i => isStr (l.getD i (.list []))) &&
            isAddrOrEmpty (l.getD to (.list [])))

/-- `x.ToData().Int()` as an optional big integer -/
def itemInt : Item → Option Nat
  | .str b => some (fromBE b)
  | .list _ => none

/-- `x.ToData().Address()` -/
def itemAddr : Item → Option Bytes
  | .str b => if b.length = 20 then some b else none
  | .list _ => none

/-- `x.ToData()` as `HexBytes0xPrefix` / `BytesNotNil()` (nil ↦ empty) -/
def itemBytes : Item → Bytes
  | .str b => b
  | .list _ => []

/-- the validation call of RecoverLegacyRawTransaction (absent on a tree without the fix: unguarded accesses) -/
def validateLegacy (l : List Item) : Outcome Bool :=
  if legacyValidates then validTxScalars l legacyInts legacyTo legacyBytes else .panic

/-- the validation call of decodeEIP1559SignaturePayload -/
def validate1559 (l : List Item) (minLen : Nat) : Outcome Bool :=
  if e1559Validates then
    validTxScalars l (if minLen ≥ 12 then e1559Ints ++ e1559IntsSigned else e1559Ints) e1559To
      (if minLen ≥ 12 then e1559Bytes ++ e1559BytesSigned else e1559Bytes)
  else .panic

/-- `encodedChainID … != chainID` (exact big-integer comparison, or after Int64 truncation on an unfixed tree) -/
def chainIdMatches (l : List Item) (cid : Int) : Bool :=
  let embedded : Int := ((itemInt (l.getD 0 (.list []))).getD 0 : Nat)
  if e1559ChainIdExact then decide (embedded = cid) else decide (bigInt64 embedded = cid)

/-- `recoverCommon`: returns (address, tx, payload) -/
def recoverCommon (C : Curve) (tx : Tx) (message : Bytes) (cid : Int) (v : Int) (r s : Bytes) :
    Outcome (Bytes × Tx × Bytes) :=
  match Secp.recover C { V := some v, R := some (fromBE r), S := some (fromBE s) } message cid with
  | .ok a => .ok (a, tx, message)
  | .err => .err
  | .panic => .panic

/-- `RecoverLegacyRawTransaction` -/
def recoverLegacy (C : Curve) (raw : Bytes) (cid : Int) : Outcome (Bytes × Tx × Bytes) :=
  match Decode raw with
  | .err => .err
  | .panic => .panic
  | .ok (decoded, _) =>
    match decoded with
    | some (.list l) =>
      if legacyTooShort l.length then .err
      else
        match validateLegacy l with
        | .panic => .panic
        | .err => .err
        | .ok false => .err
        | .ok true =>
          let g (i : Nat) : Item := l.getD i (.list [])
          let tx : Tx := { nonce := itemInt (g 0), gasPrice := itemInt (g 1), gasLimit := itemInt (g 2),
                           to := itemAddr (g 3), value := itemInt (g 4), data := itemBytes (g 5),
                           tip := none, feeCap := none }
          match itemInt (g 6) with
          | none => .panic
          | some vBig =>
            let vValue := bigInt64 vBig
            if vNotLegacy vValue then
              let v2 := wrap64 (v155ToLegacy vValue cid)
              if vNotLegacy v2 then .err
              else recoverCommon C tx (enc (.list (addEIP155 (l.take 6) cid))) cid v2 (itemBytes (g 7)) (itemBytes (g 8))
            else recoverCommon C tx (enc (.list (l.take 6))) cid vValue (itemBytes (g 7)) (itemBytes (g 8))
    | _ => .err   -- nil (empty input) or a string: comma-ok assertion fails

/-- `decodeEIP1559SignaturePayload(raw, chainID, rlpMinLen)` : the decoded list and the transaction -/
def decode1559 (raw : Bytes) (cid : Int) (minLen : Nat) : Outcome (List Item × Tx) :=
  match raw with
  | [] => .err
  | b0 :: rest =>
    if b0.toNat ≠ type1559 then .err
    else
      match Decode rest with
      | .err => .err
      | .panic => .panic
      | .ok (decoded, _) =>
        match decoded with
        | some (.list l) =>
          if l.length < minLen then .err
          else
            let g (i : Nat) : Item := l.getD i (.list [])
            if !chainIdMatches l cid then .err
            else
              match validate1559 l minLen with
              | .panic => .panic
              | .err => .err
              | .ok false => .err
              | .ok true =>
                .ok (l, { nonce := itemInt (g 1), tip := itemInt (g 2), feeCap := itemInt (g 3),
                          gasLimit := itemInt (g 4), to := itemAddr (g 5), value := itemInt (g 6),
                          data := itemBytes (g 7), gasPrice := none })
        | _ => .err

/-- `RecoverEIP1559Transaction` -/
def recover1559 (C : Curve) (raw : Bytes) (cid : Int) : Outcome (Bytes × Tx × Bytes) :=
  match decode1559 raw cid min1559Signed with
  | .err => .err
  | .panic => .panic
  | .ok (l, tx) =>
    let g (i : Nat) : Item := l.getD i (.list [])
    match itemInt (g 9) with
    | none => .panic
    | some vBig =>
      recoverCommon C tx (UInt8.ofNat type1559 :: enc (.list (l.take 9))) cid (bigInt64 vBig)
        (itemBytes (g 10)) (itemBytes (g 11))

/-- `RecoverRawTransaction` -/
def recoverRaw (C : Curve) (raw : Bytes) (cid : Int) : Outcome (Bytes × Tx × Bytes) :=
  match raw with
  | [] => .err
  | b0 :: _ =>
    if rawIsLegacy b0.toNat then recoverLegacy C raw cid
    else if rawIs1559 b0.toNat then recover1559 C raw cid
    else .err

end FFS.Model.Tx
