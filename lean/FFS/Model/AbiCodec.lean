/-
  FFS.Model.AbiCodec — model of /repo/pkg/abi/abiencode.go, abidecode.go, signedi256.go:
  the ComponentValue tree, the encoder (three-pass head/tail layout with value-driven dynamic flags)
  and the decoder (headStart / headPosition bookkeeping, 32-bit length words, bounds checks before slices).
  fixed<M>x<N> / ufixed values (big.Float arithmetic) are NOT modelled: encoding or decoding them yields `.err`
  here and the harness skips the model comparison for type trees that contain them (DESIGN §7 C02).
-/
import FFS.Model.AbiTypes
import FFS.Gen.AbiCodecFacts
namespace FFS.Model.Abi
open FFS

/-- `ComponentValue`: the Go value at a leaf, or the children of an array / tuple -/
inductive CV where
  | int (z : Int)        -- *big.Int   (int, uint, address, bool)
  | bytes (b : Bytes)    -- []byte     (bytes, bytes<M>, function)
  | str (b : Bytes)      -- string     (its UTF-8 bytes)
  | kids (cs : List CV)  -- Children
deriving Repr, Inhabited

/-- which Go encode / decode function the table assigns to an elementary type -/
inductive Codec where
  | sint | uint | bytes | string | float
deriving Repr, DecidableEq

def codecOf (fn : String) : Codec :=
  if fn = "encodeABISignedInteger" ∨ fn = "decodeABISignedInt" then .sint
  else if fn = "encodeABIUnsignedInteger" ∨ fn = "decodeABIUnsignedInt" then .uint
  else if fn = "encodeABIBytes" ∨ fn = "decodeABIBytes" then .bytes
  else if fn = "encodeABIString" ∨ fn = "decodeABIString" then .string
  else .float

/-! ### Encoder -/

/-- `checkSignedIntFits(i, bitlen)`: the posMax/negMax maps have keys 8,16,…,256 only -/
def checkSignedIntFits (z : Int) (m : Nat) : Bool :=
  if z = 0 then true
  else
    let keyed := decide (8 ≤ m) && decide (m ≤ 256) && decide (m % 8 = 0)
    if z > 0 then keyed && decide (z ≤ 2 ^ (m - 1) - 1)
    else keyed && decide (z ≥ -(2 ^ (m - 1)))

/-- `SerializeInt256TwosComplementBytes`: `And(i, 2^256-1)` then FillBytes(32) -/
def serializeInt256 (z : Int) : Bytes := toBE 32 (z % 2 ^ 256).toNat

/-- `big.Int.BitLen()` of a non-negative value -/
def bitLen (n : Nat) : Nat := if n = 0 then 0 else Nat.log2 n + 1

/-- `encodeABIDynamicBytes` -/
def encodeDynamicBytes (v : Bytes) : Bytes :=
  let padded := (v.length / 32) * 32 + (if v.length % 32 ≠ 0 then 32 else 0)
  toBE 32 v.length ++ v ++ zeros (padded - v.length)

/-- the elementary `encodeABIData` functions: (data, dynamic) -/
def encodeElem (info : ElemInfo) (m : Nat) (v : CV) : Outcome (Bytes × Bool) :=
  match codecOf info.enc, v with
  | .sint, .int z => if checkSignedIntFits z m then .ok (serializeInt256 z, false) else .err
  | .uint, .int z =>
    if z < 0 then .err
    else if bitLen z.toNat > m then .err
    else (fillBytes? z.toNat 32).bind fun d => .ok (d, false)
  | .bytes, .bytes b =>
    if m = 0 then .ok (encodeDynamicBytes b, true)
    else if b.length < m ∨ m > 32 then .err
    else .ok (b.take m ++ zeros (32 - m), false)
  | .string, .str s => .ok (encodeDynamicBytes s, true)
  | _, _ => .err   -- wrong Go type for this component; fixed-point not modelled

/-- third pass of `encodeABIChildren`: write heads and tails with running offsets.
    `items` = (data, dynamic) of the remaining children; `tailOffset` as in Go. Returns (heads, tails). -/
def writeChildren : List (Bytes × Bool) → Nat → Outcome (Bytes × Bytes)
  | [], _ => .ok ([], [])
  | (d, dyn) :: rest, tailOffset =>
    if dyn then
      match fillBytes? tailOffset 32, writeChildren rest (tailOffset + d.length) with
      | .ok w, .ok (h, t) => .ok (w ++ h, d ++ t)
      | .panic, _ => .panic
      | _, .panic => .panic
      | _, _ => .err
    else
      match writeChildren rest tailOffset with
      | .ok (h, t) => .ok (d ++ h, t)
      | .err => .err
      | .panic => .panic

/-- `encodeABIChildren(knownDynamic, includeLen)` given the children's (data, dynamic) -/
def layoutChildren (items : List (Bytes × Bool)) (knownDynamic includeLen : Bool) : Outcome (Bytes × Bool) :=
  let headLen := (items.map fun (d, dyn) => if dyn then 32 else d.length).sum
  let dynamic := knownDynamic || items.any (·.2)
  match writeChildren items headLen with
  | .ok (h, t) =>
    if includeLen then
      match fillBytes? items.length 32 with
      | .ok c => .ok (c ++ h ++ t, dynamic)
      | _ => .panic
    else .ok (h ++ t, dynamic)
  | .err => .err
  | .panic => .panic

mutual
  /-- `ComponentValue.encodeABIData` (the value's component is `t`) -/
  def encode : Ty → CV → Outcome (Bytes × Bool)
    | .elem info _ m _, v => encodeElem info m v
    | .farr t _, .kids cs =>
      match encodeSame t cs with
      | .ok items => layoutChildren items false false
      | .err => .err
      | .panic => .panic
    | .darr t, .kids cs =>
      match encodeSame t cs with
      | .ok items => layoutChildren items true true
      | .err => .err
      | .panic => .panic
    | .tuple _ ts, .kids cs =>
      match encodeEach ts cs with
      | .ok items => layoutChildren items false false
      | .err => .err
      | .panic => .panic
    | _, _ => .err
  /-- children of an array: every child has the array's child type -/
  def encodeSame : Ty → List CV → Outcome (List (Bytes × Bool))
    | _, [] => .ok []
    | t, c :: cs =>
      match encode t c, encodeSame t cs with
      | .ok x, .ok xs => .ok (x :: xs)
      | .panic, _ => .panic
      | _, .panic => .panic
      | _, _ => .err
  /-- children of a tuple: pairwise with the tuple's child types (a ComponentValue tree built by walkInput or by
      the decoder always has equal lengths; a length mismatch is reported as an error here) -/
  def encodeEach : List Ty → List CV → Outcome (List (Bytes × Bool))
    | [], [] => .ok []
    | t :: ts, c :: cs =>
      match encode t c, encodeEach ts cs with
      | .ok x, .ok xs => .ok (x :: xs)
      | .panic, _ => .panic
      | _, .panic => .panic
      | _, _ => .err
    | _, _ => .err
end

/-- `EncodeABIDataCtx` : data only -/
def encodeData (t : Ty) (v : CV) : Outcome Bytes :=
  match encode t v with
  | .ok (d, _) => .ok d
  | .err => .err
  | .panic => .panic

/-! ### Decoder -/

/-- `decodeABILength(block, offset)` -/
def decodeLength (block : Bytes) (offset : Nat) : Outcome Nat :=
  if offset + 32 > block.length then .err
  else
    match slice? block offset (offset + 32) with
    | .ok w => let i := fromBE w; if bitLen i > 32 then .err else .ok i
    | .err => .err
    | .panic => .panic

/-- `ParseInt256TwosComplementBytes` -/
def parseInt256 (b : Bytes) : Int :=
  let i : Int := fromBE b
  if i < 2 ^ 255 then i else i - 2 ^ 256

/-- the elementary `decodeABIData` functions at (headStart, headPosition) -/
def decodeElem (info : ElemInfo) (m : Nat) (block : Bytes) (headStart headPos : Nat) : Outcome CV :=
  match codecOf info.dec with
  | .sint =>
    if headPos + 32 > block.length then .err
    else (slice? block headPos (headPos + 32)).bind fun w => .ok (.int (parseInt256 w))
  | .uint =>
    if headPos + 32 > block.length then .err
    else (slice? block (headPos + (32 - m / 8)) (headPos + 32)).bind fun w => .ok (.int (fromBE w))
  | .bytes | .string =>
    let wrap (b : Bytes) : CV := if codecOf info.dec = .string then .str b else .bytes b
    if m = 0 then
      match decodeLength block headPos with
      | .ok off =>
        let dataOffset := headStart + off
        match decodeLength block dataOffset with
        | .ok byteLength =>
          if dataOffset + 32 + byteLength > block.length then .err
          else .ok (wrap ((block.drop (dataOffset + 32)).take byteLength))
        | .err => .err
        | .panic => .panic
      | .err => .err
      | .panic => .panic
    else
      if headPos + m > block.length then .err
      else .ok (wrap ((block.drop headPos).take m))
  | .float => .err   -- not modelled

mutual
  /-- `isDynamicType` -/
  def isDynamicType : Ty → Bool
    | .elem info suffix _ _ =>
      match info.dyn with
      | .never => false
      | .always => true
      | .whenNoSuffix => suffix == ""
    | .farr t k => if k = 0 then false else isDynamicType t
    | .darr _ => true
    | .tuple _ ts => anyDynamic ts
  def anyDynamic : List Ty → Bool
    | [] => false
    | t :: ts => isDynamicType t || anyDynamic ts
end

/-- the loop of decodeABIFixedArrayBytes / decodeABIDynamicArrayBytes / walkDynamicChildArrayABIBytes over `n`
    children of the same type: `dec headStart headPosition` decodes one child -/
def decodeRepeat (dec : Nat → Nat → Outcome (Nat × CV)) : Nat → Nat → Nat → Outcome (Nat × List CV)
  | 0, _, _ => .ok (0, [])
  | n + 1, headStart, headPos =>
    match dec headStart headPos with
    | .ok (r, c) =>
      match decodeRepeat dec n headStart (headPos + r) with
      | .ok (rs, cs) => .ok (r + rs, c :: cs)
      | .err => .err
      | .panic => .panic
    | .err => .err
    | .panic => .panic

/-- the loop of decodeABIDynamicArrayBytes: as `decodeRepeat`, and a child that consumed no head bytes is refused
    when the count exceeds the fixed cap (`over`) -/
def decodeRepeatDyn (dec : Nat → Nat → Outcome (Nat × CV)) (over : Bool) : Nat → Nat → Nat → Outcome (Nat × List CV)
  | 0, _, _ => .ok (0, [])
  | n + 1, headStart, headPos =>
    match dec headStart headPos with
    | .ok (r, c) =>
      if Gen.AbiCodecFacts.zeroSizeCountBounded && over && r == 0 then .err
      else
        match decodeRepeatDyn dec over n headStart (headPos + r) with
        | .ok (rs, cs) => .ok (r + rs, c :: cs)
        | .err => .err
        | .panic => .panic
    | .err => .err
    | .panic => .panic

mutual
  /-- `decodeABIElement(block, headStart, headPosition, component)` : (headBytesRead, value) -/
  def decode : Ty → Bytes → Nat → Nat → Outcome (Nat × CV)
    | .elem info _ m _, block, hs, hp =>
      match decodeElem info m block hs hp with
      | .ok v => .ok (32, v)
      | .err => .err
      | .panic => .panic
    | .farr t k, block, hs, hp =>
      if isDynamicType (.farr t k) then
        match decodeLength block hp with
        | .ok off =>
          match decodeRepeat (decode t block) k (hs + off) (hs + off) with
          | .ok (_, cs) => .ok (32, .kids cs)
          | .err => .err
          | .panic => .panic
        | .err => .err
        | .panic => .panic
      else
        match decodeRepeat (decode t block) k hs hp with
        | .ok (r, cs) => .ok (r, .kids cs)
        | .err => .err
        | .panic => .panic
    | .darr t, block, hs, hp =>
      match decodeLength block hp with
      | .ok off =>
        match decodeLength block (hs + off) with
        | .ok count =>
          match decodeRepeatDyn (decode t block) (decide (count > Gen.AbiCodecFacts.maxEmptyElementCount)) count (hs + off + 32) (hs + off + 32) with
          | .ok (_, cs) => .ok (32, .kids cs)
          | .err => .err
          | .panic => .panic
        | .err => .err
        | .panic => .panic
      | .err => .err
      | .panic => .panic
    | .tuple ns ts, block, hs, hp =>
      if isDynamicType (.tuple ns ts) then
        match decodeLength block hp with
        | .ok off =>
          match decodeList ts block (hs + off) (hs + off) with
          | .ok (_, cs) => .ok (32, .kids cs)
          | .err => .err
          | .panic => .panic
        | .err => .err
        | .panic => .panic
      else
        match decodeList ts block hs hp with
        | .ok (r, cs) => .ok (r, .kids cs)
        | .err => .err
        | .panic => .panic
  /-- `walkDynamicChildArrayABIBytes` over tuple children -/
  def decodeList : List Ty → Bytes → Nat → Nat → Outcome (Nat × List CV)
    | [], _, _, _ => .ok (0, [])
    | t :: ts, block, hs, hp =>
      match decode t block hs hp with
      | .ok (r, c) =>
        match decodeList ts block hs (hp + r) with
        | .ok (rs, cs) => .ok (r + rs, c :: cs)
        | .err => .err
        | .panic => .panic
      | .err => .err
      | .panic => .panic
end

/-- `ParameterArray.DecodeABIDataCtx(b, offset)` = `walkTupleABIBytes` on the parameter tuple -/
def decodeParams (ts : List Ty) (block : Bytes) (offset : Nat) : Outcome CV :=
  match decodeList ts block offset offset with
  | .ok (_, cs) => .ok (.kids cs)
  | .err => .err
  | .panic => .panic

end FFS.Model.Abi
