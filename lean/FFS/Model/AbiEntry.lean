/-
  FFS.Model.AbiEntry — model of the entry-level functions of /repo/pkg/abi/abi.go: SignatureCtx,
  GenerateFunctionSelectorCtx, SignatureHashCtx, EncodeCallDataCtx, DecodeCallDataCtx, topicToValue,
  DecodeEventDataCtx, ParseErrorCtx.
-/
import FFS.Model.AbiCodec
import FFS.Prim.Keccak
import FFS.Gen.AbiEntryFacts
namespace FFS.Model.Abi
open FFS

structure Entry where
  type : String        -- function | constructor | receive | fallback | event | error
  name : String
  anonymous : Bool
  inputs : List Param
deriving Repr, Inhabited

def utf8b (s : String) : Bytes := s.toUTF8.toList

/-- `SignatureCtx`: name(type,…) from the parsed type trees -/
def signature (e : Entry) : Outcome String :=
  match parseParams e.inputs with
  | .ok ts => .ok (e.name ++ "(" ++ renderList ts ++ ")")
  | .err => .err
  | .panic => .panic

/-- `SignatureHashCtx` -/
def signatureHash (e : Entry) : Outcome Bytes := (signature e).map fun s => Prim.keccak256 (utf8b s)

/-- `GenerateFunctionSelectorCtx`: k[0:4] -/
def selector (e : Entry) : Outcome Bytes := (signatureHash e).map fun h => h.take 4

def inputsTy (e : Entry) : Outcome Ty :=
  match parseParams e.inputs with
  | .ok ts => .ok (.tuple (e.inputs.map Param.name) ts)
  | .err => .err
  | .panic => .panic

/-- `EncodeCallDataCtx(cv)` -/
def encodeCallData (e : Entry) (cv : CV) : Outcome Bytes :=
  match selector e, inputsTy e with
  | .ok id, .ok t =>
    match encodeData t cv with
    | .ok d => .ok (id ++ d)
    | .err => .err
    | .panic => .panic
  | .panic, _ => .panic
  | _, .panic => .panic
  | _, _ => .err

/-- `DecodeCallDataCtx(b)`: length test, selector comparison, then decode at offset 4 -/
def decodeCallData (e : Entry) (b : Bytes) : Outcome CV :=
  match selector e with
  | .ok id =>
    if b.length < 4 then .err
    else if Gen.AbiEntryFacts.selectorChecked && id != b.take 4 then .err
    else
      match parseParams e.inputs with
      | .ok ts => decodeParams ts b 4
      | .err => .err
      | .panic => .panic
  | .err => .err
  | .panic => .panic

/-- `topicToValue`: fixed32 elementary types are decoded from the topic, everything else is the raw topic -/
def topicToValue (t : Ty) (topic : Bytes) : Outcome CV :=
  match t with
  | .elem info _ m _ => if info.fixed32 then decodeElem info m topic 0 0 else .ok (.bytes topic)
  | _ => .ok (.bytes topic)

/-- the loop of `DecodeEventDataCtx` over the inputs: consumes topics for indexed inputs; returns, per input,
    either the value taken from a topic or `none` (to be filled from data), and the data-argument types -/
def eventWalk : List Param → List Ty → List Bytes → Outcome (List (Option CV) × List Ty)
  | p :: ps, t :: ts, topics =>
    if p.indexed then
      match topics with
      | [] => .err
      | topic :: rest =>
        match topicToValue t topic with
        | .ok v => (eventWalk ps ts rest).map fun (vs, dts) => (some v :: vs, dts)
        | .err => .err
        | .panic => .panic
    else (eventWalk ps ts topics).map fun (vs, dts) => (none :: vs, t :: dts)
  | _, _, _ => .ok ([], [])

/-- put the decoded data arguments back at their original positions -/
def fillFromData : List (Option CV) → List CV → List CV
  | some v :: r, ds => v :: fillFromData r ds
  | none :: r, d :: ds => d :: fillFromData r ds
  | none :: r, [] => .kids [] :: fillFromData r []   -- unreachable: decode returns one value per data type
  | [], _ => []

/-- `DecodeEventDataCtx(topics, data)` -/
def decodeEventData (e : Entry) (topics : List Bytes) (data : Bytes) : Outcome CV :=
  match parseParams e.inputs, signatureHash e with
  | .ok ts, .ok sigHash =>
    let afterSig : Outcome (List Bytes) :=
      if e.anonymous then .ok topics
      else
        match topics with
        | [] => if Gen.AbiEntryFacts.eventRequiresTopic0 then .err else .ok []
        | t0 :: rest => if t0 != sigHash then .err else .ok rest
    match afterSig with
    | .ok remaining =>
      match eventWalk e.inputs ts remaining with
      | .ok (slots, dataTys) =>
        if dataTys.isEmpty then .ok (.kids (fillFromData slots []))
        else
          match decodeParams dataTys data 0 with
          | .ok (.kids ds) => .ok (.kids (fillFromData slots ds))
          | .ok _ => .panic
          | .err => .err
          | .panic => .panic
      | .err => .err
      | .panic => .panic
    | .err => .err
    | .panic => .panic
  | .panic, _ => .panic
  | _, .panic => .panic
  | _, _ => .err

def defaultError : Entry :=
  { type := "error", name := "Error", anonymous := false, inputs := [.mk "reason" "string" false "" []] }

/-- `ParseErrorCtx`: the default Error(string) first, then the ABI's error entries in order; first that decodes -/
def parseError (abi : List Entry) (revertData : Bytes) : Option (Nat × CV) :=
  let all := defaultError :: abi
  let rec go : List Entry → Nat → Option (Nat × CV)
    | [], _ => none
    | e :: es, i =>
      if e.type == "error" then
        match decodeCallData e revertData with
        | .ok cv => some (i, cv)
        | _ => go es (i + 1)
      else go es (i + 1)
  go all 0

end FFS.Model.Abi
