/-
  FFS.Model.FsWalletConc — the discovery / notification state machine of pkg/fswallet (fswallet.go:
  AddListener, GetAccounts, Refresh → notifyNewFiles, fsListenerLoop → notifyNewFiles, the dispatch goroutine).

  Every operation that touches `addressToFileMap`, `addressList` or `listeners` runs with `w.mux` held
  (Gen.FsWalletFacts.lockTable, regenerated from the source), so each is one atomic step of this machine;
  a dispatch goroutine owns a private copy of the listener slice and of the new addresses and performs its
  channel sends one at a time, outside the lock (`deliver`). Any interleaving of goroutines is therefore a
  sequence of these steps, and a statement about every reachable state is a statement about every schedule.
-/
namespace FFS.Model.FsWalletConc

abbrev Addr := Nat
abbrev Lid := Nat

structure St where
  fileMap : List (Addr × String)          -- addressToFileMap, latest binding first
  known : List Addr                        -- addressList
  listeners : List Lid                     -- registered channels
  queues : List (List (Lid × Addr))        -- one per dispatch goroutine: sends not yet performed, in order
  delivered : List (Lid × Addr)            -- sends performed so far
deriving Repr, Inhabited

def init : St := { fileMap := [], known := [], listeners := [], queues := [], delivered := [] }

def lookup (m : List (Addr × String)) (a : Addr) : Option String := (m.find? (·.1 == a)).map (·.2)

/-- the loop of `notifyNewFiles` over the files handed in: (file name, address matched by matchFilename) -/
def scan : List (String × Option Addr) → List (Addr × String) → List Addr → List Addr →
    List (Addr × String) × List Addr × List Addr
  | [], m, k, n => (m, k, n)
  | (_, none) :: fs, m, k, n => scan fs m k n
  | (name, some a) :: fs, m, k, n =>
    match lookup m a with
    | some existing => if existing != name then scan fs ((a, name) :: m) k n else scan fs m k n
    | none => if "" != name then scan fs ((a, name) :: m) (k ++ [a]) (n ++ [a]) else scan fs m k n

inductive Op where
  | notify (files : List (String × Option Addr))   -- one call of notifyNewFiles (from Refresh or from an fs event)
  | addListener (l : Lid)
  | deliver (i : Nat)                               -- dispatch goroutine i performs its next send
  | getAccounts                                     -- reads `known` (no state change)
deriving Repr, Inhabited

/-- remove the head of queue `i` -/
def popAt : List (List (Lid × Addr)) → Nat → Option ((Lid × Addr) × List (List (Lid × Addr)))
  | [], _ => none
  | [] :: _, 0 => none
  | (x :: r) :: qs, 0 => some (x, r :: qs)
  | q :: qs, i + 1 => (popAt qs i).map fun p => (p.1, q :: p.2)

def dispatchOf (ls : List Lid) (new : List Addr) : List (Lid × Addr) :=
  ls.flatMap fun l => new.map fun a => (l, a)

def step (s : St) : Op → St
  | .notify files =>
    let r := scan files s.fileMap s.known []
    { s with fileMap := r.1, known := r.2.1, queues := s.queues ++ [dispatchOf s.listeners r.2.2] }
  | .addListener l => { s with listeners := s.listeners ++ [l] }
  | .deliver i =>
    match popAt s.queues i with
    | some (x, qs) => { s with queues := qs, delivered := s.delivered ++ [x] }
    | none => s
  | .getAccounts => s

/-- a listener channel is registered once (registering the same channel twice is asking for two copies) -/
def okOp (s : St) : Op → Prop
  | .addListener l => l ∉ s.listeners
  | _ => True

inductive Reach : St → Prop where
  | init : Reach init
  | step {s : St} (op : Op) : Reach s → okOp s op → Reach (step s op)

def run (s : St) (ops : List Op) : St := ops.foldl step s

/-- everything sent or still to be sent -/
def sends (s : St) : List (Lid × Addr) := s.delivered ++ s.queues.flatten

end FFS.Model.FsWalletConc
