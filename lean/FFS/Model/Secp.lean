/-
  FFS.Model.Secp — model of /repo/pkg/secp256k1 (signer.go, keypair.go).
  The elliptic-curve library (btcec `SignCompact` / `RecoverCompact`, key derivation, point serialisation) is a
  parameter `C : Curve`; theorems assume `C.Lawful`, the driver instantiates the executable secp256k1 of FFS.Prim.
  V handling, padding, the compact codec and the address formula are modelled exactly, including int64 / byte
  narrowing. The `switch` arms and tests of getVNormalized are the translated Go expressions of Gen.SecpConsts.
-/
import FFS.Util.Basic
import FFS.Prim.Keccak
import FFS.Gen.SecpConsts
namespace FFS.Model.Secp
open FFS FFS.Gen.SecpConsts

/-- wrap an integer into the int64 range (two's complement) -/
def wrap64 (z : Int) : Int := (z + 2 ^ 63) % 2 ^ 64 - 2 ^ 63

/-- `big.Int.IsInt64()` -/
def isInt64 (z : Int) : Bool := decide (-(2 ^ 63) ≤ z) && decide (z < 2 ^ 63)

/-- `big.Int.Int64()`: low 64 bits of |z|, negated when z < 0, as int64 -/
def bigInt64 (z : Int) : Int :=
  wrap64 (if z < 0 then -((z.natAbs % 2 ^ 64 : Nat) : Int) else ((z.natAbs % 2 ^ 64 : Nat) : Int))

/-- Go `byte(x)` of an int64 -/
def byteOf (x : Int) : Int := x % 256

structure Sig where
  V : Option Int
  R : Option Int
  S : Option Int
deriving Repr, DecidableEq

/-- `getVNormalized(chainID)`. The arm value is computed in wrapping int64, then narrowed to a byte. -/
def getVNormalized (V : Option Int) (cid : Int) : Outcome Int :=
  match V with
  | none => if vChecksInt64 then .err else .panic   -- `s.V.Int64()` on a nil *big.Int
  | some V =>
    if vChecksInt64 && !isInt64 V then .err
    else
      let v := bigInt64 V
      let vB := byteOf (wrap64 (vArm v cid))
      if vReject vB then .err else .ok vB

/-- `UpdateEIP155(chainID)`: V += chainID*2 + (35-27) -/
def updateEIP155 (V : Int) (cid : Int) : Int := V + cid * eip155Mul + eip155Add

/-- `UpdateEIP2930()`: 27/28 ↦ 0/1 -/
def updateEIP2930 (V : Int) : Int := if eip2930Cond (bigInt64 V) then V - eip2930Sub else V

/-- The elliptic-curve library as a parameter. -/
structure Curve where
  Pub : Type
  /-- curve order -/
  n : Nat
  /-- public key of a private scalar (btcec.PrivKeyFromBytes) -/
  pub : Nat → Pub
  /-- `ecdsa.SignCompact(key, digest, false)` unpacked: (sig[0], R, S) -/
  signCompact : Nat → Bytes → Nat × Nat × Nat
  /-- `ecdsa.RecoverCompact(v ‖ r32 ‖ s32, digest)` -/
  recoverCompact : Nat → Bytes → Bytes → Bytes → Option Pub
  /-- `SerializeUncompressed()[1:]` : X ‖ Y -/
  ser : Pub → Bytes

/-- What the wrapper needs from the library (hypotheses of the theorems, not proved for secp256k1). -/
structure Curve.Lawful (C : Curve) : Prop where
  sign_v : ∀ k z, (C.signCompact k z).1 = 27 ∨ (C.signCompact k z).1 = 28
  sign_r : ∀ k z, 1 ≤ (C.signCompact k z).2.1 ∧ (C.signCompact k z).2.1 < C.n
  sign_s : ∀ k z, 1 ≤ (C.signCompact k z).2.2 ∧ 2 * (C.signCompact k z).2.2 ≤ C.n
  n_lt : C.n < 2 ^ 256
  recover_sign : ∀ k z, 1 ≤ k → k < C.n →
    C.recoverCompact (C.signCompact k z).1 (toBE 32 (C.signCompact k z).2.1) (toBE 32 (C.signCompact k z).2.2) z
      = some (C.pub k)

/-- `PublicKeyToAddress`: last 20 bytes of keccak256(X ‖ Y) -/
def addressOf (C : Curve) (p : C.Pub) : Bytes := (Prim.keccak256 (C.ser p)).drop 12

/-- `KeyPairFromBytes(b).Address` -/
def keyAddress (C : Curve) (k : Nat) : Bytes := addressOf C (C.pub k)

/-- the nil / sign / width test the fix: commit added before FillBytes -/
def rsOK (x : Option Int) : Bool :=
  match x with
  | none => false
  | some z => decide (0 ≤ z) && decide (z < 2 ^ 256)

/-- `RecoverDirect(digest, chainID)` -/
def recoverDirect (C : Curve) (sig : Sig) (digest : Bytes) (cid : Int) : Outcome Bytes :=
  match getVNormalized sig.V cid with
  | .err => .err
  | .panic => .panic
  | .ok vB =>
    if !(rsOK sig.R && rsOK sig.S) then .err
    else
      match fillBytes? (sig.R.getD 0).toNat 32, fillBytes? (sig.S.getD 0).toNat 32 with
      | .ok r32, .ok s32 =>
        match C.recoverCompact vB.toNat r32 s32 digest with
        | some p => .ok (addressOf C p)
        | none => .err
      | .panic, _ => .panic
      | _, .panic => .panic
      | _, _ => .err

/-- `Recover(message, chainID)` hashes first -/
def recover (C : Curve) (sig : Sig) (msg : Bytes) (cid : Int) : Outcome Bytes :=
  recoverDirect C sig (Prim.keccak256 msg) cid

/-- `SignDirect(digest)` -/
def signDirect (C : Curve) (k : Nat) (digest : Bytes) : Sig :=
  let (v, r, s) := C.signCompact k digest
  { V := some v, R := some r, S := some s }

/-- `Sign(message)` hashes first -/
def sign (C : Curve) (k : Nat) (msg : Bytes) : Sig := signDirect C k (Prim.keccak256 msg)

/-- `CompactRSV()` : R(32) ‖ S(32) ‖ byte(V.Int64()) -/
def compactRSV (sig : Sig) : Outcome Bytes :=
  match sig.R, sig.S, sig.V with
  | some r, some s, some v =>
    match fillBytes? r.natAbs 32, fillBytes? s.natAbs 32 with
    | .ok r32, .ok s32 => .ok (r32 ++ s32 ++ [UInt8.ofNat (byteOf (bigInt64 v)).toNat])
    | _, _ => .panic
  | _, _, _ => .panic

/-- `DecodeCompactRSV` -/
def decodeCompactRSV (b : Bytes) : Outcome Sig :=
  if b.length ≠ 65 then .err
  else .ok { R := some (fromBE (b.take 32)), S := some (fromBE ((b.drop 32).take 32)), V := some (fromBE ((b.drop 64).take 1)) }

end FFS.Model.Secp
