/-
  FFS.Model.EthTypes — model of /repo/pkg/ethtypes: integer_parsing.go, hexinteger.go, hexuint64.go,
  address.go, hexbytes.go.

  `big.Int.SetString(s, 0)` is modelled in full (sign, base prefixes, octal by leading 0, `_` separators).
  `big.ParseFloat(s, 10, 256, ToNearestEven)` + `Float.Int` and the confirming `big.Rat.SetString` are external
  library calls: their outcomes are parameters (`ExtNum`) supplied by the harness from the real libraries.
-/
import FFS.Util.Basic
import FFS.Prim.Keccak
import FFS.Gen.EthConsts
namespace FFS.Model.EthTypes
open FFS

/-- digit value as in math/big `nat.scan`: 0-9, a-z, A-Z (both cases 10..35) -/
def digitVal (c : Char) : Option Nat :=
  if '0' ≤ c ∧ c ≤ '9' then some (c.toNat - 48)
  else if 'a' ≤ c ∧ c ≤ 'z' then some (c.toNat - 97 + 10)
  else if 'A' ≤ c ∧ c ≤ 'Z' then some (c.toNat - 65 + 10)
  else none

/-- state of the digit loop of `nat.scan`: accumulated value, digit count, previous-char class
    (`true` = previous char was a digit or the leading 0 / prefix position), invalid-separator flag -/
structure ScanSt where
  acc : Nat
  count : Nat
  prevDigit : Bool
  prevSep : Bool
  invalSep : Bool

/-- the digit loop: consumes digits of base `b` and `_` separators; returns final state and the rest -/
def scanDigits (b : Nat) : List Char → ScanSt → ScanSt × List Char
  | [], st => (st, [])
  | c :: cs, st =>
    if c = '_' then
      scanDigits b cs { st with invalSep := st.invalSep || !st.prevDigit, prevDigit := false, prevSep := true }
    else
      match digitVal c with
      | some d =>
        if d < b then
          scanDigits b cs { st with acc := st.acc * b + d, count := st.count + 1, prevDigit := true, prevSep := false }
        else (st, c :: cs)
      | none => (st, c :: cs)

/-- `nat.scan(r, 0, false)` followed by the end-of-string test of `Int.SetString`: magnitude or failure -/
def scanNat0 (s : List Char) : Option Nat :=
  let finish (prefixIsOctal0 : Bool) (r : ScanSt × List Char) : Option Nat :=
    let (st, rest) := r
    if !rest.isEmpty then none
    else if st.invalSep || st.prevSep then none
    else if st.count = 0 then (if prefixIsOctal0 then some 0 else none)
    else some st.acc
  match s with
  | '0' :: [] => some 0
  | '0' :: c :: cs =>
    if c = 'b' ∨ c = 'B' then finish false (scanDigits 2 cs ⟨0, 0, true, false, false⟩)
    else if c = 'o' ∨ c = 'O' then finish false (scanDigits 8 cs ⟨0, 0, true, false, false⟩)
    else if c = 'x' ∨ c = 'X' then finish false (scanDigits 16 cs ⟨0, 0, true, false, false⟩)
    else finish true (scanDigits 8 (c :: cs) ⟨0, 0, true, false, false⟩)
  | _ => finish false (scanDigits 10 s ⟨0, 0, false, false, false⟩)

/-- `new(big.Int).SetString(s, 0)` -/
def setString0 (s : List Char) : Option Int :=
  match s with
  | [] => none
  | '+' :: cs => (scanNat0 cs).map fun n => (n : Int)
  | '-' :: cs => (scanNat0 cs).map fun n => -(n : Int)
  | _ => (scanNat0 s).map fun n => (n : Int)

/-- outcome of an external numeric library call on the same text -/
inductive ExtNum where
  | fail            -- parse error
  | notInt          -- parsed, but not an integer (Float.Int accuracy ≠ Exact / !Rat.IsInt)
  | int (z : Int)   -- parsed to exactly this integer (as far as that library is concerned)
deriving Repr, DecidableEq

/-- `BigIntegerFromString(s)`; `fl` = ParseFloat(…,256)+Int, `rat` = big.Rat.SetString -/
def bigIntegerFromString (s : List Char) (fl rat : ExtNum) : Outcome Int :=
  match setString0 s with
  | some z => .ok z
  | none =>
    match fl with
    | .fail => .err
    | .notInt => .err
    | .int i =>
      if Gen.EthConsts.ratConfirmed then
        match rat with
        | .fail => .ok i
        | .notInt => .err
        | .int q => if q = i then .ok i else .err
      else .ok i

/-- the JSON value handed to `UnmarshalBigInt` after `json.Decoder.UseNumber` -/
inductive JNum where
  | invalid                 -- not valid JSON
  | number (lit : List Char)
  | string (s : List Char)
  | other                   -- null, bool, array, object
deriving Repr

def unmarshalBigInt (j : JNum) (fl rat : ExtNum) : Outcome Int :=
  match j with
  | .invalid => .err
  | .other => .err
  | .number lit => bigIntegerFromString lit fl rat
  | .string s => bigIntegerFromString s fl rat

/-- `HexInteger.UnmarshalJSON` -/
def hexIntegerUnmarshal (j : JNum) (fl rat : ExtNum) : Outcome Int :=
  match unmarshalBigInt j fl rat with
  | .ok z => if Gen.EthConsts.hexIntRejectsNegative && decide (z < 0) then .err else .ok z
  | .err => .err
  | .panic => .panic

/-- `HexUint64.UnmarshalJSON` -/
def hexUint64Unmarshal (j : JNum) (fl rat : ExtNum) : Outcome Nat :=
  match unmarshalBigInt j fl rat with
  | .ok z =>
    if Gen.EthConsts.hexU64ChecksRange && !(decide (0 ≤ z) && decide (z < 2 ^ 64)) then .err
    else .ok (z % 2 ^ 64).toNat   -- `bi.Uint64()` keeps the low 64 bits of |z| (sign dropped) when unchecked
  | .err => .err
  | .panic => .panic

def hexChar (n : Nat) : Char := if n < 10 then Char.ofNat (48 + n) else Char.ofNat (87 + n)

/-- lower-case hex digits of n without leading zeros; 0 ↦ "0" (`big.Int.Text(16)`, `strconv.FormatUint(_,16)`) -/
def natToHex (n : Nat) : List Char :=
  if h : n < 16 then [hexChar n] else natToHex (n / 16) ++ [hexChar (n % 16)]
termination_by n
decreasing_by omega

/-- `HexInteger.String()` : "0x" + Text(16) (a negative value prints as 0x-…) -/
def hexIntegerString (z : Int) : List Char :=
  if z < 0 then '0' :: 'x' :: '-' :: natToHex z.natAbs else '0' :: 'x' :: natToHex z.natAbs

def hexUint64String (n : Nat) : List Char := '0' :: 'x' :: natToHex n

/-- `hex.EncodeToString` -/
def hexEncode : Bytes → List Char
  | [] => []
  | b :: bs => hexChar (b.toNat / 16) :: hexChar (b.toNat % 16) :: hexEncode bs

def hexDigitVal (c : Char) : Option Nat :=
  if '0' ≤ c ∧ c ≤ '9' then some (c.toNat - 48)
  else if 'a' ≤ c ∧ c ≤ 'f' then some (c.toNat - 87)
  else if 'A' ≤ c ∧ c ≤ 'F' then some (c.toNat - 55)
  else none

/-- `hex.DecodeString`: even length, hex digits in either case -/
def hexDecode : List Char → Option Bytes
  | [] => some []
  | [_] => none
  | a :: b :: rest =>
    match hexDigitVal a, hexDigitVal b, hexDecode rest with
    | some x, some y, some r => some (UInt8.ofNat (x * 16 + y) :: r)
    | _, _, _ => none

/-- `strings.TrimPrefix(s, "0x")` -/
def trim0x : List Char → List Char
  | '0' :: 'x' :: rest => rest
  | s => s

/-- `HexBytesPlain.UnmarshalJSON` / `NewHexBytes0xPrefix` on the string value -/
def hexBytesParse (s : List Char) : Outcome Bytes :=
  match hexDecode (trim0x s) with
  | some b => .ok b
  | none => .err

/-- `Address0xHex.SetString` -/
def addressSetString (s : List Char) : Outcome Bytes :=
  match hexDecode (trim0x s) with
  | some b => if Gen.EthConsts.addrChecksLen && b.length != 20 then .err else .ok (b.take 20 ++ zeros (20 - b.length))
  | none => .err

def address0xString (a : Bytes) : List Char := '0' :: 'x' :: hexEncode a
def addressPlainString (a : Bytes) : List Char := hexEncode a

def charBytes (cs : List Char) : Bytes := cs.map fun c => UInt8.ofNat c.toNat

/-- `AddressWithChecksum.String()` — EIP-55: hash the lower-case hex; upper-case where the hash nibble ≥ 8 -/
def addressChecksumString (a : Bytes) : List Char :=
  let hexAddr := hexEncode a
  let hexHash := hexEncode (Prim.keccak256 (charBytes hexAddr))
  '0' :: 'x' :: (List.zipWith (fun c h => if (hexDigitVal h).getD 0 ≥ 8 then c.toUpper else c.toLower) hexAddr hexHash)

end FFS.Model.EthTypes
