/-
  FFS.Model.FsWallet — sequential model of /repo/pkg/fswallet/fswallet.go: matchFilename, notifyNewFiles, Refresh,
  GetAccounts, GetWalletFile (cache, map lookup, load, derived-address comparison before caching),
  loadWalletFile / getKeyAndPasswordFiles (password file resolution, trimming, default password).
  Parameters evaluated by the harness with the real libraries: regexp captures, TOML/YAML/JSON metadata parsing
  with text/template expansion, JSON decoding of keystore files (hook VerifParse). The curve is a parameter.
-/
import FFS.Model.EthTypes
import FFS.Model.Keystore
import FFS.Model.Secp
import FFS.Gen.FsWalletFacts
namespace FFS.Model.FsWallet
open FFS FFS.Model.EthTypes FFS.Model.Keystore

abbrev Addr := Bytes   -- 20 bytes

structure Config where
  path : String
  primaryExt : String
  useRegex : Bool
  with0xPrefix : Bool
  passwordExt : String
  passwordPath : String
  passwordTrimSpace : Bool
  defaultPasswordFile : String
  metadataFormat : String      -- as configured ("auto", "toml", "", …)
deriving Repr, Inhabited

/-- a directory entry as `os.FileInfo`, plus the regexp's verdict on its name when a regexp is configured -/
structure FileView where
  name : String
  isDir : Bool
  regexCapture : Option String   -- `FindStringSubmatch(name)[1]`, `none` when there is no match
deriving Repr, Inhabited

def hasSuffix (s suffix : String) : Bool := s.endsWith suffix
def trimSuffix (s suffix : String) : String :=
  if s.endsWith suffix then String.ofList (s.toList.take (s.length - suffix.length)) else s

/-- `ethtypes.NewAddress(s)` -/
def newAddress (s : String) : Option Addr :=
  match addressSetString s.toList with
  | .ok a => some a
  | _ => none

/-- `matchFilename(f)` -/
def matchFilename (cfg : Config) (f : FileView) : Option Addr :=
  if f.isDir then none
  else if cfg.useRegex then
    match f.regexCapture with
    | none => none
    | some cap => newAddress cap
  else if Gen.FsWalletFacts.extMismatchReturns && !hasSuffix f.name cfg.primaryExt then none
  else newAddress (trimSuffix f.name cfg.primaryExt)

structure State where
  addressToFileMap : List (Addr × String)
  addressList : List Addr
  cache : List (Addr × Bytes)     -- signerCache: address ↦ private key of the cached wallet file
deriving Repr, Inhabited

def State.init : State := ⟨[], [], []⟩

def mapLookup (m : List (Addr × String)) (a : Addr) : Option String := (m.find? (·.1 == a)).map (·.2)
def mapSet (m : List (Addr × String)) (a : Addr) (v : String) : List (Addr × String) := (a, v) :: m.filter (·.1 != a)

/-- the locked body of `notifyNewFiles(files…)`: returns the new state and the newly seen addresses -/
def notifyNewFiles (cfg : Config) (st : State) (files : List FileView) : State × List Addr :=
  files.foldl (fun (acc : State × List Addr) f =>
    let (s, news) := acc
    match matchFilename cfg f with
    | none => acc
    | some addr =>
      match mapLookup s.addressToFileMap addr with
      | some existing =>
        if existing != f.name then ({ s with addressToFileMap := mapSet s.addressToFileMap addr f.name }, news) else acc
      | none =>
        ({ s with addressToFileMap := mapSet s.addressToFileMap addr f.name, addressList := s.addressList ++ [addr] },
         news ++ [addr])) (st, [])

/-- file system contents relevant to loading: path ↦ bytes (absent = unreadable / missing) -/
abbrev Fs := List (String × Bytes)
def fsRead (fs : Fs) (p : String) : Option Bytes := (fs.find? (·.1 == p)).map (·.2)

/-- `path.Join(a, b)` for the clean relative/absolute paths the harness uses (no `.`/`..`, no doubled slashes) -/
def pathJoin (a b : String) : String := if a == "" then b else if b == "" then a else a ++ "/" ++ b

/-- outcome of the metadata branch of getKeyAndPasswordFiles for one primary file (harness: real parser + templates) -/
inductive MetaResult where
  | parseError
  | files (keyFile passwordFile : String)
deriving Repr, Inhabited

def asciiWhite (b : UInt8) : Bool := b == 0x20 || b == 0x09 || b == 0x0a || b == 0x0b || b == 0x0c || b == 0x0d

/-- `strings.TrimSpace` for ASCII passwords (the harness uses ASCII white space only around passwords) -/
def trimSpace (b : Bytes) : Bytes := ((b.dropWhile asciiWhite).reverse.dropWhile asciiWhite).reverse

/-- the effective metadata format: "auto" resolves to the primary extension without its leading dot -/
def effectiveFormat (cfg : Config) : String :=
  if cfg.metadataFormat.toLower == "auto" then
    (if cfg.primaryExt.startsWith "." then String.ofList (cfg.primaryExt.toList.drop 1) else cfg.primaryExt)
  else cfg.metadataFormat

def isMetaFormat (f : String) : Bool := f == "toml" || f == "tml" || f == "json" || f == "yaml" || f == "yml"

/-- `getKeyAndPasswordFiles`: (key file, password file) -/
def keyAndPasswordFiles (cfg : Config) (addr : Addr) (primaryFilename : String) (mres : MetaResult) :
    Option (String × String) :=
  if isMetaFormat (effectiveFormat cfg) then
    match mres with
    | .parseError => none
    | .files kf pf => if kf == "" then none else some (kf, pf)
  else
    let passwordPath := if cfg.passwordPath == "" then cfg.path else cfg.passwordPath
    let full := String.ofList (address0xString addr)
    let base := if cfg.with0xPrefix then full else (if full.startsWith "0x" then String.ofList (full.toList.drop 2) else full)
    some (primaryFilename, pathJoin passwordPath (base ++ cfg.passwordExt))

/-- `loadWalletFile(addr, primaryFilename)`: the decrypted private key. `ks` decodes a key file (VerifParse). -/
def loadWalletFile (cfg : Config) (fs : Fs) (ks : Bytes → KsFile) (metaOf : String → MetaResult)
    (addr : Addr) (primaryFilename : String) : Outcome Bytes :=
  match fsRead fs primaryFilename with
  | none => .err
  | some b =>
    match keyAndPasswordFiles cfg addr primaryFilename (metaOf primaryFilename) with
    | none => .err
    | some (keyFilename, passwordFilename) =>
      let keyBytes : Option Bytes := if keyFilename != primaryFilename then fsRead fs keyFilename else some b
      match keyBytes with
      | none => .err
      | some kb =>
        let pw1 : Option Bytes :=
          if passwordFilename != "" then
            (fsRead fs passwordFilename).map fun p => if cfg.passwordTrimSpace then trimSpace p else p
          else none
        let pw : Option Bytes := match pw1 with
          | some p => some p
          | none => if cfg.defaultPasswordFile == "" then none else fsRead fs cfg.defaultPasswordFile
        match pw with
        | none => .err
        | some password =>
          match readWalletFile (ks kb) password with
          | .ok key => .ok key
          | .err => .err
          | .panic => .panic

/-- `GetWalletFile(addr)` given the result of loading (any key material whatsoever) and the address the loaded
    key derives (`derive`): cache hit, map lookup, load, derived-address comparison, cache insert -/
def getWalletFile (derive : Bytes → Addr) (st : State) (addr : Addr) (load : String → Outcome Bytes) :
    State × Outcome Bytes :=
  match st.cache.find? (·.1 == addr) with
  | some (_, key) => (st, .ok key)
  | none =>
    match mapLookup st.addressToFileMap addr with
    | none => (st, .err)
    | some primary =>
      match load primary with
      | .ok key =>
        if Gen.FsWalletFacts.addressChecked && derive key != addr then (st, .err)
        else ({ st with cache := (addr, key) :: st.cache }, .ok key)
      | .err => (st, .err)
      | .panic => (st, .panic)

/-- operations of a sequential history; `evict` removes any subset of the cache (over-approximates ccache) -/
inductive Op where
  | notify (files : List FileView)              -- Refresh / file-system event
  | get (addr : Addr) (load : String → Outcome Bytes)
  | evict (keep : Addr → Bool)

def step (cfg : Config) (derive : Bytes → Addr) (st : State) : Op → State
  | .notify files => (notifyNewFiles cfg st files).1
  | .get addr load => (getWalletFile derive st addr load).1
  | .evict keep => { st with cache := st.cache.filter fun e => keep e.1 }

end FFS.Model.FsWallet
