/-
  FFS.Model.Eip712 — model of /repo/pkg/eip712/typed_data_v4.go (EncodeTypedDataV4, TypeSet.Encode,
  addNestedTypes, encodeType, encodeData, hashStruct, encodeElement, hashArray) over the ABI models
  (type-string parser, external value coercion, elementary encoders).
  The JSON → TypedData struct mapping is done by encoding/json in the harness (with UseNumber, after the fix).
-/
import FFS.Model.AbiIO
import FFS.Prim.Keccak
import FFS.Model.Secp
import FFS.Gen.Eip712Facts
namespace FFS.Model.Eip712
open FFS FFS.Model.Abi

structure Member where
  name : String
  type : String
deriving Repr, Inhabited

/-- a `Type` value: nil (JSON null) or a slice of nullable `*TypeMember` -/
abbrev TypeDef := Option (List (Option Member))

/-- `TypeSet`: a Go map (keys unique) -/
abbrev TypeSet := List (String × TypeDef)

def tsLookup (ts : TypeSet) (n : String) : Option TypeDef := (ts.find? (·.1 == n)).map (·.2)

def tsInsert (ts : TypeSet) (n : String) (t : TypeDef) : TypeSet :=
  (n, t) :: ts.filter (·.1 != n)

def keccak (b : Bytes) : Bytes := Prim.keccak256 b
def utf8 (s : String) : Bytes := s.toUTF8.toList

/-- the part of a type name before the first `[` -/
def baseName (typeName : String) : String := String.ofList (typeName.toList.takeWhile (· != '['))

/-- `addNestedTypes(typeName, allTypes, typeSet)`; fuel bounds the recursion depth (≤ number of types + 1) -/
def addNestedTypes : Nat → String → TypeSet → TypeSet → TypeSet
  | 0, _, _, typeSet => typeSet
  | fuel + 1, typeName, allTypes, typeSet =>
    let tn := baseName typeName
    match tsLookup allTypes tn with
    | none => typeSet
    | some t =>
      let visited := match tsLookup typeSet tn with | some (some _) => true | _ => false
      if visited then typeSet
      else
        let ts1 := tsInsert typeSet tn t
        match t with
        | none => ts1
        | some members =>
          members.foldl (fun acc m => match m with
            | none => if Gen.Eip712Facts.nilMemberGuard then acc else acc   -- unguarded: nil dereference (see encodeType)
            | some mem => addNestedTypes fuel mem.type allTypes acc) ts1

/-- `Type.Encode(name)` -/
def encodeTypeDef (name : String) (t : TypeDef) : String :=
  let members := (t.getD []).filterMap id
  name ++ "(" ++ ",".intercalate (members.map fun m => m.type ++ " " ++ m.name) ++ ")"

def bytesLt : Bytes → Bytes → Bool
  | [], [] => false
  | [], _ :: _ => true
  | _ :: _, [] => false
  | a :: as, b :: bs => if a.toNat < b.toNat then true else if a.toNat > b.toNat then false else bytesLt as bs

def insertSorted (x : String × TypeDef) : List (String × TypeDef) → List (String × TypeDef)
  | [] => [x]
  | y :: ys => if bytesLt (utf8 x.1) (utf8 y.1) then x :: y :: ys else y :: insertSorted x ys

/-- `sort.Strings` order (byte-wise) -/
def sortByName (l : List (String × TypeDef)) : List (String × TypeDef) := l.foldr insertSorted []

/-- `TypeSet.Encode(primaryType)` -/
def encodeTypeSet (ts : TypeSet) (primary : String) : String :=
  let prim := encodeTypeDef primary ((tsLookup ts primary).getD none)
  let refs := sortByName (ts.filter (·.1 != primary))
  prim ++ String.join (refs.map fun (n, t) => encodeTypeDef n t)

/-- `encodeType(typeName, allTypes)`: the type and its encoded dependency closure -/
def encodeType (typeName : String) (allTypes : TypeSet) : Outcome (List Member × String) :=
  match tsLookup allTypes typeName with
  | some (some members) =>
    let depSet := addNestedTypes (allTypes.length + 2) typeName allTypes []
    let hasNil := depSet.any fun (_, t) => (t.getD []).any Option.isNone
    if hasNil then (if Gen.Eip712Facts.nilMemberGuard then .err else .panic)
    else .ok (members.filterMap id, encodeTypeSet depSet typeName)
  | _ => .err   -- absent, or present as nil

/-- `strconv.Atoi` -/
def atoi (s : List Char) : Option Int :=
  let (neg, ds) := match s with | '-' :: r => (true, r) | '+' :: r => (false, r) | _ => (false, s)
  if ds.isEmpty then none
  else if ds.all (fun c => '0' ≤ c && c ≤ '9') then
    let v : Int := (ds.foldl (fun a c => a * 10 + (c.toNat - 48)) 0 : Nat)
    let z := if neg then -v else v
    if -(2 ^ 63 : Int) ≤ z ∧ z < 2 ^ 63 then some z else none
  else none

/-- position of the last `[` (chars), if any -/
def lastOpen (cs : List Char) : Option Nat :=
  let idx := cs.reverse.findIdx (· == '[')
  if idx < cs.length then some (cs.length - 1 - idx) else none

/-- `abiEncode(tc, v)` : ParseExternal + EncodeABIData for an elementary component -/
def abiEncode (info : ElemInfo) (m : Nat) (v : Ext) : Outcome Bytes :=
  match readElementary info v with
  | .ok cv =>
    match encodeElem info m cv with
    | .ok (d, _) => .ok d
    | .err => .err
    | .panic => .panic
  | .err => .err
  | .panic => .panic

mutual
  /-- `encodeElement(typeName, v, allTypes)` -/
  def encodeElement : Nat → String → Ext → TypeSet → Outcome Bytes
    | 0, _, _, _ => .panic
    | fuel + 1, typeName, v, allTypes =>
      if typeName.toList.getLast? == some ']' then hashArray fuel typeName allTypes v
      else if (tsLookup allTypes typeName).isSome then hashStruct fuel typeName v allTypes
      else
        match parseParam (.mk "" typeName false "" []) with
        | .ok (.elem info suffix m _) =>
          if info.name == "address" || info.name == "bool" || info.name == "int" || info.name == "uint" then
            abiEncode info m v
          else if info.name == "bytes" then
            if suffix != "" then abiEncode info m v
            else match getBytes v with
              | .ok b => .ok (keccak b)
              | .err => .err
              | .panic => .panic
          else if info.name == "string" then
            match getString v with
            | .ok b => .ok (keccak b)
            | .err => .err
            | .panic => .panic
          else .err
        | .ok _ => .err      -- not elementary (tuple / array spelled without trailing ']')
        | .err => .err
        | .panic => .panic
  /-- `hashStruct(typeName, v, allTypes)` -/
  def hashStruct : Nat → String → Ext → TypeSet → Outcome Bytes
    | 0, _, _, _ => .panic
    | fuel + 1, typeName, v, allTypes =>
      match encodeData fuel typeName v allTypes with
      | .ok none => .ok (zeros 32)
      | .ok (some enc) => .ok (keccak enc)
      | .err => .err
      | .panic => .panic
  /-- `encodeData(typeName, v, allTypes)` : nil for a nil value -/
  def encodeData : Nat → String → Ext → TypeSet → Outcome (Option Bytes)
    | 0, _, _, _ => .panic
    | fuel + 1, typeName, v, allTypes =>
      match encodeType typeName allTypes with
      | .ok (members, typeEncoded) =>
        match v with
        | .null => .ok none
        | .obj keys vals =>
          match encodeMembers fuel members keys vals allTypes with
          | .ok body => .ok (some (keccak (utf8 typeEncoded) ++ body))
          | .err => .err
          | .panic => .panic
        | _ => .err
      | .err => .err
      | .panic => .panic
  def encodeMembers : Nat → List Member → List String → List Ext → TypeSet → Outcome Bytes
    | 0, _, _, _, _ => .panic
    | _, [], _, _, _ => .ok []
    | fuel + 1, m :: ms, keys, vals, allTypes =>
      match encodeElement fuel m.type ((lookupKey keys vals m.name).getD .null) allTypes with
      | .ok b =>
        match encodeMembers fuel ms keys vals allTypes with
        | .ok rest => .ok (b ++ rest)
        | .err => .err
        | .panic => .panic
      | .err => .err
      | .panic => .panic
  /-- `hashArray(typeName, allTypes, v)` -/
  def hashArray : Nat → String → TypeSet → Ext → Outcome Bytes
    | 0, _, _, _ => .panic
    | fuel + 1, typeName, allTypes, v =>
      let cs := typeName.toList
      match lastOpen cs with
      | none => .err
      | some openPos =>
        if openPos = 0 ∨ cs.getLast? != some ']' then .err
        else
          let dimStr := (cs.drop (openPos + 1)).dropLast
          let trimmed := String.ofList (cs.take openPos)
          match v with
          | .arr va =>
            let dimOK : Bool :=
              if dimStr.isEmpty then true
              else match atoi dimStr with
                | some d => decide ((va.length : Int) = d)
                | none => false
            if !dimOK then .err
            else
              match hashElems fuel trimmed va allTypes with
              | .ok b => .ok (keccak b)
              | .err => .err
              | .panic => .panic
          | _ => .err
  def hashElems : Nat → String → List Ext → TypeSet → Outcome Bytes
    | 0, _, _, _ => .panic
    | _, _, [], _ => .ok []
    | fuel + 1, t, x :: xs, allTypes =>
      match encodeElement fuel t x allTypes with
      | .ok b =>
        match hashElems fuel t xs allTypes with
        | .ok rest => .ok (b ++ rest)
        | .err => .err
        | .panic => .panic
      | .err => .err
      | .panic => .panic
end

def EIP712Domain : String := "EIP712Domain"

structure TypedData where
  types : Option TypeSet          -- nil map when absent / null
  primaryType : String
  domain : Option Ext             -- nil map when absent / null; otherwise an `.obj`
  message : Option Ext

/-- `EncodeTypedDataV4(payload)` -/
def encodeTypedDataV4 (fuel : Nat) (p : TypedData) : Outcome Bytes :=
  let types0 := p.types.getD []
  let types := if (tsLookup types0 EIP712Domain).isSome then types0 else tsInsert types0 EIP712Domain (some [])
  let domain := p.domain.getD (.obj [] [])
  if p.primaryType == "" then .err
  else
    match hashStruct fuel EIP712Domain domain types with
    | .ok dh =>
      if p.primaryType != EIP712Domain then
        match hashStruct fuel p.primaryType (p.message.getD .null) types with
        | .ok sh => .ok (keccak ([0x19, 0x01] ++ dh ++ sh))
        | .err => .err
        | .panic => .panic
      else .ok (keccak ([0x19, 0x01] ++ dh))
    | .err => .err
    | .panic => .panic

/-- `ethsigner.SignTypedDataV4`: the digest is signed directly (no second hash); the result carries the 65-byte
    R ‖ S ‖ V form -/
def signTypedDataV4 (C : FFS.Model.Secp.Curve) (k : Nat) (fuel : Nat) (p : TypedData) : Outcome (Bytes × Bytes) :=
  match encodeTypedDataV4 fuel p with
  | .ok digest =>
    match FFS.Model.Secp.compactRSV (FFS.Model.Secp.signDirect C k digest) with
    | .ok sig => .ok (digest, sig)
    | .err => .err
    | .panic => .panic
  | .err => .err
  | .panic => .panic


/-! ### fuel that covers a document (proved sufficient in Props.C14) -/

mutual
  /-- fuel that suffices to encode a value against any type, `M` bounding the members of every struct type -/
  def need (M : Nat) : Ext → Nat
    | .obj _ vals => 3 + M + needMax M vals
    | .arr xs => 2 + xs.length + needMax M xs
    | _ => 3
  def needMax (M : Nat) : List Ext → Nat
    | [] => 3
    | x :: xs => max (need M x) (needMax M xs)
end

/-- the largest number of members of any type in the set -/
def maxMembers : TypeSet → Nat
  | [] => 0
  | (_, t) :: r => max (t.getD []).length (maxMembers r)

/-- the type set `EncodeTypedDataV4` works with (EIP712Domain defaulted) -/
def effectiveTypes (p : TypedData) : TypeSet :=
  if (tsLookup (p.types.getD []) EIP712Domain).isSome then p.types.getD []
  else tsInsert (p.types.getD []) EIP712Domain (some [])

/-- fuel that covers the document: the driver runs the model with exactly this much -/
def docNeed (p : TypedData) : Nat :=
  max (need (maxMembers (effectiveTypes p)) (p.domain.getD (.obj [] [])))
      (need (maxMembers (effectiveTypes p)) (p.message.getD .null))

end FFS.Model.Eip712
