/-
  FFS.Model.Ffi — model of /repo/pkg/ffi2abi/ffi.go: getSchemaForABIInput (ABI → FFI parameter schema),
  processField / buildABIParameterArrayForObject (schema → ABI parameter), inputTypeValidForTypeComponent,
  ABIArgumentToTypeString / ABIMethodToSignature. The JSON-Schema meta-schema validation (jsonschema library)
  is a parameter: its verdict is supplied by the harness.
-/
import FFS.Model.AbiEntry
import FFS.Gen.FfiFacts
namespace FFS.Model.Ffi
open FFS FFS.Model.Abi

structure Details where
  type : String
  internalType : String
  indexed : Bool
  index : Option Int
deriving Repr, Inhabited, DecidableEq

/-- `Schema` (the subset of fields the conversion reads); `props = none` is a nil map, a property value `none`
    is a JSON null (nil *Schema) -/
inductive Schema where
  | mk (type : String) (oneOf : Option (List String)) (details : Option Details)
       (props : Option (List (String × Option Schema))) (items : Option Schema)
deriving Repr, Inhabited

def Schema.type : Schema → String | .mk t _ _ _ _ => t
def Schema.oneOf : Schema → Option (List String) | .mk _ o _ _ _ => o
def Schema.details : Schema → Option Details | .mk _ _ d _ _ => d
def Schema.props : Schema → Option (List (String × Option Schema)) | .mk _ _ _ p _ => p
def Schema.items : Schema → Option Schema | .mk _ _ _ _ i => i
def Schema.withDetails (s : Schema) (d : Option Details) : Schema :=
  match s with | .mk t o _ p i => .mk t o d p i

def detailsOf (p : Param) : Details :=
  { type := p.type, internalType := p.internalType, indexed := p.indexed, index := none }

/-- the leaf schema for an elementary type, by JSON encoding type -/
def leafSchema (info : ElemInfo) (d : Details) : Schema :=
  if info.json = "JSONEncodingTypeInteger" then .mk "" (some ["string", "integer"]) (some d) none none
  else if info.json = "JSONEncodingTypeFloat" then .mk "" (some ["string", "number"]) (some d) none none
  else if info.json = "JSONEncodingTypeBool" then .mk "" (some ["string", "boolean"]) (some d) none none
  else .mk "string" none (some d) none none

mutual
  /-- `getSchemaForABIInput(typeComponent)`: `d` / `comps` come from the component's `Parameter()` -/
  def schemaOf (d : Details) (comps : List Param) : Ty → Schema
    | .elem info _ _ _ => leafSchema info d
    | .farr c _ =>
      let ch := schemaOf d comps c
      .mk "array" none ch.details none (some (ch.withDetails none))
    | .darr c =>
      let ch := schemaOf d comps c
      .mk "array" none ch.details none (some (ch.withDetails none))
    | .tuple _ ts => .mk "object" none (some d) (some (schemaOfMembers comps ts 0)) none
  /-- the `properties` of a tuple: keyed by the member's name, `details.index` = position (a Go map: a later
      member with the same name replaces an earlier one — see `dedupLast` at the point of use) -/
  def schemaOfMembers : List Param → List Ty → Nat → List (String × Option Schema)
    | p :: ps, t :: ts, i =>
      let cs := schemaOf (detailsOf p) p.components t
      let cs' := cs.withDetails (cs.details.map fun dd => { dd with index := some (i : Int) })
      (p.name, some cs') :: schemaOfMembers ps ts (i + 1)
    | _, _, _ => []
end

/-- Go map semantics for a list of insertions: last value per key wins (order irrelevant afterwards) -/
def dedupLast {α : Type} : List (String × α) → List (String × α)
  | [] => []
  | (k, v) :: rest => if rest.any (·.1 == k) then dedupLast rest else (k, v) :: dedupLast rest

/-- place `x` at position `i` of a slice of optional slots; `none` when out of range or occupied -/
def placeAt {α : Type} (slots : List (Option α)) (i : Int) (x : α) : Option (List (Option α)) :=
  if i < 0 then none
  else match slots[i.toNat]? with
    | some none => some (slots.set i.toNat (some x))
    | _ => none

/-! ### the size of a schema: fuel that covers it (proved sufficient in Props.C20 `processField_total`) -/

mutual
  def Schema.size : Schema → Nat
    | .mk _ _ _ p i => 1 + propsSize p + optSize i
  def optSize : Option Schema → Nat
    | none => 1
    | some s => 1 + s.size
  def propsSize : Option (List (String × Option Schema)) → Nat
    | none => 1
    | some l => 1 + listSize l
  def listSize : List (String × Option Schema) → Nat
    | [] => 1
    | (_, so) :: r => 2 + optSize so + listSize r
end

/-- the innermost non-array `items` of an array schema (the Go loop has no bound; the fuel `processField` passes,
    `max 64 (optSize items)`, exceeds the number of nested schemas, so the descent always reaches the innermost one) -/
def innermostItems : Nat → Option Schema → Option Schema
  | 0, s => s
  | fuel + 1, some s => if s.type == "array" then innermostItems fuel s.items else some s
  | _, none => none

def schemaDepth : Nat → Option Schema → Nat
  | 0, _ => 0
  | _, none => 0
  | fuel + 1, some s => 1 + schemaDepth fuel s.items

mutual
  /-- `processField(name, schema)` -/
  def processField : Nat → String → Option Schema → Outcome Param
    | 0, _, _ => .panic
    | _, _, none => if Gen.FfiFacts.guards then .err else .panic
    | fuel + 1, name, some s =>
      match s.details with
      | none => .err
      | some d =>
        let comps : Outcome (List Param) :=
          if s.type == "object" then buildParams fuel s.props
          else if s.type == "array" then
            match (if Gen.FfiFacts.innermostItems then innermostItems (max 64 (optSize s.items)) s.items else s.items) with
            | none => if Gen.FfiFacts.guards then .err else .panic
            | some it => buildParams fuel it.props
          else .ok []
        match comps with
        | .ok cs => .ok (.mk name d.type d.indexed d.internalType cs)
        | .err => .err
        | .panic => .panic
  /-- `buildABIParameterArrayForObject(properties)` -/
  def buildParams : Nat → Option (List (String × Option Schema)) → Outcome (List Param)
    | 0, _ => .panic
    | _, none => .ok []
    | fuel + 1, some props =>
      let ps := dedupLast props
      match placeAll fuel ps (List.replicate ps.length none) with
      | .ok slots => if slots.all Option.isSome then .ok (slots.filterMap id) else .panic  -- a hole would be a nil parameter
      | .err => .err
      | .panic => .panic
  def placeAll : Nat → List (String × Option Schema) → List (Option Param) → Outcome (List (Option Param))
    | 0, _, _ => .panic
    | _, [], slots => .ok slots
    | fuel + 1, (k, so) :: rest, slots =>
      match processField fuel k so with
      | .ok p =>
        let idx : Option Int := so.bind fun s => s.details.bind (·.index)
        if Gen.FfiFacts.guards then
          match idx with
          | none => .err
          | some i => match placeAt slots i p with
            | some slots' => placeAll fuel rest slots'
            | none => .err
        else
          match idx with
          | none => .panic
          | some i => if i < 0 ∨ i ≥ slots.length then .panic else placeAll fuel rest (slots.set i.toNat (some p))
      | .err => .err
      | .panic => .panic
end

/-- the fuel `convertParam` runs `processField` with: never less than the 64 used before, and more than the size of
    the schema (one unit per schema node and per object member) -/
def fieldFuel (s : Option Schema) : Nat := max 64 (optSize s + 1)

/-- `inputTypeValidForTypeComponent(schema, tc)` : true = valid -/
def inputTypeValid (s : Schema) (t : Ty) : Bool :=
  let its : String := match s.oneOf with
    | some ts => (ts.filter (· != "string")).getLast?.getD ""
    | none => s.type
  let elemJson : Option String := match t with | .elem info _ _ _ => some info.json | _ => none
  if its == "boolean" then elemJson == some "JSONEncodingTypeBool"
  else if its == "integer" then elemJson == some "JSONEncodingTypeInteger"
  else if its == "number" then elemJson == some "JSONEncodingTypeFloat"
  else if its == "string" then elemJson.isSome
  else if its == "array" then (match t with | .farr _ _ => true | .darr _ => true | _ => false)
  else if its == "object" then (match t with | .tuple _ _ => true | _ => false)
  else false

/-- one parameter of `convertFFIParamsToABIParameters`; `metaOK` = verdict of the JSON-Schema meta-schema -/
def convertParam (metaOK : Bool) (name : String) (s : Option Schema) : Outcome Param :=
  if !metaOK then .err
  else
    match processField (fieldFuel s) name s with
    | .ok p =>
      match parseParam p with
      | .ok t => match s with
        | some sc => if inputTypeValid sc t then .ok p else .err
        | none => .err
      | .err => .err
      | .panic => .panic
    | .err => .err
    | .panic => .panic

mutual
  /-- `ABIArgumentToTypeString(typeName, components)` -/
  def argTypeString : Param → String
    | .mk _ type _ _ comps =>
      if type.startsWith "tuple" then "(" ++ argTypeStrings comps ++ ")" ++ String.ofList (type.toList.drop 5)
      else type
  def argTypeStrings : List Param → String
    | [] => ""
    | [p] => if Gen.FfiFacts.nestedSignature then argTypeString p else
        (match p with | .mk _ t _ _ _ => if t.startsWith "tuple" then "()" ++ String.ofList (t.toList.drop 5) else t)
    | p :: ps => (if Gen.FfiFacts.nestedSignature then argTypeString p else
        (match p with | .mk _ t _ _ _ => if t.startsWith "tuple" then "()" ++ String.ofList (t.toList.drop 5) else t)) ++ "," ++ argTypeStrings ps
end

/-- `ABIMethodToSignature(entry)` -/
def methodToSignature (e : Entry) : String :=
  e.name ++ "(" ++ ",".intercalate (e.inputs.map argTypeString) ++ ")"

end FFS.Model.Ffi
