/-
  FFS.Model.Proxy — model of /repo/internal/rpcserver (rpchandler.go, rpcprocessor.go) and of
  rpcbackend.RPCClient.SyncRequest / CallRPC (pkg/rpcbackend/backend.go), as a function of a scripted backend.

  * the request body arrives as a JSON tree (text → tree by encoding/json in the harness, which also reports
    whether Go accepts the text at all); Go's struct-mapping rules for RPCRequest / Transaction are modelled;
  * the backend is an oracle `Script : method → Reply`;
  * the wallet is a parameter: known addresses and its `Sign(from, txn, chainID)` function; the transaction handed
    to it is the `ethsigner.Transaction` decoded from `params[0]` (`txOfJson`) with the nonce filled in, and the
    forwarded eth_sendRawTransaction carries exactly the bytes the wallet returned (`Props/C09.submitted_recovers`
    instantiates the wallet with the key-holding wallet of C08 and the signer of C01).
-/
import Lean.Data.Json
import FFS.Model.EthTypes
import FFS.Model.Tx
import FFS.Gen.ProxyFacts
namespace FFS.Model.Proxy
open Lean FFS FFS.Model.EthTypes

/-- how the scripted backend answers a forwarded request -/
inductive Reply where
  | result (j : Json)                       -- 200 {"jsonrpc":"2.0","id":…,"result":j}
  | resultNoVersion (j : Json)              -- 200 {"id":…,"result":j}   (backend omits jsonrpc)
  | rpcError (code : Int)                   -- 200 with a JSON-RPC error object
  | httpErrorWithBody (code : Int)          -- 500 with a JSON-RPC error object in the body
  | httpErrorNoBody                         -- 500 / 502 without a usable body
  | nullBody                                -- 200 with the body `null`
  | wrongId (j : Json)                      -- 200 result, echoing a different id
  | connFail                                -- connection closed without reply
deriving Inhabited

abbrev Script := String → Reply

/-- canonical shape of a JSON-RPC response as the proxy renders it: version, id, result | error code -/
structure Resp where
  version : String
  id : Json              -- Json.null when absent
  result : Option Json
  errorCode : Option Int
deriving Inhabited

/-- a request that reached the backend -/
inductive Fwd where
  | plain (method : String) (params : List Json)
  | rawTx (sendFrom : Bytes) (tx : Json) (nonce : Option Nat) (fields : Tx.Tx) (raw : Bytes)
      -- eth_sendRawTransaction [hex raw]: `raw` = wallet.Sign(from, fields, chainID), `fields` decoded from `tx` + nonce
deriving Inhabited

def errResp (id : Json) (code : Int) : Resp := { version := "2.0", id := id, result := none, errorCode := some code }

/-- `SyncRequest`: the response and whether an error is returned alongside -/
def syncRequest (script : Script) (id : Json) (method : String) : Resp × Bool :=
  match script method with
  | .result j => ({ version := "2.0", id := id, result := some j, errorCode := none }, false)
  | .resultNoVersion j => ({ version := if Gen.ProxyFacts.versionForced then "2.0" else "", id := id, result := some j, errorCode := none }, false)
  | .wrongId j => ({ version := "2.0", id := id, result := some j, errorCode := none }, false)
  | .rpcError code => ({ version := "2.0", id := id, result := none, errorCode := some code }, true)
  | .httpErrorWithBody code => ({ version := "2.0", id := id, result := none, errorCode := some code }, true)
  | .httpErrorNoBody =>
    if Gen.ProxyFacts.httpErrorBuildsError then (errResp id Gen.ProxyFacts.RPCCodeInternalError, true)
    else ({ version := "", id := id, result := none, errorCode := none }, true)
  | .nullBody => ({ version := if Gen.ProxyFacts.versionForced then "2.0" else "", id := id, result := some Json.null, errorCode := none }, false)
  | .connFail => (errResp id Gen.ProxyFacts.RPCCodeInternalError, true)

/-- Go's case-insensitive, last-wins member lookup for struct decoding -/
def getField (kvs : List (String × Json)) (name : String) : Option Json :=
  match (kvs.filter fun kv => kv.1 == name).getLast? with
  | some kv => some kv.2
  | none => ((kvs.filter fun kv => kv.1.toLower == name.toLower).getLast?).map (·.2)

/-- the decoded `RPCRequest` -/
structure Req where
  id : Option Json          -- nil for absent / null
  method : String
  params : List Json
deriving Inhabited

/-- `json.Unmarshal(value, &RPCRequest)` for an already valid JSON value: `none` = unmarshal error -/
def decodeReq (j : Json) (kvs : List (String × Json)) : Option Req :=
  match j with
  | .null => some { id := none, method := "", params := [] }
  | .obj _ =>
    let methodOK : Option String := match getField kvs "method" with
      | none => some "" | some .null => some "" | some (.str s) => some s | some _ => none
    let paramsOK : Option (List Json) := match getField kvs "params" with
      | none => some [] | some .null => some [] | some (.arr xs) => some xs.toList | some _ => none
    let versionOK : Bool := match getField kvs "jsonrpc" with
      | none => true | some .null => true | some (.str _) => true | some _ => false
    let id : Option Json := match getField kvs "id" with | none => none | some .null => none | some v => some v
    match methodOK, paramsOK, versionOK with
    | some m, some ps, true => some { id := id, method := m, params := ps }
    | _, _, _ => none
  | _ => none

/-- a JSON value as `HexInteger.UnmarshalJSON` reads it (plain spellings; exponent forms are not generated) -/
def hexIntOf (j : Json) : Option (Option Nat) :=   -- none = error; some none = absent/null; some (some n)
  match j with
  | .null => some none
  | .str s => match setString0 s.toList with | some z => if z < 0 then none else some (some z.toNat) | none => none
  | .num n => if n.exponent == 0 ∧ n.mantissa ≥ 0 then some (some n.mantissa.toNat) else none
  | _ => none

structure Wallet where
  accounts : List Bytes      -- 20-byte addresses the wallet can sign for
  /-- `wallet.Sign(ctx, txn, chainID)` for the address in `txn.From` -/
  sign : Bytes → Tx.Tx → Outcome Bytes := fun _ _ => .ok []

/-- the signing-relevant fields of the `ethsigner.Transaction` that `json.Unmarshal(params[0], &txn)` yields (for a
    document `decodeTx` accepts), with `txn.Nonce` as supplied or looked up -/
def txOfJson (kvs : List (String × Json)) (nonce : Option Nat) : Tx.Tx :=
  let int (name : String) : Option Nat := match getField kvs name with | some v => (hexIntOf v).getD none | none => none
  { nonce := nonce, gasPrice := int "gasPrice", tip := int "maxPriorityFeePerGas", feeCap := int "maxFeePerGas",
    gasLimit := int "gas", value := int "value",
    to := match getField kvs "to" with
      | some (.str s) => (match addressSetString s.toList with | .ok a => some a | _ => none)
      | _ => none,
    data := match getField kvs "data" with
      | some (.str s) => (hexDecode (trim0x s.toList)).getD []
      | _ => [] }

/-- `json.Unmarshal(params[0], &Transaction)`: `none` = error. Returns (from raw, nonce, tx ok) -/
def decodeTx (j : Json) (kvs : List (String × Json)) : Option (Option Json × Option Nat) :=
  match j with
  | .null => none     -- a null element of `[]*JSONAny` is a nil pointer: `Bytes()` is empty and Unmarshal fails
  | .obj _ =>
    let intOK (name : String) : Bool := match getField kvs name with | none => true | some v => (hexIntOf v).isSome
    let toOK : Bool := match getField kvs "to" with
      | none => true | some .null => true
      | some (.str s) => (match addressSetString s.toList with | .ok _ => true | _ => false)
      | some _ => false
    let dataOK : Bool := match getField kvs "data" with
      | none => true | some .null => true
      | some (.str s) => (hexDecode (trim0x s.toList)).isSome
      | some _ => false
    if intOK "nonce" && intOK "gasPrice" && intOK "maxPriorityFeePerGas" && intOK "maxFeePerGas" && intOK "gas" && intOK "value" && toOK && dataOK then
      -- `From json.RawMessage`: a JSON null is stored as the four bytes `null`, not as nil
      let fromRaw : Option Json := getField kvs "from"
      let nonce : Option Nat := match getField kvs "nonce" with | some v => (hexIntOf v).getD none | none => none
      some (fromRaw, nonce)
    else none
  | _ => none

def addrOfJson (j : Json) : Option Bytes :=
  match j with
  | .str s => (match addressSetString s.toList with | .ok a => some a | _ => none)
  | _ => none

/-- object members of a JSON value, in the order the harness lists them (duplicates preserved by the harness) -/
abbrev Members := Json → List (String × Json)

/-- outcome of the nonce step of `processEthSendTransaction` -/
inductive NonceLookup where
  | badFrom                                   -- nonce absent and `from` is not an address
  | failed (fwds : List Fwd)                  -- eth_getTransactionCount failed / returned something that is no integer
  | got (fwds : List Fwd) (n : Option Nat)    -- supplied, or reported by the backend (`none`: a null result leaves it nil)
deriving Inhabited

def countFwd (a : Bytes) : Fwd :=
  Fwd.plain "eth_getTransactionCount" [Json.str (String.ofList (address0xString a)), Json.str "pending"]

def nonceLookup (script : Script) (fromRaw : Json) (nonce : Option Nat) : NonceLookup :=
  match nonce with
  | some n => .got [] (some n)
  | none =>
    match addrOfJson fromRaw with
    | none => .badFrom
    | some a =>
      let res := syncRequest script (Json.str "internal") "eth_getTransactionCount"
      if res.2 then .failed [countFwd a]
      else match res.1.result.bind fun v => hexIntOf v with
        | some (some k) => .got [countFwd a] (some k)
        | some none =>      -- a null result leaves the nonce nil
          if Gen.ProxyFacts.nullNonceRejected then .failed [countFwd a] else .got [countFwd a] none
        | none => .failed [countFwd a]

/-- `wallet.Sign` + forward: only for an address the wallet holds -/
def signAndSend (w : Wallet) (script : Script) (id : Json) (fwds : List Fwd) (fromRaw p0 : Json) (n : Option Nat)
    (tx : Tx.Tx) : List Fwd × Resp × Bool :=
  match addrOfJson fromRaw with
  | none => (fwds, errResp id Gen.ProxyFacts.RPCCodeInternalError, true)
  | some a =>
    if !w.accounts.contains a then (fwds, errResp id Gen.ProxyFacts.RPCCodeInternalError, true)
    else
      match w.sign a tx with
      | .ok raw =>
        let res := syncRequest script id "eth_sendRawTransaction"
        (fwds ++ [Fwd.rawTx a p0 n tx raw], res.1, res.2)
      | _ => (fwds, errResp id Gen.ProxyFacts.RPCCodeInternalError, true)

/-- `processEthSendTransaction` -/
def sendTransaction (mem : Members) (w : Wallet) (script : Script) (id : Json) (params : List Json) :
    List Fwd × Resp × Bool :=
  match params with
  | [] => ([], errResp id Gen.ProxyFacts.RPCCodeInvalidRequest, true)
  | p0 :: _ =>
    match decodeTx p0 (mem p0) with
    | none => ([], errResp id Gen.ProxyFacts.RPCCodeParseError, true)
    | some (none, _) => ([], errResp id Gen.ProxyFacts.RPCCodeInvalidRequest, true)
    | some (some fromRaw, nonce) =>
      match nonceLookup script fromRaw nonce with
      | .badFrom => ([], if Gen.ProxyFacts.badFromIsError then errResp id Gen.ProxyFacts.RPCCodeInvalidRequest else default, true)
      | .failed fwds => (fwds, errResp id Gen.ProxyFacts.RPCCodeInternalError, true)
      | .got fwds n => signAndSend w script id fwds fromRaw p0 n (txOfJson (mem p0) n)

def accountsResp (w : Wallet) (id : Json) : Resp :=
  { version := "2.0", id := id, errorCode := none,
    result := some (Json.arr (w.accounts.map fun a => Json.str (String.ofList (address0xString a))).toArray) }

def isAccountsMethod (m : String) : Bool := m == "eth_accounts" || m == "personal_accounts"

/-- `processRPC(req)`: forwarded requests, response, error flag -/
def processRPC (mem : Members) (w : Wallet) (script : Script) (req : Option Req) : List Fwd × Resp × Bool :=
  match req with
  | none =>
    if Gen.ProxyFacts.nilMemberGuard then ([], errResp (Json.num (JsonNumber.fromNat 1)) Gen.ProxyFacts.RPCCodeInvalidRequest, true)
    else ([], default, true)   -- nil dereference in a goroutine: the process dies (see `processCrash`)
  | some r =>
    match r.id with
    | none => ([], errResp Json.null Gen.ProxyFacts.RPCCodeInvalidRequest, true)
    | some id =>
      if isAccountsMethod r.method then ([], accountsResp w id, false)
      else if r.method == "eth_sendTransaction" then sendTransaction mem w script id r.params
      else
        let res := syncRequest script id r.method
        ([Fwd.plain r.method r.params], res.1, res.2)

/-- first non-space byte, as `sniffFirstByte` (Latin-1 `unicode.IsSpace` on single bytes) -/
def isSpaceByte (b : UInt8) : Bool :=
  b == 0x09 || b == 0x0a || b == 0x0b || b == 0x0c || b == 0x0d || b == 0x20 || b == 0x85 || b == 0xa0

def sniffFirstByte (body : Bytes) : UInt8 :=
  let scan := if Gen.ProxyFacts.sniffUnbounded then body else body.take 100
  (scan.find? fun b => !isSpaceByte b).getD 0

/-- the HTTP reply: status and either one response object or an array of them -/
inductive HttpReply where
  | single (status : Nat) (r : Resp)
  | batch (status : Nat) (rs : List Resp)
  | processCrash
deriving Inhabited

/-- `replyRPCParseError` -/
def parseErrorReply : HttpReply :=
  .single 400 (errResp (Json.num (JsonNumber.fromNat 1)) Gen.ProxyFacts.RPCCodeInvalidRequest)

/-- one element of `[]*RPCRequest`: a JSON null is a nil pointer; `none` = the whole Unmarshal fails -/
def decodeMember (mem : Members) (x : Json) : Option (Option Req) :=
  match x with
  | .null => some none
  | v => (decodeReq v (mem v)).map some

/-- `handleRPCBatch` once the members are decoded: one result slot per member, in request order -/
def batchReply (mem : Members) (w : Wallet) (script : Script) (ms : List (Option Req)) : List Fwd × HttpReply :=
  let outs := ms.map (processRPC mem w script)
  (outs.flatMap (·.1), .batch (if outs.any (·.2.2) then 500 else 200) (outs.map (·.2.1)))

def handleBatch (mem : Members) (w : Wallet) (script : Script) (parsed : Option Json) : List Fwd × HttpReply :=
  match parsed with
  | some (.arr xs) =>
    match xs.toList.mapM (decodeMember mem) with
    | none => ([], parseErrorReply)
    | some [] => ([], parseErrorReply)
    | some ms =>
      if !Gen.ProxyFacts.nilMemberGuard && ms.any Option.isNone then ([], .processCrash)
      else batchReply mem w script ms
  | _ => ([], parseErrorReply)

def handleSingle (mem : Members) (w : Wallet) (script : Script) (parsed : Option Json) : List Fwd × HttpReply :=
  match parsed with
  | none => ([], parseErrorReply)
  | some j =>
    match decodeReq j (mem j) with
    | none => ([], parseErrorReply)
    | some r =>
      let out := processRPC mem w script (some r)
      (out.1, .single (if out.2.2 then 500 else 200) out.2.1)

/-- `rpcHandler(body)`: `parsed` = the JSON tree when encoding/json accepts the text, else `none` -/
def handle (mem : Members) (w : Wallet) (script : Script) (body : Bytes) (parsed : Option Json) :
    List Fwd × HttpReply :=
  if sniffFirstByte body == 0x5b then   -- '['
    handleBatch mem w script parsed
  else handleSingle mem w script parsed

end FFS.Model.Proxy
