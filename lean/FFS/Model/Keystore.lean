/-
  FFS.Model.Keystore — model of /repo/pkg/keystorev3: ReadWalletFile (after JSON decoding), the scrypt / PBKDF2
  decrypt paths with the argument checks of the KDF libraries, decryptCommon (derived key length, MAC before
  decrypt, IV length), AES-128-CTR, and newScryptWalletFileBytes with salt / IV as inputs.
  JSON decoding into the package's structs is done by encoding/json through the hook VerifParse (same types,
  same calls); the decoded fields are the model's input.
-/
import FFS.Util.Basic
import FFS.Prim.Keccak
import FFS.Prim.Scrypt
import FFS.Prim.Aes
import FFS.Gen.KeystoreConsts
namespace FFS.Model.Keystore
open FFS FFS.Gen.KeystoreConsts

/-- the decoded wallet file -/
structure KsFile where
  commonErr : Bool      -- the first two json.Unmarshal calls failed
  idNil : Bool
  version : Int
  kdf : String
  kdfErr : Bool         -- the KDF-specific json.Unmarshal failed
  cipher : String
  ciphertext : Bytes
  iv : Bytes
  mac : Bytes
  salt : Bytes
  n : Int
  r : Int
  p : Int
  dklen : Int
  c : Int
  prf : String
deriving Repr, Inhabited

def maxInt : Int := 2 ^ 63 - 1

/-- is `n` (> 1) a power of two: the library's `N&(N-1) != 0` test -/
def isPow2 (n : Nat) : Bool := n > 0 && (n &&& (n - 1)) == 0

/-- `scrypt.Key(password, salt, N, r, p, keyLen)` of golang.org/x/crypto: argument checks, then the KDF.
    `r = 0` or `p = 0` reach a division (`maxInt/128/p`, `maxInt/128/r`) — a panic when unguarded. -/
def scryptKey (pw salt : Bytes) (n r p keyLen : Int) : Outcome Bytes :=
  if n ≤ 1 ∨ !isPow2 n.toNat then .err
  else if r < 0 ∨ p < 0 then .err           -- uint64(r)*uint64(p) wraps to a huge product / r > … tests
  else if p = 0 ∨ r = 0 then .panic         -- integer divide by zero in `r > maxInt/128/p` / `N > maxInt/128/r`
  else if r * p ≥ 2 ^ 30 ∨ r > maxInt / 128 / p ∨ r > maxInt / 256 ∨ n > maxInt / 128 / r then .err
  else if keyLen < 0 then .panic            -- pbkdf2: dk[:keyLen] with a negative length
  else .ok (Prim.scrypt pw salt n.toNat r.toNat p.toNat keyLen.toNat)

/-- `pbkdf2.Key(password, salt, iter, keyLen, sha256.New)`: iter ≤ 1 behaves as 1; negative keyLen panics -/
def pbkdf2Key (pw salt : Bytes) (iter keyLen : Int) : Outcome Bytes :=
  if keyLen < 0 then .panic
  else .ok (Prim.pbkdf2Sha256 pw salt (max iter 1).toNat keyLen.toNat)

/-- `generateMac(derivedKey[16:32], cipherText)` -/
def generateMac (macKey ciphertext : Bytes) : Bytes := Prim.keccak256 (macKey ++ ciphertext)

/-- `decryptCommon(derivedKey)` -/
def decryptCommon (f : KsFile) (dk : Bytes) : Outcome Bytes :=
  if dk.length ≠ 32 then .err
  else if ivChecked && f.iv.length ≠ 16 then .err
  else if generateMac ((dk.drop 16).take 16) f.ciphertext ≠ f.mac then .err
  else if f.iv.length ≠ 16 then .panic      -- cipher.NewCTR: IV length must equal block size
  else .ok (Prim.aes128Ctr (dk.take 16) f.iv f.ciphertext)

/-- `walletFileScrypt.decrypt(password)` -/
def decryptScrypt (f : KsFile) (pw : Bytes) : Outcome Bytes :=
  if paramsChecked && f.dklen ≠ 32 then .err
  else if paramsChecked && (f.r ≤ 0 ∨ f.p ≤ 0) then .err
  else
    match scryptKey pw f.salt f.n f.r f.p f.dklen with
    | .ok dk => decryptCommon f dk
    | .err => .err
    | .panic => .panic

/-- `walletFilePbkdf2.decrypt(password)` -/
def decryptPbkdf2 (f : KsFile) (pw : Bytes) : Outcome Bytes :=
  if f.prf ≠ prfHmacSHA256 then .err
  else if paramsChecked && f.dklen ≠ 32 then .err
  else if paramsChecked && f.c ≤ 0 then .err
  else
    match pbkdf2Key pw f.salt f.c f.dklen with
    | .ok dk => decryptCommon f dk
    | .err => .err
    | .panic => .panic

/-- `ReadWalletFile(jsonWallet, password)` : the private key -/
def readWalletFile (f : KsFile) (pw : Bytes) : Outcome Bytes :=
  if f.commonErr then .err
  else if f.idNil then .err
  else if f.version ≠ version3 then .err
  else if f.kdf = kdfTypeScrypt then (if f.kdfErr then .err else decryptScrypt f pw)
  else if f.kdf = kdfTypePbkdf2 then (if f.kdfErr then .err else decryptPbkdf2 f pw)
  else .err

/-- `newScryptWalletFileBytes(password, privateKey, n, p)` with the random salt (32) and IV (16) as inputs:
    the 16-byte scrypt.Key result is re-sliced to [16:32] within its capacity, i.e. the first 32-byte PBKDF2
    block — modelled by deriving 32 bytes. Returns (ciphertext, mac). -/
def newScryptWallet (pw key salt iv : Bytes) (n p : Nat) : Bytes × Bytes :=
  let dk := Prim.scrypt pw salt n defaultR p 32
  let ct := Prim.aes128Ctr (dk.take 16) iv key
  (ct, generateMac ((dk.drop 16).take 16) ct)

/-- the wallet file `newScryptWalletFileBytes` returns (as decoded fields), for the given random salt and IV -/
def newScryptFile (pw key salt iv : Bytes) (n p : Nat) : KsFile :=
  { commonErr := false, idNil := false, version := version3, kdf := kdfTypeScrypt, kdfErr := false,
    cipher := cipherAES128ctr, ciphertext := (newScryptWallet pw key salt iv n p).1, iv := iv,
    mac := (newScryptWallet pw key salt iv n p).2, salt := salt, n := n, r := defaultR, p := p, dklen := 32,
    c := 0, prf := "" }

end FFS.Model.Keystore
