/-
  FFS.Model.AbiTypes — model of the ABI type-string parser and renderer of /repo/pkg/abi/typecomponents.go:
  parseABIParameterComponents, splitElementaryTypeSuffix, parseMSuffix, parseNSuffix, parseMxNSuffix,
  parseArrayM, parseArrays, typeComponent.String. The elementary-type table is FFS.Gen.AbiTypeTable.
-/
import FFS.Util.Basic
import FFS.Gen.AbiTypeTable
namespace FFS.Model.Abi
open FFS FFS.Gen.AbiTypeTable

/-- an ABI `Parameter` (the JSON shape of an ABI input/output/component) -/
inductive Param where
  | mk (name : String) (type : String) (indexed : Bool) (internalType : String) (components : List Param)
deriving Repr, Inhabited

def Param.name : Param → String | .mk n _ _ _ _ => n
def Param.type : Param → String | .mk _ t _ _ _ => t
def Param.indexed : Param → Bool | .mk _ _ i _ _ => i
def Param.internalType : Param → String | .mk _ _ _ it _ => it
def Param.components : Param → List Param | .mk _ _ _ _ c => c

/-- the parsed type tree (`typeComponent`); `names` of a tuple are the children's `keyName`s -/
inductive Ty where
  | elem (info : ElemInfo) (suffix : String) (m n : Nat)
  | farr (child : Ty) (len : Nat)
  | darr (child : Ty)
  | tuple (names : List String) (children : List Ty)
deriving Repr, Inhabited

/-- `strconv.ParseUint(s, 10, bits)`: non-empty, ASCII digits only (no sign, no underscore), value < 2^bits -/
def parseUint (s : List Char) (bits : Nat) : Option Nat :=
  if s.isEmpty then none
  else if s.all (fun c => '0' ≤ c && c ≤ '9') then
    let v := s.foldl (fun a c => a * 10 + (c.toNat - 48)) 0
    if v < 2 ^ bits then some v else none
  else none

/-- `strconv.FormatUint(v, 10)` -/
def formatUint (v : Nat) : List Char := (toString v).toList

/-- `parseMSuffix`: the checks on M -/
def parseM (info : ElemInfo) (suffix : List Char) : Option Nat :=
  match parseUint suffix 16 with
  | none => none
  | some v =>
    if mCanonical && formatUint v != suffix then none
    else if v < info.mMin || v > info.mMax then none
    else if info.mMod != 0 && v % info.mMod != 0 then none
    else some v

/-- `parseNSuffix` -/
def parseN (info : ElemInfo) (suffix : List Char) : Option Nat :=
  match parseUint suffix 16 with
  | none => none
  | some v =>
    if nCanonical && formatUint v != suffix then none
    else if v < info.nMin || v > info.nMax then none
    else some v

/-- `parseMxNSuffix`: split at the first `x`; `pos >= len(suffix)-1` rejects a missing or trailing `x` -/
def parseMxN (info : ElemInfo) (suffix : List Char) : Option (Nat × Nat) :=
  let mStr := suffix.takeWhile (· != 'x')
  if mStr.length + 1 ≥ suffix.length then none
  else
    match parseM info mStr with
    | none => none
    | some m =>
      match parseN info (suffix.drop (mStr.length + 1)) with
      | none => none
      | some n => some (m, n)

/-- the per-suffix-type rules of the elementary branch, for the effective suffix -/
def elementaryOf (info : ElemInfo) (suffix : List Char) : Outcome Ty :=
  match info.suffixType with
  | .none => if suffix.isEmpty then .ok (.elem info "" info.defaultM 0) else .err
  | .mRequired =>
    if suffix.isEmpty then .err
    else match parseM info suffix with
      | some m => .ok (.elem info (String.ofList suffix) m 0)
      | none => .err
  | .mOptional =>
    if suffix.isEmpty then .ok (.elem info "" info.defaultM 0)
    else match parseM info suffix with
      | some m => .ok (.elem info (String.ofList suffix) m 0)
      | none => .err
  | .mxnRequired =>
    if suffix.isEmpty then .err
    else match parseMxN info suffix with
      | some (m, n) => .ok (.elem info (String.ofList suffix) m n)
      | none => .err

/-- the elementary branch of `parseABIParameterComponents` -/
def parseElementary (et : List Char) (suffix0 : List Char) : Outcome Ty :=
  match table.find? (fun i => i.name == String.ofList et) with
  | none => .err
  | some info => elementaryOf info (if suffix0.isEmpty then info.defaultSuffix.toList else suffix0)

/-- the array component built by one step of `parseArrays` from the text between the brackets -/
def arrayComponent (child : Ty) (mStr : List Char) : Outcome Ty :=
  if mStr.isEmpty then .ok (.darr child)
  else match parseUint mStr 32 with
    | some k => .ok (.farr child k)
    | none => .err

/-- `parseArrays` (fuel = length of the remaining suffix + 1 suffices) -/
def parseArrays : Nat → Ty → List Char → Outcome Ty
  | 0, _, _ => .panic
  | fuel + 1, child, suffix =>
    match suffix with
    | '[' :: rest =>
      match rest.dropWhile (· != ']') with
      | [] => .err
      | _ :: more =>
        match arrayComponent child (rest.takeWhile (· != ']')) with
        | .ok a => if more.isEmpty then .ok a else parseArrays fuel a more
        | .err => .err
        | .panic => .panic
    | _ => .err

def isLower (c : Char) : Bool := 'a' ≤ c && c ≤ 'z'

mutual
  /-- `Parameter.parseABIParameterComponents` -/
  def parseParam : Param → Outcome Ty
    | .mk _ type _ _ comps =>
      let cs := type.toList
      let et := cs.takeWhile isLower
      let rest := cs.drop et.length
      let suffix := rest.takeWhile (· != '[')
      let arrays := rest.dropWhile (· != '[')
      let base : Outcome Ty :=
        if String.ofList et == tupleTypeString then
          if tupleRejectsSuffix && !suffix.isEmpty then .err
          else
            match parseParams comps with
            | .ok ts => .ok (.tuple (comps.map Param.name) ts)
            | .err => .err
            | .panic => .panic
        else parseElementary et suffix
      match base with
      | .ok tc => if arrays.isEmpty then .ok tc else parseArrays (arrays.length + 1) tc arrays
      | .err => .err
      | .panic => .panic
  def parseParams : List Param → Outcome (List Ty)
    | [] => .ok []
    | p :: ps =>
      match parseParam p with
      | .ok t =>
        match parseParams ps with
        | .ok ts => .ok (t :: ts)
        | .err => .err
        | .panic => .panic
      | .err => .err
      | .panic => .panic
end

mutual
  /-- `typeComponent.String()` -/
  def render : Ty → String
    | .elem info suffix _ _ => info.name ++ suffix
    | .farr c k => render c ++ "[" ++ toString k ++ "]"
    | .darr c => render c ++ "[]"
    | .tuple _ cs => "(" ++ renderList cs ++ ")"
  def renderList : List Ty → String
    | [] => ""
    | [t] => render t
    | t :: ts => render t ++ "," ++ renderList ts
end

end FFS.Model.Abi
