import FFS.Gen.RpcFacts
/-
  FFS.Model.RpcClients — the request / reply bookkeeping of pkg/rpcbackend.

  * `Http`: RPCClient.SyncRequest (backend.go): a counting semaphore (`concurrencySlots`), an atomic id counter
    (`allocateRequestID`), and the restoration of the caller's id on every path.
  * `Ws`: wsRPCClient (wsbackend.go): the tables `calls`, `pendingSubsByReqID`, `activeSubsBySubID`,
    `configuredSubs`, all guarded by `rc.mux`; each function that touches them is one atomic step
    (`addInflightRequest`, `popInflight`+dispatch on the single receive goroutine, `handleReconnect`, …).
    Server subscription ids and caller identities are natural numbers.
  Any interleaving of callers, the receive loop and the reconnect callback is a sequence of these steps.
-/
namespace FFS.Model.RpcClients

/-! ## HTTP client -/
namespace Http

structure St where
  limit : Option Nat               -- MaxConcurrentRequest (none = unbounded)
  counter : Nat                    -- requestCounter
  waiting : List Nat               -- callers blocked on the semaphore
  inflight : List (Nat × Nat)      -- (backend id, caller) currently at the backend
  issued : List Nat                -- every backend id ever allocated (history)
  done : List (Nat × Nat)          -- (caller, id carried by the response handed to the caller = the caller's own)
deriving Repr, Inhabited

def init (limit : Option Nat) : St := { limit := limit, counter := 0, waiting := [], inflight := [], issued := [], done := [] }

inductive Op where
  | arrive (caller : Nat)          -- SyncRequest called
  | acquire (caller : Nat)         -- the select takes a slot: allocate the id and post
  | cancel (caller : Nat)          -- ctx.Done() while waiting for a slot
  | reply (beId : Nat) (echoed : Nat)   -- the HTTP exchange for backend id `beId` returns; the body echoes any id
deriving Repr

def canAcquire (s : St) : Bool := match s.limit with | some l => s.inflight.length < l | none => true

def step (s : St) : Op → St
  | .arrive c => { s with waiting := s.waiting ++ [c] }
  | .acquire c =>
    if s.waiting.contains c && canAcquire s then
      let id := s.counter + 1
      { s with counter := id, waiting := s.waiting.erase c, inflight := s.inflight ++ [(id, c)], issued := s.issued ++ [id] }
    else s
  | .cancel c =>
    if s.waiting.contains c then { s with waiting := s.waiting.erase c, done := s.done ++ [(c, c)] } else s
  | .reply beId _ =>
    match s.inflight.find? (·.1 == beId) with
    | some (_, c) => { s with inflight := s.inflight.filter (·.1 != beId), done := s.done ++ [(c, c)] }   -- rpcRes.ID = rpcReq.ID
    | none => s

def run (s : St) (ops : List Op) : St := ops.foldl step s

end Http

/-! ## WebSocket client -/
namespace Ws

inductive Ev where
  | sentCall (id caller : Nat)                 -- frame for CallRPC written to the transport
  | sentSub (id sub : Nat)                     -- eth_subscribe frame for subscription `sub`
  | completed (caller id : Nat) (ok : Bool)    -- the caller's CallRPC returns (ok = a result, not an error)
  | subConfirmed (sub : Nat) (ok : Bool)       -- the first Subscribe call is answered
  | notified (sub : Nat) (serverId : Nat)      -- a notification handed to subscription `sub`
  | dropped                                    -- frame ignored (unknown id / unknown subscription)
deriving Repr, DecidableEq, Inhabited

structure SubRec where
  pendingReq : Option Nat := none
  current : Option Nat := none       -- currentSubID
  waiter : Bool := true              -- newSubResponse != nil
  requested : Bool := false          -- an eth_subscribe has been issued for it
deriving Repr, DecidableEq, Inhabited

structure St where
  reconnectEnabled : Bool
  counter : Nat
  calls : List (Nat × Nat)           -- request id ↦ caller
  pending : List (Nat × Nat)         -- request id ↦ subscription
  active : List (Nat × Nat)          -- server id ↦ subscription
  configured : List Nat
  subs : List (Nat × SubRec)         -- the sub objects (fields survive removal from the tables)
  resubQueue : List Nat              -- handleReconnect: subscriptions still to be resubscribed by the running callback
  confirming : Option (Nat × Nat × Bool)   -- handleSubscriptionConfirm between popInflight and addActiveSub: (sub, server id, waiter)
  log : List Ev
deriving Repr, Inhabited

def init (reconnectEnabled : Bool) : St :=
  { reconnectEnabled := reconnectEnabled, counter := 0, calls := [], pending := [], active := [], configured := [],
    subs := [], resubQueue := [], confirming := none, log := [] }

def getSub (s : St) (l : Nat) : SubRec := ((s.subs.find? (·.1 == l)).map (·.2)).getD {}
def setSub (s : St) (l : Nat) (r : SubRec) : St := { s with subs := (l, r) :: s.subs.filter (·.1 != l) }

inductive Reply where
  | result (serverId : Option Nat)   -- a result; for eth_subscribe the server id, if it is a non-empty string
  | error
deriving Repr

inductive Op where
  | call (caller : Nat)                        -- CallRPC: addInflightRequest + send
  | cancelCall (id : Nat)                      -- the caller's context is cancelled while waiting
  | subscribe (sub : Nat)                      -- Subscribe: addConfiguredSub
  | sendSubscribe (sub : Nat)                  -- …then its initial sendSubscribe: addInflightSub + send
  | reply (id : Nat) (r : Reply)               -- the receive loop reads a response frame
  | activate                                   -- handleSubscriptionConfirm, second half: addActiveSub + tell the waiter
  | notify (serverId : Nat)                    -- the receive loop reads an eth_subscription frame
  | reconnectClear (order : List Nat)          -- handleReconnect, first half: clearActiveReturnConfiguredSubs + fail the
                                               -- calls; `order` = the map iteration order of the configured subs
  | resubscribe                                -- handleReconnect, loop body: sendSubscribe for the next one
  | unsubscribe (sub : Nat)                    -- removeSubscription (the eth_unsubscribe call is a separate `call`)
deriving Repr

/-- the pending table once a request still awaited for the same subscription is superseded -/
def stalePending (s : St) (l : Nat) : List (Nat × Nat) :=
  if Gen.RpcFacts.stalePendingDropped then
    (match (getSub s l).pendingReq with | some old => s.pending.filter (·.1 != old) | none => s.pending)
  else s.pending

/-- allocate the next request id for subscription `l`, register it as pending and write the frame -/
def allocSub (s : St) (l : Nat) : St :=
  { s with counter := s.counter + 1,
           subs := (l, { getSub s l with pendingReq := some (s.counter + 1), current := none, requested := true }) ::
                     s.subs.filter (·.1 != l),
           pending := stalePending s l ++ [(s.counter + 1, l)],
           log := s.log ++ [.sentSub (s.counter + 1) l] }

/-- nothing to send: the initial request of Subscribe() when a request has been issued already, or a subscription
    that is no longer configured -/
def skipSub (s : St) (l : Nat) (initial : Bool) : Bool :=
  (initial && Gen.RpcFacts.initialSubscribeGuard && (getSub s l).requested) ||
  (Gen.RpcFacts.unconfiguredSkipped && !s.configured.contains l)

/-- `addInflightSub(s, initial)` followed by the send, when it says so -/
def addInflightSub (s : St) (l : Nat) (initial : Bool) : St :=
  if skipSub s l initial then s else allocSub s l

/-- `popInflight` finds a pending subscription: the entry is removed, the waiter is consumed -/
def popSub (s : St) (id l : Nat) : St :=
  { s with pending := s.pending.filter (·.1 != id),
           subs := (l, { getSub s l with pendingReq := none, waiter := false }) :: s.subs.filter (·.1 != l) }

/-- `handleSubscriptionConfirm` after the pop: an error or an unusable result is reported to the first waiter;
    a server id goes on to `addActiveSub` (the `activate` step) -/
def afterPop (s1 : St) (l : Nat) (waiter : Bool) : Reply → St
  | .result (some sid) => { s1 with confirming := some (l, sid, waiter) }
  | _ => { s1 with log := s1.log ++ (if waiter then [.subConfirmed l false] else []) }

/-- `addActiveSub` for a still configured subscription -/
def activateSub (s : St) (l sid : Nat) : St :=
  { s with confirming := none,
           subs := (l, { getSub s l with current := some sid }) :: s.subs.filter (·.1 != l),
           active := (sid, l) :: s.active.filter (·.1 != sid) }

/-- the sub objects after `clearActiveReturnConfiguredSubs`: configured ones lose their request / server id -/
def resetSubs (s : St) : List (Nat × SubRec) :=
  s.subs.map fun p => if s.configured.contains p.1 then (p.1, { p.2 with pendingReq := none, current := none }) else p

/-- `handleReconnect`, first half: fail the calls, clear the tables, queue the configured subscriptions -/
def clearAll (s : St) (order : List Nat) : St :=
  { s with calls := [], active := [], pending := [],
           log := s.log ++ s.calls.map fun p => Ev.completed p.2 p.1 false,
           resubQueue := order.filter s.configured.contains,
           subs := resetSubs s }

def step (s : St) : Op → St
  | .call c =>
    let id := s.counter + 1
    { s with counter := id, calls := s.calls ++ [(id, c)], log := s.log ++ [.sentCall id c] }
  | .cancelCall id =>
    match s.calls.find? (·.1 == id) with
    | some (_, c) => { s with calls := s.calls.filter (·.1 != id), log := s.log ++ [.completed c id false] }
    | none => s
  | .subscribe l =>
    if s.configured.contains l then s
    else { setSub s l {} with configured := s.configured ++ [l] }
  | .sendSubscribe l => addInflightSub s l true
  | .reply id r =>
    -- popInflight: pending subscriptions first, then calls
    match s.pending.find? (·.1 == id) with
    | some (_, l) => afterPop (popSub s id l) l (getSub s l).waiter r
    | none =>
      match s.calls.find? (·.1 == id) with
      | some (_, c) =>
        { s with calls := s.calls.filter (·.1 != id),
                 log := s.log ++ [.completed c id (match r with | .result _ => true | .error => false)] }
      | none => { s with log := s.log ++ [.dropped] }
  | .activate =>
    match s.confirming with
    | none => s
    | some (l, sid, waiter) =>
      let s1 : St :=
        if Gen.RpcFacts.activateChecksConfigured && !s.configured.contains l then { s with confirming := none }
        else activateSub s l sid
      { s1 with log := s1.log ++ (if waiter then [.subConfirmed l true] else []) }
  | .notify sid =>
    match s.active.find? (·.1 == sid) with
    | some (_, l) => { s with log := s.log ++ [.notified l ((getSub s l).current.getD 0)] }
    | none => { s with log := s.log ++ [.dropped] }
  | .reconnectClear order => if !s.reconnectEnabled then s else clearAll s order
  | .resubscribe =>
    match s.resubQueue with
    | [] => s
    | l :: rest => addInflightSub { s with resubQueue := rest } l false
  | .unsubscribe l =>
    let r := getSub s l
    { s with configured := s.configured.filter (· != l),
             active := (match r.current with | some sid => s.active.filter (·.1 != sid) | none => s.active),
             pending := (match r.pendingReq with | some id => s.pending.filter (·.1 != id) | none => s.pending) }

def run (s : St) (ops : List Op) : St := ops.foldl step s

/-- what the environment may do: the receive loop is one goroutine (it reads the next frame only when the previous one
    is fully handled) and delivers nothing while the reconnect callback is running (wsclient starts reading the
    new connection only after the callback returns, and the old connection's reader has exited), callbacks do
    not overlap, local
    subscription ids are fresh, the server does not hand out a subscription id that is already live, and ids echoed
    in replies are ids of this connection's counter. -/
def okOp (s : St) : Op → Prop
  | .reply _ (.result (some sid)) => s.resubQueue = [] ∧ s.confirming = none ∧ ∀ p ∈ s.active, p.1 ≠ sid
  | .reply _ _ => s.resubQueue = [] ∧ s.confirming = none
  | .notify _ => s.resubQueue = [] ∧ s.confirming = none
  | .reconnectClear order => s.resubQueue = [] ∧ s.confirming = none ∧ order.Nodup
  | .subscribe l => ∀ p ∈ s.subs, p.1 ≠ l
  | _ => True

inductive Reach (re : Bool) : St → Prop where
  | init : Reach re (init re)
  | step {s : St} (op : Op) : Reach re s → okOp s op → Reach re (step s op)

end Ws
end FFS.Model.RpcClients
