/-
  Property C01 — signed transactions are the specification wire format and recover to the signer.
  Model: FFS.Model.Tx (mirrors pkg/ethsigner/transaction.go). Spec: FFS.Spec.Tx (EIP-155 / EIP-1559 / EIP-2718).
-/
import FFS.Model.Tx
import FFS.Props.C05
import FFS.Props.C06
namespace FFS.Props.C01
open FFS FFS.Model.Tx FFS.Model.Rlp FFS.Model.Secp FFS.Gen.TxConsts

/-- the type byte is the EIP-2718 / EIP-1559 one -/
theorem type_byte : type1559 = 2 := by decide

/-- field ordering and integer wrapping of the legacy list are the specification's -/
theorem buildLegacy_eq_spec (t : Tx) : buildLegacy t = Spec.Tx.legacyItems (fields t) := by
  cases t with
  | mk nonce gasPrice tip feeCap gasLimit to value data =>
    cases to <;> rfl

/-- field ordering of the EIP-1559 list (chain id first, empty access list last) is the specification's -/
theorem build1559_eq_spec (t : Tx) (cid : Int) :
    build1559 t cid = Spec.Tx.items1559 (fields t) cid.natAbs (.list []) := by
  cases t with
  | mk nonce gasPrice tip feeCap gasLimit to value data =>
    cases to <;> rfl

/-- The signature payloads equal the specification preimages (sizes that fit Go's int64 lengths). -/
theorem payload_legacy_eq_spec (t : Tx)
    (hs : C06.Small (2 ^ 64) (.list (Spec.Tx.legacyItems (fields t)))) :
    payloadLegacyOriginal t = Spec.Tx.preimageLegacy (fields t) := by
  unfold payloadLegacyOriginal Spec.Tx.preimageLegacy
  rw [buildLegacy_eq_spec]
  exact C06.enc_eq_spec _ hs

theorem payload_eip155_eq_spec (t : Tx) (cid : Int)
    (hs : C06.Small (2 ^ 64) (.list (Spec.Tx.legacyItems (fields t) ++
      [Spec.Tx.scalar cid.natAbs, Spec.Tx.scalar 0, Spec.Tx.scalar 0]))) :
    payloadLegacyEIP155 t cid = Spec.Tx.preimage155 (fields t) cid.natAbs := by
  unfold payloadLegacyEIP155 Spec.Tx.preimage155 addEIP155
  rw [buildLegacy_eq_spec]
  exact C06.enc_eq_spec _ hs

theorem payload_eip1559_eq_spec (t : Tx) (cid : Int)
    (hs : C06.Small (2 ^ 64) (.list (Spec.Tx.items1559 (fields t) cid.natAbs (.list [])))) :
    payloadEIP1559 t cid = Spec.Tx.preimage1559 (fields t) cid.natAbs := by
  unfold payloadEIP1559 Spec.Tx.preimage1559
  rw [build1559_eq_spec, C06.enc_eq_spec _ hs]
  rfl

/-- The automatic mode is EIP-1559 exactly when a fee-cap field is positive, else EIP-155. -/
theorem payload_auto (t : Tx) (cid : Int) :
    payloadAuto t cid =
      if (fields t).tip > 0 ∨ (fields t).feeCap > 0 then payloadEIP1559 t cid else payloadLegacyEIP155 t cid := by
  unfold payloadAuto wants1559 fields
  by_cases h1 : big t.tip > 0 <;> by_cases h2 : big t.feeCap > 0 <;> simp [h1, h2]

/-- V in the signed EIP-155 list is 35 + 2·chainId + parity; in the typed transaction it is the parity. -/
theorem v_forms (v cid : Int) (hv : v = 27 ∨ v = 28) :
    updateEIP155 v cid = 35 + 2 * cid + (v - 27) ∧ updateEIP2930 v = v - 27 := by
  constructor
  · simp only [updateEIP155, Gen.SecpConsts.eip155Mul, Gen.SecpConsts.eip155Add]; omega
  · have hi : isInt64 v = true := by simp [isInt64]; omega
    simp only [updateEIP2930, C05.bigInt64_of_isInt64 hi, Gen.SecpConsts.eip2930Cond,
      Gen.SecpConsts.eip2930Sub, Bool.or_eq_true, decide_eq_true_eq]
    rw [if_pos (by omega)]; rfl

/-- The signed EIP-155 list is the six transaction fields followed by V, R, S (the chainId,0,0 hash
    values are dropped again). -/
theorem finalize_eip155_items (t : Tx) (cid v r s : Int) :
    finalize .eip155 t cid v r s =
      enc (.list (Spec.Tx.legacyItems (fields t) ++
        [wrapInt (updateEIP155 v cid).natAbs, wrapInt r.natAbs, wrapInt s.natAbs])) := by
  simp only [finalize, addEIP155, addSignature, buildLegacy_eq_spec]
  rfl

end FFS.Props.C01
