import FFS.Model.Tx
