/-
  Property C01 — signed transactions are the specification wire format and recover to the signer.
  Model: FFS.Model.Tx (mirrors pkg/ethsigner/transaction.go). Spec: FFS.Spec.Tx (EIP-155 / EIP-1559 / EIP-2718).
  * `build*_eq_spec`, `payload_*_eq_spec`, `v_forms`, `finalize_eip155_items` : the bytes that are signed and sent are
        the specification's, for every transaction and chain id.
  * **`recover_sign_1559`**, **`recover_sign_eip155`** : RecoverRawTransaction applied to what Sign produced returns the
        signer's address, the fields that were signed and the payload that was signed — for every transaction, every
        key in [1, n), every chain id in [0, 2^53] and every lawful curve — composing the RLP round trip (C06), the
        shape validation of recovery (C10) and recover∘sign of the secp256k1 wrapper (C05).
-/
import FFS.Model.Tx
import FFS.Props.C05
import FFS.Props.C06
namespace FFS.Props.C01
open FFS FFS.Model.Tx FFS.Model.Rlp FFS.Model.Secp FFS.Gen.TxConsts

/-- the type byte is the EIP-2718 / EIP-1559 one -/
theorem type_byte : type1559 = 2 := by decide

/-- field ordering and integer wrapping of the legacy list are the specification's -/
theorem buildLegacy_eq_spec (t : Tx) : buildLegacy t = Spec.Tx.legacyItems (fields t) := by
  cases t with
  | mk nonce gasPrice tip feeCap gasLimit to value data =>
    cases to <;> rfl

/-- field ordering of the EIP-1559 list (chain id first, empty access list last) is the specification's -/
theorem build1559_eq_spec (t : Tx) (cid : Int) :
    build1559 t cid = Spec.Tx.items1559 (fields t) cid.natAbs (.list []) := by
  cases t with
  | mk nonce gasPrice tip feeCap gasLimit to value data =>
    cases to <;> rfl

/-- The signature payloads equal the specification preimages (sizes that fit Go's int64 lengths). -/
theorem payload_legacy_eq_spec (t : Tx)
    (hs : C06.Small (2 ^ 64) (.list (Spec.Tx.legacyItems (fields t)))) :
    payloadLegacyOriginal t = Spec.Tx.preimageLegacy (fields t) := by
  unfold payloadLegacyOriginal Spec.Tx.preimageLegacy
  rw [buildLegacy_eq_spec]
  exact C06.enc_eq_spec _ hs

theorem payload_eip155_eq_spec (t : Tx) (cid : Int)
    (hs : C06.Small (2 ^ 64) (.list (Spec.Tx.legacyItems (fields t) ++
      [Spec.Tx.scalar cid.natAbs, Spec.Tx.scalar 0, Spec.Tx.scalar 0]))) :
    payloadLegacyEIP155 t cid = Spec.Tx.preimage155 (fields t) cid.natAbs := by
  unfold payloadLegacyEIP155 Spec.Tx.preimage155 addEIP155
  rw [buildLegacy_eq_spec]
  exact C06.enc_eq_spec _ hs

theorem payload_eip1559_eq_spec (t : Tx) (cid : Int)
    (hs : C06.Small (2 ^ 64) (.list (Spec.Tx.items1559 (fields t) cid.natAbs (.list [])))) :
    payloadEIP1559 t cid = Spec.Tx.preimage1559 (fields t) cid.natAbs := by
  unfold payloadEIP1559 Spec.Tx.preimage1559
  rw [build1559_eq_spec, C06.enc_eq_spec _ hs]
  rfl

/-- The automatic mode is EIP-1559 exactly when a fee-cap field is positive, else EIP-155. -/
theorem payload_auto (t : Tx) (cid : Int) :
    payloadAuto t cid =
      if (fields t).tip > 0 ∨ (fields t).feeCap > 0 then payloadEIP1559 t cid else payloadLegacyEIP155 t cid := by
  unfold payloadAuto wants1559 fields
  by_cases h1 : big t.tip > 0 <;> by_cases h2 : big t.feeCap > 0 <;> simp [h1, h2]

/-- V in the signed EIP-155 list is 35 + 2·chainId + parity; in the typed transaction it is the parity. -/
theorem v_forms (v cid : Int) (hv : v = 27 ∨ v = 28) :
    updateEIP155 v cid = 35 + 2 * cid + (v - 27) ∧ updateEIP2930 v = v - 27 := by
  constructor
  · simp only [updateEIP155, Gen.SecpConsts.eip155Mul, Gen.SecpConsts.eip155Add]; omega
  · have hi : isInt64 v = true := by simp [isInt64]; omega
    simp only [updateEIP2930, C05.bigInt64_of_isInt64 hi, Gen.SecpConsts.eip2930Cond,
      Gen.SecpConsts.eip2930Sub, Bool.or_eq_true, decide_eq_true_eq]
    rw [if_pos (by omega)]; rfl

/-- The signed EIP-155 list is the six transaction fields followed by V, R, S (the chainId,0,0 hash
    values are dropped again). -/
theorem finalize_eip155_items (t : Tx) (cid v r s : Int) :
    finalize .eip155 t cid v r s =
      enc (.list (Spec.Tx.legacyItems (fields t) ++
        [wrapInt (updateEIP155 v cid).natAbs, wrapInt r.natAbs, wrapInt s.natAbs])) := by
  simp only [finalize, addEIP155, addSignature, buildLegacy_eq_spec]
  rfl

/-! ### recover ∘ sign -/

/-- what recovery reads back: every integer field present (nil was signed as 0), no legacy gas price -/
def norm1559 (t : Tx) : Tx :=
  { nonce := some (big t.nonce), tip := some (big t.tip), feeCap := some (big t.feeCap), gasLimit := some (big t.gasLimit),
    to := t.to, value := some (big t.value), data := t.data, gasPrice := none }

theorem itemInt_wrapInt (n : Nat) : itemInt (wrapInt n) = some n := by
  simp [itemInt, wrapInt, fromBE_minBE]

theorem isCanonInt_wrapInt (n : Nat) : isCanonInt (wrapInt n) = true := by
  unfold wrapInt
  cases h : minBE n with
  | nil => rfl
  | cons b t =>
    simp only [isCanonInt]
    have := minBE_head_ne_zero n b t h
    simpa using this

theorem itemBytes_wrapInt (n : Nat) : fromBE (itemBytes (wrapInt n)) = n := by
  simp [itemBytes, wrapInt, fromBE_minBE]

theorem bigInt64_small (n : Nat) (h : n < 2 ^ 63) : bigInt64 (n : Int) = n := by
  have hi : isInt64 (n : Int) = true := by
    simp only [isInt64, Bool.and_eq_true, decide_eq_true_eq]
    have : ((2 ^ 63 : Nat) : Int) = (2 : Int) ^ 63 := by simp
    omega
  exact C05.bigInt64_of_isInt64 hi

theorem isStr_wrapInt (n : Nat) : isStr (wrapInt n) = true := rfl

theorem validate_ok (c n tp fc gl vl : Nat) (to : Option Bytes) (data : Bytes) (p r s : Nat)
    (hto : isAddrOrEmpty (wrapAddress to) = true) :
    validate1559 [wrapInt c, wrapInt n, wrapInt tp, wrapInt fc, wrapInt gl, wrapAddress to, wrapInt vl, .str data,
      .list [], wrapInt p, wrapInt r, wrapInt s] 12 = .ok true := by
  simp only [validate1559, e1559Validates, if_true, validTxScalars, e1559Ints, e1559IntsSigned, e1559Bytes,
    e1559BytesSigned, e1559To, ge_iff_le, Nat.le_refl]
  simp [isCanonInt_wrapInt, hto, isStr_wrapInt]
  rfl

/-- the signed EIP-1559 list, written out -/
def signed1559 (t : Tx) (cid : Int) (p r s : Nat) : List Item :=
  [wrapInt cid.natAbs, wrapInt (big t.nonce), wrapInt (big t.tip), wrapInt (big t.feeCap), wrapInt (big t.gasLimit),
   wrapAddress t.to, wrapInt (big t.value), .str t.data, .list [], wrapInt p, wrapInt r, wrapInt s]

theorem signed1559_eq (t : Tx) (cid : Int) (p r s : Nat) :
    build1559 t cid ++ [wrapInt p, wrapInt r, wrapInt s] = signed1559 t cid p r s := rfl

theorem itemAddr_wrapAddress (to : Option Bytes) (hto : ∀ a, to = some a → a.length = 20) :
    itemAddr (wrapAddress to) = to ∧ isAddrOrEmpty (wrapAddress to) = true := by
  cases hta : to with
  | none => simp [wrapAddress, itemAddr, isAddrOrEmpty]
  | some a => simp [wrapAddress, itemAddr, isAddrOrEmpty, hto a hta]

theorem decode1559_signed (t : Tx) (cid : Int) (p r s : Nat) (hc : 0 ≤ cid) (hto : ∀ a, t.to = some a → a.length = 20)
    (hsm : C06.Small (2 ^ 31) (.list (signed1559 t cid p r s))) :
    decode1559 (UInt8.ofNat type1559 :: enc (.list (signed1559 t cid p r s))) cid min1559Signed =
      .ok (signed1559 t cid p r s, norm1559 t) := by
  have hdec : Decode (enc (.list (signed1559 t cid p r s))) =
      .ok (some (.list (signed1559 t cid p r s)), (enc (.list (signed1559 t cid p r s))).length) := by
    have := C06.decode_enc_append _ hsm []
    simpa using this
  have hb0 : ¬ ((UInt8.ofNat type1559).toNat ≠ type1559) := by decide
  unfold decode1559
  simp only []
  rw [if_neg hb0, hdec]
  simp only []
  have hlen : ¬ ((signed1559 t cid p r s).length < min1559Signed) := by simp [signed1559, min1559Signed]
  rw [if_neg hlen]
  have hcid : ((cid.natAbs : Nat) : Int) = cid := by omega
  have hchain : chainIdMatches (signed1559 t cid p r s) cid = true := by
    simp [chainIdMatches, signed1559, itemInt_wrapInt, e1559ChainIdExact, hcid]
  rw [hchain]
  simp only [Bool.not_true, Bool.false_eq_true, if_false]
  have hval : validate1559 (signed1559 t cid p r s) min1559Signed = .ok true :=
    validate_ok _ _ _ _ _ _ _ _ _ _ _ (itemAddr_wrapAddress t.to hto).2
  rw [hval]
  simp only []
  simp [signed1559, itemInt_wrapInt, norm1559, itemBytes, (itemAddr_wrapAddress t.to hto).1]

theorem recoverCommon_ok (C : Curve) (tx : Tx) (msg : Bytes) (cid v : Int) (r s a : Bytes)
    (h : Model.Secp.recover C { V := some v, R := some (fromBE r), S := some (fromBE s) } msg cid = .ok a) :
    recoverCommon C tx msg cid v r s = .ok (a, tx, msg) := by
  unfold recoverCommon
  rw [h]

/-- size bounds every real Ethereum transaction meets: integer fields are uint256, `to` is 20 bytes, data < 1 GiB -/
structure Fits (t : Tx) : Prop where
  nonce : big t.nonce < 2 ^ 256
  gasPrice : big t.gasPrice < 2 ^ 256
  tip : big t.tip < 2 ^ 256
  feeCap : big t.feeCap < 2 ^ 256
  gasLimit : big t.gasLimit < 2 ^ 256
  value : big t.value < 2 ^ 256
  to : ∀ a, t.to = some a → a.length = 20
  data : t.data.length < 2 ^ 30

theorem minBE_len32 (n : Nat) (h : n < 2 ^ 256) : (minBE n).length ≤ 32 := by
  apply minBE_length_le
  rw [show (256 : Nat) = 2 ^ 8 from rfl, ← Nat.pow_mul]; exact h

theorem rlp_wrapInt_len (n : Nat) (h : n < 2 ^ 256) : (Spec.Rlp.rlp (wrapInt n)).length ≤ 33 := by
  have := minBE_len32 n h
  have h2 := Rb_length_le_short (minBE n) (by omega)
  simp only [wrapInt, Spec.Rlp.rlp]; omega

theorem small_wrapInt (n : Nat) (h : n < 2 ^ 256) : C06.Small (2 ^ 31) (wrapInt n) := by
  have := minBE_len32 n h
  simp only [wrapInt, C06.Small]; omega

theorem rlp_wrapAddress_len (to : Option Bytes) (hto : ∀ a, to = some a → a.length = 20) :
    (Spec.Rlp.rlp (wrapAddress to)).length ≤ 21 ∧ C06.Small (2 ^ 31) (wrapAddress to) := by
  cases to with
  | none => simp [wrapAddress, Spec.Rlp.rlp, Spec.Rlp.Rb, C06.Small]
  | some a =>
    have h20 := hto a rfl
    have h2 := Rb_length_le_short a (by omega)
    simp only [wrapAddress, Spec.Rlp.rlp, C06.Small]; omega

theorem rlp_data_len (d : Bytes) (h : d.length < 2 ^ 30) : (Spec.Rlp.rlp (.str d)).length ≤ 5 + d.length := by
  have := Rb_length_le d 4 (by rw [show (256 : Nat) = 2 ^ 8 from rfl, ← Nat.pow_mul]; omega)
  simp only [Spec.Rlp.rlp]; omega

theorem small_signed1559 (t : Tx) (cid : Int) (p r s : Nat) (hf : Fits t) (hc : cid.natAbs < 2 ^ 256)
    (hp : p < 2 ^ 256) (hr : r < 2 ^ 256) (hs : s < 2 ^ 256) :
    C06.Small (2 ^ 31) (.list (signed1559 t cid p r s)) := by
  have l0 := rlp_wrapInt_len _ hc
  have l1 := rlp_wrapInt_len _ hf.nonce
  have l2 := rlp_wrapInt_len _ hf.tip
  have l3 := rlp_wrapInt_len _ hf.feeCap
  have l4 := rlp_wrapInt_len _ hf.gasLimit
  have l5 := rlp_wrapAddress_len t.to hf.to
  have l6 := rlp_wrapInt_len _ hf.value
  have l7 := rlp_data_len t.data hf.data
  have l9 := rlp_wrapInt_len _ hp
  have l10 := rlp_wrapInt_len _ hr
  have l11 := rlp_wrapInt_len _ hs
  have l8 : (Spec.Rlp.rlp (.list [])).length = 1 := by simp [Spec.Rlp.rlp, Spec.Rlp.rlpSeq, Spec.Rlp.Rl]
  have hd := hf.data
  simp only [signed1559, C06.Small, C06.SmallL, Spec.Rlp.rlpSeq, List.length_append, List.length_nil]
  refine ⟨by omega, small_wrapInt _ hc, small_wrapInt _ hf.nonce, small_wrapInt _ hf.tip, small_wrapInt _ hf.feeCap,
    small_wrapInt _ hf.gasLimit, l5.2, small_wrapInt _ hf.value, by omega, ⟨by decide, trivial⟩, small_wrapInt _ hp, small_wrapInt _ hr,
    small_wrapInt _ hs, trivial⟩

theorem cid_small (cid : Int) (hc : 0 ≤ cid ∧ cid ≤ 2 ^ 53) : cid.natAbs < 2 ^ 256 := by
  have h1 : cid.natAbs ≤ 2 ^ 53 := by omega
  exact Nat.lt_of_le_of_lt h1 (Nat.pow_lt_pow_right (by decide) (by decide))

theorem sig_small (C : Curve) (hC : C.Lawful) (k : Nat) (z : Bytes) :
    (C.signCompact k z).2.1 < 2 ^ 256 ∧ (C.signCompact k z).2.2 < 2 ^ 256 := by
  have hn := hC.n_lt
  have h1 := (hC.sign_r k z).2
  have h2 := (hC.sign_s k z).2
  constructor
  · exact Nat.lt_trans h1 hn
  · exact Nat.lt_of_le_of_lt (by omega) hn

/-- **An EIP-1559 transaction signed by key `k` recovers to `k`'s address, with the fields that were signed and the
    payload that was signed** — for every transaction, key, chain id (0 ≤ id ≤ 2^53) and lawful curve; `to`, when
    present, has 20 bytes; the signed list fits the decoder's size cap (2^31 bytes). -/
theorem recover_sign_1559 (C : Curve) (hC : C.Lawful) (k : Nat) (hk : 1 ≤ k ∧ k < C.n) (t : Tx) (cid : Int)
    (hc : 0 ≤ cid ∧ cid ≤ 2 ^ 53) (hf : Fits t) :
    recoverRaw C (signTx C .eip1559 t k cid) cid = .ok (keyAddress C k, norm1559 t, payloadEIP1559 t cid) := by
  obtain ⟨z, hz⟩ : ∃ z, z = Prim.keccak256 (payloadEIP1559 t cid) := ⟨_, rfl⟩
  obtain ⟨v, hvd⟩ : ∃ v, v = (C.signCompact k z).1 := ⟨_, rfl⟩
  obtain ⟨r, hrd⟩ : ∃ r, r = (C.signCompact k z).2.1 := ⟨_, rfl⟩
  obtain ⟨s, hsd⟩ : ∃ s, s = (C.signCompact k z).2.2 := ⟨_, rfl⟩
  have hv : v = 27 ∨ v = 28 := by rw [hvd]; exact hC.sign_v k z
  have hsig : signDirect C k z = { V := some (v : Int), R := some (r : Int), S := some (s : Int) } := by
    rw [hvd, hrd, hsd]; rfl
  have hsign : sign C k (payloadEIP1559 t cid) = { V := some (v : Int), R := some (r : Int), S := some (s : Int) } := by
    unfold sign; rw [← hz]; exact hsig
  have hv' : updateEIP2930 (v : Int) = (v : Int) - 27 := (v_forms (v : Int) cid (by omega)).2
  have hp : ((v : Int) - 27).natAbs = v - 27 := by omega
  have hraw : signTx C .eip1559 t k cid = UInt8.ofNat type1559 :: enc (.list (signed1559 t cid (v - 27) r s)) := by
    simp only [signTx, payload, hsign, finalize, Option.getD_some, hv', addSignature, hp, Int.natAbs_natCast,
      signed1559_eq]
  rw [hraw]
  have hb0 : (UInt8.ofNat type1559).toNat = 2 := by decide
  unfold recoverRaw
  simp only [hb0, show rawIsLegacy 2 = false by decide, show rawIs1559 2 = true by decide, Bool.false_eq_true, if_false, if_true]
  unfold recover1559
  have hto := hf.to
  have hrs := sig_small C hC k z
  rw [← hrd, ← hsd] at hrs
  have hp256 : v - 27 < 2 ^ 256 := Nat.lt_of_le_of_lt (show v - 27 ≤ 1 by omega) (Nat.one_lt_two_pow (by decide))
  rw [decode1559_signed t cid (v - 27) r s hc.1 hto (small_signed1559 t cid _ r s hf (cid_small cid hc) hp256 hrs.1 hrs.2)]
  simp only []
  have hg9 : itemInt ((signed1559 t cid (v - 27) r s).getD 9 (.list [])) = some (v - 27) := by
    simp [signed1559, itemInt_wrapInt]
  rw [hg9]
  simp only []
  have htake : (signed1559 t cid (v - 27) r s).take 9 = build1559 t cid := by simp [signed1559, build1559]
  have hr10 : fromBE (itemBytes ((signed1559 t cid (v - 27) r s).getD 10 (.list []))) = r := by
    simp [signed1559, itemBytes_wrapInt]
  have hs11 : fromBE (itemBytes ((signed1559 t cid (v - 27) r s).getD 11 (.list []))) = s := by
    simp [signed1559, itemBytes_wrapInt]
  have hb64 : bigInt64 ((v - 27 : Nat) : Int) = (v : Int) - 27 := by
    rw [bigInt64_small (v - 27) (by omega)]; omega
  rw [htake]
  have hmsg : UInt8.ofNat type1559 :: enc (.list (build1559 t cid)) = payloadEIP1559 t cid := by
    simp only [payloadEIP1559]
  rw [hmsg]
  have hrec := (C05.recover_sign_all_conventions C hC k hk z cid hc).2.1
  simp only [hsig, ← hvd, hv'] at hrec
  apply recoverCommon_ok
  rw [hr10, hs11, hb64]
  unfold Model.Secp.recover
  rw [← hz]
  exact hrec


/-- what legacy recovery reads back -/
def normLegacy (t : Tx) : Tx :=
  { nonce := some (big t.nonce), gasPrice := some (big t.gasPrice), gasLimit := some (big t.gasLimit),
    to := t.to, value := some (big t.value), data := t.data, tip := none, feeCap := none }

/-- the signed legacy list, written out -/
def signedLegacy (t : Tx) (V r s : Nat) : List Item :=
  [wrapInt (big t.nonce), wrapInt (big t.gasPrice), wrapInt (big t.gasLimit), wrapAddress t.to, wrapInt (big t.value),
   .str t.data, wrapInt V, wrapInt r, wrapInt s]

theorem signedLegacy_eq (t : Tx) (cid : Int) (V r s : Nat) :
    (addEIP155 (buildLegacy t) cid).take 6 ++ [wrapInt V, wrapInt r, wrapInt s] = signedLegacy t V r s := rfl

theorem small_signedLegacy (t : Tx) (V r s : Nat) (hf : Fits t)
    (hV : V < 2 ^ 256) (hr : r < 2 ^ 256) (hs : s < 2 ^ 256) :
    C06.Small (2 ^ 31) (.list (signedLegacy t V r s)) := by
  have l1 := rlp_wrapInt_len _ hf.nonce
  have l2 := rlp_wrapInt_len _ hf.gasPrice
  have l4 := rlp_wrapInt_len _ hf.gasLimit
  have l5 := rlp_wrapAddress_len t.to hf.to
  have l6 := rlp_wrapInt_len _ hf.value
  have l7 := rlp_data_len t.data hf.data
  have l9 := rlp_wrapInt_len _ hV
  have l10 := rlp_wrapInt_len _ hr
  have l11 := rlp_wrapInt_len _ hs
  have hd := hf.data
  simp only [signedLegacy, C06.Small, C06.SmallL, Spec.Rlp.rlpSeq, List.length_append, List.length_nil]
  refine ⟨by omega, small_wrapInt _ hf.nonce, small_wrapInt _ hf.gasPrice, small_wrapInt _ hf.gasLimit, l5.2,
    small_wrapInt _ hf.value, by omega, small_wrapInt _ hV, small_wrapInt _ hr, small_wrapInt _ hs, trivial⟩

theorem rlp_length_pos (t : Item) : 0 < (Spec.Rlp.rlp t).length := by
  have := rlp_ne_nil t
  cases h : Spec.Rlp.rlp t with
  | nil => exact absurd h this
  | cons a b => simp

theorem rlpSeq_length_ge : ∀ (xs : List Item), xs.length ≤ (Spec.Rlp.rlpSeq xs).length
  | [] => by simp [Spec.Rlp.rlpSeq]
  | x :: xs => by
    rw [Spec.Rlp.rlpSeq]
    have := rlp_length_pos x
    have := rlpSeq_length_ge xs
    simp; omega

theorem minBE_len_pos (n : Nat) (h : n ≠ 0) : 0 < (minBE n).length := minBE_length_pos h

/-- the first byte of the encoding of a list of at least seven items selects the legacy branch -/
theorem legacy_head (xs : List Item) (h7 : 7 ≤ xs.length) (hsm : C06.Small (2 ^ 31) (.list xs)) :
    ∃ b0 rest, enc (.list xs) = b0 :: rest ∧ rawIsLegacy b0.toNat = true := by
  rw [C06.enc_eq_spec _ (C06.small_mono (by decide) _ hsm)]
  have hlen := rlpSeq_length_ge xs
  have hsz : (Spec.Rlp.rlpSeq xs).length < 2 ^ 31 := by
    simp only [C06.Small] at hsm; exact hsm.1
  rw [Spec.Rlp.rlp]
  unfold Spec.Rlp.Rl
  split
  · rename_i h56
    refine ⟨_, _, rfl, ?_⟩
    have : (UInt8.ofNat (192 + (Spec.Rlp.rlpSeq xs).length)).toNat = 192 + (Spec.Rlp.rlpSeq xs).length := by
      simp [UInt8.toNat_ofNat]; omega
    simp [rawIsLegacy, this]; omega
  · rename_i h56
    refine ⟨_, _, rfl, ?_⟩
    have hpos : 0 < (minBE (Spec.Rlp.rlpSeq xs).length).length := minBE_length_pos (by omega)
    have hle : (minBE (Spec.Rlp.rlpSeq xs).length).length ≤ 4 :=
      minBE_length_le (w := 4) (by
        have : (256 : Nat) ^ 4 = 2 ^ 32 := by decide
        omega)
    have : (UInt8.ofNat (247 + (minBE (Spec.Rlp.rlpSeq xs).length).length)).toNat = 247 + (minBE (Spec.Rlp.rlpSeq xs).length).length := by
      simp [UInt8.toNat_ofNat]; omega
    simp [rawIsLegacy, this]; omega

theorem validateLegacy_ok (n gp gl vl : Nat) (to : Option Bytes) (data : Bytes) (V r s : Nat)
    (hto : isAddrOrEmpty (wrapAddress to) = true) :
    validateLegacy [wrapInt n, wrapInt gp, wrapInt gl, wrapAddress to, wrapInt vl, .str data, wrapInt V, wrapInt r, wrapInt s] = .ok true := by
  simp only [validateLegacy, legacyValidates, if_true, validTxScalars, legacyInts, legacyTo, legacyBytes]
  simp [isCanonInt_wrapInt, hto, isStr_wrapInt]
  all_goals rfl

theorem vNotLegacy_155 (cid v : Int) (h0 : 0 ≤ cid) (hv : v = 27 ∨ v = 28) :
    vNotLegacy (35 + 2 * cid + (v - 27)) = true := by
  simp only [vNotLegacy, Bool.and_eq_true, decide_eq_true_eq]; omega

theorem v155_back (cid v : Int) : v155ToLegacy (35 + 2 * cid + (v - 27)) cid = v := by
  simp only [v155ToLegacy]; omega

theorem legacyTx_eq (t : Tx) (V r s : Nat) (hto : ∀ a, t.to = some a → a.length = 20) :
    Tx.mk (itemInt ((signedLegacy t V r s).getD 0 (.list []))) (itemInt ((signedLegacy t V r s).getD 1 (.list []))) none none
      (itemInt ((signedLegacy t V r s).getD 2 (.list []))) (itemAddr ((signedLegacy t V r s).getD 3 (.list [])))
      (itemInt ((signedLegacy t V r s).getD 4 (.list []))) (itemBytes ((signedLegacy t V r s).getD 5 (.list []))) = normLegacy t := by
  simp [signedLegacy, itemInt_wrapInt, normLegacy, itemBytes, (itemAddr_wrapAddress t.to hto).1]

theorem v155_small (cid : Int) (v V : Nat) (hc : 0 ≤ cid ∧ cid ≤ 2 ^ 53) (hv : v = 27 ∨ v = 28)
    (hVd : (V : Int) = 35 + 2 * cid + ((v : Int) - 27)) : V < 2 ^ 256 := by
  have h1 : V ≤ 2 ^ 55 := by omega
  exact Nat.lt_of_le_of_lt h1 (Nat.pow_lt_pow_right (by decide) (by decide))

/-- **A legacy EIP-155 transaction signed by key `k` recovers to `k`'s address, with the fields and the payload that
    were signed** — every transaction, key, chain id in [0, 2^53], lawful curve. -/
theorem recover_sign_eip155 (C : Curve) (hC : C.Lawful) (k : Nat) (hk : 1 ≤ k ∧ k < C.n) (t : Tx) (cid : Int)
    (hc : 0 ≤ cid ∧ cid ≤ 2 ^ 53) (hf : Fits t) :
    recoverRaw C (signTx C .eip155 t k cid) cid = .ok (keyAddress C k, normLegacy t, payloadLegacyEIP155 t cid) := by
  obtain ⟨z, hz⟩ : ∃ z, z = Prim.keccak256 (payloadLegacyEIP155 t cid) := ⟨_, rfl⟩
  obtain ⟨v, hvd⟩ : ∃ v, v = (C.signCompact k z).1 := ⟨_, rfl⟩
  obtain ⟨r, hrd⟩ : ∃ r, r = (C.signCompact k z).2.1 := ⟨_, rfl⟩
  obtain ⟨s, hsd⟩ : ∃ s, s = (C.signCompact k z).2.2 := ⟨_, rfl⟩
  have hv : v = 27 ∨ v = 28 := by rw [hvd]; exact hC.sign_v k z
  have hsig : signDirect C k z = { V := some (v : Int), R := some (r : Int), S := some (s : Int) } := by
    rw [hvd, hrd, hsd]; rfl
  have hsign : sign C k (payloadLegacyEIP155 t cid) = { V := some (v : Int), R := some (r : Int), S := some (s : Int) } := by
    unfold sign; rw [← hz]; exact hsig
  have hV : updateEIP155 (v : Int) cid = 35 + 2 * cid + ((v : Int) - 27) := (v_forms (v : Int) cid (by omega)).1
  obtain ⟨V, hVd⟩ : ∃ V : Nat, (V : Int) = 35 + 2 * cid + ((v : Int) - 27) := ⟨(35 + 2 * cid + ((v : Int) - 27)).toNat, by omega⟩
  have hVabs : (updateEIP155 (v : Int) cid).natAbs = V := by rw [hV, ← hVd]; simp
  have hraw : signTx C .eip155 t k cid = enc (.list (signedLegacy t V r s)) := by
    simp only [signTx, payload, hsign, finalize, Option.getD_some, addSignature, hVabs, Int.natAbs_natCast, signedLegacy_eq]
  rw [hraw]
  have hto := hf.to
  have hrs := sig_small C hC k z
  rw [← hrd, ← hsd] at hrs
  have hV256 : V < 2 ^ 256 := v155_small cid v V hc hv hVd
  have hsm : C06.Small (2 ^ 31) (.list (signedLegacy t V r s)) := small_signedLegacy t V r s hf hV256 hrs.1 hrs.2
  obtain ⟨b0, rest, hhead, hleg⟩ := legacy_head (signedLegacy t V r s) (by simp [signedLegacy]) hsm
  unfold recoverRaw
  rw [hhead]
  simp only [hleg, if_true]
  rw [← hhead]
  -- the legacy path
  have hdec : Decode (enc (.list (signedLegacy t V r s))) =
      .ok (some (.list (signedLegacy t V r s)), (enc (.list (signedLegacy t V r s))).length) := by
    have := C06.decode_enc_append _ hsm []
    simpa using this
  unfold recoverLegacy
  rw [hdec]
  simp only []
  have hshort : legacyTooShort (signedLegacy t V r s).length = false := by simp [signedLegacy, legacyTooShort]
  rw [hshort]
  simp only [Bool.false_eq_true, if_false]
  have hval : validateLegacy (signedLegacy t V r s) = .ok true :=
    validateLegacy_ok _ _ _ _ _ _ _ _ _ (itemAddr_wrapAddress t.to hto).2
  rw [hval]
  simp only []
  have hg6 : itemInt ((signedLegacy t V r s).getD 6 (.list [])) = some V := by simp [signedLegacy, itemInt_wrapInt]
  rw [hg6]
  simp only []
  have e53 : (2 : Int) ^ 53 = 9007199254740992 := by decide
  have e63 : (2 : Nat) ^ 63 = 9223372036854775808 := by decide
  have hVlt : V < 2 ^ 63 := by
    rw [e63]
    have h1 := hc.2
    rw [e53] at h1
    omega
  have hb64 : bigInt64 (V : Int) = V := bigInt64_small V hVlt
  rw [hb64]
  have hnl : vNotLegacy (V : Int) = true := by
    rw [hVd]; exact vNotLegacy_155 cid v hc.1 (by rcases hv with rfl | rfl <;> simp)
  rw [hnl]
  simp only [if_true]
  have hv2 : wrap64 (v155ToLegacy (V : Int) cid) = (v : Int) := by
    have : v155ToLegacy (V : Int) cid = v := by rw [hVd]; exact v155_back cid v
    rw [this]
    rcases hv with rfl | rfl <;> decide
  rw [hv2]
  have hnl2 : vNotLegacy (v : Int) = false := by
    simp only [vNotLegacy]; rcases hv with rfl | rfl <;> decide
  rw [hnl2]
  simp only [Bool.false_eq_true, if_false]
  have htake : (signedLegacy t V r s).take 6 = buildLegacy t := by simp [signedLegacy, buildLegacy]
  rw [htake]
  have hmsg : enc (.list (addEIP155 (buildLegacy t) cid)) = payloadLegacyEIP155 t cid := by simp only [payloadLegacyEIP155]
  rw [hmsg]
  have hr7 : fromBE (itemBytes ((signedLegacy t V r s).getD 7 (.list []))) = r := by simp [signedLegacy, itemBytes_wrapInt]
  have hs8 : fromBE (itemBytes ((signedLegacy t V r s).getD 8 (.list []))) = s := by simp [signedLegacy, itemBytes_wrapInt]
  have hrec := (C05.recover_sign_all_conventions C hC k hk z cid hc).1
  simp only [hsig] at hrec
  rw [legacyTx_eq t V r s hto]
  apply recoverCommon_ok
  rw [hr7, hs8]
  unfold Model.Secp.recover
  rw [← hz]
  exact hrec

/-! ### the original (pre-EIP-155) legacy mode -/

theorem signedLegacyOrig_eq (t : Tx) (V r s : Nat) :
    buildLegacy t ++ [wrapInt V, wrapInt r, wrapInt s] = signedLegacy t V r s := rfl

/-- **An original-style legacy transaction (V = 27/28, no chain id in the preimage) signed by key `k` recovers to
    `k`'s address, with the fields and the payload that were signed** — every transaction, key, lawful curve, and
    whatever chain id recovery is asked to use. -/
theorem recover_sign_legacyOriginal (C : Curve) (hC : C.Lawful) (k : Nat) (hk : 1 ≤ k ∧ k < C.n) (t : Tx) (cid : Int)
    (hc : 0 ≤ cid ∧ cid ≤ 2 ^ 53) (hf : Fits t) :
    recoverRaw C (signTx C .legacyOriginal t k cid) cid =
      .ok (keyAddress C k, normLegacy t, payloadLegacyOriginal t) := by
  obtain ⟨z, hz⟩ : ∃ z, z = Prim.keccak256 (payloadLegacyOriginal t) := ⟨_, rfl⟩
  obtain ⟨v, hvd⟩ : ∃ v, v = (C.signCompact k z).1 := ⟨_, rfl⟩
  obtain ⟨r, hrd⟩ : ∃ r, r = (C.signCompact k z).2.1 := ⟨_, rfl⟩
  obtain ⟨s, hsd⟩ : ∃ s, s = (C.signCompact k z).2.2 := ⟨_, rfl⟩
  have hv : v = 27 ∨ v = 28 := by rw [hvd]; exact hC.sign_v k z
  have hsig : signDirect C k z = { V := some (v : Int), R := some (r : Int), S := some (s : Int) } := by
    rw [hvd, hrd, hsd]; rfl
  have hsign : sign C k (payloadLegacyOriginal t) = { V := some (v : Int), R := some (r : Int), S := some (s : Int) } := by
    unfold sign; rw [← hz]; exact hsig
  have hraw : signTx C .legacyOriginal t k cid = enc (.list (signedLegacy t v r s)) := by
    simp only [signTx, payload, hsign, finalize, Option.getD_some, addSignature, Int.natAbs_natCast, signedLegacyOrig_eq]
  rw [hraw]
  have hto := hf.to
  have hrs := sig_small C hC k z
  rw [← hrd, ← hsd] at hrs
  have hV256 : v < 2 ^ 256 := by
    have : v < 29 := by omega
    exact Nat.lt_of_lt_of_le this (by decide)
  have hsm : C06.Small (2 ^ 31) (.list (signedLegacy t v r s)) := small_signedLegacy t v r s hf hV256 hrs.1 hrs.2
  obtain ⟨b0, rest, hhead, hleg⟩ := legacy_head (signedLegacy t v r s) (by simp [signedLegacy]) hsm
  unfold recoverRaw
  rw [hhead]
  simp only [hleg, if_true]
  rw [← hhead]
  have hdec : Decode (enc (.list (signedLegacy t v r s))) =
      .ok (some (.list (signedLegacy t v r s)), (enc (.list (signedLegacy t v r s))).length) := by
    have := C06.decode_enc_append _ hsm []
    simpa using this
  unfold recoverLegacy
  rw [hdec]
  simp only []
  have hshort : legacyTooShort (signedLegacy t v r s).length = false := by simp [signedLegacy, legacyTooShort]
  rw [hshort]
  simp only [Bool.false_eq_true, if_false]
  have hval : validateLegacy (signedLegacy t v r s) = .ok true :=
    validateLegacy_ok _ _ _ _ _ _ _ _ _ (itemAddr_wrapAddress t.to hto).2
  rw [hval]
  simp only []
  have hg6 : itemInt ((signedLegacy t v r s).getD 6 (.list [])) = some v := by simp [signedLegacy, itemInt_wrapInt]
  rw [hg6]
  simp only []
  have hb64 : bigInt64 (v : Int) = v := bigInt64_small v (by
    have : v < 29 := by omega
    exact Nat.lt_of_lt_of_le this (by decide))
  rw [hb64]
  have hnl : vNotLegacy (v : Int) = false := by
    simp only [vNotLegacy]; rcases hv with rfl | rfl <;> decide
  rw [hnl]
  simp only [Bool.false_eq_true, if_false]
  have htake : (signedLegacy t v r s).take 6 = buildLegacy t := by simp [signedLegacy, buildLegacy]
  rw [htake]
  have hmsg : enc (.list (buildLegacy t)) = payloadLegacyOriginal t := by simp only [payloadLegacyOriginal]
  rw [hmsg]
  have hr7 : fromBE (itemBytes ((signedLegacy t v r s).getD 7 (.list []))) = r := by simp [signedLegacy, itemBytes_wrapInt]
  have hs8 : fromBE (itemBytes ((signedLegacy t v r s).getD 8 (.list []))) = s := by simp [signedLegacy, itemBytes_wrapInt]
  have hrec := (C05.recover_sign_all_conventions C hC k hk z cid hc).1
  simp only [hsig] at hrec
  rw [legacyTx_eq t v r s hto]
  apply recoverCommon_ok
  rw [hr7, hs8]
  unfold Model.Secp.recover
  rw [← hz]
  exact hrec

/-- every signing mode at once: what `RecoverRawTransaction` returns for the output of `Sign*` -/
def normOf (mode : Mode) (t : Tx) : Tx :=
  match mode with
  | .legacyOriginal => normLegacy t
  | .eip155 => normLegacy t
  | .eip1559 => norm1559 t
  | .auto => if wants1559 t then norm1559 t else normLegacy t

/-! ### the automatic mode (`Transaction.Sign`) -/

/-- what recovery reads back from an automatically signed transaction -/
def normAuto (t : Tx) : Tx := if wants1559 t then norm1559 t else normLegacy t

theorem signTx_auto (C : Curve) (t : Tx) (k : Nat) (cid : Int) :
    signTx C .auto t k cid = if wants1559 t then signTx C .eip1559 t k cid else signTx C .eip155 t k cid := by
  unfold signTx
  by_cases h : wants1559 t = true
  · simp only [h, if_true, payload, payloadAuto, finalize]
  · have h' : wants1559 t = false := by simpa using h
    simp only [h', Bool.false_eq_true, if_false, payload, payloadAuto, finalize]

/-- **`Sign` (automatic choice) followed by `RecoverRawTransaction` with the same chain id returns the key's
    address, the signed field values and the signing payload** — EIP-1559 when a fee-market field is positive,
    EIP-155 otherwise. -/
theorem recover_sign_auto (C : Curve) (hC : C.Lawful) (k : Nat) (hk : 1 ≤ k ∧ k < C.n) (t : Tx) (cid : Int)
    (hc : 0 ≤ cid ∧ cid ≤ 2 ^ 53) (hf : Fits t) :
    recoverRaw C (signTx C .auto t k cid) cid = .ok (keyAddress C k, normAuto t, payloadAuto t cid) := by
  rw [signTx_auto]
  unfold normAuto payloadAuto
  by_cases h : wants1559 t = true
  · simp only [h, if_true]; exact recover_sign_1559 C hC k hk t cid hc hf
  · have h' : wants1559 t = false := by simpa using h
    simp only [h', Bool.false_eq_true, if_false]; exact recover_sign_eip155 C hC k hk t cid hc hf

/-- **All four signing modes**: `RecoverRawTransaction ∘ Sign<mode>` = (signer's address, the signed field values, the
    signing payload of that mode). -/
theorem recover_sign_every_mode (C : Curve) (hC : C.Lawful) (k : Nat) (hk : 1 ≤ k ∧ k < C.n) (mode : Mode) (t : Tx)
    (cid : Int) (hc : 0 ≤ cid ∧ cid ≤ 2 ^ 53) (hf : Fits t) :
    recoverRaw C (signTx C mode t k cid) cid = .ok (keyAddress C k, normOf mode t, payload mode t cid) := by
  cases mode with
  | legacyOriginal => exact recover_sign_legacyOriginal C hC k hk t cid hc hf
  | eip155 => exact recover_sign_eip155 C hC k hk t cid hc hf
  | eip1559 => exact recover_sign_1559 C hC k hk t cid hc hf
  | auto => exact recover_sign_auto C hC k hk t cid hc hf

/-- non-vacuity: a concrete transaction (contract creation with fee-market fields, 3 data bytes) meets `Fits` -/
example : Fits { nonce := some 7, gasPrice := none, tip := some 1, feeCap := some (10 ^ 10), gasLimit := some 21000,
                 to := none, value := some (10 ^ 18), data := [1, 2, 3] } := by
  constructor <;> simp [big]

/-- … and with the lawful toy curve of C05 every hypothesis of `recover_sign_auto` is met at once: recovery of a signed
    transaction does return `.ok` (which is also what makes the soundness theorems of C10 non-vacuous) -/
example : ∃ (raw a p : Bytes) (tx : Tx), recoverRaw C05.toyCurve raw 1 = .ok (a, tx, p) :=
  ⟨_, _, _, _, recover_sign_auto C05.toyCurve C05.toyCurve_lawful 1 (by decide)
    { nonce := some 7, gasPrice := none, tip := some 1, feeCap := some (10 ^ 10), gasLimit := some 21000,
      to := none, value := some (10 ^ 18), data := [1, 2, 3] } 1 (by decide) (by constructor <;> simp [big])⟩

end FFS.Props.C01
