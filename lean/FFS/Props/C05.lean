/-
  Property C05 — secp256k1 sign / recover wrapper is consistent under every V convention.
  Model: FFS.Model.Secp (mirrors /repo/pkg/secp256k1; switch arms regenerated into Gen.SecpConsts).
  The curve library is a parameter `C` with hypotheses `C.Lawful` (not proved for secp256k1; see DESIGN §6).
-/
import FFS.Model.Secp
import FFS.Lemmas.Bytes
namespace FFS.Props.C05
open FFS FFS.Model.Secp FFS.Gen.SecpConsts

/-! ### V normalisation -/

theorem bigInt64_of_isInt64 {V : Int} (h : isInt64 V = true) : bigInt64 V = V := by
  simp only [isInt64, Bool.and_eq_true, decide_eq_true_eq] at h
  unfold bigInt64 wrap64
  split <;> omega

/-- the fix: commit is present: nil V and V outside int64 are rejected up front -/
theorem checksInt64 : vChecksInt64 = true := by decide

/-- `getVNormalized` never panics (nil V included). -/
theorem vnorm_total (V : Option Int) (cid : Int) : getVNormalized V cid ≠ .panic := by
  unfold getVNormalized
  cases V with
  | none => simp [checksInt64]
  | some V =>
    show (if (vChecksInt64 && !isInt64 V) = true then Outcome.err
      else if vReject (byteOf (wrap64 (vArm (bigInt64 V) cid))) = true then Outcome.err
      else Outcome.ok (byteOf (wrap64 (vArm (bigInt64 V) cid)))) ≠ Outcome.panic
    split
    · simp
    · split
      · simp
      · simp

/-- A V that does not fit int64 is rejected, never truncated. -/
theorem vnorm_no_truncation (V : Int) (cid : Int) (h : isInt64 V = false) :
    getVNormalized (some V) cid = .err := by
  simp [getVNormalized, checksInt64, h]

/-- Exact characterisation of acceptance. -/
theorem vnorm_accept_char {V cid b : Int} (h : getVNormalized (some V) cid = .ok b) :
    isInt64 V = true ∧ (b = 27 ∨ b = 28) ∧
    ((V = 0 ∨ V = 1) → b = V + 27) ∧ ((V = 27 ∨ V = 28) → b = V) ∧
    (¬ (V = 0 ∨ V = 1 ∨ V = 27 ∨ V = 28) → b = (V - 8 - 2 * cid) % 256) := by
  unfold getVNormalized at h
  simp only [checksInt64, Bool.true_and] at h
  split at h
  · cases h
  · rename_i hi
    have hi : isInt64 V = true := by simpa using hi
    rw [bigInt64_of_isInt64 hi] at h
    split at h
    · cases h
    · rename_i hr
      injection h with h
      simp only [vReject, Bool.and_eq_true, decide_eq_true_eq] at hr
      simp only [isInt64, Bool.and_eq_true, decide_eq_true_eq] at hi
      simp only [byteOf, wrap64, vArm, Bool.or_eq_true, decide_eq_true_eq] at h hr
      refine ⟨by simp [isInt64]; omega, by omega, ?_, ?_, ?_⟩
      · intro hv; split at h <;> omega
      · intro hv; split at h <;> (try split at h) <;> omega
      · intro hv; split at h <;> (try split at h) <;> omega

theorem vnorm_eval {V cid b : Int} (hi : isInt64 V = true)
    (hb : byteOf (wrap64 (vArm V cid)) = b) (hok : b = 27 ∨ b = 28) :
    getVNormalized (some V) cid = .ok b := by
  simp only [getVNormalized, checksInt64, hi, bigInt64_of_isInt64 hi, hb, Bool.not_true, Bool.and_false,
    Bool.false_eq_true, if_false]
  have : vReject b = false := by
    simp only [vReject]; rcases hok with h | h <;> subst h <;> decide
  simp [this]

/-- The three accepted conventions, for every chain id in the property's range. -/
theorem vnorm_three_conventions (p cid : Int) (hp : p = 0 ∨ p = 1) (hc : 0 ≤ cid ∧ cid ≤ 2 ^ 53) :
    getVNormalized (some (27 + p)) cid = .ok (27 + p) ∧
    getVNormalized (some p) cid = .ok (27 + p) ∧
    getVNormalized (some (35 + 2 * cid + p)) cid = .ok (27 + p) := by
  have h1 : isInt64 (27 + p) = true := by simp [isInt64]; omega
  have h2 : isInt64 p = true := by simp [isInt64]; omega
  have h3 : isInt64 (35 + 2 * cid + p) = true := by simp [isInt64]; omega
  refine ⟨vnorm_eval h1 ?_ (by omega), vnorm_eval h2 ?_ (by omega), vnorm_eval h3 ?_ (by omega)⟩
  · rcases hp with hp | hp <;> subst hp <;> simp [vArm, byteOf, wrap64]
  · rcases hp with hp | hp <;> subst hp <;> simp [vArm, byteOf, wrap64]
  · have n1 : ¬ (35 + 2 * cid + p = 0) := by omega
    have n2 : ¬ (35 + 2 * cid + p = 1) := by omega
    have n3 : ¬ (35 + 2 * cid + p = 27) := by omega
    have n4 : ¬ (35 + 2 * cid + p = 28) := by omega
    simp only [vArm, n1, n2, n3, n4, decide_false, Bool.or_false, Bool.false_eq_true, if_false, byteOf, wrap64]
    omega

/-- **partial** version of "any other V is rejected": holds when V is within a byte of the EIP-155 base,
    i.e. when the `byte(...)` narrowing cannot wrap. -/
theorem vnorm_rejects_others_partial (V cid : Int)
    (hnot : ¬ (V = 0 ∨ V = 1 ∨ V = 27 ∨ V = 28 ∨ V = 35 + 2 * cid ∨ V = 36 + 2 * cid))
    (hnear : -27 ≤ V - 35 - 2 * cid ∧ V - 35 - 2 * cid < 229) :
    getVNormalized (some V) cid = .err := by
  cases hg : getVNormalized (some V) cid with
  | err => rfl
  | panic => exact absurd hg (vnorm_total _ _)
  | ok b =>
    have := vnorm_accept_char hg
    omega

/-- The **full** statement ("any V other than the three conventions is rejected") is FALSE of the code:
    V ≡ 35 + 2·chainId + parity (mod 256) is accepted. Witness V = 35 + 256, chain id 0.
    (Known finding C05-vmod256; the existing test-suite relies on this wrap-around for CompactRSV.) -/
theorem vnorm_full_fails :
    ∃ V cid : Int, ¬ (V = 0 ∨ V = 1 ∨ V = 27 ∨ V = 28 ∨ V = 35 + 2 * cid ∨ V = 36 + 2 * cid) ∧
      getVNormalized (some V) cid = .ok 27 :=
  ⟨291, 0, by decide, by decide⟩


/-! ### Sign / recover consistency (parametric in a lawful curve) -/

/-- Shape of a signature produced by signing: V ∈ {27,28}, R ∈ [1,n-1], S ∈ [1, n/2] (low-S). -/
theorem sign_shape (C : Curve) (hC : C.Lawful) (k : Nat) (z : Bytes) :
    ∃ v r s : Nat, signDirect C k z = { V := some v, R := some r, S := some s } ∧
      (v = 27 ∨ v = 28) ∧ 1 ≤ r ∧ r < C.n ∧ 1 ≤ s ∧ 2 * s ≤ C.n :=
  ⟨(C.signCompact k z).1, (C.signCompact k z).2.1, (C.signCompact k z).2.2, rfl,
    hC.sign_v k z, (hC.sign_r k z).1, (hC.sign_r k z).2, (hC.sign_s k z).1, (hC.sign_s k z).2⟩

/-- Core lemma: if V' normalises to the V the library produced, recovery returns the key's address. -/
theorem recover_of_vnorm (C : Curve) (hC : C.Lawful) (k : Nat) (hk : 1 ≤ k ∧ k < C.n) (z : Bytes)
    (V' cid : Int)
    (hv : getVNormalized (some V') cid = .ok ((C.signCompact k z).1 : Int)) :
    recoverDirect C { V := some V', R := some ((C.signCompact k z).2.1 : Int),
                      S := some ((C.signCompact k z).2.2 : Int) } z cid = .ok (keyAddress C k) := by
  have hr := hC.sign_r k z
  have hs := hC.sign_s k z
  have hn := hC.n_lt
  have hr256 : (C.signCompact k z).2.1 < 256 ^ 32 := by
    have : (256 : Nat) ^ 32 = 2 ^ 256 := by decide
    omega
  have hs256 : (C.signCompact k z).2.2 < 256 ^ 32 := by
    have : (256 : Nat) ^ 32 = 2 ^ 256 := by decide
    omega
  have hrOK : rsOK (some ((C.signCompact k z).2.1 : Int)) = true := by
    simp only [rsOK, Bool.and_eq_true, decide_eq_true_eq]; omega
  have hsOK : rsOK (some ((C.signCompact k z).2.2 : Int)) = true := by
    simp only [rsOK, Bool.and_eq_true, decide_eq_true_eq]; omega
  simp only [recoverDirect, hv, hrOK, hsOK, Bool.and_self, Bool.not_true, Bool.false_eq_true, if_false,
    Option.getD_some, Int.toNat_natCast, fillBytes?, hr256, hs256, if_true]
  rw [hC.recover_sign k z hk.1 hk.2]
  rfl

/-- Recovery with V as 27/28, as 0/1 and as 35+2·chainId+parity all return exactly the key's address. -/
theorem recover_sign_all_conventions (C : Curve) (hC : C.Lawful) (k : Nat) (hk : 1 ≤ k ∧ k < C.n)
    (z : Bytes) (cid : Int) (hc : 0 ≤ cid ∧ cid ≤ 2 ^ 53) :
    let sig := signDirect C k z
    let v : Int := ((C.signCompact k z).1 : Int)
    recoverDirect C sig z cid = .ok (keyAddress C k) ∧
    recoverDirect C { sig with V := some (updateEIP2930 v) } z cid = .ok (keyAddress C k) ∧
    recoverDirect C { sig with V := some (updateEIP155 v cid) } z cid = .ok (keyAddress C k) := by
  intro sig v
  have hv := hC.sign_v k z
  have hp : (v - 27 = 0 ∨ v - 27 = 1) := by omega
  have h3 := vnorm_three_conventions (v - 27) cid hp hc
  have e27 : (27 + (v - 27) : Int) = v := by omega
  rw [e27] at h3
  refine ⟨recover_of_vnorm C hC k hk z v cid h3.1, ?_, ?_⟩
  · have : updateEIP2930 v = v - 27 := by
      have hi : isInt64 v = true := by simp [isInt64]; omega
      simp only [updateEIP2930, bigInt64_of_isInt64 hi, eip2930Cond, eip2930Sub, Bool.or_eq_true,
        decide_eq_true_eq]
      rw [if_pos (by omega)]; rfl
    rw [this]
    exact recover_of_vnorm C hC k hk z (v - 27) cid h3.2.1
  · have : updateEIP155 v cid = 35 + 2 * cid + (v - 27) := by
      simp only [updateEIP155, eip155Mul, eip155Add]; omega
    rw [this]
    exact recover_of_vnorm C hC k hk z _ cid h3.2.2

/-- The hashing entry points are the direct ones applied to keccak256(message) — any message length. -/
theorem recover_sign_message (C : Curve) (hC : C.Lawful) (k : Nat) (hk : 1 ≤ k ∧ k < C.n)
    (msg : Bytes) (cid : Int) (hc : 0 ≤ cid ∧ cid ≤ 2 ^ 53) :
    recover C (sign C k msg) msg cid = .ok (keyAddress C k) :=
  (recover_sign_all_conventions C hC k hk (Prim.keccak256 msg) cid hc).1

/-- Recovery is total: nil or oversized V/R/S give an error, never a panic. -/
theorem recover_total (C : Curve) (sig : Sig) (z : Bytes) (cid : Int) :
    recoverDirect C sig z cid ≠ .panic := by
  unfold recoverDirect
  cases hg : getVNormalized sig.V cid with
  | panic => exact absurd hg (vnorm_total _ _)
  | err => simp
  | ok vB =>
    simp only []
    split
    · simp
    · rename_i hrs
      simp only [Bool.not_eq_true', Bool.and_eq_false_iff, not_or, Bool.not_eq_false] at hrs
      have hR : rsOK sig.R = true := hrs.1
      have hS : rsOK sig.S = true := hrs.2
      cases hRv : sig.R with
      | none => rw [hRv] at hR; simp [rsOK] at hR
      | some r =>
        cases hSv : sig.S with
        | none => rw [hSv] at hS; simp [rsOK] at hS
        | some s =>
          rw [hRv] at hR; rw [hSv] at hS
          simp only [rsOK, Bool.and_eq_true, decide_eq_true_eq] at hR hS
          have e : (256 : Nat) ^ 32 = 2 ^ 256 := by decide
          have h1 : r.toNat < 256 ^ 32 := by omega
          have h2 : s.toNat < 256 ^ 32 := by omega
          simp only [Option.getD_some, fillBytes?, h1, h2, if_true]
          split <;> simp

/-- What a successful recovery means: V normalised to 27/28, R and S fit 32 bytes, and the library
    recovered a public key from exactly those values over exactly that digest; the result is its address. -/
theorem recoverDirect_ok {C : Curve} {sig : Sig} {z : Bytes} {cid : Int} {a : Bytes}
    (h : recoverDirect C sig z cid = .ok a) :
    ∃ (vB r s : Int) (P : C.Pub), getVNormalized sig.V cid = .ok vB ∧ (vB = 27 ∨ vB = 28) ∧
      sig.R = some r ∧ sig.S = some s ∧ 0 ≤ r ∧ r < 2 ^ 256 ∧ 0 ≤ s ∧ s < 2 ^ 256 ∧
      C.recoverCompact vB.toNat (toBE 32 r.toNat) (toBE 32 s.toNat) z = some P ∧ a = addressOf C P := by
  unfold recoverDirect at h
  cases hg : getVNormalized sig.V cid with
  | panic => rw [hg] at h; cases h
  | err => rw [hg] at h; cases h
  | ok vB =>
    rw [hg] at h
    simp only [] at h
    split at h
    · cases h
    · rename_i hrs
      simp only [Bool.not_eq_true', Bool.and_eq_false_iff, not_or, Bool.not_eq_false] at hrs
      cases hRv : sig.R with
      | none => rw [hRv] at hrs; simp [rsOK] at hrs
      | some r =>
        cases hSv : sig.S with
        | none => rw [hSv] at hrs; simp [rsOK] at hrs
        | some s =>
          rw [hRv, hSv] at hrs h
          simp only [rsOK, Bool.and_eq_true, decide_eq_true_eq] at hrs
          have e : (256 : Nat) ^ 32 = 2 ^ 256 := by decide
          have h1 : r.toNat < 256 ^ 32 := by omega
          have h2 : s.toNat < 256 ^ 32 := by omega
          simp only [Option.getD_some, fillBytes?, h1, h2, if_true] at h
          have hvB : vB = 27 ∨ vB = 28 := by
            cases hV : sig.V with
            | none => rw [hV] at hg; simp [getVNormalized, checksInt64] at hg
            | some V => rw [hV] at hg; exact (vnorm_accept_char hg).2.1
          split at h
          · rename_i P hP
            injection h with h
            exact ⟨vB, r, s, P, rfl, hvB, rfl, rfl, hrs.1.1, hrs.1.2, hrs.2.1, hrs.2.2, hP, h.symm⟩
          · cases h

/-- The address of a key is the last 20 bytes of keccak256 of its uncompressed public key (X ‖ Y). -/
theorem addr_def (C : Curve) (k : Nat) :
    keyAddress C k = (Prim.keccak256 (C.ser (C.pub k))).drop 12 := rfl


/-- The 65-byte compact form R ‖ S ‖ V round-trips (for byte-sized V, as produced by signing). -/
theorem compact_roundtrip (r s v : Nat) (hr : r < 2 ^ 256) (hs : s < 2 ^ 256) (hv : v < 256) :
    ∃ b, compactRSV { V := some v, R := some r, S := some s } = .ok b ∧ b.length = 65 ∧
      decodeCompactRSV b = .ok { V := some v, R := some r, S := some s } := by
  have e : (256 : Nat) ^ 32 = 2 ^ 256 := by decide
  have hr' : r < 256 ^ 32 := by omega
  have hs' : s < 256 ^ 32 := by omega
  have hb : bigInt64 (v : Int) = v := bigInt64_of_isInt64 (by simp [isInt64]; omega)
  have hbyte : (byteOf (v : Int)).toNat = v := by simp only [byteOf]; omega
  refine ⟨toBE 32 r ++ toBE 32 s ++ [UInt8.ofNat v], ?_, by simp, ?_⟩
  · simp [compactRSV, fillBytes?, hr', hs', hb, hbyte]
  · have h1 : (toBE 32 r ++ toBE 32 s ++ [UInt8.ofNat v]).take 32 = toBE 32 r := by
      rw [List.append_assoc, List.take_append_of_le_length (by simp)]
      exact List.take_of_length_le (by simp)
    have h2 : ((toBE 32 r ++ toBE 32 s ++ [UInt8.ofNat v]).drop 32).take 32 = toBE 32 s := by
      rw [List.append_assoc, List.drop_append_of_le_length (by simp)]
      have : (toBE 32 r).drop 32 = [] := List.drop_of_length_le (by simp)
      rw [this, List.nil_append, List.take_append_of_le_length (by simp)]
      exact List.take_of_length_le (by simp)
    have h3 : ((toBE 32 r ++ toBE 32 s ++ [UInt8.ofNat v]).drop 64).take 1 = [UInt8.ofNat v] := by
      have : (toBE 32 r ++ toBE 32 s).length = 64 := by simp
      rw [List.drop_append_of_le_length (by omega)]
      have : (toBE 32 r ++ toBE 32 s).drop 64 = [] := List.drop_of_length_le (by omega)
      rw [this]; rfl
    have f1 : fromBE (toBE 32 r) = r := by rw [fromBE_toBE]; exact Nat.mod_eq_of_lt hr'
    have f2 : fromBE (toBE 32 s) = s := by rw [fromBE_toBE]; exact Nat.mod_eq_of_lt hs'
    have f3 : fromBE [UInt8.ofNat v] = v := by
      simp [fromBE, UInt8.toNat_ofNat']; omega
    simp only [decodeCompactRSV]
    rw [if_neg (by simp), h1, h2, h3, f1, f2, f3]

/-- **An address is 20 bytes**: the last 20 of the 32 bytes of Keccak-256. -/
theorem addressOf_length (C : Curve) (p : C.Pub) : (addressOf C p).length = 20 := by
  simp [addressOf, Prim.keccak256_length]
theorem keyAddress_length (C : Curve) (k : Nat) : (keyAddress C k).length = 20 := addressOf_length C _

/-- Non-vacuity: the `Lawful` hypotheses are satisfiable (a one-key toy instance). -/
def toyCurve : Curve :=
  { Pub := Nat, n := 2, pub := id, signCompact := fun _ _ => (27, 1, 1),
    recoverCompact := fun _ _ _ _ => some 1, ser := fun _ => [] }

theorem toyCurve_lawful : toyCurve.Lawful :=
  { sign_v := fun _ _ => Or.inl rfl, sign_r := fun _ _ => ⟨Nat.le_refl 1, Nat.lt_succ_self 1⟩,
    sign_s := fun _ _ => ⟨Nat.le_refl 1, Nat.le_refl 2⟩,
    n_lt := by decide,
    recover_sign := fun k _ h1 h2 => by
      have : k = 1 := by
        have h2' : k < 2 := h2
        omega
      subst this; rfl }

example : ∃ C : Curve, C.Lawful ∧ ∃ k, 1 ≤ k ∧ k < C.n := ⟨toyCurve, toyCurve_lawful, 1, by decide, by decide⟩

end FFS.Props.C05
