import FFS.Model.AbiEntry
