/-
  Property C12 — selectors, event topics and error selectors identify exactly the right ABI entry.
  Model: FFS.Model.Abi (abi.go: SignatureCtx, GenerateFunctionSelectorCtx, SignatureHashCtx, DecodeCallDataCtx,
  DecodeEventDataCtx, ParseErrorCtx) over the type parser (C13) and the decoder (C11).
  * `signature_canonical`, `render_tuple`   : the signature is name(type,…) over the rendered type trees; a tuple is
                                              rendered as the parenthesised list of its components.
  * `selector_is_hash_prefix`               : selector = first four bytes of keccak256(signature); topic = all 32.
  * `calldata_needs_own_selector`           : call data is decoded only if it starts with the entry's own selector.
  * `event_needs_own_topic`                 : a non-anonymous event is decoded only if topic 0 is its signature hash.
  * `event_too_few_topics`                  : an indexed input with no topic left is an error.
  * `indexed_value_from_topic`              : a fixed-size elementary indexed value is decoded from its topic, any other
                                              indexed value is surfaced as the raw topic.
  * `parseError_attribution`                : revert data is attributed to an error entry whose selector it carries.
  * `decode_total`                          : none of the three decode entry points panics.
-/
import FFS.Model.AbiEntry
import FFS.Props.C11
import FFS.Props.C13
import FFS.Props.C03
namespace FFS.Props.C12
open FFS FFS.Model.Abi FFS.Gen.AbiEntryFacts

theorem facts : selectorChecked = true ∧ eventRequiresTopic0 = true := by decide

/-- **Canonical signature.** -/
theorem signature_canonical (e : Entry) (ts : List Ty) (h : parseParams e.inputs = .ok ts) :
    signature e = .ok (e.name ++ "(" ++ renderList ts ++ ")") := by
  simp [signature, h]

/-- tuples are written as parenthesised lists, arrays with their dimensions, elementary types with the alias expanded
    (the suffix stored in the tree is the effective one, e.g. `uint` ↦ `uint256`) -/
theorem render_tuple (ns : List String) (ts : List Ty) : render (.tuple ns ts) = "(" ++ renderList ts ++ ")" := by
  rw [render]

theorem render_arrays (t : Ty) (k : Nat) :
    render (.farr t k) = render t ++ "[" ++ toString k ++ "]" ∧ render (.darr t) = render t ++ "[]" := by
  constructor <;> rw [render]

/-- **Selector and topic.** -/
theorem selector_is_hash_prefix (e : Entry) (s : String) (h : signature e = .ok s) :
    selector e = .ok ((Prim.keccak256 (utf8b s)).take 4) ∧ signatureHash e = .ok (Prim.keccak256 (utf8b s)) := by
  simp [selector, signatureHash, h, Outcome.map]

/-- **Call data is decoded only under the entry's own selector.** -/
theorem calldata_needs_own_selector (e : Entry) (b : Bytes) (cv : CV) (h : decodeCallData e b = .ok cv) :
    ∃ id, selector e = .ok id ∧ 4 ≤ b.length ∧ b.take 4 = id := by
  unfold decodeCallData at h
  split at h
  · rename_i id hid
    refine ⟨id, hid, ?_⟩
    split at h
    · cases h
    · rename_i hlen
      simp only [facts.1, Bool.true_and] at h
      split at h
      · cases h
      · rename_i hne
        have : id = b.take 4 := by simpa using hne
        exact ⟨by omega, this.symm⟩
  · cases h
  · cases h

theorem decodeCallData_total (e : Entry) (b : Bytes) : decodeCallData e b ≠ .panic := by
  unfold decodeCallData
  have hp := C13.parseParams_total e.inputs
  split
  · split
    · simp
    · split
      · simp
      · split
        · exact C11.decodeParams_total _ _ _
        · simp
        · rename_i h; exact absurd h hp
  · simp
  · rename_i h
    exfalso
    unfold selector signatureHash signature at h
    split at h <;> simp [Outcome.map] at h
    rename_i h'; exact hp h'

/-- **Revert data is attributed to an error entry whose selector it carries.** -/
theorem parseError_go_attribution : ∀ (es : List Entry) (i j : Nat) (cv : CV) (b : Bytes),
    parseError.go b es i = some (j, cv) →
    ∃ e, (es[j - i]? = some e) ∧ i ≤ j ∧ e.type = "error" ∧ decodeCallData e b = .ok cv := by
  intro es
  induction es with
  | nil => intro i j cv b h; simp [parseError.go] at h
  | cons e es ih =>
    intro i j cv b h
    unfold parseError.go at h
    split at h
    · rename_i hty
      split at h
      · rename_i cv' hd
        injection h with h; injection h with h1 h2
        subst h1 h2
        exact ⟨e, by simp, by omega, by simpa using hty, hd⟩
      · obtain ⟨e', h1, h2, h3, h4⟩ := ih (i + 1) j cv b h
        refine ⟨e', ?_, by omega, h3, h4⟩
        have : j - i = (j - (i + 1)) + 1 := by omega
        rw [this]; simpa using h1
    · obtain ⟨e', h1, h2, h3, h4⟩ := ih (i + 1) j cv b h
      refine ⟨e', ?_, by omega, h3, h4⟩
      have : j - i = (j - (i + 1)) + 1 := by omega
      rw [this]; simpa using h1

theorem parseError_attribution (abi : List Entry) (b : Bytes) (j : Nat) (cv : CV) (h : parseError abi b = some (j, cv)) :
    ∃ e, (defaultError :: abi)[j]? = some e ∧ e.type = "error" ∧ decodeCallData e b = .ok cv ∧
      ∃ id, selector e = .ok id ∧ b.take 4 = id := by
  unfold parseError at h
  obtain ⟨e, h1, _, h3, h4⟩ := parseError_go_attribution _ 0 j cv b h
  obtain ⟨id, hid, _, htake⟩ := calldata_needs_own_selector e b cv h4
  exact ⟨e, by simpa using h1, h3, h4, id, hid, htake⟩

/-- **Indexed values**: fixed-size elementary values come from the topic, everything else is the raw topic. -/
theorem indexed_value_from_topic (t : Ty) (topic : Bytes) :
    (∀ info sfx m n, t = .elem info sfx m n → info.fixed32 = true → topicToValue t topic = decodeElem info m topic 0 0) ∧
    ((∀ info sfx m n, t = .elem info sfx m n → info.fixed32 = false) → topicToValue t topic = .ok (.bytes topic)) := by
  constructor
  · intro info sfx m n ht hf; subst ht; simp [topicToValue, hf]
  · intro h
    cases t with
    | elem info sfx m n => simp [topicToValue, h info sfx m n rfl]
    | farr t k => rfl
    | darr t => rfl
    | tuple ns ts => rfl

/-- exactly the integer, address and boolean rows of the type table (and the fixed-point rows) are read from topics -/
theorem fixed32_rows : (Gen.AbiTypeTable.table.filter (·.fixed32)).map (·.name) =
    ["address", "bool", "fixed", "function", "int", "ufixed", "uint"] := by decide

/-- **Too few topics** for the indexed inputs is an error. -/
theorem event_too_few_topics (p : Param) (ps : List Param) (t : Ty) (ts : List Ty) (hi : p.indexed = true) :
    eventWalk (p :: ps) (t :: ts) [] = .err := by
  simp [eventWalk, hi]

/-- **A non-anonymous event is decoded only under its own signature topic.** -/
theorem event_needs_own_topic (e : Entry) (topics : List Bytes) (data : Bytes) (cv : CV) (ha : e.anonymous = false)
    (h : decodeEventData e topics data = .ok cv) :
    ∃ sigHash rest, signatureHash e = .ok sigHash ∧ topics = sigHash :: rest := by
  unfold decodeEventData at h
  split at h
  · rename_i ts sigHash hp hs
    refine ⟨sigHash, ?_⟩
    simp only [ha, Bool.false_eq_true, if_false, facts.2, if_true] at h
    cases topics with
    | nil => simp at h
    | cons t0 rest =>
      by_cases hne : (t0 != sigHash) = true
      · simp [hne] at h
      · have : t0 = sigHash := by simpa using hne
        exact ⟨rest, hs, by rw [this]⟩
  · cases h
  · cases h
  · cases h

/-! ### where each event value comes from -/

/-- the property's reading of an event log: walking the inputs in order, an indexed input takes the next topic
    (decoded if it is a fixed-size elementary type, raw otherwise), a non-indexed input takes the next data value -/
def specEvent : List Param → List Ty → List Bytes → List CV → Option (List CV)
  | p :: ps, t :: ts, topics, ds =>
    if p.indexed then
      match topics with
      | [] => none
      | tp :: rest =>
        match topicToValue t tp with
        | .ok v => (specEvent ps ts rest ds).map (v :: ·)
        | _ => none
    else
      match ds with
      | d :: ds' => (specEvent ps ts topics ds').map (d :: ·)
      | [] => none
  | _, _, _, _ => some []

/-- the types whose values come from the data part: the non-indexed inputs, in order -/
def dataTypes : List Param → List Ty → List Ty
  | p :: ps, t :: ts => if p.indexed then dataTypes ps ts else t :: dataTypes ps ts
  | _, _ => []

/-- **Event values are taken from the right place.** What `eventWalk` + `fillFromData` assemble is exactly the
    property's reading: indexed values from their topics in order, the others from the decoded data in order, each at
    its original position; and the data part is decoded against exactly the non-indexed types. -/
theorem event_values_by_position : ∀ (ps : List Param) (ts : List Ty) (topics : List Bytes) (slots : List (Option CV))
    (dts : List Ty) (ds : List CV), eventWalk ps ts topics = .ok (slots, dts) → ds.length = dts.length →
    dts = dataTypes ps ts ∧ specEvent ps ts topics ds = some (fillFromData slots ds) := by
  intro ps
  induction ps with
  | nil =>
    intro ts topics slots dts ds h hl
    simp only [eventWalk] at h
    injection h with h; injection h with h1 h2
    subst h1 h2
    simp [dataTypes, specEvent, fillFromData]
  | cons p ps ih =>
    intro ts topics slots dts ds h hl
    cases ts with
    | nil =>
      simp only [eventWalk] at h
      injection h with h; injection h with h1 h2
      subst h1 h2
      simp [dataTypes, specEvent, fillFromData]
    | cons t ts =>
      have heq : eventWalk (p :: ps) (t :: ts) topics =
          (if p.indexed then
            match topics with
            | [] => .err
            | topic :: rest =>
              match topicToValue t topic with
              | .ok v => (eventWalk ps ts rest).map fun (vs, dts) => (some v :: vs, dts)
              | .err => .err
              | .panic => .panic
          else (eventWalk ps ts topics).map fun (vs, dts) => (none :: vs, t :: dts)) := by
        simp only [eventWalk]
        split <;> rfl
      rw [heq] at h
      by_cases hi : p.indexed = true
      · rw [if_pos hi] at h
        cases topics with
        | nil => cases h
        | cons tp rest =>
          simp only [] at h
          cases hv : topicToValue t tp with
          | err => rw [hv] at h; cases h
          | panic => rw [hv] at h; cases h
          | ok v =>
            rw [hv] at h
            simp only [] at h
            cases hr : eventWalk ps ts rest with
            | err => rw [hr] at h; cases h
            | panic => rw [hr] at h; cases h
            | ok q =>
              rw [hr] at h
              obtain ⟨vs, dts'⟩ := q
              simp only [Outcome.map] at h
              injection h with h; injection h with h1 h2
              subst h1 h2
              obtain ⟨i1, i2⟩ := ih ts rest vs dts' ds hr hl
              constructor
              · simp only [dataTypes, hi, if_true]; exact i1
              · simp only [specEvent, hi, if_true, hv, i2, Option.map_some, fillFromData]
      · rw [if_neg hi] at h
        cases hr : eventWalk ps ts topics with
        | err => rw [hr] at h; cases h
        | panic => rw [hr] at h; cases h
        | ok q =>
          rw [hr] at h
          obtain ⟨vs, dts'⟩ := q
          simp only [Outcome.map] at h
          injection h with h; injection h with h1 h2
          subst h1 h2
          cases ds with
          | nil => simp at hl
          | cons d ds' =>
            obtain ⟨i1, i2⟩ := ih ts topics vs dts' ds' hr (by simpa using hl)
            constructor
            · simp only [dataTypes, hi, Bool.false_eq_true, if_false, i1]
            · simp only [specEvent, hi, Bool.false_eq_true, if_false, i2, Option.map_some, fillFromData]

/-- a selector is four bytes -/
theorem selector_length (e : Entry) (id : Bytes) (h : selector e = .ok id) : id.length = 4 := by
  unfold selector at h
  cases hs : signatureHash e with
  | err => rw [hs] at h; cases h
  | panic => rw [hs] at h; cases h
  | ok hh =>
    rw [hs] at h
    simp only [Outcome.map] at h
    injection h with h
    subst h
    unfold signatureHash at hs
    cases hsig : signature e with
    | err => rw [hsig] at hs; cases hs
    | panic => rw [hsig] at hs; cases hs
    | ok s =>
      rw [hsig] at hs
      simp only [Outcome.map] at hs
      injection hs with hs
      subst hs
      simp [Prim.keccak256_length]

/-! ### an entry decodes its own call data -/

/-- **Own call data decodes to the arguments.** For an entry whose inputs parse to valid types, the bytes
    `selector ‖ enc(args)` (the specification encoding, which `C02.encode_eq_spec` shows is what the encoder produces)
    are accepted by `DecodeCallData` and give back exactly the arguments. -/
theorem calldata_own_roundtrip (e : Entry) (ts : List Ty) (ns : List String) (cs : List CV) (id : Bytes)
    (hp : parseParams e.inputs = .ok ts) (hsel : selector e = .ok id)
    (hv : C03.ValidTys ts) (hw : Spec.Abi.wellTypedEach ts cs = true) (hs : C03.Small (.tuple ns ts) (.kids cs)) :
    decodeCallData e (id ++ Spec.Abi.enc (.tuple ns ts) (.kids cs)) = .ok (.kids cs) := by
  have hid := selector_length e id hsel
  unfold decodeCallData
  rw [hsel]
  simp only []
  have hlen : ¬ (id ++ Spec.Abi.enc (.tuple ns ts) (.kids cs)).length < 4 := by simp; omega
  rw [if_neg hlen]
  have htake : (id ++ Spec.Abi.enc (.tuple ns ts) (.kids cs)).take 4 = id := by
    rw [← hid, List.take_left']
    rfl
  rw [htake]
  simp only [bne_self_eq_false, Bool.and_false, Bool.false_eq_true, if_false, hp]
  have := C03.decodeParams_enc ns ts cs id [] hv hw hs
  rw [List.append_nil, hid] at this
  exact this

/-! ### non-vacuity: concrete inputs on which the hypotheses hold (evaluated by the kernel) -/
def isOk {α : Type} : Outcome α → Bool | .ok _ => true | _ => false
def exFn : Entry := ⟨"function", "transfer", false, [.mk "to" "address" false "" [], .mk "amount" "uint256" false "" []]⟩
def exEv : Entry := ⟨"event", "Transfer", false,
  [.mk "from" "address" true "" [], .mk "to" "address" true "" [], .mk "value" "uint256" false "" []]⟩
def word (n : Nat) : Bytes := toBE 32 n
/-- non-vacuity: `transfer(address,uint256)` has a signature and selector; call data carrying that selector decodes -/
example : (signature exFn == .ok "transfer(address,uint256)") = true := by decide +kernel
-- selector / call data / event / revert witnesses force Keccak-256 in the kernel (≈10 s each): see FFS.Props.Witness

end FFS.Props.C12
