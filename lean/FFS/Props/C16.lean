/-
  Property C16 — the proxy survives and answers every request body with well-formed JSON-RPC.
  Model: FFS.Model.Proxy.handle (internal/rpcserver/rpchandler.go, rpcprocessor.go; rpcbackend.SyncRequest),
  for every body, every JSON tree, every backend script and every wallet.
  The model is a pure function of the request, so "any sequence of requests against one process" is the
  statement for every single request plus the absence of the `processCrash` outcome (`history_survives`).
-/
import FFS.Model.Proxy
import FFS.Spec.JsonRpc
namespace FFS.Props.C16
open Lean FFS FFS.Model.Proxy FFS.Gen.ProxyFacts

/-- The regenerated facts: every guard the robustness argument needs is present in the source. -/
theorem facts :
    nilMemberGuard = true ∧ badFromIsError = true ∧ sniffUnbounded = true ∧ httpErrorBuildsError = true ∧
    versionForced = true ∧ nilResultGuard = true ∧ idRestored = true := by decide

/-- **Regenerated tie for "every reply is JSON".** `processRPC` builds no JSON by string formatting: its error replies are
    `RPCErrorResponse` values carrying the request's own id (or the fixed id 1), which `encoding/json` can always
    marshal — the model's replies are trees, so they are JSON by construction; this fact keeps the code in that shape. -/
theorem replies_not_hand_built : noHandBuiltJsonInErrors = true := by decide

/-- A response object as JSON-RPC 2.0 requires it: version 2.0 and exactly one of result / error. -/
def WF (r : Resp) : Prop :=
  r.version = "2.0" ∧ ((r.result.isSome = true ∧ r.errorCode = none) ∨ (r.result = none ∧ r.errorCode.isSome = true))

theorem errResp_wf (id : Json) (c : Int) : WF (errResp id c) := by
  simp [WF, errResp]

/-- whatever the backend does, `SyncRequest` hands back a well-formed response -/
theorem syncRequest_wf (script : Script) (id : Json) (m : String) : WF (syncRequest script id m).1 := by
  unfold syncRequest
  split <;> simp [WF, errResp, httpErrorBuildsError, versionForced]

theorem signAndSend_wf (w : Wallet) (script : Script) (id : Json) (fwds : List Fwd) (fromRaw p0 : Json) (n : Option Nat)
    (tx : Model.Tx.Tx) : WF (signAndSend w script id fwds fromRaw p0 n tx).2.1 := by
  unfold signAndSend
  split
  · exact errResp_wf _ _
  · split
    · exact errResp_wf _ _
    · split
      · exact syncRequest_wf _ _ _
      · exact errResp_wf _ _

theorem sendTransaction_wf (mem : Members) (w : Wallet) (script : Script) (id : Json) (params : List Json) :
    WF (sendTransaction mem w script id params).2.1 := by
  unfold sendTransaction
  split
  · exact errResp_wf _ _
  · split
    · exact errResp_wf _ _
    · exact errResp_wf _ _
    · split
      · simp only [badFromIsError, if_true]; exact errResp_wf _ _
      · exact errResp_wf _ _
      · exact signAndSend_wf _ _ _ _ _ _ _ _

theorem processRPC_wf (mem : Members) (w : Wallet) (script : Script) (req : Option Req) :
    WF (processRPC mem w script req).2.1 := by
  unfold processRPC
  split
  · simp only [nilMemberGuard, if_true]; exact errResp_wf _ _
  · split
    · exact errResp_wf _ _
    · split
      · simp [WF, accountsResp]
      · split
        · exact sendTransaction_wf _ _ _ _ _
        · exact syncRequest_wf _ _ _

/-- the reply of the handler, as the list of response objects it carries; `none` = the process died -/
def responses : HttpReply → Option (List Resp)
  | .single _ r => some [r]
  | .batch _ rs => some rs
  | .processCrash => none

theorem mapM_some_length {α β : Type} (f : α → Option β) :
    ∀ (l : List α) (r : List β), l.mapM f = some r → r.length = l.length := by
  intro l
  induction l with
  | nil => intro r h; simp at h; subst h; rfl
  | cons a t ih =>
    intro r h
    rw [List.mapM_cons] at h
    cases hfa : f a with
    | none => simp [hfa] at h
    | some b =>
      cases ht : t.mapM f with
      | none => simp [hfa, ht] at h
      | some bs =>
        simp [hfa, ht] at h
        subst h
        simp [ih bs ht]

theorem parseErrorReply_ok : ∃ rs, responses parseErrorReply = some rs ∧ rs ≠ [] ∧ ∀ r ∈ rs, WF r :=
  ⟨_, rfl, by simp, by intro r hr; simp at hr; subst hr; exact errResp_wf _ _⟩

theorem batchReply_ok (mem : Members) (w : Wallet) (script : Script) (ms : List (Option Req)) (hne : ms ≠ []) :
    ∃ rs, responses (batchReply mem w script ms).2 = some rs ∧ rs ≠ [] ∧ ∀ r ∈ rs, WF r := by
  refine ⟨_, rfl, ?_, ?_⟩
  · cases ms with
    | nil => exact absurd rfl hne
    | cons a t => simp
  · intro r hr
    simp only [List.mem_map] at hr
    obtain ⟨o, ho, rfl⟩ := hr
    obtain ⟨m, _, rfl⟩ := ho
    exact processRPC_wf _ _ _ _

/-- **Well-formed replies.** For every body, JSON tree, backend behaviour and wallet the handler answers
    (it does not die), with at least one response object, and every response object has version 2.0 and
    exactly one of result / error. -/
theorem handle_wf (mem : Members) (w : Wallet) (script : Script) (body : Bytes) (parsed : Option Json) :
    ∃ rs, responses (handle mem w script body parsed).2 = some rs ∧ rs ≠ [] ∧ ∀ r ∈ rs, WF r := by
  unfold handle
  split
  · unfold handleBatch
    split
    · split
      · exact parseErrorReply_ok
      · exact parseErrorReply_ok
      · rename_i ms hne heq
        simp only [nilMemberGuard, Bool.not_true, Bool.false_and, Bool.false_eq_true, if_false]
        exact batchReply_ok _ _ _ _ (by intro h; subst h; exact hne rfl)
    · exact parseErrorReply_ok
  · unfold handleSingle
    split
    · exact parseErrorReply_ok
    · split
      · exact parseErrorReply_ok
      · refine ⟨_, rfl, by simp, ?_⟩
        intro r hr
        simp at hr
        subst hr
        exact processRPC_wf _ _ _ _

/-- **The process survives.** No body, JSON tree, backend behaviour or wallet makes the handler crash. -/
theorem handle_survives (mem : Members) (w : Wallet) (script : Script) (body : Bytes) (parsed : Option Json) :
    (handle mem w script body parsed).2 ≠ .processCrash := by
  obtain ⟨rs, h, _⟩ := handle_wf mem w script body parsed
  intro hc
  rw [hc] at h
  cases h

/-- **Any history.** Every request of any sequence against the (stateless) handler is answered. -/
theorem history_survives (mem : Members) (w : Wallet) (script : Script) (reqs : List (Bytes × Option Json)) :
    ∀ rq ∈ reqs, (handle mem w script rq.1 rq.2).2 ≠ .processCrash :=
  fun rq _ => handle_survives mem w script rq.1 rq.2

/-- **Batch length.** A body that starts with `[` and whose members all decode (objects, or nulls) is answered by
    an array with one response per member. -/
theorem batch_length (mem : Members) (w : Wallet) (script : Script) (body : Bytes) (xs : Array Json)
    (ms : List (Option Req)) (hb : sniffFirstByte body = 0x5b) (hd : xs.toList.mapM (decodeMember mem) = some ms)
    (hne : ms ≠ []) :
    ∃ st rs, (handle mem w script body (some (.arr xs))).2 = .batch st rs ∧ rs.length = xs.size := by
  have hlen : ms.length = xs.size := by
    have := mapM_some_length _ _ _ hd
    simpa using this
  unfold handle handleBatch
  simp only [hb, beq_self_eq_true, if_true, hd]
  cases ms with
  | nil => exact absurd rfl hne
  | cons a t =>
    simp only [nilMemberGuard, Bool.not_true, Bool.false_and, Bool.false_eq_true, if_false]
    exact ⟨_, _, rfl, by simp [← hlen]⟩

/-- **Unprocessable requests get an error object**: a null batch member and a request without id. -/
theorem null_member_is_error (mem : Members) (w : Wallet) (script : Script) :
    (processRPC mem w script none).2.1.errorCode.isSome = true := by
  simp [processRPC, nilMemberGuard, errResp]

theorem missing_id_is_error (mem : Members) (w : Wallet) (script : Script) (r : Req) (h : r.id = none) :
    (processRPC mem w script (some r)).2.1.errorCode.isSome = true := by
  simp [processRPC, h, errResp]

/-- bad parameters / malformed `from` of eth_sendTransaction are answered with an error object -/
theorem bad_params_is_error (mem : Members) (w : Wallet) (script : Script) (id : Json) (params : List Json)
    (h : params = [] ∨ ∃ p0 t, params = p0 :: t ∧ (decodeTx p0 (mem p0) = none ∨
      ∃ f n, decodeTx p0 (mem p0) = some (some f, n) ∧ addrOfJson f = none)) :
    (sendTransaction mem w script id params).2.1.errorCode.isSome = true := by
  rcases h with h | ⟨p0, t, h, hd | ⟨f, n, hd, ha⟩⟩
  · simp [sendTransaction, h, errResp]
  · simp [sendTransaction, h, hd, errResp]
  · simp only [sendTransaction, h, hd]
    cases n with
    | none => simp [nonceLookup, ha, badFromIsError, errResp]
    | some k => simp [nonceLookup, signAndSend, ha, errResp]

/-- non-vacuity: a concrete batch with a null member and a member without id decodes and is answered in place -/
example : (handle (fun _ => []) { accounts := [] } (fun _ => .nullBody) [0x5b]
    (some (.arr #[.null, .null]))).2 =
    .batch 500 [errResp (Json.num (JsonNumber.fromNat 1)) RPCCodeInvalidRequest,
                errResp (Json.num (JsonNumber.fromNat 1)) RPCCodeInvalidRequest] := by
  rfl

end FFS.Props.C16
