import FFS.Model.Eip712
