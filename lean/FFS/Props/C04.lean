/-
  Property C04 — EIP-712 digest equals the specification for every type graph and message.
  Model: FFS.Model.Eip712.encodeTypedDataV4 (pkg/eip712/typed_data_v4.go). Spec: FFS.Spec.Eip712.digest.
  Proved here, for every document:
  * `digest_shape`          : a digest that is produced is keccak256(0x19 0x01 ‖ hashStruct(domain) ‖ hashStruct(message))
                              (the message part omitted exactly when the primary type is EIP712Domain).
  * `members_by_name`       : the encoding of a struct value depends on the message object only through the values
                              found under the type's member names — hence
  * `extra_field_ignored`   : extra message fields do not change the digest, and
  * `key_order_irrelevant`  : neither does the order of the JSON object keys.
  * `type_order_irrelevant` : the `types` object is a map: documents whose type definitions are the same up to order have
                              the same digest (all six mutually recursive encoders depend on the type set only through
                              lookups and its size: `encoders_same`).
  * `unreferenced_irrelevant`: a definition nothing refers to does not change the digest (with `closure_fuel_sufficient`).
  PARTIAL: equality with Spec.Eip712.digest for every type graph (dependency closure and its ordering, array and
  atomic member encodings) is decided by the correspondence run (Tier A: implementation = Spec on generated type
  graphs incl. cycles, shared and unreferenced types), not proved; signature shape / recovery are C05's theorems.
-/
import FFS.Model.Eip712
import FFS.Lemmas.Eip712Closure
import FFS.Lemmas.Eip712Fuel
import FFS.Props.C05
import FFS.Props.C14
namespace FFS.Props.C04
open FFS FFS.Model.Abi FFS.Model.Eip712

theorem facts : Gen.Eip712Facts.nilMemberGuard = true ∧ Gen.Eip712Facts.useNumber = true := by decide

/-- **Shape of the digest.** -/
theorem digest_shape (fuel : Nat) (p : TypedData) (d : Bytes) (h : encodeTypedDataV4 fuel p = .ok d) :
    ∃ dh, hashStruct fuel EIP712Domain (p.domain.getD (.obj [] [])) (effectiveTypes p) = .ok dh ∧
      ((p.primaryType ≠ EIP712Domain ∧ ∃ sh, hashStruct fuel p.primaryType (p.message.getD .null) (effectiveTypes p) = .ok sh ∧
          d = keccak ([0x19, 0x01] ++ dh ++ sh)) ∨
       (p.primaryType = EIP712Domain ∧ d = keccak ([0x19, 0x01] ++ dh))) := by
  unfold encodeTypedDataV4 at h
  simp only [] at h
  unfold effectiveTypes
  split at h
  · cases h
  · split at h
    · rename_i dh hd
      refine ⟨dh, hd, ?_⟩
      split at h
      · rename_i hne
        split at h
        · rename_i sh hs
          injection h with h
          exact Or.inl ⟨by simpa using hne, sh, hs, h.symm⟩
        · cases h
        · cases h
      · rename_i heq
        injection h with h
        exact Or.inr ⟨by simpa using heq, h.symm⟩
    · cases h
    · cases h

/-- **Members are taken by name.** Two message objects that agree on the values found under the member names are
    encoded identically. -/
theorem members_by_name (types : TypeSet) : ∀ (ms : List Member) (fuel : Nat) (k1 k2 : List String) (v1 v2 : List Ext),
    (∀ m ∈ ms, lookupKey k1 v1 m.name = lookupKey k2 v2 m.name) →
    encodeMembers fuel ms k1 v1 types = encodeMembers fuel ms k2 v2 types := by
  intro ms
  induction ms with
  | nil => intro fuel k1 k2 v1 v2 _; cases fuel <;> simp [encodeMembers]
  | cons m ms ih =>
    intro fuel k1 k2 v1 v2 h
    cases fuel with
    | zero => simp [encodeMembers]
    | succ fuel =>
      rw [encodeMembers, encodeMembers, h m (by simp), ih fuel k1 k2 v1 v2 (fun m' hm' => h m' (by simp [hm']))]

theorem encodeData_by_name (types : TypeSet) (fuel : Nat) (t : String) (k1 k2 : List String) (v1 v2 : List Ext)
    (h : ∀ name, lookupKey k1 v1 name = lookupKey k2 v2 name) :
    Model.Eip712.encodeData fuel t (.obj k1 v1) types = Model.Eip712.encodeData fuel t (.obj k2 v2) types := by
  cases fuel with
  | zero => simp [Model.Eip712.encodeData]
  | succ fuel =>
    rw [Model.Eip712.encodeData, Model.Eip712.encodeData]
    split
    · rename_i members enc _
      simp only []
      rw [members_by_name types members fuel k1 k2 v1 v2 (fun m _ => h m.name)]
    · rfl
    · rfl

theorem lookupKey_append_other (keys : List String) (vals : List Ext) (k : String) (x : Ext) (name : String)
    (hlen : keys.length = vals.length) (hne : k ≠ name) :
    lookupKey (keys ++ [k]) (vals ++ [x]) name = lookupKey keys vals name := by
  unfold lookupKey
  rw [List.zip_append hlen]
  simp only [List.zip_cons_cons, List.zip_nil_right, List.reverse_append, List.reverse_cons, List.reverse_nil,
    List.nil_append, List.singleton_append, List.find?_cons]
  have : ((k, x).1 == name) = false := by simpa using hne
  rw [this]

/-- **Extra message fields are ignored**: a field whose name is not a member of the struct type leaves the encoding
    of the struct unchanged. -/
theorem extra_field_ignored (types : TypeSet) (fuel : Nat) (t : String) (keys : List String) (vals : List Ext)
    (k : String) (x : Ext) (hlen : keys.length = vals.length)
    (hk : ∀ members enc, encodeType t types = .ok (members, enc) → ∀ m ∈ members, m.name ≠ k) :
    Model.Eip712.encodeData fuel t (.obj (keys ++ [k]) (vals ++ [x])) types =
      Model.Eip712.encodeData fuel t (.obj keys vals) types := by
  cases fuel with
  | zero => simp [Model.Eip712.encodeData]
  | succ fuel =>
    rw [Model.Eip712.encodeData, Model.Eip712.encodeData]
    split
    · rename_i members enc hte
      simp only []
      rw [members_by_name types members fuel (keys ++ [k]) keys (vals ++ [x]) vals
        (fun m hm => lookupKey_append_other keys vals k x m.name hlen (fun e => hk members enc hte m hm e.symm))]
    · rfl
    · rfl

/-- the value found under a name in a JSON object with distinct keys does not depend on the order of the keys -/
theorem lookupKey_perm (k1 k2 : List String) (v1 v2 : List Ext) (name : String)
    (hp : (k1.zip v1).Perm (k2.zip v2)) (hnd : ((k1.zip v1).map (·.1)).Nodup) :
    lookupKey k1 v1 name = lookupKey k2 v2 name := by
  unfold lookupKey
  have hnd2 : ((k2.zip v2).map (·.1)).Nodup := (hp.map _).nodup_iff.mp hnd
  -- with distinct keys, `find?` returns the unique pair with that key, whatever the order
  have key : ∀ (l : List (String × Ext)), (l.map (·.1)).Nodup → ∀ p, p ∈ l → p.1 = name → l.reverse.find? (·.1 == name) = some p := by
    intro l hl p hp hpn
    have hl' : (l.reverse.map (·.1)).Nodup := by
      rw [List.map_reverse]; exact (List.reverse_perm _).nodup_iff.mpr hl
    have hp' : p ∈ l.reverse := List.mem_reverse.mpr hp
    generalize l.reverse = r at hl' hp'
    induction r with
    | nil => cases hp'
    | cons q r ih =>
      simp only [List.map_cons, List.nodup_cons] at hl'
      rw [List.find?_cons]
      rcases List.mem_cons.mp hp' with rfl | hmem
      · simp [hpn]
      · have hq : (q.1 == name) = false := by
          have : q.1 ≠ name := by
            intro e
            apply hl'.1
            rw [e, ← hpn]
            exact List.mem_map.mpr ⟨p, hmem, rfl⟩
          simpa using this
        rw [hq]
        exact ih hl'.2 hmem
  cases h1 : (k1.zip v1).reverse.find? (·.1 == name) with
  | some p =>
    have hp1 : p ∈ k1.zip v1 := List.mem_reverse.mp (List.mem_of_find?_eq_some h1)
    have hpn : p.1 = name := by simpa using List.find?_some h1
    rw [key _ hnd2 p (hp.mem_iff.mp hp1) hpn]
  | none =>
    cases h2 : (k2.zip v2).reverse.find? (·.1 == name) with
    | none => rfl
    | some p =>
      have hp2 : p ∈ k2.zip v2 := List.mem_reverse.mp (List.mem_of_find?_eq_some h2)
      have hpn : p.1 = name := by simpa using List.find?_some h2
      have := key _ hnd p (hp.mem_iff.mpr hp2) hpn
      rw [h1] at this
      cases this

/-- **The order of JSON object keys is irrelevant.** -/
theorem key_order_irrelevant (types : TypeSet) (fuel : Nat) (t : String) (k1 k2 : List String) (v1 v2 : List Ext)
    (hp : (k1.zip v1).Perm (k2.zip v2)) (hnd : ((k1.zip v1).map (·.1)).Nodup) :
    Model.Eip712.encodeData fuel t (.obj k1 v1) types = Model.Eip712.encodeData fuel t (.obj k2 v2) types :=
  encodeData_by_name types fuel t k1 k2 v1 v2 (fun name => lookupKey_perm k1 k2 v1 v2 name hp hnd)

/-! ### signing typed data -/

/-- **Signing typed data yields a 65-byte R ‖ S ‖ V signature with V ∈ {27, 28} that verifies for the digest against
    the signer's address** — for every document that hashes, every key and every lawful curve. -/
theorem typed_data_signature (C : Model.Secp.Curve) (hC : C.Lawful) (k : Nat) (hk : 1 ≤ k ∧ k < C.n) (fuel : Nat)
    (p : TypedData) (digest : Bytes) (hd : encodeTypedDataV4 fuel p = .ok digest) :
    ∃ sig : Bytes, signTypedDataV4 C k fuel p = .ok (digest, sig) ∧ sig.length = 65 ∧
      ∃ v r s : Nat, (v = 27 ∨ v = 28) ∧
        Model.Secp.decodeCompactRSV sig = .ok { V := some (v : Int), R := some (r : Int), S := some (s : Int) } ∧
        Model.Secp.recoverDirect C { V := some (v : Int), R := some (r : Int), S := some (s : Int) } digest 0 =
          .ok (Model.Secp.keyAddress C k) := by
  obtain ⟨v, r, s, hsig, hv, hr1, hrn, hs1, hsn⟩ := C05.sign_shape C hC k digest
  have hn := hC.n_lt
  obtain ⟨b, hb, hlen, hdecode⟩ := C05.compact_roundtrip r s v (by omega) (by omega) (by omega)
  refine ⟨b, ?_, hlen, v, r, s, hv, hdecode, ?_⟩
  · simp only [signTypedDataV4, hd, hsig, hb]
  · have := (C05.recover_sign_all_conventions C hC k hk digest 0 (by constructor <;> decide)).1
    simp only [hsig] at this
    exact this

/-- **The digest is 32 bytes.** -/
theorem digest_length (fuel : Nat) (p : TypedData) (d : Bytes) (h : encodeTypedDataV4 fuel p = .ok d) : d.length = 32 := by
  obtain ⟨dh, _, h2⟩ := digest_shape fuel p d h
  rcases h2 with ⟨_, sh, _, hd⟩ | ⟨_, hd⟩ <;> rw [hd] <;> exact Prim.keccak256_length _

/-! ### the order of the type definitions is irrelevant -/


/-- two type sets that answer every lookup alike and have the same number of definitions -/
def SameSet (A B : TypeSet) : Prop := (∀ n, tsLookup A n = tsLookup B n) ∧ A.length = B.length

theorem addNested_same (A B : TypeSet) (h : SameSet A B) : ∀ (fuel : Nat) (tn : String) (acc : TypeSet),
    addNestedTypes fuel tn A acc = addNestedTypes fuel tn B acc := by
  intro fuel
  induction fuel with
  | zero => intro tn acc; simp [addNestedTypes]
  | succ f ih =>
    intro tn acc
    simp only [addNestedTypes, h.1, ih]

theorem encodeType_same (A B : TypeSet) (h : SameSet A B) (tn : String) : encodeType tn A = encodeType tn B := by
  unfold encodeType
  rw [h.1 tn, h.2, addNested_same A B h]

/-- all six mutually recursive encoders at once, by induction on the fuel -/
theorem encoders_same (A B : TypeSet) (h : SameSet A B) : ∀ fuel : Nat,
    (∀ tn v, encodeElement fuel tn v A = encodeElement fuel tn v B) ∧
    (∀ tn v, hashStruct fuel tn v A = hashStruct fuel tn v B) ∧
    (∀ tn v, Model.Eip712.encodeData fuel tn v A = Model.Eip712.encodeData fuel tn v B) ∧
    (∀ ms ks vs, encodeMembers fuel ms ks vs A = encodeMembers fuel ms ks vs B) ∧
    (∀ tn v, hashArray fuel tn A v = hashArray fuel tn B v) ∧
    (∀ t xs, hashElems fuel t xs A = hashElems fuel t xs B) := by
  intro fuel
  induction fuel with
  | zero =>
    refine ⟨?_, ?_, ?_, ?_, ?_, ?_⟩ <;> intros <;> simp [encodeElement, hashStruct, Model.Eip712.encodeData, encodeMembers, hashArray, hashElems]
  | succ f ih =>
    obtain ⟨iE, iS, iD, iM, iA, iH⟩ := ih
    refine ⟨?_, ?_, ?_, ?_, ?_, ?_⟩
    · intro tn v
      rw [encodeElement, encodeElement, iA, iS, h.1 tn]
    · intro tn v
      rw [hashStruct, hashStruct, iD]
    · intro tn v
      rw [Model.Eip712.encodeData, Model.Eip712.encodeData, encodeType_same A B h tn]
      simp only [iM]
    · intro ms ks vs
      cases ms with
      | nil => simp [encodeMembers]
      | cons m ms => rw [encodeMembers, encodeMembers, iE, iM]
    · intro tn v
      rw [hashArray, hashArray]
      simp only [iH]
    · intro t xs
      cases xs with
      | nil => simp [hashElems]
      | cons x xs => rw [hashElems, hashElems, iE, iH]


/-- with distinct names, a lookup does not depend on the order of the definitions -/
theorem tsLookup_perm (A B : TypeSet) (hp : A.Perm B) (hnd : (A.map (·.1)).Nodup) (n : String) :
    tsLookup A n = tsLookup B n := by
  unfold tsLookup
  have hnd2 : (B.map (·.1)).Nodup := (hp.map _).nodup_iff.mp hnd
  have key : ∀ (l : TypeSet), (l.map (·.1)).Nodup → ∀ p, p ∈ l → p.1 = n → l.find? (·.1 == n) = some p := by
    intro l hl p hp hpn
    induction l with
    | nil => cases hp
    | cons q r ih =>
      simp only [List.map_cons, List.nodup_cons] at hl
      rw [List.find?_cons]
      rcases List.mem_cons.mp hp with rfl | hmem
      · simp [hpn]
      · have hq : (q.1 == n) = false := by
          have : q.1 ≠ n := by
            intro e
            apply hl.1
            rw [e, ← hpn]
            exact List.mem_map.mpr ⟨p, hmem, rfl⟩
          simpa using this
        rw [hq]
        exact ih hl.2 hmem
  cases h1 : A.find? (·.1 == n) with
  | some p =>
    have hp1 : p ∈ A := List.mem_of_find?_eq_some h1
    have hpn : p.1 = n := by simpa using List.find?_some h1
    rw [key _ hnd2 p (hp.mem_iff.mp hp1) hpn]
  | none =>
    cases h2 : B.find? (·.1 == n) with
    | none => rfl
    | some p =>
      have hp2 : p ∈ B := List.mem_of_find?_eq_some h2
      have hpn : p.1 = n := by simpa using List.find?_some h2
      have := key _ hnd p (hp.mem_iff.mpr hp2) hpn
      rw [h1] at this
      cases this

theorem sameSet_of_perm (A B : TypeSet) (hp : A.Perm B) (hnd : (A.map (·.1)).Nodup) : SameSet A B :=
  ⟨tsLookup_perm A B hp hnd, hp.length_eq⟩

/-- inserting a definition keeps the names distinct and commutes with reordering -/
theorem tsInsert_perm (A B : TypeSet) (hp : A.Perm B) (hnd : (A.map (·.1)).Nodup) (n : String) (t : TypeDef) :
    (tsInsert A n t).Perm (tsInsert B n t) ∧ ((tsInsert A n t).map (·.1)).Nodup := by
  unfold tsInsert
  refine ⟨List.Perm.cons _ (hp.filter _), ?_⟩
  simp only [List.map_cons, List.nodup_cons]
  constructor
  · intro hmem
    obtain ⟨q, hq, hqn⟩ := List.mem_map.mp hmem
    have := (List.mem_filter.mp hq).2
    simp [hqn] at this
  · exact (List.Sublist.map _ List.filter_sublist).nodup hnd

/-- **The order of the type definitions is irrelevant**: a `types` object is a map; two documents whose type
    definitions are the same up to order (names distinct, as in any JSON object that survives decoding into a Go map)
    have the same digest — or fail alike. -/
theorem type_order_irrelevant (fuel : Nat) (p : TypedData) (A B : TypeSet) (hp : A.Perm B)
    (hnd : (A.map (·.1)).Nodup) :
    encodeTypedDataV4 fuel { p with types := some A } = encodeTypedDataV4 fuel { p with types := some B } := by
  unfold encodeTypedDataV4
  simp only [Option.getD_some]
  rw [← tsLookup_perm A B hp hnd EIP712Domain]
  have hS : SameSet (if (tsLookup A EIP712Domain).isSome then A else tsInsert A EIP712Domain (some []))
      (if (tsLookup A EIP712Domain).isSome then B else tsInsert B EIP712Domain (some [])) := by
    split
    · exact sameSet_of_perm A B hp hnd
    · have := tsInsert_perm A B hp hnd EIP712Domain (some [])
      exact sameSet_of_perm _ _ this.1 this.2
  have hH := (encoders_same _ _ hS fuel).2.1
  simp only [hH]


/-! ### a type definition nobody refers to is irrelevant -/

open FFS.Lemmas.Eip712Closure (Good Unref)

/-- two definitions with different names may be swapped at the front of a type set -/
theorem sameSet_swap (a b : String × TypeDef) (R : TypeSet) (h : a.1 ≠ b.1) : SameSet (a :: b :: R) (b :: a :: R) := by
  refine ⟨fun n => ?_, by simp⟩
  unfold tsLookup
  simp only [List.find?_cons]
  by_cases ha : a.1 = n
  · have hb : (b.1 == n) = false := by
      have : b.1 ≠ n := fun e => h (ha.trans e.symm)
      simpa using this
    simp [ha, hb]
  · have ha' : (a.1 == n) = false := by simpa using ha
    simp [ha']

/-- **The closure's fuel is not an artefact**: the model gives `addNestedTypes` `|types| + 2` units of fuel; any larger
    amount computes the same dependency closure (the Go recursion has no fuel at all). -/
theorem closure_fuel_sufficient (all : TypeSet) (tn : String) (j : Nat) :
    addNestedTypes (all.length + 2 + j) tn all [] = addNestedTypes (all.length + 2) tn all [] :=
  FFS.Lemmas.Eip712Closure.closure_fuel all tn j

/-- **An unreferenced type definition is irrelevant.** Add to the `types` object a definition `u` that nothing refers
    to — `u` is not (a prefix of) the primary type, `EIP712Domain`, or the type of any member of any definition in the
    effective type set — and the digest is the same, or the document fails alike. The definition `d` itself is
    arbitrary (it may be `null`, contain `null` members, refer to missing types, be recursive). This needs fuel
    sufficiency of the dependency closure, because the larger type set gives the closure more fuel. -/
theorem unreferenced_irrelevant (fuel : Nat) (p : TypedData) (A : TypeSet) (u : String) (d : TypeDef)
    (hU : Unref u (effectiveTypes { p with types := some A }))
    (hP : Good u p.primaryType) (hD : Good u EIP712Domain) :
    encodeTypedDataV4 fuel { p with types := some ((u, d) :: A) } = encodeTypedDataV4 fuel { p with types := some A } := by
  have hDne : EIP712Domain ≠ u := FFS.Lemmas.Eip712Closure.good_ne hD
  have hlk : tsLookup ((u, d) :: A) EIP712Domain = tsLookup A EIP712Domain :=
    FFS.Lemmas.Eip712Closure.lookup_cons_ne u d A EIP712Domain hDne
  have key : ∀ tn v, Good u tn →
      hashStruct fuel tn v (if (tsLookup A EIP712Domain).isSome then (u, d) :: A else tsInsert ((u, d) :: A) EIP712Domain (some [])) =
      hashStruct fuel tn v (if (tsLookup A EIP712Domain).isSome then A else tsInsert A EIP712Domain (some [])) := by
    intro tn v hg
    simp only [effectiveTypes, Option.getD_some] at hU
    by_cases hs : (tsLookup A EIP712Domain).isSome = true
    · simp only [hs, if_true] at hU ⊢
      exact (FFS.Lemmas.Eip712Closure.encoders_unref u d A hU fuel).2.1 tn v hg
    · simp only [hs, Bool.false_eq_true, if_false] at hU ⊢
      have hne : ((u, d).1 != EIP712Domain) = true := by simpa using (fun e => hDne e.symm)
      have hins : tsInsert ((u, d) :: A) EIP712Domain (some []) =
          (EIP712Domain, some []) :: (u, d) :: A.filter (·.1 != EIP712Domain) := by
        simp only [tsInsert, List.filter_cons, hne, if_true]
      rw [hins]
      have hsw := sameSet_swap (EIP712Domain, some []) (u, d) (A.filter (·.1 != EIP712Domain)) hDne
      rw [(encoders_same _ _ hsw fuel).2.1 tn v]
      exact (FFS.Lemmas.Eip712Closure.encoders_unref u d (tsInsert A EIP712Domain (some [])) hU fuel).2.1 tn v hg
  unfold encodeTypedDataV4
  simp only [Option.getD_some, hlk]
  rw [key EIP712Domain _ hD, key p.primaryType _ hP]

/-! ### the digest does not depend on the fuel -/

theorem digest_fuel_step (f : Nat) (p : TypedData) (h : encodeTypedDataV4 f p ≠ .panic) :
    encodeTypedDataV4 (f + 1) p = encodeTypedDataV4 f p := by
  unfold encodeTypedDataV4 at h ⊢
  simp only [] at h ⊢
  split
  · rfl
  · rename_i hpt
    rw [if_neg hpt] at h
    have hS := fun ts => (FFS.Lemmas.Eip712Fuel.encoders_mono ts f).2.1
    have hd : hashStruct f EIP712Domain (p.domain.getD (.obj [] []))
        (if (tsLookup (p.types.getD []) EIP712Domain).isSome then p.types.getD []
          else tsInsert (p.types.getD []) EIP712Domain (some [])) ≠ .panic := by
      intro e; rw [e] at h; exact h rfl
    rw [hS _ _ _ hd]
    cases hx : hashStruct f EIP712Domain (p.domain.getD (.obj [] []))
        (if (tsLookup (p.types.getD []) EIP712Domain).isSome then p.types.getD []
          else tsInsert (p.types.getD []) EIP712Domain (some [])) with
    | err => rfl
    | panic => exact absurd hx hd
    | ok dh =>
      rw [hx] at h
      simp only [] at h ⊢
      split
      · rename_i hne
        rw [if_pos hne] at h
        have hm : hashStruct f p.primaryType (p.message.getD .null)
            (if (tsLookup (p.types.getD []) EIP712Domain).isSome then p.types.getD []
              else tsInsert (p.types.getD []) EIP712Domain (some [])) ≠ .panic := by
          intro e; rw [e] at h; exact h rfl
        rw [hS _ _ _ hm]
      · rfl

/-- **The digest does not depend on the fuel**: the fuel of the model is a proof device, the Go recursion has none. Once
    an amount of fuel gives a result (a digest or an error, anything but out-of-fuel), every larger amount gives the same
    result — all six encoders are monotone in the fuel (`Lemmas/Eip712Fuel.encoders_mono`); and `docNeed p` always
    gives one (C14 `encodeTypedDataV4_total`). -/
theorem digest_fuel_independent (f : Nat) (p : TypedData) (h : encodeTypedDataV4 f p ≠ .panic) :
    ∀ j, encodeTypedDataV4 (f + j) p = encodeTypedDataV4 f p
  | 0 => rfl
  | j + 1 => by
    have ih := digest_fuel_independent f p h j
    rw [← Nat.add_assoc, digest_fuel_step (f + j) p (by rw [ih]; exact h), ih]

/-- **The digest of a document is well defined**: every amount of fuel from `docNeed p` upwards gives the same
    non-panic result (C14 `encodeTypedDataV4_total` ∘ `digest_fuel_independent`). -/
theorem digest_well_defined (p : TypedData) (fuel : Nat) (hf : docNeed p ≤ fuel) :
    encodeTypedDataV4 fuel p = encodeTypedDataV4 (docNeed p) p ∧ encodeTypedDataV4 fuel p ≠ .panic := by
  have h0 := FFS.Props.C14.encodeTypedDataV4_total p (docNeed p) (Nat.le_refl _)
  have := digest_fuel_independent (docNeed p) p h0 (fuel - docNeed p)
  rw [Nat.add_sub_cancel' hf] at this
  exact ⟨this, FFS.Props.C14.encodeTypedDataV4_total p fuel hf⟩

/-! ### non-vacuity: a concrete document on which the theorems' hypotheses hold (evaluated by the kernel) -/

def exDoc : TypedData :=
  { types := some [("EIP712Domain", some [some { name := "name", type := "string" }]),
                   ("Mail", some [some { name := "to", type := "address" }, some { name := "n", type := "uint256" }])],
    primaryType := "Mail",
    domain := some (.obj ["name"] [.str "x" .fail .fail]),
    message := some (.obj ["to", "n"] [.str "0x0000000000000000000000000000000000000001" .fail .fail, .num "5" (.int 5) (.int 5)]) }

/-- `encodeTypedDataV4` succeeds on `exDoc` with a 32-byte digest: the `= .ok d` hypotheses of `digest_shape` and
    `typed_data_signature` are satisfiable -/
example : (match encodeTypedDataV4 8 exDoc with | .ok d => d.length == 32 | _ => false) = true := by decide +kernel

/-- the same document with the message keys in another order and an extra member is accepted too (the documents
    `key_order_irrelevant` and `extra_field_ignored` relate) -/
example : (match encodeTypedDataV4 8 { exDoc with message := some (.obj ["n", "zz", "to"]
        [.num "5" (.int 5) (.int 5), .bool true, .str "0x0000000000000000000000000000000000000001" .fail .fail]) } with
    | .ok d => d.length == 32 | _ => false) = true := by decide +kernel

/-- `exDoc`'s type definitions -/
def exTypes : TypeSet :=
  [("EIP712Domain", some [some { name := "name", type := "string" }]),
   ("Mail", some [some { name := "to", type := "address" }, some { name := "n", type := "uint256" }])]

/-- non-vacuity of `type_order_irrelevant`: the two definitions in the other order are a permutation with distinct
    names -/
example : exTypes.Perm
      [("Mail", some [some { name := "to", type := "address" }, some { name := "n", type := "uint256" }]),
       ("EIP712Domain", some [some { name := "name", type := "string" }])] ∧
    (exTypes.map fun (d : String × TypeDef) => d.1).Nodup :=
  ⟨List.Perm.swap _ _ _, by decide⟩

/-- non-vacuity of `unreferenced_irrelevant`: `Junk` (a self-referential definition with a `null` member) is unreferenced
    in `exDoc`; the hypotheses hold and both documents are accepted -/
example : Unref "Junk" (effectiveTypes exDoc) ∧ Good "Junk" exDoc.primaryType ∧ Good "Junk" EIP712Domain := by
  refine ⟨?_, by decide +kernel, by decide +kernel⟩
  have hE : effectiveTypes exDoc = exDoc.types.getD [] := by
    simp [effectiveTypes, exDoc, tsLookup, EIP712Domain]
  rw [hE]
  intro e he raw hr mem hm
  simp [exDoc] at he
  rcases he with h | h <;> subst h <;> simp at hr <;> subst hr <;> simp at hm
  · subst hm; decide +kernel
  · rcases hm with h | h <;> subst h <;> decide +kernel

example : (match encodeTypedDataV4 8 { exDoc with types := some (("Junk", some [none, some { name := "j", type := "Junk[]" }]) ::
      exDoc.types.getD []) } with | .ok d => d.length == 32 | _ => false) = true := by decide +kernel

end FFS.Props.C04
