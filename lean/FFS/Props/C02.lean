import FFS.Model.AbiIO
