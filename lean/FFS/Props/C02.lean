/-
  Property C02 — ABI encoding equals the Solidity ABI specification for every type and value.
  Model: FFS.Model.Abi.encode (pkg/abi/abiencode.go: elementary encoders, the three-pass head/tail layout with
  value-driven dynamic flags). Spec: FFS.Spec.Abi.enc / isDynamic (from the Solidity ABI specification).
  * `encode_eq_spec` : for every valid type tree (elementary widths as the type parser admits them) and every
                       well-typed value, the model encoder returns exactly the specification bytes, and its
                       value-driven dynamic flag equals the specification's type-driven one. No bound on depth,
                       arity, array length or byte length — other than encodings being shorter than 2^256 bytes,
                       the width of an offset word (`Small`).
  * `elem_rejects_out_of_range` : an integer outside the range of its declared width is an error, never a wrapped
                       value.
  fixed<M>x<N> / ufixed<M>x<N> are not covered (known finding C02-fixedpoint; not modelled); the reading of JSON /
  Go input values into the value tree (Model.AbiIO.walkInput) is covered by the correspondence run, not proved.
-/
import FFS.Model.AbiIO
import FFS.Spec.Abi
import FFS.Lemmas.Bytes
import FFS.Props.C19
namespace FFS.Props.C02
open FFS FFS.Model.Abi

/-! ### valid elementary types -/

/-- name, codec and width of an elementary type as `parseElementary` produces them from the type table -/
def ElemOK (info : ElemInfo) (suffix : String) (m : Nat) : Prop :=
  (info.name = "int" ∧ codecOf info.enc = .sint ∧ 8 ≤ m ∧ m ≤ 256 ∧ m % 8 = 0) ∨
  (info.name = "uint" ∧ codecOf info.enc = .uint ∧ 8 ≤ m ∧ m ≤ 256 ∧ m % 8 = 0) ∨
  (info.name = "address" ∧ codecOf info.enc = .uint ∧ m = 160) ∨
  (info.name = "bool" ∧ codecOf info.enc = .uint ∧ m = 8) ∨
  (info.name = "bytes" ∧ codecOf info.enc = .bytes ∧ ((suffix = "" ∧ m = 0) ∨ (suffix ≠ "" ∧ 1 ≤ m ∧ m ≤ 32))) ∨
  (info.name = "function" ∧ codecOf info.enc = .bytes ∧ m = 24) ∨
  (info.name = "string" ∧ codecOf info.enc = .string ∧ m = 0)

/-- the regenerated type table assigns exactly these encoders -/
theorem table_codecs :
    (Gen.AbiTypeTable.table.map fun i => (i.name, codecOf i.enc)) =
      [("address", .uint), ("bool", .uint), ("bytes", .bytes), ("fixed", .float), ("function", .bytes),
       ("int", .sint), ("string", .string), ("ufixed", .float), ("uint", .uint)] := by decide

mutual
  def ValidTy : Ty → Prop
    | .elem info suffix m _ => ElemOK info suffix m
    | .farr t _ => ValidTy t
    | .darr t => ValidTy t
    | .tuple _ ts => ValidTys ts
  def ValidTys : List Ty → Prop
    | [] => True
    | t :: ts => ValidTy t ∧ ValidTys ts
end

/-- **Regenerated tie for the signed range check.** `checkSignedIntFits` still decides by comparing with the two per-width
    bounds, and the bounds are still `2^(m-1) - 1` and `-(2^(m-1))` — the shape the model's `-(2^(m-1)) ≤ z < 2^(m-1)`
    mirrors. A rewrite of the function (whatever it computes) breaks this obligation; the check then searches the
    far-out-of-range candidates for an input the rewritten code accepts. -/
theorem signed_range_facts : Gen.AbiCodecFacts.signedRangeByBounds = true ∧ Gen.AbiCodecFacts.signedPosBound = true ∧
    Gen.AbiCodecFacts.signedNegBound = true := by decide

/-! ### arithmetic helpers -/

theorem bitLen_le_of_lt (n m : Nat) (h : n < 2 ^ m) : bitLen n ≤ m := by
  unfold bitLen
  split
  · omega
  · rename_i hn
    have := (Nat.log2_lt hn).mpr h
    omega

theorem pow_le_256 (m : Nat) (h : m ≤ 256) : 2 ^ m ≤ 256 ^ 32 := by
  have : (256 : Nat) ^ 32 = 2 ^ 256 := by rw [show (256 : Nat) = 2 ^ 8 from rfl, ← Nat.pow_mul]
  rw [this]
  exact Nat.pow_le_pow_right (by omega) h

theorem pad_arith (len : Nat) :
    (len / 32) * 32 + (if len % 32 ≠ 0 then 32 else 0) - len = (32 - len % 32) % 32 := by
  split <;> omega

theorem encodeDynamicBytes_eq (b : Bytes) : encodeDynamicBytes b = Spec.Abi.encUint b.length ++ Spec.Abi.padRight32 b := by
  unfold encodeDynamicBytes Spec.Abi.encUint Spec.Abi.padRight32
  simp only [pad_arith, List.append_assoc]

/-! ### elementary values -/

theorem encodeElem_eq (info : ElemInfo) (suffix : String) (m n : Nat) (v : CV) (hok : ElemOK info suffix m)
    (hw : Spec.Abi.WellTyped (.elem info suffix m n) v = true) :
    encodeElem info m v = .ok (Spec.Abi.encElem info suffix m v, Spec.Abi.isDynamic (.elem info suffix m n)) := by
  unfold Spec.Abi.WellTyped at hw
  rcases hok with ⟨hn, hc, h8, h256, hmod⟩ | ⟨hn, hc, h8, h256, hmod⟩ | ⟨hn, hc, hm⟩ | ⟨hn, hc, hm⟩ |
    ⟨hn, hc, hm⟩ | ⟨hn, hc, hm⟩ | ⟨hn, hc, hm⟩
  · -- int<M>
    cases v with
    | int z =>
      simp only [hn, if_true, Bool.and_eq_true, decide_eq_true_eq, beq_self_eq_true] at hw
      obtain ⟨⟨hlo, hhi⟩, _⟩ := hw
      have hfit : checkSignedIntFits z m = true := by
        unfold checkSignedIntFits
        split
        · rfl
        · split
          · simp only [Bool.and_eq_true, decide_eq_true_eq]
            exact ⟨⟨⟨h8, h256⟩, hmod⟩, by omega⟩
          · simp only [Bool.and_eq_true, decide_eq_true_eq]
            exact ⟨⟨⟨h8, h256⟩, hmod⟩, by omega⟩
      simp [encodeElem, hc, hfit, Spec.Abi.encElem, hn, serializeInt256, Spec.Abi.isDynamic]
    | bytes b => simp [hn] at hw
    | str s => simp [hn] at hw
    | kids cs => simp at hw
  · -- uint<M>
    cases v with
    | int z =>
      simp only [hn, Bool.and_eq_true, decide_eq_true_eq] at hw
      have hw' : 0 ≤ z ∧ z < 2 ^ m := by simpa using hw
      have hnat : z.toNat < 2 ^ m := by
        have : (z.toNat : Int) = z := Int.toNat_of_nonneg hw'.1
        have h2 : ((2 ^ m : Nat) : Int) = (2 : Int) ^ m := by simp
        omega
      have hbl := bitLen_le_of_lt _ _ hnat
      have hfill : fillBytes? z.toNat 32 = .ok (toBE 32 z.toNat) := by
        unfold fillBytes?
        have := pow_le_256 m h256
        simp; omega
      have hneg : ¬ z < 0 := by omega
      have hblt : ¬ bitLen z.toNat > m := by omega
      simp [encodeElem, hc, hneg, hblt, hfill, Outcome.bind, Spec.Abi.encElem, hn, Spec.Abi.encUint, Spec.Abi.isDynamic]
    | bytes b => simp [hn] at hw
    | str s => simp [hn] at hw
    | kids cs => simp at hw
  · -- address
    cases v with
    | int z =>
      subst hm
      have hw' : 0 ≤ z ∧ z < 2 ^ 160 := by simpa [hn] using hw
      have hnat : z.toNat < 2 ^ 160 := by
        have : (z.toNat : Int) = z := Int.toNat_of_nonneg hw'.1
        have h2 : ((2 ^ 160 : Nat) : Int) = (2 : Int) ^ 160 := by simp
        omega
      have hbl := bitLen_le_of_lt _ _ hnat
      have hfill : fillBytes? z.toNat 32 = .ok (toBE 32 z.toNat) := by
        unfold fillBytes?
        have := pow_le_256 160 (by omega)
        simp; omega
      have hneg : ¬ z < 0 := by omega
      have hblt : ¬ bitLen z.toNat > 160 := by omega
      simp [encodeElem, hc, hneg, hblt, hfill, Outcome.bind, Spec.Abi.encElem, hn, Spec.Abi.encUint, Spec.Abi.isDynamic]
    | bytes b => simp [hn] at hw
    | str s => simp [hn] at hw
    | kids cs => simp at hw
  · -- bool
    cases v with
    | int z =>
      subst hm
      have hw' : z = 0 ∨ z = 1 := by simpa [hn] using hw
      have hnat : z.toNat < 2 ^ 8 := by rcases hw' with rfl | rfl <;> decide
      have hbl := bitLen_le_of_lt _ _ hnat
      have hfill : fillBytes? z.toNat 32 = .ok (toBE 32 z.toNat) := by
        unfold fillBytes?
        have := pow_le_256 8 (by omega)
        simp; omega
      have hneg : ¬ z < 0 := by rcases hw' with rfl | rfl <;> decide
      have hblt : ¬ bitLen z.toNat > 8 := by omega
      simp [encodeElem, hc, hneg, hblt, hfill, Outcome.bind, Spec.Abi.encElem, hn, Spec.Abi.encUint, Spec.Abi.isDynamic]
    | bytes b => simp [hn] at hw
    | str s => simp [hn] at hw
    | kids cs => simp at hw
  · -- bytes / bytes<M>
    cases v with
    | bytes b =>
      rcases hm with ⟨hs, hm0⟩ | ⟨hs, h1, h32⟩
      · subst hm0
        simp [encodeElem, hc, Spec.Abi.encElem, hn, hs, encodeDynamicBytes_eq, Spec.Abi.isDynamic]
      · have hlen : b.length = m := by simpa [hn, hs] using hw
        have hm0 : m ≠ 0 := by omega
        have hguard : ¬ (b.length < m ∨ m > 32) := by omega
        have hpad : Spec.Abi.padRight32 (b.take m) = b.take m ++ zeros (32 - m) := by
          unfold Spec.Abi.padRight32
          have : (b.take m).length = m := by simp [hlen]
          rw [this]
          congr 2
          omega
        simp [encodeElem, hc, hm0, hguard, Spec.Abi.encElem, hn, hs, hpad, Spec.Abi.isDynamic]
    | int z => simp [hn] at hw
    | str s => simp [hn] at hw
    | kids cs => simp at hw
  · -- function
    cases v with
    | bytes b =>
      subst hm
      have hlen : b.length = 24 := by simpa [hn] using hw
      have hguard : ¬ (b.length < 24 ∨ 24 > 32) := by omega
      have hpad : Spec.Abi.padRight32 (b.take 24) = b.take 24 ++ zeros (32 - 24) := by
        unfold Spec.Abi.padRight32
        have : (b.take 24).length = 24 := by simp [hlen]
        rw [this]
      simp [encodeElem, hc, hguard, Spec.Abi.encElem, hn, hpad, Spec.Abi.isDynamic]
      omega
    | int z => simp [hn] at hw
    | str s => simp [hn] at hw
    | kids cs => simp at hw
  · -- string
    cases v with
    | str s =>
      subst hm
      simp [encodeElem, hc, Spec.Abi.encElem, hn, encodeDynamicBytes_eq, Spec.Abi.isDynamic]
    | int z => simp [hn] at hw
    | bytes b => simp [hn] at hw
    | kids cs => simp at hw

/-! ### head / tail layout -/

/-- model items (data, dynamic) ↦ specification items (dynamic, data) -/
def sw (items : List (Bool × Bytes)) : List (Bytes × Bool) := items.map fun p => (p.2, p.1)

/-- bytes placed in the tail area -/
def tailLen : List (Bool × Bytes) → Nat
  | [] => 0
  | (dyn, e) :: r => (if dyn then e.length else 0) + tailLen r

theorem writeChildren_eq (hl : Nat) : ∀ (items : List (Bool × Bytes)) (tb : Nat),
    hl + tb + tailLen items < 256 ^ 32 →
    writeChildren (sw items) (hl + tb) = .ok (Spec.Abi.assembleGo hl items tb) := by
  intro items
  induction items with
  | nil => intro tb _; simp [sw, writeChildren, Spec.Abi.assembleGo]
  | cons p r ih =>
    intro tb hb
    obtain ⟨dyn, e⟩ := p
    cases dyn with
    | true =>
      have hfill : fillBytes? (hl + tb) 32 = .ok (toBE 32 (hl + tb)) := by
        unfold fillBytes?
        have : hl + tb < 256 ^ 32 := by simp [tailLen] at hb; omega
        simp [this]
      have hrec := ih (tb + e.length) (by simp [tailLen] at hb; omega)
      have hrec' : writeChildren (sw r) (hl + tb + e.length) = .ok (Spec.Abi.assembleGo hl r (tb + e.length)) := by
        rw [← hrec]; congr 1; omega
      simp only [sw, List.map_cons] at hrec' ⊢
      rw [writeChildren]
      simp only [if_true, hfill, hrec', Spec.Abi.assembleGo, Spec.Abi.encUint]
    | false =>
      have hrec := ih tb (by simp [tailLen] at hb; omega)
      simp only [sw, List.map_cons] at hrec ⊢
      rw [writeChildren]
      simp [hrec, Spec.Abi.assembleGo]

theorem headLen_eq (items : List (Bool × Bytes)) :
    ((sw items).map fun (d, dyn) => if dyn then 32 else d.length).sum = Spec.Abi.headsLen items := by
  induction items with
  | nil => simp [sw, Spec.Abi.headsLen]
  | cons p r ih =>
    obtain ⟨dyn, e⟩ := p
    simp only [sw, List.map_cons, List.sum_cons, Spec.Abi.headsLen] at ih ⊢
    rw [ih]

theorem any_sw (items : List (Bool × Bytes)) : (sw items).any (·.2) = items.any (·.1) := by
  induction items with
  | nil => rfl
  | cons p r ih => simp only [sw, List.map_cons, List.any_cons] at ih ⊢; rw [ih]

/-- encodings fit an offset word -/
def LayoutSmall (items : List (Bool × Bytes)) : Prop := Spec.Abi.headsLen items + tailLen items < 256 ^ 32

theorem layout_eq (items : List (Bool × Bytes)) (known : Bool) (hs : LayoutSmall items) :
    layoutChildren (sw items) known false = .ok (Spec.Abi.assemble items, known || items.any (·.1)) := by
  unfold layoutChildren
  simp only [headLen_eq, any_sw]
  have := writeChildren_eq (Spec.Abi.headsLen items) items 0 (by simpa [LayoutSmall] using hs)
  simp only [Nat.add_zero] at this
  rw [this]
  simp [Spec.Abi.assemble]

theorem layout_len_eq (items : List (Bool × Bytes)) (hs : LayoutSmall items) (hn : items.length < 256 ^ 32) :
    layoutChildren (sw items) true true =
      .ok (Spec.Abi.encUint items.length ++ Spec.Abi.assemble items, true) := by
  unfold layoutChildren
  simp only [headLen_eq]
  have := writeChildren_eq (Spec.Abi.headsLen items) items 0 (by simpa [LayoutSmall] using hs)
  simp only [Nat.add_zero] at this
  rw [this]
  have hfill : fillBytes? (sw items).length 32 = .ok (toBE 32 items.length) := by
    unfold fillBytes?
    simp [sw, hn]
  simp [hfill, Spec.Abi.assemble, Spec.Abi.encUint, List.append_assoc]

/-! ### the whole tree -/

mutual
  /-- every array / tuple node's layout fits an offset word (2^256 bytes), and array counts fit a word -/
  def Small : Ty → CV → Prop
    | .farr t _, .kids cs => SmallSame t cs ∧ LayoutSmall (Spec.Abi.encSame t cs)
    | .darr t, .kids cs => SmallSame t cs ∧ LayoutSmall (Spec.Abi.encSame t cs) ∧ cs.length < 256 ^ 32
    | .tuple _ ts, .kids cs => SmallEach ts cs ∧ LayoutSmall (Spec.Abi.encEach ts cs)
    | _, _ => True
  def SmallSame : Ty → List CV → Prop
    | _, [] => True
    | t, c :: cs => Small t c ∧ SmallSame t cs
  def SmallEach : List Ty → List CV → Prop
    | t :: ts, c :: cs => Small t c ∧ SmallEach ts cs
    | _, _ => True
end

theorem encSame_length (t : Ty) : ∀ cs, (Spec.Abi.encSame t cs).length = cs.length
  | [] => by simp [Spec.Abi.encSame]
  | c :: cs => by simp [Spec.Abi.encSame, encSame_length t cs]

theorem encSame_any (t : Ty) : ∀ cs, (Spec.Abi.encSame t cs).any (·.1) = (!cs.isEmpty && Spec.Abi.isDynamic t)
  | [] => by simp [Spec.Abi.encSame]
  | c :: cs => by
    simp only [Spec.Abi.encSame, List.any_cons, encSame_any t cs]
    cases cs <;> cases Spec.Abi.isDynamic t <;> simp

theorem encEach_any : ∀ (ts : List Ty) (cs : List CV), Spec.Abi.wellTypedEach ts cs = true →
    (Spec.Abi.encEach ts cs).any (·.1) = Spec.Abi.anyDyn ts
  | [], [], _ => by simp [Spec.Abi.encEach, Spec.Abi.anyDyn]
  | t :: ts, c :: cs, h => by
    rw [Spec.Abi.wellTypedEach] at h
    simp only [Bool.and_eq_true] at h
    simp only [Spec.Abi.encEach, List.any_cons, Spec.Abi.anyDyn, encEach_any ts cs h.2]
  | [], _ :: _, h => by simp [Spec.Abi.wellTypedEach] at h
  | _ :: _, [], h => by simp [Spec.Abi.wellTypedEach] at h

mutual
  /-- **The encoder produces the specification encoding** of every well-typed value of every valid type, and its
      value-driven dynamic flag is the specification's type-driven one. -/
  theorem encode_eq_spec : ∀ (v : CV) (t : Ty), ValidTy t → Spec.Abi.WellTyped t v = true → Small t v →
      encode t v = .ok (Spec.Abi.enc t v, Spec.Abi.isDynamic t)
    | .int z, t, hv, hw, _ => by
      cases t with
      | elem info suffix m n =>
        rw [encode, Spec.Abi.enc]
        exact encodeElem_eq info suffix m n _ (by simpa [ValidTy] using hv) hw
      | farr t k => simp [Spec.Abi.WellTyped] at hw
      | darr t => simp [Spec.Abi.WellTyped] at hw
      | tuple ns ts => simp [Spec.Abi.WellTyped] at hw
    | .bytes b, t, hv, hw, _ => by
      cases t with
      | elem info suffix m n =>
        rw [encode, Spec.Abi.enc]
        exact encodeElem_eq info suffix m n _ (by simpa [ValidTy] using hv) hw
      | farr t k => simp [Spec.Abi.WellTyped] at hw
      | darr t => simp [Spec.Abi.WellTyped] at hw
      | tuple ns ts => simp [Spec.Abi.WellTyped] at hw
    | .str b, t, hv, hw, _ => by
      cases t with
      | elem info suffix m n =>
        rw [encode, Spec.Abi.enc]
        exact encodeElem_eq info suffix m n _ (by simpa [ValidTy] using hv) hw
      | farr t k => simp [Spec.Abi.WellTyped] at hw
      | darr t => simp [Spec.Abi.WellTyped] at hw
      | tuple ns ts => simp [Spec.Abi.WellTyped] at hw
    | .kids cs, t, hv, hw, hs => by
      cases t with
      | elem info suffix m n => simp [Spec.Abi.WellTyped] at hw
      | farr t k =>
        rw [Spec.Abi.WellTyped] at hw
        simp only [Bool.and_eq_true, beq_iff_eq] at hw
        rw [Small] at hs
        rw [ValidTy] at hv
        have hrec := encodeSame_eq_spec cs t hv hw.2 hs.1
        rw [encode, hrec, Spec.Abi.enc]
        simp only []
        rw [layout_eq _ false hs.2, encSame_any]
        simp only [Bool.false_or, Spec.Abi.isDynamic]
        congr 2
        rw [← hw.1]
        cases cs <;> simp
      | darr t =>
        rw [Spec.Abi.WellTyped] at hw
        rw [Small] at hs
        rw [ValidTy] at hv
        have hrec := encodeSame_eq_spec cs t hv hw hs.1
        rw [encode, hrec, Spec.Abi.enc]
        simp only []
        rw [layout_len_eq _ hs.2.1 (by rw [encSame_length]; exact hs.2.2), encSame_length]
        simp [Spec.Abi.isDynamic]
      | tuple ns ts =>
        rw [Spec.Abi.WellTyped] at hw
        rw [Small] at hs
        rw [ValidTy] at hv
        have hrec := encodeEach_eq_spec cs ts hv hw hs.1
        rw [encode, hrec, Spec.Abi.enc]
        simp only []
        rw [layout_eq _ false hs.2, encEach_any ts cs hw]
        simp [Spec.Abi.isDynamic]
  theorem encodeSame_eq_spec : ∀ (cs : List CV) (t : Ty), ValidTy t → Spec.Abi.wellTypedSame t cs = true → SmallSame t cs →
      encodeSame t cs = .ok (sw (Spec.Abi.encSame t cs))
    | [], t, _, _, _ => by simp [encodeSame, Spec.Abi.encSame, sw]
    | c :: cs, t, hv, hw, hs => by
      rw [Spec.Abi.wellTypedSame] at hw
      simp only [Bool.and_eq_true] at hw
      rw [SmallSame] at hs
      rw [encodeSame, encode_eq_spec c t hv hw.1 hs.1, encodeSame_eq_spec cs t hv hw.2 hs.2]
      simp [Spec.Abi.encSame, sw]
  theorem encodeEach_eq_spec : ∀ (cs : List CV) (ts : List Ty), ValidTys ts → Spec.Abi.wellTypedEach ts cs = true → SmallEach ts cs →
      encodeEach ts cs = .ok (sw (Spec.Abi.encEach ts cs))
    | [], [], _, _, _ => by simp [encodeEach, Spec.Abi.encEach, sw]
    | c :: cs, t :: ts, hv, hw, hs => by
      rw [Spec.Abi.wellTypedEach] at hw
      simp only [Bool.and_eq_true] at hw
      rw [SmallEach] at hs
      rw [ValidTys] at hv
      rw [encodeEach, encode_eq_spec c t hv.1 hw.1 hs.1, encodeEach_eq_spec cs ts hv.2 hw.2 hs.2]
      simp [Spec.Abi.encEach, sw]
    | [], _ :: _, _, hw, _ => by simp [Spec.Abi.wellTypedEach] at hw
    | _ :: _, [], _, hw, _ => by simp [Spec.Abi.wellTypedEach] at hw
end

/-- `EncodeABIData` returns exactly the specification bytes -/
theorem encodeData_eq_spec (t : Ty) (v : CV) (hv : ValidTy t) (hw : Spec.Abi.WellTyped t v = true) (hs : Small t v) :
    encodeData t v = .ok (Spec.Abi.enc t v) := by
  simp [encodeData, encode_eq_spec v t hv hw hs]

/-- **Out-of-range integers are rejected, never wrapped.** -/
theorem uint_out_of_range_rejected (info : ElemInfo) (m : Nat) (z : Int) (hc : codecOf info.enc = .uint)
    (h : z < 0 ∨ (2 : Int) ^ m ≤ z) : encodeElem info m (.int z) = .err := by
  unfold encodeElem
  simp only [hc]
  rcases h with h | h
  · simp [h]
  · have hz : ¬ z < 0 := by
      have : (0 : Int) < 2 ^ m := Int.pow_pos (by decide)
      omega
    have hbl : bitLen z.toNat > m := by
      unfold bitLen
      have hnat : 2 ^ m ≤ z.toNat := by
        have : (z.toNat : Int) = z := Int.toNat_of_nonneg (by omega)
        have h2 : ((2 ^ m : Nat) : Int) = (2 : Int) ^ m := by simp
        omega
      have hne : z.toNat ≠ 0 := by
        have : 0 < 2 ^ m := Nat.pow_pos (by decide)
        omega
      simp only [hne, if_false]
      have := (Nat.le_log2 hne).mpr hnat
      omega
    simp [hz, hbl]

theorem int_out_of_range_rejected (info : ElemInfo) (m : Nat) (z : Int) (hc : codecOf info.enc = .sint)
    (h : z < -(2 : Int) ^ (m - 1) ∨ (2 : Int) ^ (m - 1) ≤ z) : encodeElem info m (.int z) = .err := by
  unfold encodeElem
  simp only [hc]
  have hpos : (0 : Int) < 2 ^ (m - 1) := Int.pow_pos (by decide)
  have : checkSignedIntFits z m = false := by
    unfold checkSignedIntFits
    have hz : z ≠ 0 := by omega
    simp only [hz, if_false]
    split
    · simp only [Bool.and_eq_false_iff, decide_eq_false_iff_not]
      right; omega
    · simp only [Bool.and_eq_false_iff, decide_eq_false_iff_not]
      right; omega
  simp [this]

/-- non-vacuity: the table's `uint` row, with a width the parser admits, satisfies `ElemOK` -/
theorem uint256_ok : ∀ info ∈ Gen.AbiTypeTable.table, info.name = "uint" → ElemOK info "256" 256 := by
  intro info hmem hn
  refine Or.inr (Or.inl ⟨hn, ?_, by decide, by decide, by decide⟩)
  have hall : Gen.AbiTypeTable.table.all (fun i => i.name != "uint" || decide (codecOf i.enc = .uint)) = true := by decide
  have := List.all_eq_true.mp hall info hmem
  simpa [hn] using this

/-! ### accepted inputs: exactly the value they denote, or rejected -/

section inputs
open FFS.Model.EthTypes

theorem bitLen_ge (n m : Nat) (h : bitLen n ≤ m) : n < 2 ^ m := by
  unfold bitLen at h
  split at h
  · rename_i h0; subst h0; exact Nat.pow_pos (by decide)
  · rename_i hn
    exact (Nat.log2_lt hn).mp (by omega)

/-- **No accepted integer is wrapped, rounded or sign-changed (leaf).** If the integer encoder accepts `z` for a width
    `m ≤ 256` at all, `z` lies in the declared range and the word is the unsigned / two's-complement encoding of
    exactly `z`. -/
theorem encodeElem_int_exact (info : ElemInfo) (m : Nat) (z : Int) (w : Bytes) (dyn : Bool) (hm : m ≤ 256)
    (hc : codecOf info.enc = .uint ∨ (codecOf info.enc = .sint ∧ 8 ≤ m ∧ m % 8 = 0))
    (he : encodeElem info m (.int z) = .ok (w, dyn)) :
    dyn = false ∧
    ((codecOf info.enc = .uint ∧ 0 ≤ z ∧ z < 2 ^ m ∧ w = toBE 32 z.toNat) ∨
     (codecOf info.enc = .sint ∧ -(2 : Int) ^ (m - 1) ≤ z ∧ z < 2 ^ (m - 1) ∧ w = toBE 32 (z % 2 ^ 256).toNat)) := by
  unfold encodeElem at he
  rcases hc with hc | ⟨hc, h8, hmod⟩
  · rw [hc] at he
    simp only [] at he
    by_cases hneg : z < 0
    · rw [if_pos hneg] at he; cases he
    · rw [if_neg hneg] at he
      by_cases hbl : bitLen z.toNat > m
      · rw [if_pos hbl] at he; cases he
      · rw [if_neg hbl] at he
        have hlt : z.toNat < 2 ^ m := bitLen_ge _ _ (by omega)
        have hfill : fillBytes? z.toNat 32 = .ok (toBE 32 z.toNat) := by
          have h1 : 2 ^ m ≤ 2 ^ 256 := Nat.pow_le_pow_right (by decide) hm
          have h2 : (256 : Nat) ^ 32 = 2 ^ 256 := by rw [show (256 : Nat) = 2 ^ 8 from rfl, ← Nat.pow_mul]
          have : z.toNat < 256 ^ 32 := by omega
          unfold fillBytes?
          rw [if_pos this]
        rw [hfill] at he
        simp only [Outcome.bind] at he
        injection he with he; injection he with he1 he2
        have hz : (z.toNat : Int) = z := Int.toNat_of_nonneg (by omega)
        have hzlt : z < 2 ^ m := by
          have : ((2 ^ m : Nat) : Int) = (2 : Int) ^ m := by simp
          omega
        exact ⟨he2.symm, Or.inl ⟨hc, by omega, hzlt, he1.symm⟩⟩
  · rw [hc] at he
    simp only [] at he
    by_cases hfit : checkSignedIntFits z m = true
    · rw [if_pos hfit] at he
      injection he with he; injection he with he1 he2
      refine ⟨he2.symm, Or.inr ⟨hc, ?_, ?_, by rw [← he1]; rfl⟩⟩
      · unfold checkSignedIntFits at hfit
        by_cases h0 : z = 0
        · subst h0
          have : (0 : Int) < 2 ^ (m - 1) := Int.pow_pos (by decide)
          omega
        · rw [if_neg h0] at hfit
          by_cases hp : z > 0
          · have : (0 : Int) < 2 ^ (m - 1) := Int.pow_pos (by decide)
            omega
          · rw [if_neg hp] at hfit
            simp only [Bool.and_eq_true, decide_eq_true_eq] at hfit
            exact hfit.2
      · unfold checkSignedIntFits at hfit
        by_cases h0 : z = 0
        · subst h0; exact Int.pow_pos (by decide)
        · rw [if_neg h0] at hfit
          by_cases hp : z > 0
          · rw [if_pos hp] at hfit
            simp only [Bool.and_eq_true, decide_eq_true_eq] at hfit
            omega
          · have : (0 : Int) < 2 ^ (m - 1) := Int.pow_pos (by decide)
            omega
    · rw [if_neg hfit] at he; cases he

/-- **An integer input is encoded as exactly the integer it denotes, or rejected** (JSON text or Go value, any integer
    type of the table's integer reader): whenever `walkInput` followed by `encode` succeeds on an integer leaf, the
    input was read as some integer `z` by `getIntegerFromInterface` (which accepts a text only when it denotes exactly
    `z`: `input_text_sound`), `z` is in the range of the declared width, and the word is the encoding of `z`. -/
theorem input_integer_exact (info : ElemInfo) (sfx : String) (m n : Nat) (v : Ext) (cv : CV) (w : Bytes) (dyn : Bool)
    (hr : info.reader = "getIntegerFromInterface") (hm : m ≤ 256)
    (hc : codecOf info.enc = .uint ∨ (codecOf info.enc = .sint ∧ 8 ≤ m ∧ m % 8 = 0))
    (hwalk : walkInput (.elem info sfx m n) v = .ok cv) (henc : encode (.elem info sfx m n) cv = .ok (w, dyn)) :
    ∃ z : Int, getInteger v = .ok z ∧ cv = .int z ∧
      ((codecOf info.enc = .uint ∧ 0 ≤ z ∧ z < 2 ^ m ∧ w = toBE 32 z.toNat) ∨
       (codecOf info.enc = .sint ∧ -(2 : Int) ^ (m - 1) ≤ z ∧ z < 2 ^ (m - 1) ∧ w = toBE 32 (z % 2 ^ 256).toNat)) := by
  simp only [walkInput] at hwalk
  unfold readElementary at hwalk
  rw [if_pos hr] at hwalk
  cases hg : getInteger v with
  | err => rw [hg] at hwalk; cases hwalk
  | panic => rw [hg] at hwalk; cases hwalk
  | ok z =>
    rw [hg] at hwalk
    simp only [Outcome.map] at hwalk
    injection hwalk with hwalk
    subst hwalk
    simp only [encode] at henc
    exact ⟨z, rfl, rfl, (encodeElem_int_exact info m z w dyn hm hc henc).2⟩

/-- what `getIntegerFromInterface` accepts from a text (JSON number literal or string): the text is an integer literal
    denoting `z` (`setString0`: decimal / 0x / 0b / 0o forms of `big.Int.SetString(s, 0)`), or it is no integer literal
    and both external parsers (`big.ParseFloat`, `big.Rat`) say it denotes exactly the integer `z`. -/
theorem input_text_sound (s : String) (fl rat : ExtNum) (z : Int)
    (h : getInteger (.num s fl rat) = .ok z ∨ getInteger (.str s fl rat) = .ok z) :
    setString0 s.toList = some z ∨ (setString0 s.toList = none ∧ fl = .int z ∧ (rat = .int z ∨ rat = .fail)) := by
  rcases h with h | h <;> exact C19.bigint_sound (by simpa [getInteger] using h)

/-- **Non-integral text or JSON numbers for integer types are rejected.** -/
theorem input_fraction_rejected (info : ElemInfo) (sfx : String) (m n : Nat) (s : String) (fl : ExtNum)
    (hr : info.reader = "getIntegerFromInterface") (hs : setString0 s.toList = none) :
    walkInput (.elem info sfx m n) (.num s fl .notInt) = .err ∧ walkInput (.elem info sfx m n) (.str s fl .notInt) = .err := by
  have := C19.bigint_rejects_fraction s.toList fl hs
  simp [walkInput, readElementary, hr, getInteger, this, Outcome.map]

/-- a non-integral Go float is rejected as well -/
theorem input_float_rejected (info : ElemInfo) (sfx : String) (m n : Nat) (z : Int)
    (hr : info.reader = "getIntegerFromInterface") :
    walkInput (.elem info sfx m n) (.float false z) = .err := by
  simp [walkInput, readElementary, hr, getInteger, Outcome.map]

theorem walkSame_length (t : Ty) : ∀ (xs : List Ext) (cs : List CV), walkSame t xs = .ok cs → cs.length = xs.length
  | [], cs, h => by simp only [walkSame] at h; injection h with h; subst h; rfl
  | x :: xs, cs, h => by
    simp only [walkSame] at h
    cases hx : walkInput t x with
    | err => rw [hx] at h; cases h
    | panic => rw [hx] at h; cases h
    | ok c =>
      rw [hx] at h
      simp only [] at h
      cases hr : walkSame t xs with
      | err => rw [hr] at h; cases h
      | panic => rw [hr] at h; cases h
      | ok cs' =>
        rw [hr] at h
        simp only [Outcome.map] at h
        injection h with h; subst h
        simp [walkSame_length t xs cs' hr]

/-- **Wrong array arity is rejected**: a fixed-size array `T[k]` is accepted only from a slice of exactly `k` elements,
    and the value tree has exactly `k` children. -/
theorem input_arity (t : Ty) (k : Nat) (v : Ext) (cv : CV) (h : walkInput (.farr t k) v = .ok cv) :
    ∃ xs cs, asSlice v = some xs ∧ xs.length = k ∧ cv = .kids cs ∧ cs.length = k := by
  simp only [walkInput] at h
  cases hs : asSlice v with
  | none => rw [hs] at h; cases h
  | some xs =>
    rw [hs] at h
    simp only [] at h
    by_cases hk : xs.length = k
    · rw [if_neg (by simpa using hk)] at h
      cases hw : walkSame t xs with
      | err => rw [hw] at h; cases h
      | panic => rw [hw] at h; cases h
      | ok cs =>
        rw [hw] at h
        simp only [Outcome.map] at h
        injection h with h
        exact ⟨xs, cs, rfl, hk, h.symm, by rw [walkSame_length t xs cs hw, hk]⟩
    · rw [if_pos (by simpa using hk)] at h; cases h


end inputs

/-! ### non-vacuity of the hypotheses -/



/-- non-vacuity of `encodeData_eq_spec`: `(uint256 a, uint256[] b)` with the value `(5, [1, 2])` meets every hypothesis -/
example : ∀ info ∈ Gen.AbiTypeTable.table, info.name = "uint" →
    ValidTy (.tuple ["a", "b"] [.elem info "256" 256 0, .darr (.elem info "256" 256 0)]) ∧
    Spec.Abi.WellTyped (.tuple ["a", "b"] [.elem info "256" 256 0, .darr (.elem info "256" 256 0)])
      (.kids [.int 5, .kids [.int 1, .int 2]]) = true ∧
    Small (.tuple ["a", "b"] [.elem info "256" 256 0, .darr (.elem info "256" 256 0)]) (.kids [.int 5, .kids [.int 1, .int 2]]) := by
  intro info hmem hn
  have hok : ElemOK info "256" 256 := uint256_ok info hmem hn
  have hbig : (200 : Nat) < 256 ^ 32 := by decide
  refine ⟨⟨hok, hok, trivial⟩, ?_, ?_⟩
  · simp [Spec.Abi.WellTyped, Spec.Abi.wellTypedEach, Spec.Abi.wellTypedSame, hn]
  · simp [Small, SmallEach, SmallSame, LayoutSmall, Spec.Abi.encEach, Spec.Abi.encSame, Spec.Abi.enc, Spec.Abi.isDynamic,
      Spec.Abi.headsLen, tailLen, Spec.Abi.encElem, Spec.Abi.encUint, Spec.Abi.assemble, Spec.Abi.assembleGo, hn]

end FFS.Props.C02
