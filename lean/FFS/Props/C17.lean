/-
  Property C17 — wallet discovery is race-free and notifies each new address exactly once.
  Model: FFS.Model.FsWalletConc (atomic steps justified by the regenerated lock table).
  * `lock_discipline`   : every access to the shared discovery state is made with the mutex held and none from a
                          spawned goroutine; the dispatch goroutine uses its snapshot; no unlocked configuration write.
  * `inv_reach`         : in every reachable state (= under every schedule) the account list has no duplicates,
                          is exactly the key set of the file map, and no (listener, address) pair is sent twice.
  * `exactly_once`      : a listener registered when an address first appears has that address sent to it, and
                          in every later state exactly once (counting sends made and sends still queued).
  * `never_twice`       : no listener receives an address twice.
  * `converges`         : after a discovery pass over a set of files every matching address is listed, and only
                          addresses some pass has matched are ever listed.
  Not provable here (runtime): absence of data races as the Go memory model defines them and absence of deadlock
  are consequences of `lock_discipline` only under the reading "one mutex, never held across a blocking
  operation"; the race detector run of the harness is the evidence for the code, not a theorem.
-/
import FFS.Model.FsWalletConc
import FFS.Gen.FsWalletFacts
namespace FFS.Props.C17
open FFS.Model.FsWalletConc FFS.Gen.FsWalletFacts

/-- **Regenerated tie for "converges to the set of matching files".** `Refresh` passes every directory entry whose
    `Info()` succeeds to `notifyNewFiles` — no other filter, no `continue` — so the only thing that decides whether a
    file becomes an account is the naming rule (`matchFilename`), as in the model's `notify` step. -/
theorem refresh_scans_everything : refreshPassesEveryEntry = true := by decide

/-- **Lock discipline**, over the regenerated table: every access to listeners / addressList / addressToFileMap is
    under `w.mux` and not inside a `go` statement; all three fields are covered; the dispatch goroutine ranges over
    the snapshot; `getKeyAndPasswordFiles` does not write the shared configuration; a discovery pass, a listener
    registration and an account listing are each one critical section (so each is one atomic step of the model). -/
theorem lock_discipline :
    lockTable.all (fun r => r.2.2.1 && !r.2.2.2) = true ∧
    (["listeners", "addressList", "addressToFileMap"].all fun f => lockTable.any fun r => r.2.1 == f) = true ∧
    listenersSnapshotUsed = true ∧ formatNotWritten = true ∧ singleCriticalSection = true := by decide

/-! ### helper lemmas -/

theorem lookup_cons (a : Addr) (name : String) (m : List (Addr × String)) (a' : Addr) :
    lookup ((a, name) :: m) a' = if a = a' then some name else lookup m a' := by
  unfold lookup
  by_cases h : a = a'
  · simp [List.find?_cons, h]
  · have : (a == a') = false := by simpa using h
    simp [List.find?_cons, this, h]

theorem scan_spec (files : List (String × Option Addr)) :
    ∀ (m : List (Addr × String)) (k n : List Addr), k.Nodup → (∀ a, a ∈ k ↔ (lookup m a).isSome = true) →
    ∃ d, (scan files m k n).2.1 = k ++ d ∧ (scan files m k n).2.2 = n ++ d ∧ (k ++ d).Nodup ∧
      (∀ a, a ∈ k ++ d ↔ (lookup (scan files m k n).1 a).isSome = true) ∧
      (∀ name a, (name, some a) ∈ files → name ≠ "" → a ∈ k ++ d) ∧
      (∀ a ∈ d, ∃ name, (name, some a) ∈ files) := by
  induction files with
  | nil => intro m k n hk hiff; exact ⟨[], by simp [scan], by simp [scan], by simpa using hk, by simpa [scan] using hiff, by simp, by simp⟩
  | cons f fs ih =>
    intro m k n hk hiff
    obtain ⟨name, oa⟩ := f
    cases oa with
    | none =>
      obtain ⟨d, h1, h2, h3, h4, h5, h6⟩ := ih m k n hk hiff
      refine ⟨d, by simpa [scan] using h1, by simpa [scan] using h2, h3, by simpa [scan] using h4, ?_, ?_⟩
      · intro nm a hmem hne
        simp only [List.mem_cons, Prod.mk.injEq, reduceCtorEq, and_false, false_or] at hmem
        exact h5 nm a hmem hne
      · intro a ha; obtain ⟨nm, hnm⟩ := h6 a ha; exact ⟨nm, List.mem_cons_of_mem _ hnm⟩
    | some a =>
      cases hl : lookup m a with
      | some existing =>
        have hak : a ∈ k := (hiff a).mpr (by simp [hl])
        by_cases hne : existing != name
        · -- the file name is updated, nothing is added
          have hiff' : ∀ a', a' ∈ k ↔ (lookup ((a, name) :: m) a').isSome = true := by
            intro a'
            rw [lookup_cons]
            by_cases h : a = a'
            · subst h; simp [hak]
            · simp [h, hiff a']
          obtain ⟨d, h1, h2, h3, h4, h5, h6⟩ := ih ((a, name) :: m) k n hk hiff'
          refine ⟨d, by simpa [scan, hl, hne] using h1, by simpa [scan, hl, hne] using h2, h3,
            by simpa [scan, hl, hne] using h4, ?_, ?_⟩
          · intro nm a' hmem hnn
            simp only [List.mem_cons, Prod.mk.injEq, Option.some.injEq] at hmem
            rcases hmem with ⟨_, rfl⟩ | hmem
            · exact List.mem_append_left _ hak
            · exact h5 nm a' hmem hnn
          · intro a' ha; obtain ⟨nm, hnm⟩ := h6 a' ha; exact ⟨nm, List.mem_cons_of_mem _ hnm⟩
        · obtain ⟨d, h1, h2, h3, h4, h5, h6⟩ := ih m k n hk hiff
          refine ⟨d, by simpa [scan, hl, hne] using h1, by simpa [scan, hl, hne] using h2, h3,
            by simpa [scan, hl, hne] using h4, ?_, ?_⟩
          · intro nm a' hmem hnn
            simp only [List.mem_cons, Prod.mk.injEq, Option.some.injEq] at hmem
            rcases hmem with ⟨_, rfl⟩ | hmem
            · exact List.mem_append_left _ hak
            · exact h5 nm a' hmem hnn
          · intro a' ha; obtain ⟨nm, hnm⟩ := h6 a' ha; exact ⟨nm, List.mem_cons_of_mem _ hnm⟩
      | none =>
        have hak : a ∉ k := fun h => by have := (hiff a).mp h; simp [hl] at this
        by_cases hne : ("" != name)
        · have hk' : (k ++ [a]).Nodup := by
            rw [List.nodup_append]
            refine ⟨hk, by simp, ?_⟩
            intro x hx y hy
            simp only [List.mem_singleton] at hy
            subst hy
            intro h; subst h; exact hak hx
          have hiff' : ∀ a', a' ∈ k ++ [a] ↔ (lookup ((a, name) :: m) a').isSome = true := by
            intro a'
            rw [lookup_cons]
            by_cases h : a = a'
            · subst h; simp
            · have h' : a' ≠ a := fun e => h e.symm
              simp [h, h', hiff a']
          obtain ⟨d, h1, h2, h3, h4, h5, h6⟩ := ih ((a, name) :: m) (k ++ [a]) (n ++ [a]) hk' hiff'
          refine ⟨a :: d, by simpa [scan, hl, hne] using h1, by simpa [scan, hl, hne] using h2,
            by simpa using h3, ?_, ?_, ?_⟩
          · intro a'
            have := h4 a'
            simpa [scan, hl, hne] using this
          · intro nm a' hmem hnn
            simp only [List.mem_cons, Prod.mk.injEq, Option.some.injEq] at hmem
            rcases hmem with ⟨_, rfl⟩ | hmem
            · simp
            · have := h5 nm a' hmem hnn
              simpa using this
          · intro a' ha
            simp only [List.mem_cons] at ha
            rcases ha with rfl | ha
            · exact ⟨name, by simp⟩
            · obtain ⟨nm, hnm⟩ := h6 a' ha; exact ⟨nm, List.mem_cons_of_mem _ hnm⟩
        · have hname : name = "" := by
            simp only [bne_iff_ne, ne_eq, Decidable.not_not] at hne
            exact hne.symm
          obtain ⟨d, h1, h2, h3, h4, h5, h6⟩ := ih m k n hk hiff
          refine ⟨d, by simpa [scan, hl, hne] using h1, by simpa [scan, hl, hne] using h2, h3,
            by simpa [scan, hl, hne] using h4, ?_, ?_⟩
          · intro nm a' hmem hnn
            simp only [List.mem_cons, Prod.mk.injEq, Option.some.injEq] at hmem
            rcases hmem with ⟨rfl, _⟩ | hmem
            · exact absurd hname hnn
            · exact h5 nm a' hmem hnn
          · intro a' ha; obtain ⟨nm, hnm⟩ := h6 a' ha; exact ⟨nm, List.mem_cons_of_mem _ hnm⟩

theorem mem_dispatchOf (ls : List Lid) (new : List Addr) (p : Lid × Addr) :
    p ∈ dispatchOf ls new ↔ p.1 ∈ ls ∧ p.2 ∈ new := by
  unfold dispatchOf
  simp only [List.mem_flatMap, List.mem_map]
  constructor
  · rintro ⟨l, hl, a, ha, rfl⟩; exact ⟨hl, ha⟩
  · rintro ⟨hl, ha⟩; exact ⟨p.1, hl, p.2, ha, rfl⟩

theorem dispatchOf_nodup (ls : List Lid) (new : List Addr) (h1 : ls.Nodup) (h2 : new.Nodup) :
    (dispatchOf ls new).Nodup := by
  unfold dispatchOf List.Nodup
  rw [List.pairwise_flatMap]
  constructor
  · intro l _
    rw [List.pairwise_map]
    exact List.Pairwise.imp (fun h e => h (by injection e)) h2
  · exact List.Pairwise.imp (fun hne x hx y hy e => by
      simp only [List.mem_map] at hx hy
      obtain ⟨_, _, rfl⟩ := hx
      obtain ⟨_, _, rfl⟩ := hy
      injection e with e1 _
      exact hne e1) h1

theorem popAt_perm : ∀ (qs : List (List (Lid × Addr))) (i : Nat) (x : Lid × Addr) (qs' : List (List (Lid × Addr))),
    popAt qs i = some (x, qs') → qs.flatten.Perm (x :: qs'.flatten) := by
  intro qs
  induction qs with
  | nil => intro i x qs' h; simp [popAt] at h
  | cons q qs ih =>
    intro i x qs' h
    cases i with
    | zero =>
      cases q with
      | nil => simp [popAt] at h
      | cons y r =>
        simp only [popAt, Option.some.injEq, Prod.mk.injEq] at h
        obtain ⟨rfl, rfl⟩ := h
        simp
    | succ i =>
      simp only [popAt, Option.map_eq_some_iff] at h
      obtain ⟨p, hp, he⟩ := h
      injection he with h1 h2
      subst h1 h2
      have := ih i p.1 p.2 hp
      simp only [List.flatten_cons]
      exact (List.Perm.append_left q this).trans List.perm_middle

theorem count_le_one_of_nodup {α : Type} [BEq α] [LawfulBEq α] : ∀ (l : List α), l.Nodup → ∀ x, l.count x ≤ 1
  | [], _, x => by simp
  | y :: t, h, x => by
    rw [List.nodup_cons] at h
    rw [List.count_cons]
    by_cases e : y = x
    · subst e
      have : t.count y = 0 := List.count_eq_zero.mpr h.1
      simp [this]
    · have := count_le_one_of_nodup t h.2 x
      have e' : (y == x) = false := by simpa using e
      simpa [e'] using this

/-! ### the invariant -/

structure Inv (s : St) : Prop where
  knownNodup : s.known.Nodup
  knownIff : ∀ a, a ∈ s.known ↔ (lookup s.fileMap a).isSome = true
  lsNodup : s.listeners.Nodup
  sendsNodup : (sends s).Nodup
  sendsIn : ∀ p ∈ sends s, p.2 ∈ s.known ∧ p.1 ∈ s.listeners

theorem inv_init : Inv init := by
  refine ⟨by simp [init], by simp [init, lookup], by simp [init], by simp [init, sends], by simp [init, sends]⟩

theorem sends_notify (s : St) (files : List (String × Option Addr)) :
    sends (step s (.notify files)) =
      sends s ++ dispatchOf s.listeners (scan files s.fileMap s.known []).2.2 := by
  simp [sends, step, List.flatten_append]

theorem inv_step (s : St) (op : Op) (h : Inv s) (hok : okOp s op) : Inv (step s op) := by
  cases op with
  | notify files =>
    obtain ⟨d, h1, h2, h3, h4, _, _⟩ := scan_spec files s.fileMap s.known [] h.knownNodup h.knownIff
    have hd : (scan files s.fileMap s.known []).2.2 = d := by simpa using h2
    have hdn : d.Nodup := ((List.nodup_append.mp h3).2.1)
    have hdis : ∀ a ∈ s.known, ∀ b ∈ d, a ≠ b := (List.nodup_append.mp h3).2.2
    refine ⟨?_, ?_, ?_, ?_, ?_⟩
    · simpa [step, h1] using h3
    · intro a; simpa [step, h1] using h4 a
    · simpa [step] using h.lsNodup
    · rw [sends_notify, hd, List.nodup_append]
      refine ⟨h.sendsNodup, dispatchOf_nodup _ _ h.lsNodup hdn, ?_⟩
      intro p hp q hq e
      subst e
      have := (h.sendsIn p hp).1
      have hq2 := ((mem_dispatchOf _ _ _).mp hq).2
      exact hdis _ this _ hq2 rfl
    · intro p hp
      rw [sends_notify, hd, List.mem_append] at hp
      simp only [step, h1]
      rcases hp with hp | hp
      · exact ⟨List.mem_append_left _ (h.sendsIn p hp).1, (h.sendsIn p hp).2⟩
      · have := (mem_dispatchOf _ _ _).mp hp
        exact ⟨List.mem_append_right _ this.2, this.1⟩
  | addListener l =>
    have hl : l ∉ s.listeners := hok
    refine ⟨h.knownNodup, h.knownIff, ?_, h.sendsNodup, ?_⟩
    · simp only [step]
      rw [List.nodup_append]
      refine ⟨h.lsNodup, by simp, ?_⟩
      intro x hx y hy e
      simp only [List.mem_singleton] at hy
      subst hy; subst e; exact hl hx
    · intro p hp
      have := h.sendsIn p hp
      exact ⟨this.1, by simp [step, this.2]⟩
  | deliver i =>
    simp only [step]
    cases hp : popAt s.queues i with
    | none => simpa using h
    | some r =>
      obtain ⟨x, qs⟩ := r
      have hperm : (sends s).Perm (s.delivered ++ [x] ++ qs.flatten) := by
        unfold sends
        have := popAt_perm s.queues i x qs hp
        refine (List.Perm.append_left s.delivered this).trans ?_
        simp
      refine ⟨h.knownNodup, h.knownIff, h.lsNodup, ?_, ?_⟩
      · show (s.delivered ++ [x] ++ qs.flatten).Nodup
        exact hperm.nodup_iff.mp h.sendsNodup
      · intro p hp'
        have : p ∈ sends s := hperm.mem_iff.mpr hp'
        exact h.sendsIn p this
  | getAccounts => simpa [step] using h

/-- **Every schedule.** The invariant holds in every reachable state. -/
theorem inv_reach {s : St} (h : Reach s) : Inv s := by
  induction h with
  | init => exact inv_init
  | step op _ hok ih => exact inv_step _ op ih hok

/-- **The account list never contains duplicates** and is exactly the set of addresses with a file. -/
theorem accounts_nodup {s : St} (h : Reach s) : s.known.Nodup := (inv_reach h).knownNodup

/-- **No listener ever receives an address twice** (sends made plus sends still queued, under any schedule). -/
theorem never_twice {s : St} (h : Reach s) (l : Lid) (a : Addr) : (sends s).count (l, a) ≤ 1 :=
  count_le_one_of_nodup _ (inv_reach h).sendsNodup (l, a)

/-- sends are never lost: whatever is sent or queued stays sent or queued -/
theorem sends_mono (s : St) (op : Op) (p : Lid × Addr) (hp : p ∈ sends s) : p ∈ sends (step s op) := by
  cases op with
  | notify files => rw [sends_notify]; exact List.mem_append_left _ hp
  | addListener l => simpa [step, sends] using hp
  | deliver i =>
    simp only [step]
    cases hpop : popAt s.queues i with
    | none => simpa using hp
    | some r =>
      obtain ⟨x, qs⟩ := r
      have hperm : (sends s).Perm (s.delivered ++ [x] ++ qs.flatten) := by
        unfold sends
        have := popAt_perm s.queues i x qs hpop
        refine (List.Perm.append_left s.delivered this).trans ?_
        simp
      exact hperm.mem_iff.mp hp
  | getAccounts => simpa [step] using hp

theorem sends_mono_run (ops : List Op) : ∀ (s : St) (p : Lid × Addr), p ∈ sends s → p ∈ sends (run s ops) := by
  induction ops with
  | nil => intro s p hp; simpa [run] using hp
  | cons op ops ih => intro s p hp; exact ih (step s op) p (sends_mono s op p hp)

/-- `run` preserves reachability when every listener registration along the way is of a fresh channel -/
def okRun : St → List Op → Prop
  | _, [] => True
  | s, op :: ops => okOp s op ∧ okRun (step s op) ops

theorem reach_run (ops : List Op) : ∀ (s : St), Reach s → okRun s ops → Reach (run s ops) := by
  induction ops with
  | nil => intro s h _; simpa [run] using h
  | cons op ops ih => intro s h hok; exact ih (step s op) (Reach.step op h hok.1) hok.2

/-- **Exactly once.** If listener `l` is registered when a discovery pass first lists address `a`, then after that
    pass, and after any further operations in any order, `a` has been sent to `l` or is queued for it — exactly
    once. -/
theorem exactly_once {s : St} (h : Reach s) (files : List (String × Option Addr)) (l : Lid) (a : Addr)
    (hl : l ∈ s.listeners) (hnew : a ∉ s.known) (hadd : a ∈ (step s (.notify files)).known)
    (later : List Op) (hok : okRun (step s (.notify files)) later) :
    (sends (run (step s (.notify files)) later)).count (l, a) = 1 := by
  have hinv := inv_reach h
  obtain ⟨d, h1, h2, _, _, _, _⟩ := scan_spec files s.fileMap s.known [] hinv.knownNodup hinv.knownIff
  have hd : (scan files s.fileMap s.known []).2.2 = d := by simpa using h2
  have had : a ∈ d := by
    have : a ∈ s.known ++ d := by simpa [step, h1] using hadd
    rcases List.mem_append.mp this with h' | h'
    · exact absurd h' hnew
    · exact h'
  have hq : (l, a) ∈ sends (step s (.notify files)) := by
    rw [sends_notify, hd]
    exact List.mem_append_right _ ((mem_dispatchOf _ _ _).mpr ⟨hl, had⟩)
  have hmem := sends_mono_run later _ _ hq
  have hreach := reach_run later _ (Reach.step (.notify files) h trivial) hok
  have hle := never_twice hreach l a
  have hpos : 0 < (sends (run (step s (.notify files)) later)).count (l, a) := List.count_pos_iff.mpr hmem
  omega

/-- once the dispatch goroutines have finished, "sent" means "delivered" -/
theorem delivered_when_drained {s : St} (l : Lid) (a : Addr) (hdr : s.queues.flatten = []) :
    s.delivered.count (l, a) = (sends s).count (l, a) := by
  simp [sends, hdr]

/-- **Convergence.** After a discovery pass over `files`, every address matched by a (non-empty) file name is in
    the account list; and an address is only ever listed because some pass matched a file to it. -/
theorem converges {s : St} (h : Reach s) (files : List (String × Option Addr)) :
    (∀ name a, (name, some a) ∈ files → name ≠ "" → a ∈ (step s (.notify files)).known) ∧
    (∀ a ∈ (step s (.notify files)).known, a ∈ s.known ∨ ∃ name, (name, some a) ∈ files) := by
  have hinv := inv_reach h
  obtain ⟨d, h1, _, _, _, h5, h6⟩ := scan_spec files s.fileMap s.known [] hinv.knownNodup hinv.knownIff
  constructor
  · intro name a hm hne; simpa [step, h1] using h5 name a hm hne
  · intro a ha
    have : a ∈ s.known ++ d := by simpa [step, h1] using ha
    rcases List.mem_append.mp this with h' | h'
    · exact Or.inl h'
    · exact Or.inr (h6 a h')

/-- the account list only grows: nothing listed is ever dropped or reordered by a later operation -/
theorem accounts_prefix (s : St) (op : Op) (h : Inv s) : ∃ d, (step s op).known = s.known ++ d := by
  cases op with
  | notify files =>
    obtain ⟨d, h1, _⟩ := scan_spec files s.fileMap s.known [] h.knownNodup h.knownIff
    exact ⟨d, by simpa [step] using h1⟩
  | addListener l => exact ⟨[], by simp [step]⟩
  | deliver i => simp only [step]; split <;> exact ⟨[], by simp⟩
  | getAccounts => exact ⟨[], by simp [step]⟩

/-- non-vacuity: a concrete schedule — two listeners, a pass that finds two files for one address and one for
    another, interleaved deliveries — meets the hypotheses and ends with each pair delivered once. -/
example :
    let s := run init [.addListener 1, .addListener 2,
      .notify [("a.json", some 10), ("0xa.json", some 10), ("b.json", some 11), ("x", none)],
      .deliver 0, .notify [("a.json", some 10)], .deliver 1, .deliver 0, .deliver 0, .deliver 0]
    s.known = [10, 11] ∧ s.queues.flatten = [] ∧ s.delivered = [(1, 10), (1, 11), (2, 10), (2, 11)] := by
  decide

end FFS.Props.C17
