/-
  Property C19 — hex / number JSON types parse exactly or fail, and print canonically.
  Model: FFS.Model.EthTypes (mirrors /repo/pkg/ethtypes). `big.Int.SetString(s,0)` is modelled in full;
  `big.ParseFloat` / `big.Rat.SetString` are external parameters (see the model's header).
-/
import FFS.Model.EthTypes
import FFS.Lemmas.Eip55
namespace FFS.Props.C19
open FFS FFS.Model.EthTypes

/-- the regenerated structural facts the model branches on -/
theorem facts : Gen.EthConsts.ratConfirmed = true ∧ Gen.EthConsts.bigIntShape = true ∧
    Gen.EthConsts.hexIntRejectsNegative = true ∧ Gen.EthConsts.hexU64ChecksRange = true ∧
    Gen.EthConsts.addrChecksLen = true := by decide

/-! ### integers -/

/-- **Soundness of the integer parser.** Whatever is accepted is either what `SetString(s, 0)` read
    exactly, or an integer on which the 256-bit float and exact rational arithmetic agree (or the rational
    parser declined the text, which only happens outside the property's domain: exponents beyond 10^6). -/
theorem bigint_sound {s : List Char} {fl rat : ExtNum} {z : Int}
    (h : bigIntegerFromString s fl rat = .ok z) :
    setString0 s = some z ∨
      (setString0 s = none ∧ fl = .int z ∧ (rat = .int z ∨ rat = .fail)) := by
  unfold bigIntegerFromString at h
  cases hs : setString0 s with
  | some w => rw [hs] at h; injection h with h; subst h; exact Or.inl rfl
  | none =>
    rw [hs] at h
    right
    cases fl with
    | fail => cases h
    | notInt => cases h
    | int i =>
      simp only [facts.1, if_true] at h
      cases rat with
      | fail => injection h with h; subst h; exact ⟨rfl, rfl, Or.inr rfl⟩
      | notInt => cases h
      | int q =>
        simp only [] at h
        split at h
        · rename_i hq; injection h with h; subst h; subst hq; exact ⟨rfl, rfl, Or.inl rfl⟩
        · cases h

/-- A text that exact rational arithmetic reads as a non-integer is never accepted (no rounding). -/
theorem bigint_rejects_fraction (s : List Char) (fl : ExtNum) (hs : setString0 s = none) :
    bigIntegerFromString s fl .notInt = .err := by
  unfold bigIntegerFromString
  rw [hs]
  cases fl <;> simp [facts.1]

/-- The integer type only accepts non-negative values. -/
theorem hexint_nonneg {j : JNum} {fl rat : ExtNum} {z : Int}
    (h : hexIntegerUnmarshal j fl rat = .ok z) : 0 ≤ z := by
  unfold hexIntegerUnmarshal at h
  split at h
  · rename_i w _
    simp only [facts.2.2.1, Bool.true_and, decide_eq_true_eq] at h
    split at h
    · cases h
    · injection h with h; omega
  · cases h
  · cases h

/-- The 64-bit type only accepts values in [0, 2^64), and returns exactly that value (no wrap). -/
theorem hexuint64_range {j : JNum} {fl rat : ExtNum} {n : Nat}
    (h : hexUint64Unmarshal j fl rat = .ok n) :
    n < 2 ^ 64 ∧ unmarshalBigInt j fl rat = .ok (n : Int) := by
  unfold hexUint64Unmarshal at h
  split at h
  · rename_i w hw
    simp only [facts.2.2.2.1, Bool.true_and, Bool.not_eq_true', Bool.and_eq_false_iff,
      decide_eq_false_iff_not] at h
    split at h
    · cases h
    · rename_i hr
      injection h with h
      have : 0 ≤ w ∧ w < 2 ^ 64 := by omega
      refine ⟨by omega, ?_⟩
      rw [hw]; congr 1; omega
  · cases h
  · cases h

/-- Neither parser panics. -/
theorem unmarshal_total (j : JNum) (fl rat : ExtNum) :
    hexIntegerUnmarshal j fl rat ≠ .panic ∧ hexUint64Unmarshal j fl rat ≠ .panic := by
  have hb : ∀ s, bigIntegerFromString s fl rat ≠ .panic := by
    intro s
    unfold bigIntegerFromString
    cases setString0 s with
    | some w => simp
    | none =>
      cases fl with
      | fail => simp
      | notInt => simp
      | int i =>
        simp only [facts.1, if_true]
        cases rat with
        | fail => simp
        | notInt => simp
        | int q => simp only []; split <;> simp
  have hu : unmarshalBigInt j fl rat ≠ .panic := by
    unfold unmarshalBigInt
    cases j with
    | invalid => simp
    | other => simp
    | number l => exact hb l
    | string l => exact hb l
  constructor
  · unfold hexIntegerUnmarshal
    split
    · split <;> simp
    · simp
    · rename_i hp; exact absurd hp hu
  · unfold hexUint64Unmarshal
    split
    · split <;> simp
    · simp
    · rename_i hp; exact absurd hp hu

/-! ### hex byte strings and addresses -/

theorem hexDigitVal_hexChar (n : Nat) (h : n < 16) : hexDigitVal (hexChar n) = some n := by
  have : ∀ m : Fin 16, hexDigitVal (hexChar m.val) = some m.val := by decide
  exact this ⟨n, h⟩

/-- Printing bytes as hex and parsing them back yields exactly those bytes. -/
theorem hexDecode_hexEncode (bs : Bytes) : hexDecode (hexEncode bs) = some bs := by
  induction bs with
  | nil => rfl
  | cons b t ih =>
    have hb := b.toNat_lt
    simp only [hexEncode, hexDecode, hexDigitVal_hexChar (b.toNat / 16) (by omega),
      hexDigitVal_hexChar (b.toNat % 16) (by omega), ih]
    have : b.toNat / 16 * 16 + b.toNat % 16 = b.toNat := by omega
    rw [this, UInt8.ofNat_toNat]

/-- the first printed hex digit pair never starts with the literal prefix `0x` (x is not a hex digit) -/
theorem trim0x_hexEncode (bs : Bytes) : trim0x (hexEncode bs) = hexEncode bs := by
  cases bs with
  | nil => rfl
  | cons b t =>
    have hb := b.toNat_lt
    simp only [hexEncode]
    have hx : ∀ m : Fin 16, hexChar m.val ≠ 'x' := by decide
    have := hx ⟨b.toNat % 16, by omega⟩
    unfold trim0x
    split
    · rename_i rest heq
      injection heq with h1 h2
      injection h2 with h2 h3
      exact absurd h2 this
    · rfl

/-- Byte strings round-trip through both printed forms. -/
theorem hexbytes_roundtrip (b : Bytes) :
    hexBytesParse (hexEncode b) = .ok b ∧ hexBytesParse ('0' :: 'x' :: hexEncode b) = .ok b := by
  constructor
  · simp [hexBytesParse, trim0x_hexEncode, hexDecode_hexEncode]
  · simp [hexBytesParse, trim0x, hexDecode_hexEncode]

/-- Parsing accepts exactly the texts whose hex part decodes: no partial or defaulted result. -/
theorem hexbytes_parse_iff (s : List Char) (b : Bytes) :
    hexBytesParse s = .ok b ↔ hexDecode (trim0x s) = some b := by
  unfold hexBytesParse
  cases hexDecode (trim0x s) with
  | none => simp
  | some w => simp

/-- Addresses: accepted iff the hex part decodes to exactly 20 bytes, and then those are the bytes. -/
theorem address_parse_iff (s : List Char) (a : Bytes) :
    addressSetString s = .ok a ↔ (hexDecode (trim0x s) = some a ∧ a.length = 20) := by
  unfold addressSetString
  cases hd : hexDecode (trim0x s) with
  | none => simp
  | some w =>
    simp only [facts.2.2.2.2, Bool.true_and, bne_iff_ne, ne_eq, ite_not]
    by_cases hl : w.length = 20
    · simp only [hl, if_true, Outcome.ok.injEq, Option.some.injEq, Nat.sub_self, zeros, List.replicate_zero,
        List.append_nil]
      have : w.take 20 = w := List.take_of_length_le (by omega)
      rw [this]
      constructor
      · intro h; subst h; exact ⟨rfl, hl⟩
      · intro h; exact h.1
    · simp only [hl, if_false]
      constructor
      · intro h; cases h
      · intro h
        have : w = a := by injection h.1
        subst this; exact absurd h.2 hl

/-- All three printed forms of an address parse back to the same 20 bytes (the checksum form differs from
    the lower-case form only in letter case, which the parser ignores — see `address_case_insensitive`). -/
theorem address_roundtrip (a : Bytes) (h : a.length = 20) :
    addressSetString (address0xString a) = .ok a ∧ addressSetString (addressPlainString a) = .ok a := by
  constructor
  · rw [address_parse_iff]; exact ⟨by simp [address0xString, trim0x, hexDecode_hexEncode], h⟩
  · rw [address_parse_iff]; exact ⟨by simp [addressPlainString, trim0x_hexEncode, hexDecode_hexEncode], h⟩

/-- **The checksum form is EIP-55**: for every 20-byte address, `AddressWithChecksum.String()` — the lower-case hex zipped
    with the hex of its Keccak-256 hash, as the code computes it — is the EIP-55 spelling of the specification
    (`Spec.Numeric.eip55`: a letter is upper-cased exactly when the hash nibble at its index is ≥ 8). -/
theorem checksum_is_eip55 (a : Bytes) (h : a.length = 20) : addressChecksumString a = Spec.Numeric.eip55 a :=
  FFS.Lemmas.Eip55.checksum_eq_eip55 a h

/-- **The checksum form parses back to the address**: the third printed form round-trips too (the parser ignores letter
    case: `Lemmas/Eip55.hexDecode_congr`). -/
theorem checksum_roundtrip (a : Bytes) (h : a.length = 20) : addressSetString (addressChecksumString a) = .ok a := by
  rw [checksum_is_eip55 a h, address_parse_iff]
  obtain ⟨cs, he, hd⟩ := FFS.Lemmas.Eip55.eip55_decodes a
  rw [he]
  exact ⟨by simp only [trim0x]; rw [hd, hexDecode_hexEncode], h⟩

/-! ### integers print as 0x-hex without leading zeros and parse back -/

theorem digitVal_hexChar (n : Nat) (h : n < 16) : digitVal (hexChar n) = some n ∧ hexChar n ≠ '_' := by
  have : ∀ m : Fin 16, digitVal (hexChar m.val) = some m.val ∧ hexChar m.val ≠ '_' := by decide
  exact this ⟨n, h⟩

/-- scanning the hex digits of `n` (followed by `rest`) shifts the accumulator by the digits and adds `n` -/
theorem scanDigits_natToHex (n : Nat) : ∀ (rest : List Char) (st : ScanSt),
    ∃ k, 0 < k ∧ scanDigits 16 (natToHex n ++ rest) st =
      scanDigits 16 rest { st with acc := st.acc * 16 ^ k + n, count := st.count + k, prevDigit := true, prevSep := false } := by
  induction n using Nat.strongRecOn with
  | _ n ih =>
    intro rest st
    rw [natToHex]
    split
    · rename_i hlt
      obtain ⟨hd, hne⟩ := digitVal_hexChar n hlt
      refine ⟨1, by omega, ?_⟩
      simp only [List.singleton_append, scanDigits, hne, if_false, hd, hlt, if_true, Nat.pow_one]
    · rename_i hge
      obtain ⟨k, hk, hq⟩ := ih (n / 16) (by omega) ([hexChar (n % 16)] ++ rest) st
      obtain ⟨hd, hne⟩ := digitVal_hexChar (n % 16) (by omega)
      refine ⟨k + 1, by omega, ?_⟩
      rw [List.append_assoc, hq]
      simp only [List.singleton_append, scanDigits, hne, if_false, hd, show n % 16 < 16 by omega, if_true]
      congr 2
      rw [Nat.pow_succ]
      have : n / 16 * 16 + n % 16 = n := by omega
      calc (st.acc * 16 ^ k + n / 16) * 16 + n % 16
          = st.acc * (16 ^ k * 16) + (n / 16 * 16 + n % 16) := by rw [Nat.add_mul, Nat.mul_assoc, Nat.add_assoc]
        _ = st.acc * (16 ^ k * 16) + n := by rw [this]

/-- **HexUint64 / non-negative HexInteger: print, then parse, is the identity.** -/
theorem hex_print_parse (n : Nat) : setString0 (hexUint64String n) = some (n : Int) := by
  unfold hexUint64String setString0
  cases hh : natToHex n with
  | nil =>
    -- never empty
    rw [natToHex] at hh
    split at hh <;> simp at hh
  | cons c cs =>
    have hscan : scanNat0 ('0' :: 'x' :: c :: cs) = some n := by
      obtain ⟨k, hk, hq⟩ := scanDigits_natToHex n [] ⟨0, 0, true, false, false⟩
      rw [List.append_nil, hh] at hq
      unfold scanNat0
      have hx1 : ¬ (('x' : Char) = 'b' ∨ ('x' : Char) = 'B') := by decide
      have hx2 : ¬ (('x' : Char) = 'o' ∨ ('x' : Char) = 'O') := by decide
      have hx3 : (('x' : Char) = 'x' ∨ ('x' : Char) = 'X') := Or.inl rfl
      simp only [hx1, hx2, hx3, if_false, if_true]
      rw [hq]
      simp [scanDigits]
      omega
    simp [hscan]

/-- the hex digits carry no leading zero (except for zero itself, printed "0") -/
theorem natToHex_no_leading_zero (n : Nat) (hn : 0 < n) : (natToHex n).head? ≠ some '0' := by
  induction n using Nat.strongRecOn with
  | _ n ih =>
    rw [natToHex]
    split
    · rename_i hlt
      have : ∀ m : Fin 16, 0 < m.val → ([hexChar m.val] : List Char).head? ≠ some '0' := by decide
      exact this ⟨n, hlt⟩ hn
    · rename_i hge
      have h16 : 0 < n / 16 := by omega
      have := ih (n / 16) (by omega) h16
      cases hq : natToHex (n / 16) with
      | nil =>
        rw [natToHex] at hq
        split at hq <;> simp at hq
      | cons c cs =>
        rw [hq] at this
        simpa using this

/-! ### decimal: print, then parse, is the identity -/

theorem digitVal_digitChar (d : Nat) (h : d < 10) : digitVal (Nat.digitChar d) = some d ∧ Nat.digitChar d ≠ '_' ∧
    Nat.digitChar d ≠ '+' ∧ Nat.digitChar d ≠ '-' ∧ (Nat.digitChar d).toNat < 256 := by
  have : ∀ m : Fin 10, digitVal (Nat.digitChar m.val) = some m.val ∧ Nat.digitChar m.val ≠ '_' ∧
      Nat.digitChar m.val ≠ '+' ∧ Nat.digitChar m.val ≠ '-' ∧ (Nat.digitChar m.val).toNat < 256 := by decide
  exact this ⟨d, h⟩

/-- scanning the decimal digits of `n` (followed by `rest`) shifts the accumulator by the digits and adds `n` -/
theorem scanDigits_toDigits (n : Nat) : ∀ (rest : List Char) (st : ScanSt),
    ∃ k, 0 < k ∧ scanDigits 10 (Nat.toDigits 10 n ++ rest) st =
      scanDigits 10 rest { st with acc := st.acc * 10 ^ k + n, count := st.count + k, prevDigit := true, prevSep := false } := by
  induction n using Nat.strongRecOn with
  | _ n ih =>
    intro rest st
    rw [Nat.toDigits_eq_if (by decide)]
    split
    · rename_i hlt
      obtain ⟨hd, hne, _⟩ := digitVal_digitChar n hlt
      refine ⟨1, by omega, ?_⟩
      simp only [List.singleton_append, scanDigits, hne, if_false, hd, hlt, if_true, Nat.pow_one]
    · rename_i hge
      obtain ⟨k, hk, hq⟩ := ih (n / 10) (by omega) ([Nat.digitChar (n % 10)] ++ rest) st
      obtain ⟨hd, hne, _⟩ := digitVal_digitChar (n % 10) (by omega)
      refine ⟨k + 1, by omega, ?_⟩
      rw [List.append_assoc, hq]
      simp only [List.singleton_append, scanDigits, hne, if_false, hd, show n % 10 < 10 by omega, if_true]
      congr 2
      rw [Nat.pow_succ]
      have : n / 10 * 10 + n % 10 = n := by omega
      calc (st.acc * 10 ^ k + n / 10) * 10 + n % 10
          = st.acc * (10 ^ k * 10) + (n / 10 * 10 + n % 10) := by rw [Nat.add_mul, Nat.mul_assoc, Nat.add_assoc]
        _ = st.acc * (10 ^ k * 10) + n := by rw [this]

/-- the decimal digits of a positive number do not start with 0 (nor with a sign) -/
theorem toDigits_head (n : Nat) (hn : 0 < n) : ∃ c cs, Nat.toDigits 10 n = c :: cs ∧ c ≠ '0' ∧ c ≠ '+' ∧ c ≠ '-' := by
  induction n using Nat.strongRecOn with
  | _ n ih =>
    rw [Nat.toDigits_eq_if (by decide)]
    split
    · rename_i hlt
      refine ⟨Nat.digitChar n, [], rfl, ?_, (digitVal_digitChar n hlt).2.2.1, (digitVal_digitChar n hlt).2.2.2.1⟩
      have : ∀ m : Fin 10, 0 < m.val → Nat.digitChar m.val ≠ '0' := by decide
      exact this ⟨n, hlt⟩ hn
    · rename_i hge
      obtain ⟨c, cs, h1, h2⟩ := ih (n / 10) (by omega) (by omega)
      exact ⟨c, cs ++ [Nat.digitChar (n % 10)], by rw [h1]; rfl, h2⟩

theorem scanNat0_dec (n : Nat) : scanNat0 (Nat.toDigits 10 n) = some n := by
  by_cases hn : n = 0
  · subst hn; rfl
  · obtain ⟨c, cs, hd, hc0, _, _⟩ := toDigits_head n (by omega)
    obtain ⟨k, hk, hq⟩ := scanDigits_toDigits n [] ⟨0, 0, false, false, false⟩
    rw [List.append_nil] at hq
    unfold scanNat0
    rw [hd] at hq ⊢
    split
    · rename_i heq; injection heq with h1 _; exact absurd h1 hc0
    · rename_i heq; injection heq with h1 _; exact absurd h1 hc0
    · rw [hq]
      simp [scanDigits]
      omega

/-- **A non-negative integer printed in decimal parses back to itself.** -/
theorem dec_print_parse (n : Nat) : setString0 (toString n).toList = some (n : Int) := by
  have hl : (toString n).toList = Nat.toDigits 10 n := by
    rw [Nat.toString_eq_repr, Nat.toList_repr]
  rw [hl]
  by_cases hn : n = 0
  · subst hn; rfl
  · obtain ⟨c, cs, hd, hc0, hcp, hcm⟩ := toDigits_head n (by omega)
    have := scanNat0_dec n
    rw [hd] at this ⊢
    unfold setString0
    split
    · rename_i heq; cases heq
    · rename_i heq; injection heq with h1 _; exact absurd h1 hcp
    · rename_i heq; injection heq with h1 _; exact absurd h1 hcm
    · rw [this]; rfl


theorem int_toString_chars (z : Int) :
    (toString z).toList = (if z < 0 then ['-'] else []) ++ Nat.toDigits 10 z.natAbs := by
  cases z with
  | ofNat m =>
    have : ¬ (Int.ofNat m < 0) := by simp
    simp only [this, if_false, List.nil_append]
    show (Int.repr (Int.ofNat m)).toList = _
    simp [Int.repr, Nat.toList_repr]
  | negSucc m =>
    have : Int.negSucc m < 0 := Int.negSucc_lt_zero m
    simp only [this, if_true]
    show (Int.repr (Int.negSucc m)).toList = _
    simp [Int.repr, Nat.toList_repr, Int.natAbs]

/-- **Any integer printed in decimal parses back to itself** (`big.Int.String` / `SetString(s, 0)`). -/
theorem int_dec_print_parse (z : Int) : setString0 (toString z).toList = some z := by
  rw [int_toString_chars]
  by_cases hz : z < 0
  · simp only [hz, if_true, List.singleton_append]
    have hm : ∀ cs, setString0 ('-' :: cs) = (scanNat0 cs).map (fun n => -(n : Int)) := fun cs => rfl
    rw [hm, scanNat0_dec]
    show some (-((z.natAbs : Nat) : Int)) = some z
    congr 1; omega
  · simp only [hz, if_false, List.nil_append]
    have := dec_print_parse z.natAbs
    rw [Nat.toString_eq_repr, Nat.toList_repr] at this
    rw [this]; congr 1; omega

/-- the decimal rendering is ASCII -/
theorem int_toString_small (z : Int) : ∀ c ∈ (toString z).toList, c.toNat < 256 := by
  rw [int_toString_chars]
  intro c hc
  rw [List.mem_append] at hc
  rcases hc with hc | hc
  · split at hc
    · simp only [List.mem_singleton] at hc; rw [hc]; decide
    · simp at hc
  · have hdig : c.isDigit = true := Nat.isDigit_of_mem_toDigits (by decide) (by decide) hc
    simp only [Char.isDigit, Bool.and_eq_true, decide_eq_true_eq] at hdig
    have := hdig.2
    rw [UInt32.le_iff_toNat_le] at this
    have h57 : ('9' : Char).val.toNat = 57 := rfl
    show c.val.toNat < 256
    omega

/-! ### non-vacuity: concrete inputs on which the hypotheses hold (evaluated by the kernel) -/
open FFS.Model.EthTypes
example : (bigIntegerFromString "0x1f".toList .fail .fail == .ok 31) = true := by decide +kernel
example : (bigIntegerFromString "1e3".toList (.int 1000) (.int 1000) == .ok 1000) = true := by decide +kernel
example : (bigIntegerFromString "1.5".toList .notInt .notInt == .err) = true := by decide +kernel

end FFS.Props.C19
