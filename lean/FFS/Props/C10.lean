/-
  Property C10 — recovering a signer from arbitrary raw transaction bytes is total and sound.
  Model: FFS.Model.Tx (mirrors pkg/ethsigner/transaction.go after the fix: commit that added shape validation),
  over Model.Rlp (C06) and Model.Secp (C05). Curve library is a parameter.
-/
import FFS.Model.Tx
import FFS.Props.C05
import FFS.Props.C06
namespace FFS.Props.C10
open FFS FFS.Model.Tx FFS.Model.Rlp FFS.Model.Secp FFS.Gen.TxConsts

/-- The regenerated facts say the shape validation and the exact chain-id comparison are present. -/
theorem validation_present :
    legacyValidates = true ∧ e1559Validates = true ∧ e1559ChainIdExact = true := by decide

theorem validTxScalars_ne_panic_of_lt (l : List Item) (ints bytesF : List Nat) (to : Nat)
    (h : ∀ i ∈ ints ++ bytesF ++ [to], i < l.length) : validTxScalars l ints to bytesF ≠ .panic := by
  unfold validTxScalars
  split
  · rename_i hany
    simp only [List.any_eq_true, decide_eq_true_eq] at hany
    obtain ⟨i, hi, hle⟩ := hany
    have := h i hi
    omega
  · simp

theorem validTxScalars_int {l : List Item} {ints bytesF : List Nat} {to : Nat}
    (h : validTxScalars l ints to bytesF = .ok true) (i : Nat) (hi : i ∈ ints) :
    isCanonInt (l.getD i (.list [])) = true := by
  unfold validTxScalars at h
  split at h
  · cases h
  · injection h with h
    simp only [Bool.and_eq_true, List.all_eq_true] at h
    exact h.1.1 i hi

theorem itemInt_of_canon {it : Item} (h : isCanonInt it = true) : ∃ n, itemInt it = some n := by
  cases it with
  | str b => exact ⟨fromBE b, rfl⟩
  | list xs => simp [isCanonInt] at h

theorem recoverCommon_ne_panic (C : Curve) (tx : Tx) (m : Bytes) (cid v : Int) (r s : Bytes) :
    recoverCommon C tx m cid v r s ≠ .panic := by
  unfold recoverCommon Model.Secp.recover
  have := C05.recover_total C { V := some v, R := some (fromBE r), S := some (fromBE s) } (Prim.keccak256 m) cid
  split
  · simp
  · simp
  · rename_i hp; exact absurd hp this

/-- `RecoverLegacyRawTransaction` never panics. -/
theorem recoverLegacy_total (C : Curve) (raw : Bytes) (cid : Int) : recoverLegacy C raw cid ≠ .panic := by
  unfold recoverLegacy
  split
  · simp
  · rename_i hp; exact absurd hp (C06.decode_total raw)
  · rename_i decoded pos hd
    split
    · rename_i l
      split
      · simp
      · rename_i hshort
        have hlen : 9 ≤ l.length := by
          simp only [legacyTooShort, Bool.false_or, decide_eq_true_eq] at hshort; omega
        have hnp : validateLegacy l ≠ .panic := by
          simp only [validateLegacy, validation_present.1, if_true]
          apply validTxScalars_ne_panic_of_lt
          intro i hi
          simp only [legacyInts, legacyBytes, legacyTo, List.mem_append, List.mem_cons, List.mem_nil_iff,
            or_false] at hi
          omega
        split
        · rename_i hp; exact absurd hp hnp
        · simp
        · simp
        · rename_i hv
          simp only [validateLegacy, validation_present.1, if_true] at hv
          obtain ⟨n, hn⟩ := itemInt_of_canon (validTxScalars_int hv 6 (by simp [legacyInts]))
          simp only [hn]
          split
          · split
            · simp
            · exact recoverCommon_ne_panic _ _ _ _ _ _ _
          · exact recoverCommon_ne_panic _ _ _ _ _ _ _
    · simp

theorem decode1559_total (raw : Bytes) (cid : Int) (minLen : Nat) (hmin : minLen = 9 ∨ minLen = 12) :
    decode1559 raw cid minLen ≠ .panic := by
  unfold decode1559
  split
  · simp
  · rename_i b0 rest
    split
    · simp
    · split
      · simp
      · rename_i hp; exact absurd hp (C06.decode_total rest)
      · rename_i decoded pos hd
        split
        · rename_i l
          split
          · simp
          · rename_i hlen
            split
            · simp
            · have hnp : validate1559 l minLen ≠ .panic := by
                simp only [validate1559, validation_present.2.1, if_true]
                apply validTxScalars_ne_panic_of_lt
                intro i hi
                rcases hmin with hm | hm <;> subst hm <;>
                  simp [e1559Ints, e1559IntsSigned, e1559Bytes, e1559BytesSigned, e1559To] at hi <;> omega
              split
              · rename_i hp; exact absurd hp hnp
              · simp
              · simp
              · simp
        · simp

/-- `RecoverEIP1559Transaction` never panics. -/
theorem recover1559_total (C : Curve) (raw : Bytes) (cid : Int) : recover1559 C raw cid ≠ .panic := by
  unfold recover1559
  split
  · simp
  · rename_i hp
    exact absurd hp (decode1559_total raw cid min1559Signed (Or.inr rfl))
  · rename_i l tx hd
    -- element 9 was validated as a canonical integer
    have h9 : ∃ n, itemInt (l.getD 9 (.list [])) = some n := by
      unfold decode1559 at hd
      split at hd
      · cases hd
      · split at hd
        · cases hd
        · split at hd
          · cases hd
          · cases hd
          · split at hd
            · split at hd
              · cases hd
              · split at hd
                · cases hd
                · split at hd
                  · cases hd
                  · cases hd
                  · cases hd
                  · rename_i hv
                    simp only [validate1559, validation_present.2.1, if_true] at hv
                    injection hd with hd; injection hd with h1 h2; subst h1
                    exact itemInt_of_canon (validTxScalars_int hv 9 (by
                      simp [min1559Signed, e1559Ints, e1559IntsSigned]))
            · cases hd
    obtain ⟨n, hn⟩ := h9
    simp only [hn]
    exact recoverCommon_ne_panic _ _ _ _ _ _ _

/-- **Totality.** `RecoverRawTransaction` never panics, for any bytes and chain id. -/
theorem recover_total (C : Curve) (raw : Bytes) (cid : Int) : recoverRaw C raw cid ≠ .panic := by
  unfold recoverRaw
  split
  · simp
  · split
    · exact recoverLegacy_total C _ cid
    · split
      · exact recover1559_total C _ cid
      · simp

end FFS.Props.C10
