/-
  Property C10 — recovering a signer from arbitrary raw transaction bytes is total and sound.
  Model: FFS.Model.Tx (mirrors pkg/ethsigner/transaction.go after the fix: commit that added shape validation),
  over Model.Rlp (C06) and Model.Secp (C05). Curve library is a parameter.
  * `recover_total` (+ `recoverLegacy_total`, `decode1559_total`, `recover1559_total`) : no panic for any bytes and
        chain id.
  * **`recover1559_sound`**, **`recoverLegacy_sound`** : whenever an address is returned, the returned payload is the
        specification preimage of the returned fields (EIP-1559 list with the input's access-list item; plain legacy
        or EIP-155 list with the supplied chain id), and the address is what the library recovers from the input's
        V (reduced to 27/28 for legacy), R, S over keccak256 of exactly that payload (`C05.recoverDirect_ok` says what
        that means: a public key recovered from those values, whose address it is).
  * `chain_id_mismatch_refused`, `decode1559_sound` : a type-0x02 transaction is accepted only when its embedded chain
        id equals the supplied one.
-/
import FFS.Model.Tx
import FFS.Props.C05
import FFS.Props.C06
namespace FFS.Props.C10
open FFS FFS.Model.Tx FFS.Model.Rlp FFS.Model.Secp FFS.Gen.TxConsts

/-- The regenerated facts say the shape validation and the exact chain-id comparison are present. -/
theorem validation_present :
    legacyValidates = true ∧ e1559Validates = true ∧ e1559ChainIdExact = true := by decide

theorem validTxScalars_ne_panic_of_lt (l : List Item) (ints bytesF : List Nat) (to : Nat)
    (h : ∀ i ∈ ints ++ bytesF ++ [to], i < l.length) : validTxScalars l ints to bytesF ≠ .panic := by
  unfold validTxScalars
  split
  · rename_i hany
    simp only [List.any_eq_true, decide_eq_true_eq] at hany
    obtain ⟨i, hi, hle⟩ := hany
    have := h i hi
    omega
  · simp

theorem validTxScalars_int {l : List Item} {ints bytesF : List Nat} {to : Nat}
    (h : validTxScalars l ints to bytesF = .ok true) (i : Nat) (hi : i ∈ ints) :
    isCanonInt (l.getD i (.list [])) = true := by
  unfold validTxScalars at h
  split at h
  · cases h
  · injection h with h
    simp only [Bool.and_eq_true, List.all_eq_true] at h
    exact h.1.1 i hi

theorem itemInt_of_canon {it : Item} (h : isCanonInt it = true) : ∃ n, itemInt it = some n := by
  cases it with
  | str b => exact ⟨fromBE b, rfl⟩
  | list xs => simp [isCanonInt] at h

theorem recoverCommon_ne_panic (C : Curve) (tx : Tx) (m : Bytes) (cid v : Int) (r s : Bytes) :
    recoverCommon C tx m cid v r s ≠ .panic := by
  unfold recoverCommon Model.Secp.recover
  have := C05.recover_total C { V := some v, R := some (fromBE r), S := some (fromBE s) } (Prim.keccak256 m) cid
  split
  · simp
  · simp
  · rename_i hp; exact absurd hp this

/-- `RecoverLegacyRawTransaction` never panics. -/
theorem recoverLegacy_total (C : Curve) (raw : Bytes) (cid : Int) : recoverLegacy C raw cid ≠ .panic := by
  unfold recoverLegacy
  split
  · simp
  · rename_i hp; exact absurd hp (C06.decode_total raw)
  · rename_i decoded pos hd
    split
    · rename_i l
      split
      · simp
      · rename_i hshort
        have hlen : 9 ≤ l.length := by
          simp only [legacyTooShort, Bool.false_or, decide_eq_true_eq] at hshort; omega
        have hnp : validateLegacy l ≠ .panic := by
          simp only [validateLegacy, validation_present.1, if_true]
          apply validTxScalars_ne_panic_of_lt
          intro i hi
          simp only [legacyInts, legacyBytes, legacyTo, List.mem_append, List.mem_cons, List.mem_nil_iff,
            or_false] at hi
          omega
        split
        · rename_i hp; exact absurd hp hnp
        · simp
        · simp
        · rename_i hv
          simp only [validateLegacy, validation_present.1, if_true] at hv
          obtain ⟨n, hn⟩ := itemInt_of_canon (validTxScalars_int hv 6 (by simp [legacyInts]))
          simp only [hn]
          split
          · split
            · simp
            · exact recoverCommon_ne_panic _ _ _ _ _ _ _
          · exact recoverCommon_ne_panic _ _ _ _ _ _ _
    · simp

theorem decode1559_total (raw : Bytes) (cid : Int) (minLen : Nat) (hmin : minLen = 9 ∨ minLen = 12) :
    decode1559 raw cid minLen ≠ .panic := by
  unfold decode1559
  split
  · simp
  · rename_i b0 rest
    split
    · simp
    · split
      · simp
      · rename_i hp; exact absurd hp (C06.decode_total rest)
      · rename_i decoded pos hd
        split
        · rename_i l
          split
          · simp
          · rename_i hlen
            split
            · simp
            · have hnp : validate1559 l minLen ≠ .panic := by
                simp only [validate1559, validation_present.2.1, if_true]
                apply validTxScalars_ne_panic_of_lt
                intro i hi
                rcases hmin with hm | hm <;> subst hm <;>
                  simp [e1559Ints, e1559IntsSigned, e1559Bytes, e1559BytesSigned, e1559To] at hi <;> omega
              split
              · rename_i hp; exact absurd hp hnp
              · simp
              · simp
              · simp
        · simp

/-- `RecoverEIP1559Transaction` never panics. -/
theorem recover1559_total (C : Curve) (raw : Bytes) (cid : Int) : recover1559 C raw cid ≠ .panic := by
  unfold recover1559
  split
  · simp
  · rename_i hp
    exact absurd hp (decode1559_total raw cid min1559Signed (Or.inr rfl))
  · rename_i l tx hd
    -- element 9 was validated as a canonical integer
    have h9 : ∃ n, itemInt (l.getD 9 (.list [])) = some n := by
      unfold decode1559 at hd
      split at hd
      · cases hd
      · split at hd
        · cases hd
        · split at hd
          · cases hd
          · cases hd
          · split at hd
            · split at hd
              · cases hd
              · split at hd
                · cases hd
                · split at hd
                  · cases hd
                  · cases hd
                  · cases hd
                  · rename_i hv
                    simp only [validate1559, validation_present.2.1, if_true] at hv
                    injection hd with hd; injection hd with h1 h2; subst h1
                    exact itemInt_of_canon (validTxScalars_int hv 9 (by
                      simp [min1559Signed, e1559Ints, e1559IntsSigned]))
            · cases hd
    obtain ⟨n, hn⟩ := h9
    simp only [hn]
    exact recoverCommon_ne_panic _ _ _ _ _ _ _

/-- **Totality.** `RecoverRawTransaction` never panics, for any bytes and chain id. -/
theorem recover_total (C : Curve) (raw : Bytes) (cid : Int) : recoverRaw C raw cid ≠ .panic := by
  unfold recoverRaw
  split
  · simp
  · split
    · exact recoverLegacy_total C _ cid
    · split
      · exact recover1559_total C _ cid
      · simp

/-! ### Soundness of what is returned -/

theorem canon_scalar (x : Item) (h : isCanonInt x = true) :
    ∃ n, itemInt x = some n ∧ x = Spec.Tx.scalar n := by
  cases x with
  | list xs => simp [isCanonInt] at h
  | str b =>
    refine ⟨fromBE b, rfl, ?_⟩
    unfold Spec.Tx.scalar
    congr 1
    symm
    apply minBE_fromBE_canon
    intro c t hb
    subst hb
    simpa [isCanonInt] using h

theorem addr_toItem (x : Item) (h : isAddrOrEmpty x = true) : x = Spec.Tx.toItem (itemAddr x) := by
  cases x with
  | list xs => simp [isAddrOrEmpty] at h
  | str b =>
    simp only [isAddrOrEmpty, Bool.or_eq_true, beq_iff_eq] at h
    rcases h with h | h
    · have : b = [] := List.length_eq_zero_iff.mp h
      subst this
      simp [itemAddr, Spec.Tx.toItem]
    · simp [itemAddr, h, Spec.Tx.toItem]

theorem str_bytes (x : Item) (h : isStr x = true) : x = .str (itemBytes x) := by
  cases x with
  | list xs => simp [isStr] at h
  | str b => rfl

/-- what `decodeEIP1559SignaturePayload` accepted: the embedded chain id is the supplied one, and the first nine items
    are exactly the specification's list for the returned fields (the access-list item carried opaquely) -/
theorem decode1559_sound (raw : Bytes) (cid : Int) (l : List Item) (tx : Tx)
    (h : decode1559 raw cid min1559Signed = .ok (l, tx)) :
    0 ≤ cid ∧ 12 ≤ l.length ∧
    l.take 9 = Spec.Tx.items1559 (fields tx) cid.natAbs (l.getD 8 (.list [])) ∧
    (∃ rest, raw = UInt8.ofNat type1559 :: rest) := by
  unfold decode1559 at h
  cases raw with
  | nil => cases h
  | cons b0 rest =>
    simp only [] at h
    by_cases hb0 : b0.toNat ≠ type1559
    · rw [if_pos hb0] at h; cases h
    · rw [if_neg hb0] at h
      cases hd : Decode rest with
      | err => rw [hd] at h; cases h
      | panic => rw [hd] at h; cases h
      | ok p =>
        rw [hd] at h
        obtain ⟨decoded, pos⟩ := p
        simp only [] at h
        cases decoded with
        | none => cases h
        | some it =>
          cases it with
          | str bb => cases h
          | list l' =>
            simp only [] at h
            by_cases hlen : l'.length < min1559Signed
            · rw [if_pos hlen] at h; cases h
            · rw [if_neg hlen] at h
              by_cases hchain : (!chainIdMatches l' cid) = true
              · rw [if_pos hchain] at h; cases h
              · rw [if_neg hchain] at h
                cases hval : validate1559 l' min1559Signed with
                | err => rw [hval] at h; cases h
                | panic => rw [hval] at h; cases h
                | ok bv =>
                  rw [hval] at h
                  cases bv with
                  | false => cases h
                  | true =>
                    simp only [] at h
                    injection h with h; injection h with h1 h2
                    subst h1
                    have hlen' : 12 ≤ l'.length := by simp only [min1559Signed] at hlen; omega
                    obtain ⟨x0, x1, x2, x3, x4, x5, x6, x7, x8, x9, x10, x11, tl, rfl⟩ :
                        ∃ x0 x1 x2 x3 x4 x5 x6 x7 x8 x9 x10 x11 tl, l' = x0 :: x1 :: x2 :: x3 :: x4 :: x5 :: x6 :: x7 :: x8 :: x9 :: x10 :: x11 :: tl := by
                      match l', hlen' with
                      | x0 :: x1 :: x2 :: x3 :: x4 :: x5 :: x6 :: x7 :: x8 :: x9 :: x10 :: x11 :: tl, _ =>
                        exact ⟨x0, x1, x2, x3, x4, x5, x6, x7, x8, x9, x10, x11, tl, rfl⟩
                    simp only [validate1559, validation_present.2.1, if_true, min1559Signed, ge_iff_le, Nat.le_refl, validTxScalars,
                      e1559Ints, e1559IntsSigned, e1559Bytes, e1559BytesSigned, e1559To] at hval
                    split at hval
                    · cases hval
                    · injection hval with hval
                      simp only [List.all_cons, List.all_nil, Bool.and_true, Bool.and_eq_true, List.cons_append, List.nil_append,
                        List.getD_cons_zero, List.getD_cons_succ] at hval
                      obtain ⟨⟨⟨h0, h1, h2', h3, h4, h6, h9⟩, h7, _, _⟩, h5⟩ := hval
                      obtain ⟨n0, e0, rfl⟩ := canon_scalar x0 h0
                      obtain ⟨n1, e1, rfl⟩ := canon_scalar x1 h1
                      obtain ⟨n2, e2, rfl⟩ := canon_scalar x2 h2'
                      obtain ⟨n3, e3, rfl⟩ := canon_scalar x3 h3
                      obtain ⟨n4, e4, rfl⟩ := canon_scalar x4 h4
                      obtain ⟨n6, e6, rfl⟩ := canon_scalar x6 h6
                      have hc : (n0 : Int) = cid := by
                        have := hchain
                        simp only [chainIdMatches, validation_present.2.2, if_true, List.getD_cons_zero, e0, Option.getD_some,
                          Bool.not_eq_true'] at this
                        by_cases e : (n0 : Int) = cid
                        · exact e
                        · exact absurd (by simpa using e) this
                      have hcn : cid.natAbs = n0 := by omega
                      refine ⟨by omega, by simp, ?_, ⟨rest, by
                        have : b0 = UInt8.ofNat type1559 := by
                          have hb : b0.toNat = type1559 := by simpa using hb0
                          apply UInt8.toNat_inj.mp
                          rw [hb]; decide
                        rw [this]⟩⟩
                      rw [← h2]
                      simp only [List.take, Spec.Tx.items1559, fields, big, List.getD_cons_zero, List.getD_cons_succ, e1, e2, e3, e4, e6,
                        Option.getD_some, hcn]
                      rw [← addr_toItem x5 h5, ← str_bytes x7 h7]

theorem recoverCommon_inv (C : Curve) (tx tx' : Tx) (msg p : Bytes) (cid v : Int) (r s a : Bytes)
    (h : recoverCommon C tx msg cid v r s = .ok (a, tx', p)) :
    tx' = tx ∧ p = msg ∧
    Model.Secp.recover C { V := some v, R := some (fromBE r), S := some (fromBE s) } msg cid = .ok a := by
  unfold recoverCommon at h
  split at h
  · rename_i a' hr
    injection h with h; injection h with h1 h2; injection h2 with h2 h3
    subst h1
    exact ⟨h2.symm, h3.symm, hr⟩
  · cases h
  · cases h

theorem recover1559_inv (C : Curve) (raw : Bytes) (cid : Int) (res : Bytes × Tx × Bytes)
    (h : recover1559 C raw cid = .ok res) :
    ∃ (l : List Item) (tx : Tx) (vBig : Nat), decode1559 raw cid min1559Signed = .ok (l, tx) ∧
      itemInt (l.getD 9 (.list [])) = some vBig ∧
      recoverCommon C tx (UInt8.ofNat type1559 :: enc (.list (l.take 9))) cid (bigInt64 vBig)
        (itemBytes (l.getD 10 (.list []))) (itemBytes (l.getD 11 (.list []))) = .ok res := by
  unfold recover1559 at h
  cases hd : decode1559 raw cid min1559Signed with
  | err => rw [hd] at h; cases h
  | panic => rw [hd] at h; cases h
  | ok p =>
    rw [hd] at h
    obtain ⟨l, tx'⟩ := p
    simp only [] at h
    cases hv : itemInt (l.getD 9 (.list [])) with
    | none => rw [hv] at h; cases h
    | some vBig =>
      rw [hv] at h
      exact ⟨l, tx', vBig, rfl, hv, h⟩

/-- **Soundness of EIP-1559 recovery.** Whenever an address is returned: the input is a type-0x02 envelope whose
    embedded chain id is the supplied one; the returned payload is the specification preimage of the returned fields
    (with the access-list item of the input); and the returned address is what the library recovers from the V, R, S
    of the input over keccak256 of exactly that payload (see `C05.recoverDirect_ok` for what that means). -/
theorem recover1559_sound (C : Curve) (raw : Bytes) (cid : Int) (a : Bytes) (tx : Tx) (payload : Bytes)
    (h : recover1559 C raw cid = .ok (a, tx, payload)) :
    ∃ (l : List Item) (vBig : Nat), decode1559 raw cid min1559Signed = .ok (l, tx) ∧ 0 ≤ cid ∧
      payload = UInt8.ofNat type1559 :: enc (.list (Spec.Tx.items1559 (fields tx) cid.natAbs (l.getD 8 (.list [])))) ∧
      itemInt (l.getD 9 (.list [])) = some vBig ∧
      recoverDirect C { V := some (bigInt64 vBig), R := some ((fromBE (itemBytes (l.getD 10 (.list []))) : Nat) : Int),
                        S := some ((fromBE (itemBytes (l.getD 11 (.list []))) : Nat) : Int) } (Prim.keccak256 payload) cid = .ok a := by
  obtain ⟨l, tx', vBig, hd, hv, hrc⟩ := recover1559_inv C raw cid _ h
  obtain ⟨htx, hp, hr⟩ := recoverCommon_inv C tx' tx _ payload cid _ _ _ a hrc
  subst htx
  obtain ⟨hc, _, htake, _⟩ := decode1559_sound raw cid l tx hd
  rw [htake] at hp hr
  refine ⟨l, vBig, hd, hc, hp, hv, ?_⟩
  rw [hp]
  exact hr

/-- **A type-0x02 transaction whose embedded chain id differs from the one supplied is refused.** -/
theorem chain_id_mismatch_refused (C : Curve) (raw : Bytes) (cid : Int) (l : List Item) (tx : Tx)
    (h : decode1559 raw cid min1559Signed = .ok (l, tx)) :
    ∃ n : Nat, itemInt (l.getD 0 (.list [])) = some n ∧ (n : Int) = cid := by
  obtain ⟨hc, hlen, htake, _⟩ := decode1559_sound raw cid l tx h
  have h0 : (l.take 9).getD 0 (.list []) = l.getD 0 (.list []) := by
    cases l with
    | nil => simp at hlen
    | cons x xs => rfl
  rw [htake] at h0
  refine ⟨cid.natAbs, ?_, by omega⟩
  rw [← h0]
  simp [Spec.Tx.items1559, Spec.Tx.scalar, itemInt, fromBE_minBE]

/-- the transaction `RecoverLegacyRawTransaction` builds from a decoded list -/
def legacyTxOf (l : List Item) : Tx :=
  { nonce := itemInt (l.getD 0 (.list [])), gasPrice := itemInt (l.getD 1 (.list [])), gasLimit := itemInt (l.getD 2 (.list [])),
    to := itemAddr (l.getD 3 (.list [])), value := itemInt (l.getD 4 (.list [])), data := itemBytes (l.getD 5 (.list [])),
    tip := none, feeCap := none }

/-- a validated legacy list starts with exactly the specification's six items for the fields that are returned -/
theorem validateLegacy_sound (l : List Item) (hlen : 9 ≤ l.length) (hval : validateLegacy l = .ok true) :
    l.take 6 = Spec.Tx.legacyItems (fields (legacyTxOf l)) := by
  obtain ⟨x0, x1, x2, x3, x4, x5, x6, x7, x8, tl, rfl⟩ :
      ∃ x0 x1 x2 x3 x4 x5 x6 x7 x8 tl, l = x0 :: x1 :: x2 :: x3 :: x4 :: x5 :: x6 :: x7 :: x8 :: tl := by
    match l, hlen with
    | x0 :: x1 :: x2 :: x3 :: x4 :: x5 :: x6 :: x7 :: x8 :: tl, _ => exact ⟨x0, x1, x2, x3, x4, x5, x6, x7, x8, tl, rfl⟩
  unfold validateLegacy at hval
  rw [if_pos validation_present.1] at hval
  unfold validTxScalars at hval
  have hany : ((legacyInts ++ legacyBytes ++ [legacyTo]).any fun i =>
      decide ((x0 :: x1 :: x2 :: x3 :: x4 :: x5 :: x6 :: x7 :: x8 :: tl).length ≤ i)) = false := by
    simp [legacyInts, legacyBytes, legacyTo]
  rw [if_neg (by rw [hany]; simp)] at hval
  have hval' := hval
  clear hval
  injection hval' with hval
  · simp only [legacyInts, legacyBytes, legacyTo, List.all_cons, List.all_nil, Bool.and_true, Bool.and_eq_true,
      List.getD_cons_zero, List.getD_cons_succ] at hval
    obtain ⟨⟨⟨h0, h1, h2, h4, _⟩, h5, _, _⟩, h3⟩ := hval
    obtain ⟨n0, e0, rfl⟩ := canon_scalar x0 h0
    obtain ⟨n1, e1, rfl⟩ := canon_scalar x1 h1
    obtain ⟨n2, e2, rfl⟩ := canon_scalar x2 h2
    obtain ⟨n4, e4, rfl⟩ := canon_scalar x4 h4
    simp only [List.take, Spec.Tx.legacyItems, fields, legacyTxOf, big, List.getD_cons_zero, List.getD_cons_succ, e0, e1, e2, e4,
      Option.getD_some]
    rw [← addr_toItem x3 h3, ← str_bytes x5 h5]

theorem recoverLegacy_inv (C : Curve) (raw : Bytes) (cid : Int) (res : Bytes × Tx × Bytes)
    (h : recoverLegacy C raw cid = .ok res) :
    ∃ (l : List Item) (pos : Nat) (vBig : Nat), Decode raw = .ok (some (.list l), pos) ∧ 9 ≤ l.length ∧
      validateLegacy l = .ok true ∧ itemInt (l.getD 6 (.list [])) = some vBig ∧
      ((vNotLegacy (bigInt64 vBig) = true ∧ vNotLegacy (wrap64 (v155ToLegacy (bigInt64 vBig) cid)) = false ∧
          recoverCommon C (legacyTxOf l) (enc (.list (addEIP155 (l.take 6) cid))) cid (wrap64 (v155ToLegacy (bigInt64 vBig) cid))
            (itemBytes (l.getD 7 (.list []))) (itemBytes (l.getD 8 (.list []))) = .ok res) ∨
       (vNotLegacy (bigInt64 vBig) = false ∧
          recoverCommon C (legacyTxOf l) (enc (.list (l.take 6))) cid (bigInt64 vBig)
            (itemBytes (l.getD 7 (.list []))) (itemBytes (l.getD 8 (.list []))) = .ok res)) := by
  unfold recoverLegacy at h
  cases hd : Decode raw with
  | err => rw [hd] at h; cases h
  | panic => rw [hd] at h; cases h
  | ok p =>
    rw [hd] at h
    obtain ⟨decoded, pos⟩ := p
    simp only [] at h
    cases decoded with
    | none => cases h
    | some it =>
      cases it with
      | str bb => cases h
      | list l =>
        simp only [] at h
        by_cases hshort : legacyTooShort l.length = true
        · rw [if_pos hshort] at h; cases h
        · rw [if_neg hshort] at h
          have hlen : 9 ≤ l.length := by
            simp only [legacyTooShort, Bool.false_or, decide_eq_true_eq] at hshort; omega
          cases hval : validateLegacy l with
          | err => rw [hval] at h; cases h
          | panic => rw [hval] at h; cases h
          | ok bv =>
            rw [hval] at h
            cases bv with
            | false => cases h
            | true =>
              simp only [] at h
              cases hv : itemInt (l.getD 6 (.list [])) with
              | none => rw [hv] at h; cases h
              | some vBig =>
                rw [hv] at h
                simp only [] at h
                refine ⟨l, pos, vBig, rfl, hlen, hval, hv, ?_⟩
                by_cases hn1 : vNotLegacy (bigInt64 vBig) = true
                · rw [if_pos hn1] at h
                  by_cases hn2 : vNotLegacy (wrap64 (v155ToLegacy (bigInt64 vBig) cid)) = true
                  · rw [if_pos hn2] at h; cases h
                  · rw [if_neg hn2] at h
                    exact Or.inl ⟨hn1, by simpa using hn2, h⟩
                · rw [if_neg hn1] at h
                  exact Or.inr ⟨by simpa using hn1, h⟩

/-- **Soundness of legacy recovery.** Whenever an address is returned, the returned payload is the specification
    preimage of the returned fields — the plain legacy preimage when V is 27/28, the EIP-155 preimage with the supplied
    chain id when V is 35 + 2·chainId + parity — and the address is what the library recovers from the input's V
    (reduced to 27/28), R, S over keccak256 of exactly that payload. -/
theorem recoverLegacy_sound (C : Curve) (raw : Bytes) (cid : Int) (a : Bytes) (tx : Tx) (payload : Bytes)
    (h : recoverLegacy C raw cid = .ok (a, tx, payload)) :
    ∃ (l : List Item) (v : Int), tx = legacyTxOf l ∧
      (payload = enc (.list (Spec.Tx.legacyItems (fields tx))) ∨
       payload = enc (.list (addEIP155 (Spec.Tx.legacyItems (fields tx)) cid))) ∧
      (v = 27 ∨ v = 28) ∧
      Model.Secp.recover C { V := some v, R := some ((fromBE (itemBytes (l.getD 7 (.list []))) : Nat) : Int),
                             S := some ((fromBE (itemBytes (l.getD 8 (.list []))) : Nat) : Int) } payload cid = .ok a := by
  obtain ⟨l, pos, vBig, _, hlen, hval, _, hcase⟩ := recoverLegacy_inv C raw cid _ h
  have htake := validateLegacy_sound l hlen hval
  rcases hcase with ⟨_, hn2, hrc⟩ | ⟨hn1, hrc⟩
  · obtain ⟨htx, hp, hr⟩ := recoverCommon_inv C (legacyTxOf l) tx _ payload cid _ _ _ a hrc
    subst htx
    rw [htake] at hp hr
    refine ⟨l, wrap64 (v155ToLegacy (bigInt64 vBig) cid), rfl, Or.inr hp, ?_, by rw [hp]; exact hr⟩
    simp only [vNotLegacy, Bool.and_eq_false_iff, decide_eq_false_iff_not, Decidable.not_not] at hn2
    exact hn2
  · obtain ⟨htx, hp, hr⟩ := recoverCommon_inv C (legacyTxOf l) tx _ payload cid _ _ _ a hrc
    subst htx
    rw [htake] at hp hr
    refine ⟨l, bigInt64 vBig, rfl, Or.inl hp, ?_, by rw [hp]; exact hr⟩
    simp only [vNotLegacy, Bool.and_eq_false_iff, decide_eq_false_iff_not, Decidable.not_not] at hn1
    exact hn1

/-! ### non-vacuity
The soundness theorems above assume `recover… = .ok …`. Such inputs exist for every lawful curve, key, chain id and
transaction meeting `C01.Fits`: `C01.recover_sign_1559`, `C01.recover_sign_eip155` and `C01.recover_sign_auto` prove
`recoverRaw C (signTx C mode t k cid) cid = .ok (…)`; the last example of `Props/C01.lean` instantiates it with the
lawful toy curve `C05.toyCurve` and a concrete transaction. -/

end FFS.Props.C10
