/-
  Property C20 — ABI <-> FFI conversion preserves signatures and is total on arbitrary schemas.
  Model: FFS.Model.Ffi (pkg/ffi2abi/ffi.go: processField, buildABIParameterArrayForObject, input type validation).
  Proved, for every schema:
  * `null_property_is_error`, `missing_details_is_error`, `array_without_items_is_error`,
    `missing_index_is_error`, `index_out_of_range_is_error`, `colliding_index_is_error`, `type_mismatch_is_error` :
        each inconsistency the property names is reported as an error (not a panic, not a silently wrong ABI).
  * `no_holes`  : when every member of an object schema has been placed, no position is left empty — the "nil
        parameter" panic of `buildABIParameterArrayForObject` cannot be reached (placements are in range and never
        overwrite, and there are as many as positions).
  * **`abi_ffi_abi`** : the schema generated for a parameter converts back to exactly that parameter — name, type string,
        indexed flag, internal type and, recursively through arrays and tuples, the same components in the same order
        (hence the same signature) — for every type tree whose components fit it (`Shape`: distinct member names),
        arrays nested at most 64 deep, and fuel covering the type (`need`; the conversion runs with 64).
  PARTIAL: totality for schemas nested deeper than the model's fuel, and the stand-alone signature helper agreeing with
  the entry's own signature, are decided by the correspondence run.
-/
import FFS.Model.Ffi
import FFS.Props.C13
namespace FFS.Props.C20
open FFS FFS.Model.Abi FFS.Model.Ffi

theorem facts : Gen.FfiFacts.guards = true ∧ Gen.FfiFacts.innermostItems = true ∧ Gen.FfiFacts.nestedSignature = true := by decide

/-- a JSON null where a property schema is expected -/
theorem null_property_is_error (fuel : Nat) (name : String) : processField (fuel + 1) name none = .err := by
  simp [processField, facts.1]

/-- a schema without the `details` block -/
theorem missing_details_is_error (fuel : Nat) (name : String) (s : Schema) (h : s.details = none) :
    processField (fuel + 1) name (some s) = .err := by
  simp [processField, h]

/-- an array schema with no (innermost) `items` -/
theorem array_without_items_is_error (fuel : Nat) (name : String) (s : Schema) (d : Details)
    (hd : s.details = some d) (ht : s.type = "array") (hi : Model.Ffi.innermostItems (max 64 (optSize s.items)) s.items = none) :
    processField (fuel + 1) name (some s) = .err := by
  have hne : ¬ ("array" = "object") := by decide
  simp [processField, hd, ht, hne, facts.1, facts.2.1, hi]

theorem placeAt_some {α : Type} (slots : List (Option α)) (i : Int) (x : α) (slots' : List (Option α))
    (h : placeAt slots i x = some slots') :
    0 ≤ i ∧ i.toNat < slots.length ∧ slots[i.toNat]? = some none ∧ slots' = slots.set i.toNat (some x) := by
  unfold placeAt at h
  split at h
  · cases h
  · split at h
    · rename_i hs
      injection h with h
      have hlt : i.toNat < slots.length := by
        rcases List.getElem?_eq_some_iff.mp hs with ⟨hl, _⟩; exact hl
      exact ⟨by omega, hlt, hs, h.symm⟩
    · cases h

/-- a member whose `details.index` is missing -/
theorem missing_index_is_error (fuel : Nat) (k : String) (so : Option Schema) (rest : List (String × Option Schema))
    (slots : List (Option Param)) (p : Param) (hp : processField fuel k so = .ok p)
    (hi : (so.bind fun s => s.details.bind (·.index)) = none) :
    placeAll (fuel + 1) ((k, so) :: rest) slots = .err := by
  simp [placeAll, hp, facts.1, hi]

/-- a member position outside [0, number of members) -/
theorem index_out_of_range_is_error (fuel : Nat) (k : String) (so : Option Schema) (rest : List (String × Option Schema))
    (slots : List (Option Param)) (p : Param) (i : Int) (hp : processField fuel k so = .ok p)
    (hi : (so.bind fun s => s.details.bind (·.index)) = some i) (hr : i < 0 ∨ (slots.length : Int) ≤ i) :
    placeAll (fuel + 1) ((k, so) :: rest) slots = .err := by
  have : placeAt slots i p = none := by
    unfold placeAt
    split
    · rfl
    · rename_i hneg
      have hge : slots.length ≤ i.toNat := by omega
      rw [List.getElem?_eq_none_iff.mpr hge]
  simp [placeAll, hp, facts.1, hi, this]

/-- two members claiming the same position -/
theorem colliding_index_is_error (fuel : Nat) (k : String) (so : Option Schema) (rest : List (String × Option Schema))
    (slots : List (Option Param)) (p q : Param) (i : Int) (hp : processField fuel k so = .ok p)
    (hi : (so.bind fun s => s.details.bind (·.index)) = some i) (hocc : slots[i.toNat]? = some (some q)) :
    placeAll (fuel + 1) ((k, so) :: rest) slots = .err := by
  have : placeAt slots i p = none := by
    unfold placeAt
    split
    · rfl
    · rw [hocc]
  simp [placeAll, hp, facts.1, hi, this]

/-- the JSON type of the schema at odds with the Ethereum type -/
theorem type_mismatch_is_error (name : String) (sc : Schema) (p : Param) (t : Ty)
    (hp : processField (fieldFuel (some sc)) name (some sc) = .ok p) (ht : parseParam p = .ok t) (hv : inputTypeValid sc t = false) :
    convertParam true name (some sc) = .err := by
  simp [convertParam, hp, ht, hv]

/-! ### no holes -/

def filled {α : Type} (slots : List (Option α)) : Nat := (slots.filter Option.isSome).length

theorem filled_set {α : Type} : ∀ (slots : List (Option α)) (i : Nat) (x : α), slots[i]? = some none →
    filled (slots.set i (some x)) = filled slots + 1 := by
  intro slots
  induction slots with
  | nil => intro i x h; simp at h
  | cons s r ih =>
    intro i x h
    cases i with
    | zero =>
      simp only [List.getElem?_cons_zero, Option.some.injEq] at h
      subst h
      simp [filled]
    | succ i =>
      simp only [List.getElem?_cons_succ] at h
      have := ih i x h
      simp only [filled, List.set_cons_succ, List.filter_cons] at this ⊢
      split <;> simp_all <;> omega

theorem placeAll_spec : ∀ (fuel : Nat) (ps : List (String × Option Schema)) (slots slots' : List (Option Param)),
    placeAll fuel ps slots = .ok slots' → slots'.length = slots.length ∧ filled slots' = filled slots + ps.length := by
  intro fuel
  induction fuel with
  | zero => intro ps slots slots' h; simp [placeAll] at h
  | succ fuel ih =>
    intro ps slots slots' h
    cases ps with
    | nil => simp [placeAll] at h; subst h; simp
    | cons kv rest =>
      obtain ⟨k, so⟩ := kv
      rw [placeAll] at h
      cases hp : processField fuel k so with
      | ok p =>
        simp only [hp, facts.1, if_true] at h
        cases hi : (so.bind fun s => s.details.bind (·.index)) with
        | none => simp [hi] at h
        | some i =>
          simp only [hi] at h
          cases hpl : placeAt slots i p with
          | none => simp [hpl] at h
          | some slots1 =>
            simp only [hpl] at h
            obtain ⟨_, hlt, hnone, hset⟩ := placeAt_some slots i p slots1 hpl
            obtain ⟨h1, h2⟩ := ih rest slots1 slots' h
            subst hset
            refine ⟨by simpa using h1, ?_⟩
            rw [h2, filled_set slots i.toNat p hnone]
            simp; omega
      | err => simp [hp] at h
      | panic => simp [hp] at h

theorem all_some_of_filled {α : Type} : ∀ (slots : List (Option α)), filled slots = slots.length → slots.all Option.isSome = true := by
  intro slots
  induction slots with
  | nil => intro _; rfl
  | cons s r ih =>
    intro h
    simp only [filled, List.filter_cons] at h
    cases s with
    | none =>
      simp only [Option.isSome_none, Bool.false_eq_true, if_false, List.length_cons] at h
      have := List.length_filter_le Option.isSome r
      omega
    | some x =>
      simp only [Option.isSome_some, if_true, List.length_cons] at h
      simp [ih (by simpa [filled] using h)]

/-- **No holes.** Placing every member of an object into as many empty positions leaves none empty: the nil-parameter
    panic of `buildABIParameterArrayForObject` is unreachable. -/
theorem no_holes (fuel : Nat) (ps : List (String × Option Schema)) (slots' : List (Option Param))
    (h : placeAll fuel ps (List.replicate ps.length none) = .ok slots') : slots'.all Option.isSome = true := by
  obtain ⟨h1, h2⟩ := placeAll_spec fuel ps _ slots' h
  apply all_some_of_filled
  have h0 : filled (List.replicate ps.length (none : Option Param)) = 0 := by
    simp [filled, List.filter_replicate]
  rw [h2, h0, h1]; simp

/-- so `buildParams` panics only by running out of fuel or because a member's own conversion did -/
theorem buildParams_no_hole_panic (fuel : Nat) (props : List (String × Option Schema)) (slots : List (Option Param))
    (h : placeAll fuel (dedupLast props) (List.replicate (dedupLast props).length none) = .ok slots) :
    buildParams (fuel + 1) (some props) = .ok (slots.filterMap id) := by
  rw [buildParams]
  simp only [h, no_holes fuel _ slots h, if_true]

/-! ## totality: no schema makes the conversion panic -/

theorem optSize_pos (so : Option Schema) : 1 ≤ optSize so := by cases so <;> simp [optSize]
theorem listSize_pos (l : List (String × Option Schema)) : 1 ≤ listSize l := by
  cases l with
  | nil => simp [listSize]
  | cons a r => obtain ⟨k, so⟩ := a; simp [listSize]; omega

theorem dedupLast_size : ∀ (l : List (String × Option Schema)), listSize (dedupLast l) ≤ listSize l
  | [] => by simp [dedupLast]
  | (k, so) :: rest => by
    have ih := dedupLast_size rest
    rw [dedupLast]
    split
    · simp only [listSize]; omega
    · simp only [listSize]; omega

theorem size_props (s : Schema) : propsSize s.props < s.size := by
  cases s with | mk t o d p i => simp [Schema.props, Schema.size]; have := optSize_pos i; omega

theorem size_items (s : Schema) : optSize s.items < s.size := by
  cases s with | mk t o d p i =>
    simp [Schema.items, Schema.size]
    have : 1 ≤ propsSize p := by cases p <;> simp [propsSize]
    omega

/-- the schema `innermostItems` stops at is part of the one it started from -/
theorem innermost_size : ∀ (n : Nat) (so : Option Schema) (it : Schema), innermostItems n so = some it →
    1 + it.size ≤ optSize so
  | 0, so, it, h => by simp only [innermostItems] at h; subst h; simp [optSize]
  | n + 1, none, it, h => by simp [innermostItems] at h
  | n + 1, some s, it, h => by
    simp only [innermostItems] at h
    split at h
    · have := innermost_size n s.items it h
      have := size_items s
      simp only [optSize]; omega
    · injection h with h; subst h; simp [optSize]

/-- **The descent to the innermost `items` never stops for lack of fuel**: with at least `optSize` units (and
    `processField` passes `max 64 (optSize items)`), the schema it returns is not an array schema — the Go loop
    `for items.Type == "array" { items = items.Items }` has no bound, and neither has the model. -/
theorem innermost_fuel_sufficient : ∀ (n : Nat) (so : Option Schema) (it : Schema), optSize so ≤ n →
    innermostItems n so = some it → (it.type == "array") = false
  | 0, so, it, hn, _ => by have := optSize_pos so; omega
  | n + 1, none, it, _, h => by simp [innermostItems] at h
  | n + 1, some s, it, hn, h => by
    simp only [innermostItems] at h
    split at h
    · have hi := size_items s
      simp only [optSize] at hn
      exact innermost_fuel_sufficient n s.items it (by omega) h
    · rename_i hna
      injection h with h; subst h
      simpa using hna

/-- … and any two sufficient amounts of fuel find the same schema -/
theorem innermost_fuel_irrelevant : ∀ (n m : Nat) (so : Option Schema), optSize so ≤ n → optSize so ≤ m →
    innermostItems n so = innermostItems m so
  | 0, _, so, hn, _ => by have := optSize_pos so; omega
  | _, 0, so, _, hm => by have := optSize_pos so; omega
  | n + 1, m + 1, none, _, _ => by simp [innermostItems]
  | n + 1, m + 1, some s, hn, hm => by
    simp only [innermostItems]
    split
    · have hi := size_items s
      simp only [optSize] at hn hm
      exact innermost_fuel_irrelevant n m s.items (by omega) (by omega)
    · rfl

/-- **Fuel sufficiency = totality of the schema → ABI conversion.** With more fuel than the size of the schema, none of
    the three mutually recursive functions of the model panics — whatever the schema contains (null properties,
    missing details, missing `items`, missing / negative / out-of-range / colliding positions, any nesting): the
    only panics of the model are running out of fuel (excluded here) and the nil-parameter hole (excluded by
    `no_holes`). By induction on the fuel. -/
theorem conversion_total : ∀ f : Nat,
    (∀ name so, optSize so < f → processField f name so ≠ .panic) ∧
    (∀ props, propsSize props < f → buildParams f props ≠ .panic) ∧
    (∀ ps slots, listSize ps < f → placeAll f ps slots ≠ .panic) := by
  intro f
  induction f with
  | zero =>
    refine ⟨fun _ so h => ?_, fun props h => ?_, fun ps _ h => ?_⟩ <;> omega
  | succ f ih =>
    obtain ⟨iF, iB, iP⟩ := ih
    have hg : Gen.FfiFacts.guards = true := facts.1
    have hi : Gen.FfiFacts.innermostItems = true := facts.2.1
    refine ⟨?_, ?_, ?_⟩
    · intro name so hsz
      cases so with
      | none => simp [processField, hg]
      | some s =>
        rw [processField]
        cases hd : s.details with
        | none => simp
        | some d =>
          simp only []
          simp only [optSize] at hsz
          have hp := size_props s
          have hit := size_items s
          by_cases hobj : (s.type == "object") = true
          · simp only [hobj, if_true]
            have := iB s.props (by omega)
            cases hb : buildParams f s.props with
            | ok cs => simp
            | err => simp
            | panic => exact absurd hb this
          · simp only [hobj, Bool.false_eq_true, if_false]
            by_cases harr : (s.type == "array") = true
            · simp only [harr, if_true, hi]
              cases hin : innermostItems (max 64 (optSize s.items)) s.items with
              | none => simp [hg]
              | some it =>
                simp only []
                have h1 := innermost_size _ s.items it hin
                have h2 := size_props it
                have := iB it.props (by omega)
                cases hb : buildParams f it.props with
                | ok cs => simp
                | err => simp
                | panic => exact absurd hb this
            · simp [harr]
    · intro props hsz
      cases props with
      | none => simp [buildParams]
      | some props =>
        simp only [propsSize] at hsz
        have hds := dedupLast_size props
        have := iP (dedupLast props) (List.replicate (dedupLast props).length none) (by omega)
        cases hpl : placeAll f (dedupLast props) (List.replicate (dedupLast props).length none) with
        | ok slots => rw [buildParams_no_hole_panic f props slots hpl]; simp
        | err => simp [buildParams, hpl]
        | panic => exact absurd hpl this
    · intro ps slots hsz
      cases ps with
      | nil => simp [placeAll]
      | cons e rest =>
        obtain ⟨k, so⟩ := e
        simp only [listSize] at hsz
        have hr := listSize_pos rest
        have hF := iF k so (by omega)
        rw [placeAll]
        cases hpf : processField f k so with
        | panic => exact absurd hpf hF
        | err => simp
        | ok p =>
          simp only [hg, if_true]
          cases (so.bind fun s => s.details.bind (·.index)) with
          | none => simp
          | some i =>
            simp only []
            cases placeAt slots i p with
            | none => simp
            | some slots' => exact iP rest slots' (by omega)

/-- `processField` on any schema, with the fuel `convertParam` gives it -/
theorem processField_total (name : String) (so : Option Schema) : processField (fieldFuel so) name so ≠ .panic :=
  (conversion_total (fieldFuel so)).1 name so (by unfold fieldFuel; omega)

/-- **Converting an arbitrary parameter schema never panics** (`parseParam` does not panic either: C13 `parse_total`) -/
theorem convertParam_total (metaOK : Bool) (name : String) (so : Option Schema)
    (hparse : ∀ p, parseParam p ≠ .panic) : convertParam metaOK name so ≠ .panic := by
  unfold convertParam
  cases metaOK with
  | false => simp
  | true =>
    simp only [Bool.not_true, Bool.false_eq_true, if_false]
    have := processField_total name so
    cases hpf : processField (fieldFuel so) name so with
    | panic => exact absurd hpf this
    | err => simp
    | ok p =>
      simp only []
      have hp := hparse p
      cases hpp : parseParam p with
      | panic => exact absurd hpp hp
      | err => simp
      | ok t =>
        simp only []
        cases so with
        | none => simp
        | some sc => simp only []; split <;> simp

/-- … closed with C13's `parse_total`: **no interface parameter schema whatsoever makes the conversion panic** -/
theorem convertParam_never_panics (metaOK : Bool) (name : String) (so : Option Schema) :
    convertParam metaOK name so ≠ .panic :=
  convertParam_total metaOK name so FFS.Props.C13.parse_total

/-- non-vacuity of `conversion_total`: a schema with a null property, a missing `items` and colliding positions has a
    finite size, so the fuel hypothesis is satisfiable for it -/
example : optSize (some (Schema.mk "object" none (some { type := "tuple", internalType := "", indexed := false, index := none })
    (some [("a", none), ("b", some (Schema.mk "array" none (some { type := "uint256[]", internalType := "", indexed := false, index := some 0 }) none none)),
           ("c", some (Schema.mk "string" none (some { type := "string", internalType := "", indexed := false, index := some 0 }) none none))]) none)) < 64 := by
  decide

/-! ## ABI → FFI → ABI round trip -/

/-- strip the array layers -/
def core : Ty → Ty
  | .farr c _ => core c
  | .darr c => core c
  | t => t

def arrayDepth : Ty → Nat
  | .farr c _ => 1 + arrayDepth c
  | .darr c => 1 + arrayDepth c
  | _ => 0

mutual
  /-- fuel that suffices to convert the schema of a type back -/
  def need : Ty → Nat
    | .elem _ _ _ _ => 2
    | .farr c _ => need c
    | .darr c => need c
    | .tuple _ ts => 3 + ts.length + needMax ts
  def needMax : List Ty → Nat
    | [] => 2
    | t :: ts => max (need t) (needMax ts)
end

mutual
  /-- the parameter's components fit the type: none for an elementary (array of) type, one per member with distinct
      names for a tuple -/
  def Shape : List Param → Ty → Prop
    | comps, .elem _ _ _ _ => comps = []
    | comps, .farr c _ => Shape comps c
    | comps, .darr c => Shape comps c
    | comps, .tuple _ ts => ShapeL comps ts ∧ (comps.map Param.name).Nodup
  def ShapeL : List Param → List Ty → Prop
    | [], [] => True
    | p :: ps, t :: ts => Shape p.components t ∧ ShapeL ps ts
    | _, _ => False
end

theorem schemaOf_details (d : Details) (comps : List Param) : ∀ t, (schemaOf d comps t).details = some d
  | .elem info _ _ _ => by
    rw [schemaOf]; unfold leafSchema
    split <;> (try split) <;> (try split) <;> rfl
  | .farr c k => by
    rw [schemaOf]
    show (schemaOf d comps c).details = some d
    exact schemaOf_details d comps c
  | .darr c => by
    rw [schemaOf]
    show (schemaOf d comps c).details = some d
    exact schemaOf_details d comps c
  | .tuple ns ts => by rw [schemaOf]; rfl

theorem leaf_type (info : ElemInfo) (d : Details) :
    (leafSchema info d).type ≠ "object" ∧ (leafSchema info d).type ≠ "array" ∧ (leafSchema info d).props = none := by
  have e1 : ("" : String) ≠ "object" := by decide
  have e2 : ("" : String) ≠ "array" := by decide
  have e3 : ("string" : String) ≠ "object" := by decide
  have e4 : ("string" : String) ≠ "array" := by decide
  unfold leafSchema
  split
  · exact ⟨e1, e2, rfl⟩
  · split
    · exact ⟨e1, e2, rfl⟩
    · split
      · exact ⟨e1, e2, rfl⟩
      · exact ⟨e3, e4, rfl⟩

theorem withDetails_type (s : Schema) (d : Option Details) : (s.withDetails d).type = s.type := by cases s; rfl
theorem withDetails_items (s : Schema) (d : Option Details) : (s.withDetails d).items = s.items := by cases s; rfl
theorem withDetails_props (s : Schema) (d : Option Details) : (s.withDetails d).props = s.props := by cases s; rfl
theorem withDetails_details (s : Schema) (d : Option Details) : (s.withDetails d).details = d := by cases s; rfl

/-- the innermost non-array items of the schema of a type are the schema of its core -/
theorem innermost_core (d : Details) (comps : List Param) : ∀ (t : Ty) (n : Nat), arrayDepth t ≤ n →
    Model.Ffi.innermostItems n (some ((schemaOf d comps t).withDetails none)) = some ((schemaOf d comps (core t)).withDetails none)
  | .elem info sfx m k, n, _ => by
    have ht := (leaf_type info d).2.1
    cases n with
    | zero => rfl
    | succ n =>
      rw [Model.Ffi.innermostItems, withDetails_type, schemaOf]
      have : ((leafSchema info d).type == "array") = false := by simpa using ht
      rw [this]; rfl
  | .tuple ns ts, n, _ => by
    cases n with
    | zero => rfl
    | succ n =>
      rw [Model.Ffi.innermostItems, withDetails_type, schemaOf]
      rfl
  | .farr c k, n, h => by
    cases n with
    | zero => simp [arrayDepth] at h
    | succ n =>
      rw [Model.Ffi.innermostItems, withDetails_type, schemaOf]
      simp only [Schema.type, beq_self_eq_true, if_true, withDetails_items, Schema.items, core]
      exact innermost_core d comps c n (by simp [arrayDepth] at h; omega)
  | .darr c, n, h => by
    cases n with
    | zero => simp [arrayDepth] at h
    | succ n =>
      rw [Model.Ffi.innermostItems, withDetails_type, schemaOf]
      simp only [Schema.type, beq_self_eq_true, if_true, withDetails_items, Schema.items, core]
      exact innermost_core d comps c n (by simp [arrayDepth] at h; omega)

theorem dedupLast_nodup {α : Type} : ∀ (l : List (String × α)), (l.map (·.1)).Nodup → dedupLast l = l
  | [], _ => rfl
  | (k, v) :: rest, h => by
    simp only [List.map_cons, List.nodup_cons] at h
    rw [dedupLast]
    have hany : rest.any (·.1 == k) = false := by
      rw [List.any_eq_false]
      intro p hp hpk
      apply h.1
      have : p.1 = k := by simpa using hpk
      rw [← this]
      exact List.mem_map.mpr ⟨p, hp, rfl⟩
    rw [hany]
    simp only [Bool.false_eq_true, if_false]
    rw [dedupLast_nodup rest h.2]

theorem schemaOfMembers_keys : ∀ (ps : List Param) (ts : List Ty) (i : Nat), ShapeL ps ts →
    (schemaOfMembers ps ts i).map (·.1) = ps.map Param.name
  | [], [], _, _ => by simp [schemaOfMembers]
  | p :: ps, t :: ts, i, h => by
    rw [ShapeL] at h
    rw [schemaOfMembers]
    simp only [List.map_cons]
    rw [schemaOfMembers_keys ps ts (i + 1) h.2]
  | [], _ :: _, _, h => by simp [ShapeL] at h
  | _ :: _, [], _, h => by simp [ShapeL] at h

theorem schemaOfMembers_length : ∀ (ps : List Param) (ts : List Ty) (i : Nat), ShapeL ps ts →
    (schemaOfMembers ps ts i).length = ps.length := by
  intro ps ts i h
  have := congrArg List.length (schemaOfMembers_keys ps ts i h)
  simpa using this

theorem param_eta (p : Param) : Param.mk p.name p.type p.indexed p.internalType p.components = p := by
  cases p; rfl

theorem need_ge2 : ∀ t, 2 ≤ need t
  | .elem _ _ _ _ => by simp [need]
  | .farr c _ => by rw [need]; exact need_ge2 c
  | .darr c => by rw [need]; exact need_ge2 c
  | .tuple _ ts => by rw [need]; omega

theorem needMax_ge2 : ∀ ts, 2 ≤ needMax ts
  | [] => by simp [needMax]
  | t :: ts => by rw [needMax]; have := need_ge2 t; omega

theorem size_withDetails (s : Schema) (x : Option Details) : (s.withDetails x).size = s.size := by
  cases s; simp [Schema.withDetails, Schema.size]

/-- the schema generated for a type is larger than the type's array nesting: the descent of `innermostItems`, which
    gets `max 64 (size of items)` units of fuel, always reaches the innermost schema -/
theorem depth_lt_size (d : Details) (comps : List Param) : ∀ t : Ty, arrayDepth t < (schemaOf d comps t).size
  | .elem info _ _ _ => by
    simp only [arrayDepth]
    cases hs : schemaOf d comps (.elem info _ _ _) with
    | mk a b c p i => simp [Schema.size]; omega
  | .tuple ns ts => by
    simp only [arrayDepth]
    cases hs : schemaOf d comps (.tuple ns ts) with
    | mk a b c p i => simp [Schema.size]; omega
  | .farr c k => by
    have ih := depth_lt_size d comps c
    rw [schemaOf]
    simp only [arrayDepth, Schema.size, propsSize, optSize, size_withDetails]
    omega
  | .darr c => by
    have ih := depth_lt_size d comps c
    rw [schemaOf]
    simp only [arrayDepth, Schema.size, propsSize, optSize, size_withDetails]
    omega

/-- converting one member's schema back, given that its components convert back -/
theorem field_of_comps (t : Ty) (name : String) (d d' : Details) (comps : List Param) (f : Nat)
    (hsh : Shape comps t)
    (hcomps : buildParams f ((schemaOf d comps (core t)).props) = .ok comps)
    (h1 : d'.type = d.type) (h2 : d'.indexed = d.indexed) (h3 : d'.internalType = d.internalType) :
    processField (f + 1) name (some ((schemaOf d comps t).withDetails (some d'))) =
      .ok (.mk name d.type d.indexed d.internalType comps) := by
  rw [processField]
  simp only [withDetails_details, withDetails_type, withDetails_props, withDetails_items]
  cases t with
  | elem info sfx m k =>
    obtain ⟨e1, e2, _⟩ := leaf_type info d
    rw [schemaOf]
    have b1 : ((leafSchema info d).type == "object") = false := by simpa using e1
    have b2 : ((leafSchema info d).type == "array") = false := by simpa using e2
    rw [b1, b2]
    rw [Shape] at hsh
    simp [h1, h2, h3, hsh]
  | tuple ns ts =>
    have ht : (schemaOf d comps (.tuple ns ts)).type = "object" := by rw [schemaOf]; rfl
    rw [ht]
    simp only [beq_self_eq_true, if_true]
    have : core (.tuple ns ts) = .tuple ns ts := rfl
    rw [this] at hcomps
    rw [hcomps]
    simp [h1, h2, h3]
  | farr c k =>
    have ht : (schemaOf d comps (.farr c k)).type = "array" := by rw [schemaOf]; rfl
    have hi : (schemaOf d comps (.farr c k)).items = some ((schemaOf d comps c).withDetails none) := by rw [schemaOf]; rfl
    rw [ht, hi]
    have hne : (("array" : String) == "object") = false := by decide
    simp only [hne, Bool.false_eq_true, if_false, beq_self_eq_true, if_true, facts.2.1]
    rw [innermost_core d comps c _ (by have := depth_lt_size d comps c; simp only [optSize, size_withDetails]; omega)]
    simp only [withDetails_props]
    have : core (.farr c k) = core c := rfl
    rw [this] at hcomps
    rw [hcomps]
    simp [h1, h2, h3]
  | darr c =>
    have ht : (schemaOf d comps (.darr c)).type = "array" := by rw [schemaOf]; rfl
    have hi : (schemaOf d comps (.darr c)).items = some ((schemaOf d comps c).withDetails none) := by rw [schemaOf]; rfl
    rw [ht, hi]
    have hne : (("array" : String) == "object") = false := by decide
    simp only [hne, Bool.false_eq_true, if_false, beq_self_eq_true, if_true, facts.2.1]
    rw [innermost_core d comps c _ (by have := depth_lt_size d comps c; simp only [optSize, size_withDetails]; omega)]
    simp only [withDetails_props]
    have : core (.darr c) = core c := rfl
    rw [this] at hcomps
    rw [hcomps]
    simp [h1, h2, h3]

theorem placeAt_next (pre : List Param) (p : Param) (k : Nat) :
    placeAt (pre.map some ++ List.replicate (k + 1) none) (pre.length : Int) p =
      some ((pre ++ [p]).map some ++ List.replicate k none) := by
  unfold placeAt
  have hneg : ¬ ((pre.length : Int) < 0) := by omega
  rw [if_neg hneg]
  simp only [Int.toNat_natCast]
  have hget : (pre.map some ++ List.replicate (k + 1) (none : Option Param))[pre.length]? = some none := by
    rw [List.getElem?_append_right (by simp)]
    simp [List.replicate_succ]
  rw [hget]
  simp only []
  congr 1
  rw [List.set_append_right _ _ (by simp)]
  simp [List.replicate_succ]

mutual
  /-- the components of a parameter convert back from the schema of the core of its type -/
  theorem comps_back : ∀ (t : Ty) (d : Details) (comps : List Param) (f : Nat), Shape comps t → need t ≤ f + 1 →
      buildParams f ((schemaOf d comps (core t)).props) = .ok comps
    | .elem info sfx m k, d, comps, f, hsh, hf => by
      rw [Shape] at hsh
      subst hsh
      have : core (.elem info sfx m k) = .elem info sfx m k := rfl
      rw [this, schemaOf, (leaf_type info d).2.2]
      rw [need] at hf
      cases f with
      | zero => omega
      | succ f => rfl
    | .farr c k, d, comps, f, hsh, hf => by
      rw [Shape] at hsh
      rw [need] at hf
      exact comps_back c d comps f hsh hf
    | .darr c, d, comps, f, hsh, hf => by
      rw [Shape] at hsh
      rw [need] at hf
      exact comps_back c d comps f hsh hf
    | .tuple ns ts, d, comps, f, hsh, hf => by
      rw [Shape] at hsh
      rw [need] at hf
      have : core (.tuple ns ts) = .tuple ns ts := rfl
      rw [this, schemaOf]
      simp only [Schema.props]
      cases f with
      | zero => omega
      | succ f =>
        rw [buildParams]
        have hkeys := schemaOfMembers_keys comps ts 0 hsh.1
        have hlen := schemaOfMembers_length comps ts 0 hsh.1
        rw [dedupLast_nodup _ (by rw [hkeys]; exact hsh.2), hlen]
        have hlen2 : comps.length = ts.length := by
          clear hkeys hlen hf
          have : ∀ (ps : List Param) (ts : List Ty), ShapeL ps ts → ps.length = ts.length := by
            intro ps
            induction ps with
            | nil => intro ts h; cases ts with
              | nil => rfl
              | cons _ _ => simp [ShapeL] at h
            | cons p ps ih => intro ts h; cases ts with
              | nil => simp [ShapeL] at h
              | cons t ts => rw [ShapeL] at h; simp [ih ts h.2]
          exact this comps ts hsh.1
        have := members_back ts comps [] f hsh.1 (by omega)
        simp only [List.length_nil, List.map_nil, List.nil_append] at this
        rw [this]
        simp
  /-- placing the members: with the first `pre.length` positions filled, the remaining members fill theirs in order -/
  theorem members_back : ∀ (ts : List Ty) (suf pre : List Param) (fuel : Nat), ShapeL suf ts →
      suf.length + needMax ts + 1 ≤ fuel →
      placeAll fuel (schemaOfMembers suf ts pre.length) (pre.map some ++ List.replicate suf.length none) =
        .ok ((pre ++ suf).map some)
    | [], suf, pre, fuel, hsh, hf => by
      cases suf with
      | nil =>
        cases fuel with
        | zero => omega
        | succ fuel => simp [schemaOfMembers, placeAll]
      | cons _ _ => simp [ShapeL] at hsh
    | t :: ts, suf, pre, fuel, hsh, hf => by
      cases suf with
      | nil => simp [ShapeL] at hsh
      | cons p ps =>
        rw [ShapeL] at hsh
        rw [needMax] at hf
        cases fuel with
        | zero => omega
        | succ fuel =>
          rw [schemaOfMembers]
          simp only [schemaOf_details, Option.map_some]
          rw [placeAll]
          cases fuel with
          | zero => have := needMax_ge2 ts; have := need_ge2 t; simp at hf
          | succ g =>
            have hfield := field_of_comps t p.name (detailsOf p) { detailsOf p with index := some (pre.length : Int) } p.components g
              hsh.1 (comps_back t (detailsOf p) p.components g hsh.1 (by simp at hf; omega)) rfl rfl rfl
            rw [hfield]
            simp only [facts.1, if_true, withDetails_details, Option.bind_some]
            have hdet : (detailsOf p).type = p.type ∧ (detailsOf p).indexed = p.indexed ∧ (detailsOf p).internalType = p.internalType :=
              ⟨rfl, rfl, rfl⟩
            rw [hdet.1, hdet.2.1, hdet.2.2, param_eta]
            simp only [List.length_cons]
            rw [placeAt_next pre p ps.length]
            simp only []
            have hrec := members_back ts ps (pre ++ [p]) (g + 1) hsh.2 (by simp at hf; omega)
            simp only [List.length_append, List.length_singleton] at hrec
            rw [hrec]
            simp
end

/-- **ABI → FFI → ABI.** The schema generated for a parameter converts back to exactly that parameter: same name, type
    string, indexed flag, internal type and — recursively, through arrays and tuples — the same components in the same
    order; hence the same signature. Hypotheses: the parameter's components fit its type (`Shape`: none below an
    elementary type, one per tuple member with distinct names) and the fuel covers the type (`need`). Arrays may nest
    to any depth (`depth_lt_size`: the fuel `processField` gives `innermostItems` exceeds the nesting). -/
theorem abi_ffi_abi (p : Param) (t : Ty) (fuel : Nat) (hsh : Shape p.components t)
    (hf : need t ≤ fuel) :
    processField fuel p.name (some (schemaOf (detailsOf p) p.components t)) = .ok p := by
  cases fuel with
  | zero => have := need_ge2 t; omega
  | succ f =>
    have h := field_of_comps t p.name (detailsOf p) (detailsOf p) p.components f hsh
      (comps_back t (detailsOf p) p.components f hsh hf) rfl rfl rfl
    have hw : (schemaOf (detailsOf p) p.components t).withDetails (some (detailsOf p)) = schemaOf (detailsOf p) p.components t := by
      have := schemaOf_details (detailsOf p) p.components t
      cases hs : schemaOf (detailsOf p) p.components t with
      | mk ty oo dd pp ii =>
        rw [hs] at this
        simp only [Schema.details] at this
        simp [Schema.withDetails, this]
    rw [hw] at h
    rw [h]
    have hdet : (detailsOf p).type = p.type ∧ (detailsOf p).indexed = p.indexed ∧ (detailsOf p).internalType = p.internalType :=
      ⟨rfl, rfl, rfl⟩
    rw [hdet.1, hdet.2.1, hdet.2.2, param_eta]

/-! ### non-vacuity: concrete inputs on which the hypotheses hold (evaluated by the kernel) -/
/-- non-vacuity of `abi_ffi_abi`: `tuple[] pt` with members `uint256 x`, `string y` meets the hypotheses (any table
    entries for the two leaves), with fuel 7 -/
example (u s : ElemInfo) :
    let p : Param := .mk "pt" "tuple[]" false "" [.mk "x" "uint256" false "" [], .mk "y" "string" false "" []]
    let t : Ty := .darr (.tuple ["x", "y"] [.elem u "256" 256 0, .elem s "" 0 0])
    Shape p.components t ∧ need t ≤ 7 := by
  refine ⟨?_, ?_⟩
  · simp [Shape, ShapeL, Param.components, Param.name]
  · simp [need, needMax]

end FFS.Props.C20
