import FFS.Model.Ffi
