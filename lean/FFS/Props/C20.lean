/-
  Property C20 — ABI <-> FFI conversion preserves signatures and is total on arbitrary schemas.
  Model: FFS.Model.Ffi (pkg/ffi2abi/ffi.go: processField, buildABIParameterArrayForObject, input type validation).
  Proved, for every schema:
  * `null_property_is_error`, `missing_details_is_error`, `array_without_items_is_error`,
    `missing_index_is_error`, `index_out_of_range_is_error`, `colliding_index_is_error`, `type_mismatch_is_error` :
        each inconsistency the property names is reported as an error (not a panic, not a silently wrong ABI).
  * `no_holes`  : when every member of an object schema has been placed, no position is left empty — the "nil
        parameter" panic of `buildABIParameterArrayForObject` cannot be reached (placements are in range and never
        overwrite, and there are as many as positions).
  PARTIAL: the round trip ABI → FFI → ABI (same signature, names, nesting, indexed flags) and totality for schemas of
  any depth are decided by the correspondence run; the model recurses on fuel (64 levels) and the sufficiency of
  that fuel is not proved here.
-/
import FFS.Model.Ffi
namespace FFS.Props.C20
open FFS FFS.Model.Abi FFS.Model.Ffi

theorem facts : Gen.FfiFacts.guards = true ∧ Gen.FfiFacts.innermostItems = true ∧ Gen.FfiFacts.nestedSignature = true := by decide

/-- a JSON null where a property schema is expected -/
theorem null_property_is_error (fuel : Nat) (name : String) : processField (fuel + 1) name none = .err := by
  simp [processField, facts.1]

/-- a schema without the `details` block -/
theorem missing_details_is_error (fuel : Nat) (name : String) (s : Schema) (h : s.details = none) :
    processField (fuel + 1) name (some s) = .err := by
  simp [processField, h]

/-- an array schema with no (innermost) `items` -/
theorem array_without_items_is_error (fuel : Nat) (name : String) (s : Schema) (d : Details)
    (hd : s.details = some d) (ht : s.type = "array") (hi : Model.Ffi.innermostItems 64 s.items = none) :
    processField (fuel + 1) name (some s) = .err := by
  have hne : ¬ ("array" = "object") := by decide
  simp [processField, hd, ht, hne, facts.1, facts.2.1, hi]

theorem placeAt_some {α : Type} (slots : List (Option α)) (i : Int) (x : α) (slots' : List (Option α))
    (h : placeAt slots i x = some slots') :
    0 ≤ i ∧ i.toNat < slots.length ∧ slots[i.toNat]? = some none ∧ slots' = slots.set i.toNat (some x) := by
  unfold placeAt at h
  split at h
  · cases h
  · split at h
    · rename_i hs
      injection h with h
      have hlt : i.toNat < slots.length := by
        rcases List.getElem?_eq_some_iff.mp hs with ⟨hl, _⟩; exact hl
      exact ⟨by omega, hlt, hs, h.symm⟩
    · cases h

/-- a member whose `details.index` is missing -/
theorem missing_index_is_error (fuel : Nat) (k : String) (so : Option Schema) (rest : List (String × Option Schema))
    (slots : List (Option Param)) (p : Param) (hp : processField fuel k so = .ok p)
    (hi : (so.bind fun s => s.details.bind (·.index)) = none) :
    placeAll (fuel + 1) ((k, so) :: rest) slots = .err := by
  simp [placeAll, hp, facts.1, hi]

/-- a member position outside [0, number of members) -/
theorem index_out_of_range_is_error (fuel : Nat) (k : String) (so : Option Schema) (rest : List (String × Option Schema))
    (slots : List (Option Param)) (p : Param) (i : Int) (hp : processField fuel k so = .ok p)
    (hi : (so.bind fun s => s.details.bind (·.index)) = some i) (hr : i < 0 ∨ (slots.length : Int) ≤ i) :
    placeAll (fuel + 1) ((k, so) :: rest) slots = .err := by
  have : placeAt slots i p = none := by
    unfold placeAt
    split
    · rfl
    · rename_i hneg
      have hge : slots.length ≤ i.toNat := by omega
      rw [List.getElem?_eq_none_iff.mpr hge]
  simp [placeAll, hp, facts.1, hi, this]

/-- two members claiming the same position -/
theorem colliding_index_is_error (fuel : Nat) (k : String) (so : Option Schema) (rest : List (String × Option Schema))
    (slots : List (Option Param)) (p q : Param) (i : Int) (hp : processField fuel k so = .ok p)
    (hi : (so.bind fun s => s.details.bind (·.index)) = some i) (hocc : slots[i.toNat]? = some (some q)) :
    placeAll (fuel + 1) ((k, so) :: rest) slots = .err := by
  have : placeAt slots i p = none := by
    unfold placeAt
    split
    · rfl
    · rw [hocc]
  simp [placeAll, hp, facts.1, hi, this]

/-- the JSON type of the schema at odds with the Ethereum type -/
theorem type_mismatch_is_error (name : String) (sc : Schema) (p : Param) (t : Ty)
    (hp : processField 64 name (some sc) = .ok p) (ht : parseParam p = .ok t) (hv : inputTypeValid sc t = false) :
    convertParam true name (some sc) = .err := by
  simp [convertParam, hp, ht, hv]

/-! ### no holes -/

def filled {α : Type} (slots : List (Option α)) : Nat := (slots.filter Option.isSome).length

theorem filled_set {α : Type} : ∀ (slots : List (Option α)) (i : Nat) (x : α), slots[i]? = some none →
    filled (slots.set i (some x)) = filled slots + 1 := by
  intro slots
  induction slots with
  | nil => intro i x h; simp at h
  | cons s r ih =>
    intro i x h
    cases i with
    | zero =>
      simp only [List.getElem?_cons_zero, Option.some.injEq] at h
      subst h
      simp [filled]
    | succ i =>
      simp only [List.getElem?_cons_succ] at h
      have := ih i x h
      simp only [filled, List.set_cons_succ, List.filter_cons] at this ⊢
      split <;> simp_all <;> omega

theorem placeAll_spec : ∀ (fuel : Nat) (ps : List (String × Option Schema)) (slots slots' : List (Option Param)),
    placeAll fuel ps slots = .ok slots' → slots'.length = slots.length ∧ filled slots' = filled slots + ps.length := by
  intro fuel
  induction fuel with
  | zero => intro ps slots slots' h; simp [placeAll] at h
  | succ fuel ih =>
    intro ps slots slots' h
    cases ps with
    | nil => simp [placeAll] at h; subst h; simp
    | cons kv rest =>
      obtain ⟨k, so⟩ := kv
      rw [placeAll] at h
      cases hp : processField fuel k so with
      | ok p =>
        simp only [hp, facts.1, if_true] at h
        cases hi : (so.bind fun s => s.details.bind (·.index)) with
        | none => simp [hi] at h
        | some i =>
          simp only [hi] at h
          cases hpl : placeAt slots i p with
          | none => simp [hpl] at h
          | some slots1 =>
            simp only [hpl] at h
            obtain ⟨_, hlt, hnone, hset⟩ := placeAt_some slots i p slots1 hpl
            obtain ⟨h1, h2⟩ := ih rest slots1 slots' h
            subst hset
            refine ⟨by simpa using h1, ?_⟩
            rw [h2, filled_set slots i.toNat p hnone]
            simp; omega
      | err => simp [hp] at h
      | panic => simp [hp] at h

theorem all_some_of_filled {α : Type} : ∀ (slots : List (Option α)), filled slots = slots.length → slots.all Option.isSome = true := by
  intro slots
  induction slots with
  | nil => intro _; rfl
  | cons s r ih =>
    intro h
    simp only [filled, List.filter_cons] at h
    cases s with
    | none =>
      simp only [Option.isSome_none, Bool.false_eq_true, if_false, List.length_cons] at h
      have := List.length_filter_le Option.isSome r
      omega
    | some x =>
      simp only [Option.isSome_some, if_true, List.length_cons] at h
      simp [ih (by simpa [filled] using h)]

/-- **No holes.** Placing every member of an object into as many empty positions leaves none empty: the nil-parameter
    panic of `buildABIParameterArrayForObject` is unreachable. -/
theorem no_holes (fuel : Nat) (ps : List (String × Option Schema)) (slots' : List (Option Param))
    (h : placeAll fuel ps (List.replicate ps.length none) = .ok slots') : slots'.all Option.isSome = true := by
  obtain ⟨h1, h2⟩ := placeAll_spec fuel ps _ slots' h
  apply all_some_of_filled
  have h0 : filled (List.replicate ps.length (none : Option Param)) = 0 := by
    simp [filled, List.filter_replicate]
  rw [h2, h0, h1]; simp

/-- so `buildParams` panics only by running out of fuel or because a member's own conversion did -/
theorem buildParams_no_hole_panic (fuel : Nat) (props : List (String × Option Schema)) (slots : List (Option Param))
    (h : placeAll fuel (dedupLast props) (List.replicate (dedupLast props).length none) = .ok slots) :
    buildParams (fuel + 1) (some props) = .ok (slots.filterMap id) := by
  rw [buildParams]
  simp only [h, no_holes fuel _ slots h, if_true]

end FFS.Props.C20
