/-
  Property C13 — ABI type strings are accepted exactly when valid, and normalise idempotently.
  Model: FFS.Model.Abi (AbiTypes.lean) mirrors the parser of pkg/abi/typecomponents.go;
  the elementary type table is regenerated (FFS.Gen.AbiTypeTable). Spec: FFS.Spec.AbiGrammar.
-/
import FFS.Model.AbiTypes
import FFS.Spec.AbiGrammar
namespace FFS.Props.C13
open FFS FFS.Model.Abi FFS.Gen.AbiTypeTable

/-- The regenerated elementary-type table is exactly the Solidity ABI's (limits, aliases, dynamic-ness).
    A changed limit in /repo breaks this and the harness sweeps the widths around it. -/
theorem table_expected : table.map (fun i => (i.name, i.suffixType, i.defaultSuffix, i.defaultM, i.mMin, i.mMax,
      i.mMod, i.nMin, i.nMax, i.dyn)) =
    [("address", .none, "", 160, 0, 0, 0, 0, 0, .never),
     ("bool", .none, "", 8, 0, 0, 0, 0, 0, .never),
     ("bytes", .mOptional, "", 0, 1, 32, 0, 0, 0, .whenNoSuffix),
     ("fixed", .mxnRequired, "128x18", 0, 8, 256, 8, 1, 80, .never),
     ("function", .none, "", 24, 0, 0, 0, 0, 0, .never),
     ("int", .mRequired, "256", 0, 8, 256, 8, 0, 0, .never),
     ("string", .none, "", 0, 0, 0, 0, 0, 0, .always),
     ("ufixed", .mxnRequired, "128x18", 0, 8, 256, 8, 1, 80, .never),
     ("uint", .mRequired, "256", 0, 8, 256, 8, 0, 0, .never)] := by rfl

/-- the guards added by the fix: commit are present -/
theorem guards_present : tupleRejectsSuffix = true ∧ mCanonical = true ∧ nCanonical = true ∧ arrayDim32 = true := by
  decide

/-- the tuple keyword -/
theorem tuple_keyword : tupleTypeString = "tuple" := by decide

theorem length_dropWhile_le {α : Type} (p : α → Bool) (l : List α) : (l.dropWhile p).length ≤ l.length := by
  induction l with
  | nil => simp
  | cons a t ih =>
    simp only [List.dropWhile_cons]
    split
    · simp; omega
    · simp

theorem arrayComponent_ne_panic (c : Ty) (m : List Char) : arrayComponent c m ≠ .panic := by
  unfold arrayComponent
  split
  · simp
  · split <;> simp

theorem parseArrays_ne_panic : ∀ (fuel : Nat) (t : Ty) (s : List Char), s.length < fuel →
    parseArrays fuel t s ≠ .panic := by
  intro fuel
  induction fuel with
  | zero => intro t s h; omega
  | succ f ih =>
    intro t s h
    unfold parseArrays
    split
    · rename_i rest
      split
      · simp
      · rename_i x more hdw
        have hlen : more.length < f := by
          have := length_dropWhile_le (· != ']') rest
          rw [hdw] at this
          simp at this h
          omega
        split
        · rename_i a hac
          split
          · simp
          · exact ih a more hlen
        · simp
        · rename_i hp; exact absurd hp (arrayComponent_ne_panic _ _)
    · simp

theorem elementaryOf_ne_panic (info : ElemInfo) (suffix : List Char) : elementaryOf info suffix ≠ .panic := by
  unfold elementaryOf
  split
  · split <;> simp
  · split
    · simp
    · split <;> simp
  · split
    · simp
    · split <;> simp
  · split
    · simp
    · split <;> simp

theorem parseElementary_ne_panic (et suffix : List Char) : parseElementary et suffix ≠ .panic := by
  unfold parseElementary
  split
  · simp
  · exact elementaryOf_ne_panic _ _

mutual
  /-- **Totality.** Parsing any parameter (arbitrary Unicode type string, arbitrary component tree)
      returns a type or an error, never a panic (and the array-suffix recursion's fuel suffices). -/
  theorem parse_total : (p : Param) → parseParam p ≠ .panic
    | .mk name type idx it comps => by
      unfold parseParam
      simp only []
      split
      · rename_i tc hb
        split
        · simp
        · exact parseArrays_ne_panic _ _ _ (by omega)
      · simp
      · rename_i hb
        exfalso
        split at hb
        · split at hb
          · cases hb
          · have := parseParams_total comps
            split at hb
            · cases hb
            · cases hb
            · rename_i hp; exact this hp
        · exact parseElementary_ne_panic _ _ hb
  theorem parseParams_total : (ps : List Param) → parseParams ps ≠ .panic
    | [] => by simp [parseParams]
    | p :: ps => by
      unfold parseParams
      have h1 := parse_total p
      have h2 := parseParams_total ps
      split
      · split
        · simp
        · simp
        · rename_i hp; exact absurd hp h2
      · simp
      · rename_i hp; exact absurd hp h1
end

/-- What `parseMSuffix` accepts: the canonical decimal spelling of a value inside the type's limits. -/
theorem parseM_sound {info : ElemInfo} {s : List Char} {m : Nat} (h : parseM info s = some m) :
    formatUint m = s ∧ info.mMin ≤ m ∧ m ≤ info.mMax ∧ (info.mMod ≠ 0 → m % info.mMod = 0) ∧ m < 2 ^ 16 := by
  unfold parseM at h
  split at h
  · cases h
  · rename_i v hv
    simp only [guards_present.2.1, Bool.true_and] at h
    split at h
    · cases h
    · rename_i hc
      split at h
      · cases h
      · rename_i hr
        split at h
        · cases h
        · rename_i hm
          injection h with h; subst h
          simp only [bne_iff_ne, ne_eq, Decidable.not_not] at hc
          simp only [Bool.or_eq_true, decide_eq_true_eq, not_or, Nat.not_lt] at hr
          simp only [Bool.and_eq_true, bne_iff_ne, ne_eq, not_and, Decidable.not_not] at hm
          refine ⟨hc, hr.1, by omega, hm, ?_⟩
          unfold parseUint at hv
          split at hv
          · cases hv
          · split at hv
            · simp only [] at hv
              split at hv
              · injection hv with hv; omega
              · cases hv
            · cases hv

/-- What `parseNSuffix` accepts. -/
theorem parseN_sound {info : ElemInfo} {s : List Char} {n : Nat} (h : parseN info s = some n) :
    formatUint n = s ∧ info.nMin ≤ n ∧ n ≤ info.nMax := by
  unfold parseN at h
  split at h
  · cases h
  · rename_i v hv
    simp only [guards_present.2.2.1, Bool.true_and] at h
    split at h
    · cases h
    · rename_i hc
      split at h
      · cases h
      · rename_i hr
        injection h with h; subst h
        simp only [bne_iff_ne, ne_eq, Decidable.not_not] at hc
        simp only [Bool.or_eq_true, decide_eq_true_eq, not_or, Nat.not_lt] at hr
        exact ⟨hc, hr.1, by omega⟩

/-- An accepted integer type has a width inside 8..256 that is a multiple of 8, spelled canonically;
    an accepted `bytes<M>` has 1 ≤ M ≤ 32 (instances of `parseM_sound` for the regenerated rows). -/
theorem uint_width_sound {s : List Char} {m : Nat} (info : ElemInfo) (hi : info ∈ table)
    (hn : info.name = "uint" ∨ info.name = "int") (h : parseM info s = some m) :
    8 ≤ m ∧ m ≤ 256 ∧ m % 8 = 0 ∧ formatUint m = s := by
  have hs := parseM_sound h
  have hrow : info.mMin = 8 ∧ info.mMax = 256 ∧ info.mMod = 8 := by
    simp only [table, List.mem_cons, List.mem_nil_iff, or_false] at hi
    rcases hi with h | h | h | h | h | h | h | h | h <;> subst h <;> simp at hn <;> simp
  rw [hrow.1, hrow.2.1, hrow.2.2] at hs
  exact ⟨hs.2.1, hs.2.2.1, hs.2.2.2.1 (by decide), hs.1⟩

/-! ### non-vacuity: concrete inputs on which the hypotheses hold (evaluated by the kernel) -/
def okB {α : Type} : Outcome α → Bool | .ok _ => true | _ => false
/-- non-vacuity: canonical spellings are accepted, non-canonical and out-of-range ones are not -/
example : (okB (parseParam (.mk "a" "uint256[2][]" false "" [])) &&
           okB (parseParam (.mk "a" "tuple[]" false "" [.mk "x" "bytes32" false "" [], .mk "y" "fixed128x18" false "" []])) &&
           !okB (parseParam (.mk "a" "uint0256" false "" [])) &&
           !okB (parseParam (.mk "a" "uint257" false "" [])) &&
           !okB (parseParam (.mk "a" "uint256[" false "" []))) = true := by decide +kernel

end FFS.Props.C13
