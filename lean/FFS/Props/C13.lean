/-
  Property C13 — ABI type strings are accepted exactly when valid, and normalise idempotently.
  Model: FFS.Model.Abi (AbiTypes.lean) mirrors the parser of pkg/abi/typecomponents.go;
  the elementary type table is regenerated (FFS.Gen.AbiTypeTable). Spec: FFS.Spec.AbiGrammar.
  Headline: `parse_agrees` / `accepts_iff_grammar` / `rendered_is_canonical` (parse ⇔ grammar with canonical spelling),
  `reparse` / `reparse_list` / `reparse_rendered` / `canonical_idempotent` (parsing the written-back definition yields the same tree).
-/
import FFS.Model.AbiTypes
import FFS.Spec.AbiGrammar
namespace FFS.Props.C13
open FFS FFS.Model.Abi FFS.Gen.AbiTypeTable
open FFS.Spec.AbiGrammar (isDigit decVal canonical arrayDims renderDims)

/-- The regenerated elementary-type table is exactly the Solidity ABI's (limits, aliases, dynamic-ness).
    A changed limit in /repo breaks this and the harness sweeps the widths around it. -/
theorem table_expected : table.map (fun i => (i.name, i.suffixType, i.defaultSuffix, i.defaultM, i.mMin, i.mMax,
      i.mMod, i.nMin, i.nMax, i.dyn)) =
    [("address", .none, "", 160, 0, 0, 0, 0, 0, .never),
     ("bool", .none, "", 8, 0, 0, 0, 0, 0, .never),
     ("bytes", .mOptional, "", 0, 1, 32, 0, 0, 0, .whenNoSuffix),
     ("fixed", .mxnRequired, "128x18", 0, 8, 256, 8, 1, 80, .never),
     ("function", .none, "", 24, 0, 0, 0, 0, 0, .never),
     ("int", .mRequired, "256", 0, 8, 256, 8, 0, 0, .never),
     ("string", .none, "", 0, 0, 0, 0, 0, 0, .always),
     ("ufixed", .mxnRequired, "128x18", 0, 8, 256, 8, 1, 80, .never),
     ("uint", .mRequired, "256", 0, 8, 256, 8, 0, 0, .never)] := by rfl

/-- the guards added by the fix: commit are present -/
theorem guards_present : tupleRejectsSuffix = true ∧ mCanonical = true ∧ nCanonical = true ∧ arrayDim32 = true := by
  decide

/-- the tuple keyword -/
theorem tuple_keyword : tupleTypeString = "tuple" := by decide

theorem length_dropWhile_le {α : Type} (p : α → Bool) (l : List α) : (l.dropWhile p).length ≤ l.length := by
  induction l with
  | nil => simp
  | cons a t ih =>
    simp only [List.dropWhile_cons]
    split
    · simp; omega
    · simp

theorem arrayComponent_ne_panic (c : Ty) (m : List Char) : arrayComponent c m ≠ .panic := by
  unfold arrayComponent
  split
  · simp
  · split <;> simp

theorem parseArrays_ne_panic : ∀ (fuel : Nat) (t : Ty) (s : List Char), s.length < fuel →
    parseArrays fuel t s ≠ .panic := by
  intro fuel
  induction fuel with
  | zero => intro t s h; omega
  | succ f ih =>
    intro t s h
    unfold parseArrays
    split
    · rename_i rest
      split
      · simp
      · rename_i x more hdw
        have hlen : more.length < f := by
          have := length_dropWhile_le (· != ']') rest
          rw [hdw] at this
          simp at this h
          omega
        split
        · rename_i a hac
          split
          · simp
          · exact ih a more hlen
        · simp
        · rename_i hp; exact absurd hp (arrayComponent_ne_panic _ _)
    · simp

theorem elementaryOf_ne_panic (info : ElemInfo) (suffix : List Char) : elementaryOf info suffix ≠ .panic := by
  unfold elementaryOf
  split
  · split <;> simp
  · split
    · simp
    · split <;> simp
  · split
    · simp
    · split <;> simp
  · split
    · simp
    · split <;> simp

theorem parseElementary_ne_panic (et suffix : List Char) : parseElementary et suffix ≠ .panic := by
  unfold parseElementary
  split
  · simp
  · exact elementaryOf_ne_panic _ _

mutual
  /-- **Totality.** Parsing any parameter (arbitrary Unicode type string, arbitrary component tree)
      returns a type or an error, never a panic (and the array-suffix recursion's fuel suffices). -/
  theorem parse_total : (p : Param) → parseParam p ≠ .panic
    | .mk name type idx it comps => by
      unfold parseParam
      simp only []
      split
      · rename_i tc hb
        split
        · simp
        · exact parseArrays_ne_panic _ _ _ (by omega)
      · simp
      · rename_i hb
        exfalso
        split at hb
        · split at hb
          · cases hb
          · have := parseParams_total comps
            split at hb
            · cases hb
            · cases hb
            · rename_i hp; exact this hp
        · exact parseElementary_ne_panic _ _ hb
  theorem parseParams_total : (ps : List Param) → parseParams ps ≠ .panic
    | [] => by simp [parseParams]
    | p :: ps => by
      unfold parseParams
      have h1 := parse_total p
      have h2 := parseParams_total ps
      split
      · split
        · simp
        · simp
        · rename_i hp; exact absurd hp h2
      · simp
      · rename_i hp; exact absurd hp h1
end

/-- What `parseMSuffix` accepts: the canonical decimal spelling of a value inside the type's limits. -/
theorem parseM_sound {info : ElemInfo} {s : List Char} {m : Nat} (h : parseM info s = some m) :
    formatUint m = s ∧ info.mMin ≤ m ∧ m ≤ info.mMax ∧ (info.mMod ≠ 0 → m % info.mMod = 0) ∧ m < 2 ^ 16 := by
  unfold parseM at h
  split at h
  · cases h
  · rename_i v hv
    simp only [guards_present.2.1, Bool.true_and] at h
    split at h
    · cases h
    · rename_i hc
      split at h
      · cases h
      · rename_i hr
        split at h
        · cases h
        · rename_i hm
          injection h with h; subst h
          simp only [bne_iff_ne, ne_eq, Decidable.not_not] at hc
          simp only [Bool.or_eq_true, decide_eq_true_eq, not_or, Nat.not_lt] at hr
          simp only [Bool.and_eq_true, bne_iff_ne, ne_eq, not_and, Decidable.not_not] at hm
          refine ⟨hc, hr.1, by omega, hm, ?_⟩
          unfold parseUint at hv
          split at hv
          · cases hv
          · split at hv
            · simp only [] at hv
              split at hv
              · injection hv with hv; omega
              · cases hv
            · cases hv

/-- What `parseNSuffix` accepts. -/
theorem parseN_sound {info : ElemInfo} {s : List Char} {n : Nat} (h : parseN info s = some n) :
    formatUint n = s ∧ info.nMin ≤ n ∧ n ≤ info.nMax := by
  unfold parseN at h
  split at h
  · cases h
  · rename_i v hv
    simp only [guards_present.2.2.1, Bool.true_and] at h
    split at h
    · cases h
    · rename_i hc
      split at h
      · cases h
      · rename_i hr
        injection h with h; subst h
        simp only [bne_iff_ne, ne_eq, Decidable.not_not] at hc
        simp only [Bool.or_eq_true, decide_eq_true_eq, not_or, Nat.not_lt] at hr
        exact ⟨hc, hr.1, by omega⟩

/-- An accepted integer type has a width inside 8..256 that is a multiple of 8, spelled canonically;
    an accepted `bytes<M>` has 1 ≤ M ≤ 32 (instances of `parseM_sound` for the regenerated rows). -/
theorem uint_width_sound {s : List Char} {m : Nat} (info : ElemInfo) (hi : info ∈ table)
    (hn : info.name = "uint" ∨ info.name = "int") (h : parseM info s = some m) :
    8 ≤ m ∧ m ≤ 256 ∧ m % 8 = 0 ∧ formatUint m = s := by
  have hs := parseM_sound h
  have hrow : info.mMin = 8 ∧ info.mMax = 256 ∧ info.mMod = 8 := by
    simp only [table, List.mem_cons, List.mem_nil_iff, or_false] at hi
    rcases hi with h | h | h | h | h | h | h | h | h <;> subst h <;> simp at hn <;> simp
  rw [hrow.1, hrow.2.1, hrow.2.2] at hs
  exact ⟨hs.2.1, hs.2.2.1, hs.2.2.2.1 (by decide), hs.1⟩

/-! ## parse ⇔ grammar

The remaining sections prove that the model parser and the independently written recogniser `Spec.AbiGrammar.canon`
agree on every parameter: acceptance, and the canonical spelling of what is accepted (`parse_agrees`). Finite facts
about decimal numerals of at most three digits are settled by kernel evaluation over all of them (`decide +kernel`,
no axiom); everything else is structural. -/

open FFS.Spec.AbiGrammar (isDigit decVal canonical validWidth validBytesLen validPrecision arrayDims canonBase renderDims P canon canonList)

/-! ### parse ⇔ grammar -/

def digits : List Char := ['0', '1', '2', '3', '4', '5', '6', '7', '8', '9']

theorem isDigit_mem {c : Char} (h : isDigit c = true) : c ∈ digits := by
  simp only [isDigit, Bool.and_eq_true, decide_eq_true_eq] at h
  have h1 : 48 ≤ c.toNat := by
    have := h.1; rw [Char.le_def, UInt32.le_iff_toNat_le] at this; exact this
  have h2 : c.toNat ≤ 57 := by
    have := h.2; rw [Char.le_def, UInt32.le_iff_toNat_le] at this; exact this
  have hc : c = Char.ofNat c.toNat := (Char.ofNat_toNat c).symm
  have : c.toNat = 48 ∨ c.toNat = 49 ∨ c.toNat = 50 ∨ c.toNat = 51 ∨ c.toNat = 52 ∨ c.toNat = 53 ∨ c.toNat = 54 ∨
      c.toNat = 55 ∨ c.toNat = 56 ∨ c.toNat = 57 := by omega
  rcases this with h | h | h | h | h | h | h | h | h | h <;> (rw [hc, h]; decide)

/-- every canonical numeral of at most three digits is the decimal print of its value (finite check) -/
theorem format_decVal_small : ∀ a ∈ digits, ∀ b ∈ digits, ∀ c ∈ digits,
    (canonical [a] = true → formatUint (decVal [a]) = [a]) ∧
    (canonical [a, b] = true → formatUint (decVal [a, b]) = [a, b]) ∧
    (canonical [a, b, c] = true → formatUint (decVal [a, b, c]) = [a, b, c]) := by decide +kernel

theorem format_decVal {s : List Char} (hc : canonical s = true) (hl : s.length ≤ 3) : formatUint (decVal s) = s := by
  have hall : ∀ c ∈ s, c ∈ digits := by
    intro c hc'
    simp only [canonical, Bool.and_eq_true] at hc
    exact isDigit_mem (List.all_eq_true.mp hc.1.2 c hc')
  match s, hc, hl, hall with
  | [], hc, _, _ => simp [canonical] at hc
  | [a], hc, _, hall => exact (format_decVal_small a (hall a (by simp)) a (hall a (by simp)) a (hall a (by simp))).1 hc
  | [a, b], hc, _, hall =>
    exact (format_decVal_small a (hall a (by simp)) b (hall b (by simp)) a (hall a (by simp))).2.1 hc
  | [a, b, c], hc, _, hall =>
    exact (format_decVal_small a (hall a (by simp)) b (hall b (by simp)) c (hall c (by simp))).2.2 hc
  | _ :: _ :: _ :: _ :: _, _, hl, _ => exact absurd hl (by simp)


theorem parseUint_eq (s : List Char) (bits : Nat) :
    parseUint s bits = if s.isEmpty then none else if s.all isDigit then
      (if decVal s < 2 ^ bits then some (decVal s) else none) else none := rfl

/-- the decimal print of every value below 1000 is a canonical numeral of at most three digits denoting it -/
theorem format_small : ∀ m, m < 1000 →
    canonical (formatUint m) = true ∧ (formatUint m).length ≤ 3 ∧ decVal (formatUint m) = m ∧
    (m < 100 → (formatUint m).length ≤ 2) := by decide +kernel

/-- a numeral check of the grammar: canonical, at most `maxLen` digits, value in [lo, hi], multiple of `md` -/
def okNum (lo hi md maxLen : Nat) (s : List Char) : Bool :=
  canonical s && decide (s.length ≤ maxLen) && (decide (lo ≤ decVal s) && decide (decVal s ≤ hi) && (md == 0 || decVal s % md == 0))

theorem parseM_isSome (info : ElemInfo) (s : List Char) (hmax : info.mMax ≤ 999) :
    (parseM info s).isSome = okNum info.mMin info.mMax info.mMod 3 s := by
  cases hp : parseM info s with
  | some m =>
    obtain ⟨hf, h1, h2, h3, _⟩ := parseM_sound hp
    obtain ⟨g1, g2, g3, _⟩ := format_small m (by omega)
    rw [hf] at g1 g2 g3
    simp only [Option.isSome_some, okNum, g1, g2, g3, h1, h2, decide_true, Bool.true_and, Bool.and_true]
    by_cases hm : info.mMod = 0
    · simp [hm]
    · have := h3 hm; simp [this]
  | none =>
    simp only [Option.isSome_none]
    by_cases hok : okNum info.mMin info.mMax info.mMod 3 s = true
    · exfalso
      simp only [okNum, Bool.and_eq_true, decide_eq_true_eq, Bool.or_eq_true, beq_iff_eq] at hok
      obtain ⟨⟨hc, hl⟩, ⟨hlo, hhi⟩, hmd⟩ := hok
      have hf := format_decVal hc hl
      have hne : s.isEmpty = false := by
        cases s with
        | nil => simp [canonical] at hc
        | cons _ _ => rfl
      have hd : s.all isDigit = true := by
        simp only [canonical, Bool.and_eq_true] at hc; exact hc.1.2
      have hlt : decVal s < 2 ^ 16 := by omega
      have hpu : parseUint s 16 = some (decVal s) := by
        rw [parseUint_eq]; simp [hne, hd, hlt]
      unfold parseM at hp
      rw [hpu] at hp
      simp only [hf, bne_self_eq_false, Bool.and_false, Bool.false_eq_true, if_false] at hp
      rw [if_neg (by simp; omega)] at hp
      rcases hmd with hmd | hmd
      · simp [hmd] at hp
      · simp [hmd] at hp
    · simpa using hok


theorem parseN_isSome (info : ElemInfo) (s : List Char) (hmax : info.nMax ≤ 999) :
    (parseN info s).isSome = okNum info.nMin info.nMax 0 3 s := by
  cases hp : parseN info s with
  | some m =>
    obtain ⟨hf, h1, h2⟩ := parseN_sound hp
    obtain ⟨g1, g2, g3, _⟩ := format_small m (by omega)
    rw [hf] at g1 g2 g3
    simp [okNum, g1, g2, g3, h1, h2]
  | none =>
    simp only [Option.isSome_none]
    by_cases hok : okNum info.nMin info.nMax 0 3 s = true
    · exfalso
      simp only [okNum, Bool.and_eq_true, decide_eq_true_eq, Bool.or_eq_true, beq_iff_eq] at hok
      obtain ⟨⟨hc, hl⟩, ⟨hlo, hhi⟩, _⟩ := hok
      have hf := format_decVal hc hl
      have hne : s.isEmpty = false := by
        cases s with
        | nil => simp [canonical] at hc
        | cons _ _ => rfl
      have hd : s.all isDigit = true := by
        simp only [canonical, Bool.and_eq_true] at hc; exact hc.1.2
      have hlt : decVal s < 2 ^ 16 := by omega
      have hpu : parseUint s 16 = some (decVal s) := by
        rw [parseUint_eq]; simp [hne, hd, hlt]
      unfold parseN at hp
      rw [hpu] at hp
      simp only [hf, bne_self_eq_false, Bool.and_false, Bool.false_eq_true, if_false] at hp
      rw [if_neg (by simp; omega)] at hp
      cases hp
    · simpa using hok

/-- a canonical numeral denoting a value below 100 has at most two digits -/
theorem okNum_len2 (lo hi md : Nat) (s : List Char) (hhi : hi < 100) : okNum lo hi md 2 s = okNum lo hi md 3 s := by
  by_cases hc : canonical s = true
  · by_cases hl3 : s.length ≤ 3
    · by_cases hv : decVal s ≤ hi
      · have hf := format_decVal hc hl3
        have := (format_small (decVal s) (by omega)).2.2.2 (by omega)
        rw [hf] at this
        simp [okNum, hc, hl3, this]
      · simp [okNum, hv]
    · have : ¬ s.length ≤ 2 := by omega
      simp [okNum, hl3, this]
  · simp [okNum, hc]

theorem validWidth_eq (s : List Char) : validWidth s = okNum 8 256 8 3 s := by
  simp [validWidth, okNum]

theorem validBytesLen_eq (s : List Char) : validBytesLen s = okNum 1 32 0 3 s := by
  rw [← okNum_len2 1 32 0 s (by decide)]; simp [validBytesLen, okNum]

theorem validPrecision_eq (s : List Char) : validPrecision s = okNum 1 80 0 3 s := by
  rw [← okNum_len2 1 80 0 s (by decide)]; simp [validPrecision, okNum]

/-- what the grammar says about a base name and suffix, as a verdict on the model's elementary branch -/
def ElemAgrees (r : Outcome Ty) (c : Option String) : Prop :=
  match r with
  | .ok t => c = some (render t)
  | .err => c = none
  | .panic => False

theorem str_append_ofList (b : String) (l : List Char) : b ++ String.ofList l = String.ofList (b.toList ++ l) := by
  apply String.ext; simp

/-- split of an `M x N` suffix: the model's index arithmetic and the grammar's pattern match agree -/
theorem mxn_split (suffix : List Char) :
    (suffix.dropWhile (· != 'x') = [] ∧ (suffix.takeWhile (· != 'x')).length = suffix.length) ∨
    (∃ n, suffix.dropWhile (· != 'x') = 'x' :: n ∧ suffix.length = (suffix.takeWhile (· != 'x')).length + 1 + n.length ∧
      suffix.drop ((suffix.takeWhile (· != 'x')).length + 1) = n) := by
  have hsplit := List.takeWhile_append_dropWhile (p := (· != 'x')) (l := suffix)
  cases hd : suffix.dropWhile (· != 'x') with
  | nil =>
    left
    rw [hd, List.append_nil] at hsplit
    exact ⟨rfl, by rw [hsplit]⟩
  | cons c n =>
    right
    have hc : c = 'x' := by
      have := List.head_dropWhile_not (p := (· != 'x')) (l := suffix) (by rw [hd]; simp)
      simpa [hd] using this
    subst hc
    refine ⟨n, rfl, ?_, ?_⟩
    · have := congrArg List.length hsplit
      rw [hd] at this
      simp only [List.length_append, List.length_cons] at this; omega
    · have h2 : suffix = suffix.takeWhile (· != 'x') ++ ('x' :: n) := by rw [← hd]; exact hsplit.symm
      generalize suffix.takeWhile (· != 'x') = tw at h2 ⊢
      subst h2
      rw [List.drop_append]
      have h1 : List.drop (tw.length + 1) tw = [] := List.drop_eq_nil_of_le (by omega)
      have h3 : tw.length + 1 - tw.length = 1 := by omega
      rw [h1, h3]; rfl


theorem elem_none (info : ElemInfo) (suffix : List Char) (hst : info.suffixType = .none) (hdef : info.defaultSuffix = "") :
    ElemAgrees (elementaryOf info (if suffix.isEmpty then info.defaultSuffix.toList else suffix))
      (if suffix.isEmpty then some info.name else none) := by
  unfold elementaryOf
  rw [hst, hdef]
  cases suffix with
  | nil => simp [ElemAgrees, render]
  | cons c t => simp [ElemAgrees]

theorem elem_mRequired (info : ElemInfo) (suffix : List Char) (hst : info.suffixType = .mRequired)
    (hdef : info.defaultSuffix = "256") (hrow : info.mMin = 8 ∧ info.mMax = 256 ∧ info.mMod = 8) :
    ElemAgrees (elementaryOf info (if suffix.isEmpty then info.defaultSuffix.toList else suffix))
      (if suffix.isEmpty then some (info.name ++ "256") else if validWidth suffix then some (info.name ++ String.ofList suffix) else none) := by
  unfold elementaryOf
  rw [hst, hdef]
  have hsome := parseM_isSome info
  cases suffix with
  | nil =>
    have h256 : parseM info "256".toList = some 256 := by
      have := hsome "256".toList (by omega)
      rw [hrow.1, hrow.2.1, hrow.2.2] at this
      have hok : okNum 8 256 8 3 "256".toList = true := by decide
      rw [hok] at this
      cases hp : parseM info "256".toList with
      | none => rw [hp] at this; cases this
      | some m =>
        have := (parseM_sound hp).1
        have hm : m = 256 := by
          have h2 : decVal (formatUint m) = decVal "256".toList := by rw [this]
          have h3 := (format_small m (by have := (parseM_sound hp).2.2.1; omega)).2.2.1
          rw [h3] at h2; rw [h2]; decide
        rw [hm]
    have h256' : parseM info ['2', '5', '6'] = some 256 := h256
    simp [ElemAgrees, render, h256']
  | cons c t =>
    have := hsome (c :: t) (by omega)
    rw [hrow.1, hrow.2.1, hrow.2.2, ← validWidth_eq] at this
    simp only [List.isEmpty_cons, Bool.false_eq_true, if_false]
    cases hp : parseM info (c :: t) with
    | none => rw [hp] at this; simp at this; simp [ElemAgrees, this]
    | some m => rw [hp] at this; simp at this; simp [ElemAgrees, render, this]


theorem elem_mOptional (info : ElemInfo) (suffix : List Char) (hst : info.suffixType = .mOptional)
    (hdef : info.defaultSuffix = "") (hrow : info.mMin = 1 ∧ info.mMax = 32 ∧ info.mMod = 0) :
    ElemAgrees (elementaryOf info (if suffix.isEmpty then info.defaultSuffix.toList else suffix))
      (if suffix.isEmpty then some info.name else if validBytesLen suffix then some (info.name ++ String.ofList suffix) else none) := by
  unfold elementaryOf
  rw [hst, hdef]
  cases suffix with
  | nil => simp [ElemAgrees, render]
  | cons c t =>
    have := parseM_isSome info (c :: t) (by omega)
    rw [hrow.1, hrow.2.1, hrow.2.2, ← validBytesLen_eq] at this
    simp only [List.isEmpty_cons, Bool.false_eq_true, if_false]
    cases hp : parseM info (c :: t) with
    | none => rw [hp] at this; simp at this; simp [ElemAgrees, this]
    | some m => rw [hp] at this; simp at this; simp [ElemAgrees, render, this]

theorem parseMxN_default (info : ElemInfo) (hrow : info.mMin = 8 ∧ info.mMax = 256 ∧ info.mMod = 8 ∧ info.nMin = 1 ∧ info.nMax = 80) :
    parseMxN info ['1', '2', '8', 'x', '1', '8'] = some (128, 18) := by
  have hm : parseM info ['1', '2', '8'] = some 128 := by
    have := parseM_isSome info ['1', '2', '8'] (by omega)
    rw [hrow.1, hrow.2.1, hrow.2.2.1] at this
    have hok : okNum 8 256 8 3 ['1', '2', '8'] = true := by decide
    rw [hok] at this
    cases hp : parseM info ['1', '2', '8'] with
    | none => rw [hp] at this; cases this
    | some m =>
      have hs := parseM_sound hp
      have h3 := (format_small m (by omega)).2.2.1
      rw [hs.1] at h3
      rw [← h3]; decide
  have hn : parseN info ['1', '8'] = some 18 := by
    have := parseN_isSome info ['1', '8'] (by omega)
    rw [hrow.2.2.2.1, hrow.2.2.2.2] at this
    have hok : okNum 1 80 0 3 ['1', '8'] = true := by decide
    rw [hok] at this
    cases hp : parseN info ['1', '8'] with
    | none => rw [hp] at this; cases this
    | some m =>
      have hs := parseN_sound hp
      have h3 := (format_small m (by omega)).2.2.1
      rw [hs.1] at h3
      rw [← h3]; decide
  unfold parseMxN
  have htw : List.takeWhile (· != 'x') ['1', '2', '8', 'x', '1', '8'] = ['1', '2', '8'] := by decide
  simp only [htw]
  simp [hm, hn]

theorem elem_mxn (info : ElemInfo) (suffix : List Char) (hst : info.suffixType = .mxnRequired)
    (hdef : info.defaultSuffix = "128x18")
    (hrow : info.mMin = 8 ∧ info.mMax = 256 ∧ info.mMod = 8 ∧ info.nMin = 1 ∧ info.nMax = 80) :
    ElemAgrees (elementaryOf info (if suffix.isEmpty then info.defaultSuffix.toList else suffix))
      (if suffix.isEmpty then some (info.name ++ "128x18")
       else match suffix.dropWhile (· != 'x') with
         | _ :: n => if validWidth (suffix.takeWhile (· != 'x')) && validPrecision n then some (info.name ++ String.ofList suffix) else none
         | [] => none) := by
  unfold elementaryOf
  rw [hst, hdef]
  cases suffix with
  | nil =>
    have hd : parseMxN info ['1', '2', '8', 'x', '1', '8'] = some (128, 18) := parseMxN_default info hrow
    have hl : "128x18".toList = ['1', '2', '8', 'x', '1', '8'] := by decide
    simp [ElemAgrees, render, hl, hd]
  | cons c t =>
    simp only [List.isEmpty_cons, Bool.false_eq_true, if_false]
    have hM := parseM_isSome info ((c :: t).takeWhile (· != 'x')) (by omega)
    rw [hrow.1, hrow.2.1, hrow.2.2.1, ← validWidth_eq] at hM
    rcases mxn_split (c :: t) with ⟨hdw, hlen⟩ | ⟨n, hdw, hlen, hdrop⟩
    · rw [hdw]
      have : parseMxN info (c :: t) = none := by
        unfold parseMxN
        simp only []
        rw [if_pos (by rw [hlen]; omega)]
      simp [ElemAgrees, this]
    · rw [hdw]
      simp only []
      have hN := parseN_isSome info n (by omega)
      rw [hrow.2.2.2.1, hrow.2.2.2.2, ← validPrecision_eq] at hN
      cases n with
      | nil =>
        have : parseMxN info (c :: t) = none := by
          unfold parseMxN
          simp only []
          rw [if_pos (by rw [hlen]; simp)]
        have hvp : validPrecision [] = false := by decide
        simp [ElemAgrees, this, hvp]
      | cons d n' =>
        have hgo : parseMxN info (c :: t) =
            match parseM info ((c :: t).takeWhile (· != 'x')) with
            | none => none
            | some m => match parseN info (d :: n') with
              | none => none
              | some k => some (m, k) := by
          unfold parseMxN
          simp only []
          rw [if_neg (by rw [hlen]; simp), hdrop]
          rfl
        rw [hgo]
        cases hpm : parseM info ((c :: t).takeWhile (· != 'x')) with
        | none => rw [hpm] at hM; simp at hM; simp [ElemAgrees, hM]
        | some m =>
          rw [hpm] at hM; simp at hM
          cases hpn : parseN info (d :: n') with
          | none => rw [hpn] at hN; simp at hN; simp [ElemAgrees, hM, hN]
          | some k => rw [hpn] at hN; simp at hN; simp [ElemAgrees, render, hM, hN]


def row (n : String) : ElemInfo := (table.find? (fun i => i.name == n)).getD default

theorem no_row (b : String) (h : b ≠ "address" ∧ b ≠ "bool" ∧ b ≠ "bytes" ∧ b ≠ "fixed" ∧ b ≠ "function" ∧ b ≠ "int" ∧
    b ≠ "string" ∧ b ≠ "ufixed" ∧ b ≠ "uint") : table.find? (fun i => i.name == b) = none := by
  obtain ⟨h1, h2, h3, h4, h5, h6, h7, h8, h9⟩ := h
  rw [List.find?_eq_none]
  intro i hi
  simp only [table, List.mem_cons, List.mem_nil_iff, or_false] at hi
  rcases hi with hi | hi | hi | hi | hi | hi | hi | hi | hi <;> subst hi <;> simp <;> (intro hh; simp_all)

/-- **The elementary branch agrees with the grammar**: for every base name and suffix, the model accepts exactly when
    the grammar does, and then the rendered type is the canonical spelling. -/
theorem parseElementary_agrees (et suffix : List Char) :
    ElemAgrees (parseElementary et suffix) (canonBase et suffix) := by
  unfold parseElementary canonBase
  generalize String.ofList et = b
  simp only []
  by_cases h9 : b = "uint"
  · subst h9
    have hf : table.find? (fun i => i.name == "uint") = some (row "uint") := rfl
    rw [hf]
    have := elem_mRequired (row "uint") suffix rfl rfl ⟨rfl, rfl, rfl⟩
    simpa [show (row "uint").name = "uint" from rfl] using this
  by_cases h6 : b = "int"
  · subst h6
    have hf : table.find? (fun i => i.name == "int") = some (row "int") := rfl
    rw [hf]
    have := elem_mRequired (row "int") suffix rfl rfl ⟨rfl, rfl, rfl⟩
    simpa [show (row "int").name = "int" from rfl] using this
  by_cases h3 : b = "bytes"
  · subst h3
    have hf : table.find? (fun i => i.name == "bytes") = some (row "bytes") := rfl
    rw [hf]
    have := elem_mOptional (row "bytes") suffix rfl rfl ⟨rfl, rfl, rfl⟩
    simpa [show (row "bytes").name = "bytes" from rfl] using this
  by_cases h4 : b = "fixed"
  · subst h4
    have hf : table.find? (fun i => i.name == "fixed") = some (row "fixed") := rfl
    rw [hf]
    have := elem_mxn (row "fixed") suffix rfl rfl ⟨rfl, rfl, rfl, rfl, rfl⟩
    simp [show (row "fixed").name = "fixed" from rfl] at this ⊢
    exact this
  by_cases h8 : b = "ufixed"
  · subst h8
    have hf : table.find? (fun i => i.name == "ufixed") = some (row "ufixed") := rfl
    rw [hf]
    have := elem_mxn (row "ufixed") suffix rfl rfl ⟨rfl, rfl, rfl, rfl, rfl⟩
    simp [show (row "ufixed").name = "ufixed" from rfl] at this ⊢
    exact this
  by_cases h1 : b = "address"
  · subst h1
    have hf : table.find? (fun i => i.name == "address") = some (row "address") := rfl
    rw [hf]
    have := elem_none (row "address") suffix rfl rfl
    simpa [show (row "address").name = "address" from rfl] using this
  by_cases h2 : b = "bool"
  · subst h2
    have hf : table.find? (fun i => i.name == "bool") = some (row "bool") := rfl
    rw [hf]
    have := elem_none (row "bool") suffix rfl rfl
    simpa [show (row "bool").name = "bool" from rfl] using this
  by_cases h5 : b = "function"
  · subst h5
    have hf : table.find? (fun i => i.name == "function") = some (row "function") := rfl
    rw [hf]
    have := elem_none (row "function") suffix rfl rfl
    simpa [show (row "function").name = "function" from rfl] using this
  by_cases h7 : b = "string"
  · subst h7
    have hf : table.find? (fun i => i.name == "string") = some (row "string") := rfl
    rw [hf]
    have := elem_none (row "string") suffix rfl rfl
    simpa [show (row "string").name = "string" from rfl] using this
  · rw [no_row b ⟨h1, h2, h3, h4, h5, h6, h7, h8, h9⟩]
    simp [ElemAgrees, h1, h2, h3, h4, h5, h6, h7, h8, h9]

/-- the array layers the grammar reads off a suffix, applied to a child type -/
def wrap : Ty → List (Option Nat) → Ty
  | c, [] => c
  | c, none :: r => wrap (.darr c) r
  | c, some k :: r => wrap (.farr c k) r

theorem render_wrap : ∀ (dims : List (Option Nat)) (c : Ty), render (wrap c dims) = render c ++ renderDims dims
  | [], c => by simp [wrap, renderDims]
  | none :: r, c => by
    rw [wrap, render_wrap r, render, renderDims, String.append_assoc]
  | some k :: r, c => by
    rw [wrap, render_wrap r, render, renderDims]
    simp [String.append_assoc]

theorem takeWhile_append_of_all {α : Type} (p : α → Bool) (a b : List α) (h : ∀ x ∈ a, p x = true) :
    (a ++ b).takeWhile p = a ++ b.takeWhile p := by
  induction a with
  | nil => rfl
  | cons x t ih =>
    have hx := h x (by simp)
    simp only [List.cons_append, List.takeWhile_cons, hx, if_true]
    rw [ih (fun y hy => h y (by simp [hy]))]

theorem dropWhile_append_of_all {α : Type} (p : α → Bool) (a b : List α) (h : ∀ x ∈ a, p x = true) :
    (a ++ b).dropWhile p = b.dropWhile p := by
  induction a with
  | nil => rfl
  | cons x t ih =>
    have hx := h x (by simp)
    simp only [List.cons_append, List.dropWhile_cons, hx, if_true]
    exact ih (fun y hy => h y (by simp [hy]))

theorem digit_ne_close {c : Char} (h : isDigit c = true) : (c != ']') = true := by
  have := isDigit_mem h
  simp only [digits, List.mem_cons, List.mem_nil_iff, or_false] at this
  rcases this with h | h | h | h | h | h | h | h | h | h <;> subst h <;> decide

theorem takeWhile_all {α : Type} (p : α → Bool) (l : List α) : ∀ x ∈ l.takeWhile p, p x = true := by
  induction l with
  | nil => intro x hx; simp at hx
  | cons a t ih =>
    intro x hx
    simp only [List.takeWhile_cons] at hx
    by_cases ha : p a = true
    · rw [if_pos ha] at hx
      simp only [List.mem_cons] at hx
      rcases hx with h | h
      · rw [h]; exact ha
      · exact ih x h
    · rw [if_neg ha] at hx; simp at hx


/-- one bracket group: what the model's `arrayComponent` makes of a run of digits -/
theorem arrayComponent_digits (child : Ty) (ds : List Char) (hd : ∀ c ∈ ds, isDigit c = true) :
    arrayComponent child ds =
      if ds.isEmpty then .ok (.darr child)
      else if decVal ds < 2 ^ 32 then .ok (.farr child (decVal ds)) else .err := by
  unfold arrayComponent
  cases ds with
  | nil => rfl
  | cons c t =>
    have hall : (c :: t).all isDigit = true := List.all_eq_true.mpr hd
    simp only [List.isEmpty_cons, Bool.false_eq_true, if_false]
    rw [parseUint_eq]
    simp only [List.isEmpty_cons, Bool.false_eq_true, if_false, hall, if_true]
    by_cases hv : decVal (c :: t) < 2 ^ 32 <;> simp [hv]

theorem arrayComponent_nondigit (child : Ty) (m : List Char) (c : Char) (hc : c ∈ m) (hn : isDigit c = false) :
    arrayComponent child m = .err := by
  unfold arrayComponent
  have hne : m.isEmpty = false := by cases m with | nil => simp at hc | cons _ _ => rfl
  have hall : m.all isDigit = false := by
    rw [Bool.eq_false_iff]
    intro h
    have := List.all_eq_true.mp h c hc
    rw [hn] at this; cases this
  rw [hne, parseUint_eq, hne]
  simp [hall]

/-- **The array suffix agrees with the grammar** (any fuel that covers the suffix, on both sides). -/
theorem arrays_agree : ∀ (f1 f2 : Nat) (s : List Char) (child : Ty), s.length < f1 → s.length < f2 → s ≠ [] →
    match arrayDims f2 s with
    | some dims => parseArrays f1 child s = .ok (wrap child dims)
    | none => parseArrays f1 child s = .err := by
  intro f1
  induction f1 with
  | zero => intro f2 s child h; omega
  | succ k ih =>
    intro f2 s child h1 h2 hne
    cases f2 with
    | zero => omega
    | succ j =>
      cases s with
      | nil => exact absurd rfl hne
      | cons c0 rest =>
        by_cases hc0 : c0 = '['
        · subst hc0
          have hsplit := List.takeWhile_append_dropWhile (p := isDigit) (l := rest)
          have hds := takeWhile_all isDigit rest
          generalize hdsd : rest.takeWhile isDigit = ds at hsplit hds
          cases hafter : rest.dropWhile isDigit with
          | nil =>
            -- digits up to the end: no closing bracket
            rw [hafter, List.append_nil] at hsplit
            have hnd : rest.dropWhile (· != ']') = [] := by
              rw [← hsplit, ← List.append_nil ds, dropWhile_append_of_all _ _ _ (fun x hx => digit_ne_close (hds x hx))]
              rfl
            simp only [arrayDims, hdsd, hafter, parseArrays, hnd]
          | cons c more' =>
            rw [hafter] at hsplit
            by_cases hcc : c = ']'
            · subst hcc
              have htw : rest.takeWhile (· != ']') = ds := by
                rw [← hsplit, takeWhile_append_of_all _ _ _ (fun x hx => digit_ne_close (hds x hx))]
                simp
              have hdw : rest.dropWhile (· != ']') = ']' :: more' := by
                rw [← hsplit, dropWhile_append_of_all _ _ _ (fun x hx => digit_ne_close (hds x hx))]
                simp
              have hlen : rest.length = ds.length + 1 + more'.length := by
                rw [← hsplit]; simp; omega
              simp only [arrayDims, hdsd, hafter, parseArrays, hdw, htw]
              rw [arrayComponent_digits child ds hds]
              by_cases he : ds.isEmpty = true
              · simp only [he, if_true]
                cases more' with
                | nil =>
                  have : arrayDims j [] = some [] := by
                    cases j with
                    | zero => simp at h2
                    | succ _ => rfl
                  simp [this, wrap]
                | cons m0 mt =>
                  have := ih j (m0 :: mt) (.darr child) (by simp at h1 hlen ⊢; omega) (by simp at h2 hlen ⊢; omega) (by simp)
                  simp only [List.isEmpty_cons, Bool.false_eq_true, if_false]
                  cases hd2 : arrayDims j (m0 :: mt) with
                  | none => rw [hd2] at this; simp [this]
                  | some r => rw [hd2] at this; simp [this, wrap]
              · simp only [he, Bool.false_eq_true, if_false]
                by_cases hv : decVal ds < 2 ^ 32
                · simp only [hv, if_true]
                  cases more' with
                  | nil =>
                    have : arrayDims j [] = some [] := by
                      cases j with
                      | zero => simp at h2
                      | succ _ => rfl
                    simp [this, wrap]
                  | cons m0 mt =>
                    have := ih j (m0 :: mt) (.farr child (decVal ds)) (by simp at h1 hlen ⊢; omega) (by simp at h2 hlen ⊢; omega) (by simp)
                    simp only [List.isEmpty_cons, Bool.false_eq_true, if_false]
                    cases hd2 : arrayDims j (m0 :: mt) with
                    | none => rw [hd2] at this; simp [this]
                    | some r => rw [hd2] at this; simp [this, wrap]
                · simp [hv]
            · -- a character that is neither a digit nor the closing bracket follows the digits
              have hcnd : isDigit c = false := by
                have := List.head_dropWhile_not (p := isDigit) (l := rest) (by rw [hafter]; simp)
                simpa [hafter] using this
              have hgram : arrayDims (j + 1) ('[' :: rest) = none := by
                simp only [arrayDims, hafter]
                split
                · rename_i heq; injection heq with h1' _; exact absurd h1' hcc
                · rfl
              rw [hgram]
              simp only [parseArrays]
              cases hdw : rest.dropWhile (· != ']') with
              | nil => rfl
              | cons x more =>
                simp only []
                have hmem : c ∈ rest.takeWhile (· != ']') := by
                  rw [← hsplit, takeWhile_append_of_all _ _ _ (fun x hx => digit_ne_close (hds x hx))]
                  simp [List.takeWhile_cons, hcc]
                rw [arrayComponent_nondigit child _ c hmem hcnd]
        · -- does not start with a bracket
          have hm : parseArrays (k + 1) child (c0 :: rest) = .err := by
            simp only [parseArrays]
            split
            · rename_i heq; injection heq with h _; exact absurd h hc0
            · rfl
          have hg : arrayDims (j + 1) (c0 :: rest) = none := by
            unfold arrayDims
            split
            case h_1 => rfl
            case h_2 => simp_all
            case h_3 => simp_all
            case h_4 => rfl
          rw [hg]; exact hm

mutual
  /-- the grammar's view of a parameter: its type string and its components -/
  def toP : Param → P
    | .mk _ type _ _ comps => .mk type (toPs comps)
  def toPs : List Param → List P
    | [] => []
    | p :: ps => toP p :: toPs ps
end

theorem drop_length_takeWhile {α : Type} (p : α → Bool) (l : List α) : l.drop (l.takeWhile p).length = l.dropWhile p := by
  induction l with
  | nil => rfl
  | cons a t ih =>
    simp only [List.takeWhile_cons, List.dropWhile_cons]
    by_cases h : p a = true
    · simp [h, ih]
    · simp [h]

theorem lower_ne_open {c : Char} (h : isLower c = true) : (c != '[') = true := by
  simp only [isLower, Bool.and_eq_true, decide_eq_true_eq] at h
  have h1 := h.1
  rw [Char.le_def, UInt32.le_iff_toNat_le] at h1
  simp only [bne_iff_ne, ne_eq]
  intro hc
  subst hc
  revert h1; decide

/-- the model's and the grammar's ways of cutting a type string into letters, suffix and array part coincide -/
theorem split_agrees (cs : List Char) :
    (cs.takeWhile (· != '[')).takeWhile (fun c => decide ('a' ≤ c) && decide (c ≤ 'z')) = cs.takeWhile isLower ∧
    (cs.takeWhile (· != '[')).drop (cs.takeWhile isLower).length =
      (cs.drop (cs.takeWhile isLower).length).takeWhile (· != '[') ∧
    cs.dropWhile (· != '[') = (cs.drop (cs.takeWhile isLower).length).dropWhile (· != '[') := by
  have hsplit := List.takeWhile_append_dropWhile (p := isLower) (l := cs)
  have het := takeWhile_all isLower cs
  rw [drop_length_takeWhile]
  generalize hetd : cs.takeWhile isLower = et at hsplit het
  generalize hrd : cs.dropWhile isLower = rest at hsplit
  have hq : ∀ x ∈ et, (x != '[') = true := fun x hx => lower_ne_open (het x hx)
  have hrest : ∀ c t, rest = c :: t → isLower c = false := by
    intro c t hr
    have := List.head_dropWhile_not (p := isLower) (l := cs) (by rw [hrd, hr]; simp)
    simpa [hrd, hr] using this
  have h1 : cs.takeWhile (· != '[') = et ++ rest.takeWhile (· != '[') := by
    rw [← hsplit, takeWhile_append_of_all _ _ _ hq]
  refine ⟨?_, ?_, ?_⟩
  · rw [h1]
    have : (fun c => decide ('a' ≤ c) && decide (c ≤ 'z')) = isLower := rfl
    rw [this, takeWhile_append_of_all _ _ _ het]
    have : (rest.takeWhile (· != '[')).takeWhile isLower = [] := by
      cases hr : rest with
      | nil => rfl
      | cons c t =>
        have hc := hrest c t hr
        simp only [List.takeWhile_cons]
        by_cases hb : (c != '[') = true
        · simp [hb, hc]
        · simp [hb]
    rw [this, List.append_nil]
  · rw [h1, List.drop_append]
    simp
  · rw [← hsplit, dropWhile_append_of_all _ _ _ hq]


/-- the verdict on a list of components -/
def ListAgrees (r : Outcome (List Ty)) (c : Option String) : Prop :=
  match r with
  | .ok ts => c = some (renderList ts)
  | .err => c = none
  | .panic => False

theorem str_append_empty (a : String) : a ++ "" = a := by
  apply String.ext; simp

mutual
  /-- **parse ⇔ grammar, with the canonical spelling.** For every parameter (any Unicode type string, any component
      tree): the parser accepts exactly when the Solidity ABI type grammar accepts, and the rendered signature of
      the accepted type is the grammar's canonical spelling. -/
  theorem parse_agrees : (p : Param) → ElemAgrees (parseParam p) (canon (toP p))
    | .mk name type idx it comps => by
      have hcomps := parseParams_agrees comps
      obtain ⟨hs1, hs2, hs3⟩ := split_agrees type.toList
      unfold parseParam
      simp only [toP, canon]
      rw [hs1, hs2, hs3]
      generalize type.toList.takeWhile isLower = et
      generalize (type.toList.drop et.length).takeWhile (· != '[') = suffix
      generalize (type.toList.drop et.length).dropWhile (· != '[') = arrays
      -- the array part, for whatever base type comes out
      have harr : ∀ tc : Ty,
          ElemAgrees (if arrays.isEmpty then .ok tc else parseArrays (arrays.length + 1) tc arrays)
            (match arrayDims (arrays.length + 1) arrays with
              | some dims => some (render tc ++ renderDims dims)
              | none => none) := by
        intro tc
        cases ha : arrays with
        | nil => simp [ElemAgrees, arrayDims, renderDims, str_append_empty]
        | cons a0 at' =>
          have := arrays_agree ((a0 :: at').length + 1) ((a0 :: at').length + 1) (a0 :: at') tc (by omega) (by omega) (by simp)
          simp only [List.isEmpty_cons, Bool.false_eq_true, if_false]
          cases hd : arrayDims ((a0 :: at').length + 1) (a0 :: at') with
          | none => rw [hd] at this; simp only [] at this; rw [this]; simp [ElemAgrees]
          | some dims => rw [hd] at this; simp only [] at this; rw [this]; simp [ElemAgrees, render_wrap]
      by_cases htup : String.ofList et = "tuple"
      · simp only [htup, tuple_keyword, beq_self_eq_true, if_true, guards_present.1, Bool.true_and]
        by_cases hsuf : suffix.isEmpty = true
        · simp only [hsuf, Bool.not_true, Bool.false_eq_true, if_false]
          cases hp : parseParams comps with
          | panic => rw [hp] at hcomps; exact hcomps.elim
          | err =>
            rw [hp] at hcomps
            simp only [ListAgrees] at hcomps
            simp only [hcomps]
            cases arrayDims (arrays.length + 1) arrays <;> simp [ElemAgrees]
          | ok ts =>
            rw [hp] at hcomps
            simp only [ListAgrees] at hcomps
            simp only [hcomps]
            have := harr (.tuple (comps.map Param.name) ts)
            simp only [render] at this
            cases hd : arrayDims (arrays.length + 1) arrays with
            | none => rw [hd] at this; exact this
            | some dims => rw [hd] at this; exact this
        · simp only [hsuf, Bool.not_false, if_true]
          cases arrayDims (arrays.length + 1) arrays <;> simp [ElemAgrees]
      · have hne : (String.ofList et == "tuple") = false := by simpa using htup
        simp only [hne, tuple_keyword, Bool.false_eq_true, if_false]
        have hel := parseElementary_agrees et suffix
        cases hpe : parseElementary et suffix with
        | panic => rw [hpe] at hel; exact hel.elim
        | err =>
          rw [hpe] at hel
          simp only [ElemAgrees] at hel
          simp only [hel]
          cases arrayDims (arrays.length + 1) arrays <;> simp [ElemAgrees]
        | ok tc =>
          rw [hpe] at hel
          simp only [ElemAgrees] at hel
          simp only [hel]
          have := harr tc
          cases hd : arrayDims (arrays.length + 1) arrays with
          | none => rw [hd] at this; exact this
          | some dims => rw [hd] at this; exact this
  theorem parseParams_agrees : (ps : List Param) → ListAgrees (parseParams ps) (canonList (toPs ps))
    | [] => by simp [parseParams, toPs, canonList, ListAgrees, renderList]
    | [p] => by
      have h1 := parse_agrees p
      simp only [parseParams, toPs, canonList]
      cases hp : parseParam p with
      | panic => rw [hp] at h1; exact h1.elim
      | err => rw [hp] at h1; simp only [ElemAgrees] at h1; simp [ListAgrees, h1]
      | ok t => rw [hp] at h1; simp only [ElemAgrees] at h1; simp [ListAgrees, h1, renderList]
    | p :: q :: ps => by
      have h1 := parse_agrees p
      have h2 := parseParams_agrees (q :: ps)
      simp only [toPs] at h2
      simp only [parseParams, toPs, canonList]
      simp only [parseParams] at h2
      cases hp : parseParam p with
      | panic => rw [hp] at h1; exact h1.elim
      | err => rw [hp] at h1; simp only [ElemAgrees] at h1; simp [ListAgrees, h1]
      | ok t =>
        rw [hp] at h1; simp only [ElemAgrees] at h1
        cases hq : parseParam q with
        | panic => rw [hq] at h2; exact h2.elim
        | err => rw [hq] at h2; simp only [ListAgrees] at h2; simp [ListAgrees, h1, h2]
        | ok tq =>
          rw [hq] at h2
          cases hps : parseParams ps with
          | panic => rw [hps] at h2; exact h2.elim
          | err => rw [hps] at h2; simp only [ListAgrees] at h2; simp [ListAgrees, h1, h2]
          | ok ts => rw [hps] at h2; simp only [ListAgrees] at h2; simp [ListAgrees, h1, h2, renderList]
end

/-- **Accepted exactly when in the grammar.** -/
theorem accepts_iff_grammar (p : Param) : (∃ t, parseParam p = .ok t) ↔ (canon (toP p)).isSome = true := by
  have h := parse_agrees p
  cases hp : parseParam p with
  | panic => rw [hp] at h; exact h.elim
  | err => rw [hp] at h; simp only [ElemAgrees] at h; simp [h]
  | ok t => rw [hp] at h; simp only [ElemAgrees] at h; simp [h]

/-- **The rendered signature of an accepted type is its canonical spelling.** -/
theorem rendered_is_canonical (p : Param) (t : Ty) (h : parseParam p = .ok t) : canon (toP p) = some (render t) := by
  have := parse_agrees p
  rw [h] at this
  exact this

/-- … and a type string outside the grammar is reported as an error (never a panic: `parse_total`). -/
theorem outside_grammar_is_error (p : Param) (h : canon (toP p) = none) : parseParam p = .err := by
  have := parse_agrees p
  cases hp : parseParam p with
  | panic => rw [hp] at this; exact this.elim
  | err => rfl
  | ok t => rw [hp] at this; simp only [ElemAgrees] at this; rw [h] at this; cases this

/-! ### parsing the canonical form again yields the same tree -/


theorem decVal_append_single (a : List Char) (c : Char) : decVal (a ++ [c]) = decVal a * 10 + (c.toNat - 48) := by
  simp [decVal, List.foldl_append]

theorem digitChar_val (d : Nat) (h : d < 10) : (Nat.digitChar d).toNat - 48 = d ∧ isDigit (Nat.digitChar d) = true := by
  have : ∀ m : Fin 10, (Nat.digitChar m.val).toNat - 48 = m.val ∧ isDigit (Nat.digitChar m.val) = true := by decide
  exact this ⟨d, h⟩

/-- the decimal digits of `n` are digits and denote `n` -/
theorem decVal_toDigits (n : Nat) : decVal (Nat.toDigits 10 n) = n ∧ ∀ c ∈ Nat.toDigits 10 n, isDigit c = true := by
  induction n using Nat.strongRecOn with
  | _ n ih =>
    rw [Nat.toDigits_eq_if (by decide)]
    split
    · rename_i hlt
      obtain ⟨h1, h2⟩ := digitChar_val n hlt
      refine ⟨by simp [decVal, h1], ?_⟩
      intro c hc; simp only [List.mem_singleton] at hc; rw [hc]; exact h2
    · rename_i hge
      obtain ⟨i1, i2⟩ := ih (n / 10) (by omega)
      obtain ⟨h1, h2⟩ := digitChar_val (n % 10) (by omega)
      refine ⟨by rw [decVal_append_single, i1, h1]; omega, ?_⟩
      intro c hc
      rw [List.mem_append] at hc
      rcases hc with hc | hc
      · exact i2 c hc
      · simp only [List.mem_singleton] at hc; rw [hc]; exact h2

theorem toString_chars (k : Nat) : (toString k).toList = Nat.toDigits 10 k := by
  rw [Nat.toString_eq_repr, Nat.toList_repr]

/-- one step of the grammar's array reader, spelled out -/
theorem arrayDims_step (j : Nat) (rest : List Char) :
    arrayDims (j + 1) ('[' :: rest) =
      match rest.dropWhile isDigit with
      | ']' :: more =>
        match (if (rest.takeWhile isDigit).isEmpty then some none
               else if decVal (rest.takeWhile isDigit) < 2 ^ 32 then some (some (decVal (rest.takeWhile isDigit))) else none),
              arrayDims j more with
        | some d, some r => some (d :: r)
        | _, _ => none
      | _ => none := by
  rw [arrayDims]
  rfl

/-- every dimension the grammar reads off a suffix fits 32 bits -/
theorem arrayDims_valid : ∀ (f : Nat) (s : List Char) (dims : List (Option Nat)), arrayDims f s = some dims →
    ∀ k, some k ∈ dims → k < 2 ^ 32 := by
  intro f
  induction f with
  | zero => intro s dims h; simp [arrayDims] at h
  | succ j ih =>
    intro s dims h k hk
    cases s with
    | nil => simp [arrayDims] at h; subst h; simp at hk
    | cons c rest =>
      by_cases hc : c = '['
      · subst hc
        rw [arrayDims_step] at h
        split at h
        · rename_i more hdw
          split at h
          · rename_i d r hd hr
            injection h with h
            subst h
            simp only [List.mem_cons] at hk
            rcases hk with hk | hk
            · split at hd
              · injection hd with hd; rw [← hd] at hk; cases hk
              · split at hd
                · rename_i hlt
                  injection hd with hd
                  rw [← hd] at hk
                  injection hk with hk
                  rw [hk]; exact hlt
                · cases hd
            · exact ih more r hr k hk
          · cases h
        · cases h
      · have : arrayDims (j + 1) (c :: rest) = none := by
          unfold arrayDims
          split
          case h_1 => rfl
          case h_2 => simp_all
          case h_3 => simp_all
          case h_4 => rfl
        rw [this] at h; cases h


theorem isDigit_close : isDigit ']' = false := by decide

/-- reading the rendered dimensions back gives the dimensions -/
theorem arrayDims_render : ∀ (dims : List (Option Nat)) (f : Nat), (∀ k, some k ∈ dims → k < 2 ^ 32) →
    (renderDims dims).toList.length < f → arrayDims f (renderDims dims).toList = some dims
  | [], f, _, hl => by
    cases f with
    | zero => simp at hl
    | succ j => simp [renderDims, arrayDims]
  | none :: r, f, hv, hl => by
    have hchars : (renderDims (none :: r)).toList = '[' :: ']' :: (renderDims r).toList := by
      simp [renderDims, String.toList_append]
    rw [hchars] at hl ⊢
    cases f with
    | zero => simp at hl
    | succ j =>
      rw [arrayDims_step]
      have h1 : (']' :: (renderDims r).toList).dropWhile isDigit = ']' :: (renderDims r).toList := by
        simp [List.dropWhile_cons, isDigit_close]
      have h2 : (']' :: (renderDims r).toList).takeWhile isDigit = [] := by
        simp [List.takeWhile_cons, isDigit_close]
      rw [h1, h2]
      simp only [List.isEmpty_nil, if_true]
      rw [arrayDims_render r j (fun k hk => hv k (by simp [hk])) (by simp at hl ⊢; omega)]
  | some k :: r, f, hv, hl => by
    have hchars : (renderDims (some k :: r)).toList = '[' :: (Nat.toDigits 10 k ++ ']' :: (renderDims r).toList) := by
      simp [renderDims, String.toList_append, toString_chars]
    rw [hchars] at hl ⊢
    obtain ⟨hval, hdig⟩ := decVal_toDigits k
    cases f with
    | zero => simp at hl
    | succ j =>
      rw [arrayDims_step]
      have h1 : (Nat.toDigits 10 k ++ ']' :: (renderDims r).toList).dropWhile isDigit = ']' :: (renderDims r).toList := by
        rw [dropWhile_append_of_all _ _ _ hdig]
        simp [List.dropWhile_cons, isDigit_close]
      have h2 : (Nat.toDigits 10 k ++ ']' :: (renderDims r).toList).takeWhile isDigit = Nat.toDigits 10 k := by
        rw [takeWhile_append_of_all _ _ _ hdig]
        simp [List.takeWhile_cons, isDigit_close]
      rw [h1, h2]
      have hne : (Nat.toDigits 10 k).isEmpty = false := by
        cases hd : Nat.toDigits 10 k with
        | nil => exact absurd hd Nat.toDigits_ne_nil
        | cons _ _ => rfl
      have hk : k < 2 ^ 32 := hv k (by simp)
      simp only [hne, Bool.false_eq_true, if_false, hval, hk, if_true]
      rw [arrayDims_render r j (fun k' hk' => hv k' (by simp [hk'])) (by simp at hl ⊢; omega)]


mutual
  /-- the type string of a parsed tree: what a JSON ABI writes in `type` -/
  def typeStr : Ty → String
    | .elem info sfx _ _ => info.name ++ sfx
    | .farr c k => typeStr c ++ "[" ++ toString k ++ "]"
    | .darr c => typeStr c ++ "[]"
    | .tuple _ _ => "tuple"
  /-- ... and its `components` -/
  def compsOf : Ty → List Param
    | .elem _ _ _ _ => []
    | .farr c _ => compsOf c
    | .darr c => compsOf c
    | .tuple names ts => paramsOf names ts
  def paramsOf : List String → List Ty → List Param
    | n :: ns, t :: ts => .mk n (typeStr t) false "" (compsOf t) :: paramsOf ns ts
    | _, _ => []
end

theorem typeStr_wrap : ∀ (dims : List (Option Nat)) (c : Ty), typeStr (wrap c dims) = typeStr c ++ renderDims dims
  | [], c => by simp [wrap, renderDims]
  | none :: r, c => by
    rw [wrap, typeStr_wrap r, typeStr, renderDims, String.append_assoc]
  | some k :: r, c => by
    rw [wrap, typeStr_wrap r, typeStr, renderDims]
    simp [String.append_assoc]

theorem compsOf_wrap : ∀ (dims : List (Option Nat)) (c : Ty), compsOf (wrap c dims) = compsOf c
  | [], c => by simp [wrap]
  | none :: r, c => by rw [wrap, compsOf_wrap r, compsOf]
  | some k :: r, c => by rw [wrap, compsOf_wrap r, compsOf]

/-- the rendered dimensions are empty or start with a bracket -/
theorem renderDims_head : ∀ (dims : List (Option Nat)), (dims = [] ∧ (renderDims dims).toList = []) ∨
    (dims ≠ [] ∧ ∃ rest, (renderDims dims).toList = '[' :: rest)
  | [] => Or.inl ⟨rfl, by simp [renderDims]⟩
  | none :: r => Or.inr ⟨by simp, ⟨_, by simp [renderDims, String.toList_append]; rfl⟩⟩
  | some k :: r => Or.inr ⟨by simp, ⟨_, by simp [renderDims, String.toList_append]; rfl⟩⟩

/-- how the model cuts `B ++ D` when `B` has no bracket and `D` is empty or starts with one -/
theorem model_split (B D : List Char) (hB : ∀ c ∈ B, (c != '[') = true) (hD : D = [] ∨ ∃ rest, D = '[' :: rest) :
    (B ++ D).takeWhile isLower = B.takeWhile isLower ∧
    ((B ++ D).drop (B.takeWhile isLower).length).takeWhile (· != '[') = B.drop (B.takeWhile isLower).length ∧
    ((B ++ D).drop (B.takeWhile isLower).length).dropWhile (· != '[') = D := by
  have hsplit := List.takeWhile_append_dropWhile (p := isLower) (l := B)
  have hdl := drop_length_takeWhile isLower B
  have hlow := takeWhile_all isLower B
  have hnotlower : ∀ rest, D = '[' :: rest → isLower '[' = false := fun _ _ => by decide
  have h1 : (B ++ D).takeWhile isLower = B.takeWhile isLower := by
    conv => lhs; rw [← hsplit, List.append_assoc, takeWhile_append_of_all _ _ _ hlow]
    have : (B.dropWhile isLower ++ D).takeWhile isLower = [] := by
      cases hd : B.dropWhile isLower with
      | nil =>
        rcases hD with h | ⟨rest, h⟩ <;> subst h
        · rfl
        · simp [List.takeWhile_cons]; decide
      | cons c t =>
        have := List.head_dropWhile_not (p := isLower) (l := B) (by rw [hd]; simp)
        simp only [hd, List.head_cons] at this
        simp [List.takeWhile_cons, this]
    rw [this, List.append_nil]
  have hdrop : (B ++ D).drop (B.takeWhile isLower).length = B.drop (B.takeWhile isLower).length ++ D := by
    rw [List.drop_append_of_le_length (by
      have := congrArg List.length hsplit
      rw [List.length_append] at this; omega)]
  have hBd : ∀ c ∈ B.drop (B.takeWhile isLower).length, (c != '[') = true := fun c hc => hB c (List.mem_of_mem_drop hc)
  refine ⟨h1, ?_, ?_⟩
  · rw [hdrop, takeWhile_append_of_all _ _ _ hBd]
    rcases hD with h | ⟨rest, h⟩ <;> subst h <;> simp [List.takeWhile_cons]
  · rw [hdrop, dropWhile_append_of_all _ _ _ hBd]
    rcases hD with h | ⟨rest, h⟩ <;> subst h <;> simp [List.dropWhile_cons]


/-- what an accepted effective suffix looks like: empty, or starting with a digit; never a bracket -/
def SuffixOK (s : List Char) : Prop :=
  (s = [] ∨ ∃ c t, s = c :: t ∧ isDigit c = true) ∧ ∀ c ∈ s, (c != '[') = true

theorem digit_ne_open {c : Char} (h : isDigit c = true) : (c != '[') = true := by
  have := isDigit_mem h
  simp only [digits, List.mem_cons, List.mem_nil_iff, or_false] at this
  rcases this with h | h | h | h | h | h | h | h | h | h <;> subst h <;> decide

theorem parseUint_digits {s : List Char} {bits v : Nat} (h : parseUint s bits = some v) :
    s ≠ [] ∧ ∀ c ∈ s, isDigit c = true := by
  rw [parseUint_eq] at h
  split at h
  · cases h
  · rename_i hne
    split at h
    · rename_i hall
      exact ⟨by intro hs; subst hs; simp at hne, fun c hc => List.all_eq_true.mp hall c hc⟩
    · cases h

theorem parseM_digits {info : ElemInfo} {s : List Char} {m : Nat} (h : parseM info s = some m) :
    s ≠ [] ∧ ∀ c ∈ s, isDigit c = true := by
  unfold parseM at h
  cases hp : parseUint s 16 with
  | none => rw [hp] at h; cases h
  | some v => exact parseUint_digits hp

theorem parseN_digits {info : ElemInfo} {s : List Char} {n : Nat} (h : parseN info s = some n) :
    s ≠ [] ∧ ∀ c ∈ s, isDigit c = true := by
  unfold parseN at h
  cases hp : parseUint s 16 with
  | none => rw [hp] at h; cases h
  | some v => exact parseUint_digits hp

theorem suffixOK_digits {s : List Char} (h : s ≠ [] ∧ ∀ c ∈ s, isDigit c = true) : SuffixOK s := by
  obtain ⟨hne, hd⟩ := h
  refine ⟨?_, fun c hc => digit_ne_open (hd c hc)⟩
  cases s with
  | nil => exact absurd rfl hne
  | cons c t => exact Or.inr ⟨c, t, rfl, hd c (by simp)⟩

/-- the elementary branch returns the table row with the effective suffix, and that suffix is well-shaped -/
theorem elementaryOf_shape (info : ElemInfo) (suffix : List Char) (tc : Ty) (h : elementaryOf info suffix = .ok tc) :
    (∃ m n, tc = .elem info (String.ofList suffix) m n) ∧ SuffixOK suffix := by
  unfold elementaryOf at h
  split at h
  · split at h
    · rename_i he
      have : suffix = [] := by cases suffix with | nil => rfl | cons _ _ => simp at he
      subst this
      injection h with h
      exact ⟨⟨_, _, h.symm⟩, Or.inl rfl, by simp⟩
    · cases h
  · split at h
    · cases h
    · cases hp : parseM info suffix with
      | none => rw [hp] at h; cases h
      | some m => rw [hp] at h; injection h with h; exact ⟨⟨_, _, h.symm⟩, suffixOK_digits (parseM_digits hp)⟩
  · split at h
    · rename_i he
      have : suffix = [] := by cases suffix with | nil => rfl | cons _ _ => simp at he
      subst this
      injection h with h
      exact ⟨⟨_, _, h.symm⟩, Or.inl rfl, by simp⟩
    · cases hp : parseM info suffix with
      | none => rw [hp] at h; cases h
      | some m => rw [hp] at h; injection h with h; exact ⟨⟨_, _, h.symm⟩, suffixOK_digits (parseM_digits hp)⟩
  · split at h
    · cases h
    · cases hp : parseMxN info suffix with
      | none => rw [hp] at h; cases h
      | some mn =>
        rw [hp] at h
        obtain ⟨m, n⟩ := mn
        injection h with h
        refine ⟨⟨_, _, h.symm⟩, ?_⟩
        unfold parseMxN at hp
        simp only [] at hp
        split at hp
        · cases hp
        · cases hm : parseM info (suffix.takeWhile (· != 'x')) with
          | none => rw [hm] at hp; cases hp
          | some m' =>
            rw [hm] at hp
            simp only [] at hp
            cases hn : parseN info (suffix.drop ((suffix.takeWhile (· != 'x')).length + 1)) with
            | none => rw [hn] at hp; cases hp
            | some n' =>
              obtain ⟨hmne, hmd⟩ := parseM_digits hm
              obtain ⟨_, hnd⟩ := parseN_digits hn
              rcases mxn_split suffix with ⟨hdw, hlen⟩ | ⟨nn, hdw, hlen, hdrop⟩
              · -- no x: the whole suffix is the M part
                have hsplit := List.takeWhile_append_dropWhile (p := (· != 'x')) (l := suffix)
                rw [hdw, List.append_nil] at hsplit
                rw [hsplit] at hmne hmd
                exact suffixOK_digits ⟨hmne, hmd⟩
              · have hsplit := List.takeWhile_append_dropWhile (p := (· != 'x')) (l := suffix)
                rw [hdw] at hsplit
                rw [hdrop] at hnd
                refine ⟨?_, ?_⟩
                · cases htw : suffix.takeWhile (· != 'x') with
                  | nil => exact absurd htw hmne
                  | cons c t =>
                    rw [htw] at hsplit hmd
                    exact Or.inr ⟨c, t ++ 'x' :: nn, by rw [← hsplit]; rfl, hmd c (by simp)⟩
                · intro c hc
                  rw [← hsplit, List.mem_append] at hc
                  rcases hc with hc | hc
                  · exact digit_ne_open (hmd c hc)
                  · simp only [List.mem_cons] at hc
                    rcases hc with hc | hc
                    · rw [hc]; decide
                    · exact digit_ne_open (hnd c hc)


theorem digit_not_lower {c : Char} (h : isDigit c = true) : isLower c = false := by
  have := isDigit_mem h
  simp only [digits, List.mem_cons, List.mem_nil_iff, or_false] at this
  rcases this with h | h | h | h | h | h | h | h | h | h <;> subst h <;> decide

/-- the elementary branch gives the same answer when handed its own effective suffix -/
theorem parseElementary_again (et s0 : List Char) (tc : Ty) (h : parseElementary et s0 = .ok tc) :
    ∃ info sfx m n, tc = .elem info sfx m n ∧ info.name = String.ofList et ∧ SuffixOK sfx.toList ∧
      parseElementary et sfx.toList = .ok tc := by
  unfold parseElementary at h
  cases hf : table.find? (fun i => i.name == String.ofList et) with
  | none => rw [hf] at h; cases h
  | some info =>
    rw [hf] at h
    simp only [] at h
    have hname : info.name = String.ofList et := by
      have := List.find?_some hf
      simpa using this
    obtain ⟨⟨m, n, htc⟩, hok⟩ := elementaryOf_shape info _ tc h
    refine ⟨info, String.ofList (if s0.isEmpty then info.defaultSuffix.toList else s0), m, n, htc, hname, by simpa using hok, ?_⟩
    unfold parseElementary
    rw [hf]
    simp only [String.toList_ofList]
    -- the effective suffix of the effective suffix is itself
    have : (if (if s0.isEmpty then info.defaultSuffix.toList else s0).isEmpty then info.defaultSuffix.toList
            else (if s0.isEmpty then info.defaultSuffix.toList else s0)) = (if s0.isEmpty then info.defaultSuffix.toList else s0) := by
      by_cases h0 : s0.isEmpty = true
      · simp only [h0, if_true]
        by_cases hd : info.defaultSuffix.toList.isEmpty = true
        · simp [hd]
        · simp [hd]
      · simp only [h0, Bool.false_eq_true, if_false]
    rw [this]
    exact h


theorem paramsOf_names : ∀ (names : List String) (ts : List Ty), names.length = ts.length →
    (paramsOf names ts).map Param.name = names
  | [], [], _ => rfl
  | n :: ns, t :: ts, h => by
    simp only [paramsOf, List.map_cons, Param.name]
    rw [paramsOf_names ns ts (by simpa using h)]
  | [], _ :: _, h => by simp at h
  | _ :: _, [], h => by simp at h

theorem parseParams_length : ∀ (ps : List Param) (ts : List Ty), parseParams ps = .ok ts → ts.length = ps.length
  | [], ts, h => by simp only [parseParams] at h; injection h with h; subst h; rfl
  | p :: ps, ts, h => by
    simp only [parseParams] at h
    cases hp : parseParam p with
    | err => rw [hp] at h; cases h
    | panic => rw [hp] at h; cases h
    | ok t =>
      rw [hp] at h
      simp only [] at h
      cases hps : parseParams ps with
      | err => rw [hps] at h; cases h
      | panic => rw [hps] at h; cases h
      | ok ts' =>
        rw [hps] at h
        injection h with h; subst h
        simp [parseParams_length ps ts' hps]

/-- re-parsing a definition written from a base type `tc` and dimensions `dims` -/
theorem parse_written (nm : String) (ix : Bool) (it : String) (tc : Ty) (dims : List (Option Nat)) (comps : List Param)
    (hv : ∀ k, some k ∈ dims → k < 2 ^ 32)
    (hB : ∀ c ∈ (typeStr tc).toList, (c != '[') = true)
    (hbase : ∀ D : List Char, (D = [] ∨ ∃ rest, D = '[' :: rest) →
      parseParam (.mk nm (String.ofList ((typeStr tc).toList ++ D)) ix it comps) =
        (if D.isEmpty then .ok tc else parseArrays (D.length + 1) tc D)) :
    parseParam (.mk nm (typeStr (wrap tc dims)) ix it comps) = .ok (wrap tc dims) := by
  have hstr : typeStr (wrap tc dims) = String.ofList ((typeStr tc).toList ++ (renderDims dims).toList) := by
    rw [typeStr_wrap]; apply String.ext; simp
  rw [hstr]
  rcases renderDims_head dims with ⟨hd, hD⟩ | ⟨hd, rest, hD⟩
  · rw [hbase _ (Or.inl hD), hD, hd]
    simp [wrap]
  · rw [hbase _ (Or.inr ⟨rest, hD⟩)]
    have hne : (renderDims dims).toList.isEmpty = false := by rw [hD]; rfl
    rw [hne]
    simp only [Bool.false_eq_true, if_false]
    have h1 := arrayDims_render dims ((renderDims dims).toList.length + 1) hv (by omega)
    have h2 := arrays_agree ((renderDims dims).toList.length + 1) ((renderDims dims).toList.length + 1) (renderDims dims).toList tc
      (by omega) (by omega) (by rw [hD]; simp)
    rw [h1] at h2
    exact h2


/-- what a successful parse consists of: a base type (tuple of the parsed components, or a table row) wrapped in the
    dimensions the grammar reads off the array part -/
theorem parse_decompose (name type : String) (idx : Bool) (it : String) (comps : List Param) (t : Ty)
    (h : parseParam (.mk name type idx it comps) = .ok t) :
    ∃ tc dims, t = wrap tc dims ∧ (∀ k, some k ∈ dims → k < 2 ^ 32) ∧
      ((∃ ts, tc = .tuple (comps.map Param.name) ts ∧ parseParams comps = .ok ts) ∨
       (∃ et s0, (∀ c ∈ et, isLower c = true) ∧ String.ofList et ≠ "tuple" ∧ parseElementary et s0 = .ok tc)) := by
  unfold parseParam at h
  simp only [] at h
  split at h
  · rename_i tc hb
    -- the array part
    have harr : ∃ dims, t = wrap tc dims ∧ (∀ k, some k ∈ dims → k < 2 ^ 32) := by
      split at h
      · injection h with h; exact ⟨[], by rw [← h]; rfl, by intro k hk; simp at hk⟩
      · rename_i hne
        generalize harrs : List.dropWhile (fun x => x != '[') (List.drop (List.takeWhile isLower type.toList).length type.toList) = arrays at h hne
        have hne' : arrays ≠ [] := by intro h0; subst h0; simp at hne
        have hag := arrays_agree (arrays.length + 1) (arrays.length + 1) arrays tc (by omega) (by omega) hne'
        cases hd : arrayDims (arrays.length + 1) arrays with
        | none => rw [hd] at hag; simp only [] at hag; rw [hag] at h; cases h
        | some dims =>
          rw [hd] at hag
          simp only [] at hag
          rw [hag] at h
          injection h with h
          exact ⟨dims, h.symm, arrayDims_valid _ _ _ hd⟩
    obtain ⟨dims, ht, hv⟩ := harr
    refine ⟨tc, dims, ht, hv, ?_⟩
    split at hb
    · -- tuple
      split at hb
      · cases hb
      · cases hp : parseParams comps with
        | err => rw [hp] at hb; cases hb
        | panic => rw [hp] at hb; cases hb
        | ok ts =>
          rw [hp] at hb
          injection hb with hb
          exact Or.inl ⟨ts, hb.symm, rfl⟩
    · rename_i hnt
      refine Or.inr ⟨_, _, takeWhile_all isLower _, ?_, hb⟩
      intro heq
      apply hnt
      rw [heq, tuple_keyword]
      rfl
  · cases h
  · cases h


/-- base case "tuple": the written definition has the keyword, no suffix, and components that parse to `ts` -/
theorem base_tuple (nm : String) (ix : Bool) (it : String) (names : List String) (ts : List Ty) (comps' : List Param)
    (hp : parseParams comps' = .ok ts) (hn : comps'.map Param.name = names)
    (D : List Char) (hD : D = [] ∨ ∃ rest, D = '[' :: rest) :
    parseParam (.mk nm (String.ofList ((typeStr (.tuple names ts)).toList ++ D)) ix it comps') =
      (if D.isEmpty then .ok (.tuple names ts) else parseArrays (D.length + 1) (.tuple names ts) D) := by
  have hts : (typeStr (.tuple names ts)).toList = ['t', 'u', 'p', 'l', 'e'] := by simp [typeStr]
  rw [hts]
  obtain ⟨h1, h2, h3⟩ := model_split ['t', 'u', 'p', 'l', 'e'] D (by decide) hD
  have hlow : List.takeWhile isLower ['t', 'u', 'p', 'l', 'e'] = ['t', 'u', 'p', 'l', 'e'] := by decide
  rw [hlow] at h1 h2 h3
  unfold parseParam
  simp only [String.toList_ofList, h1, h2, h3]
  have hk : (String.ofList ['t', 'u', 'p', 'l', 'e'] == tupleTypeString) = true := by decide
  simp only [hk, if_true, List.length_cons, List.length_nil, List.drop_succ_cons, List.drop_zero, List.drop_nil,
    List.isEmpty_nil, Bool.not_true, Bool.and_false, Bool.false_eq_true, if_false, hp, hn]

/-- base case "table row": the written name is the matched lowercase run, the written suffix the effective suffix -/
theorem base_elem (nm : String) (ix : Bool) (it : String) (et s0 : List Char) (tc : Ty) (comps' : List Param)
    (hlow : ∀ c ∈ et, isLower c = true) (hnt : String.ofList et ≠ "tuple") (h : parseElementary et s0 = .ok tc)
    (D : List Char) (hD : D = [] ∨ ∃ rest, D = '[' :: rest) :
    (∀ c ∈ (typeStr tc).toList, (c != '[') = true) ∧
    parseParam (.mk nm (String.ofList ((typeStr tc).toList ++ D)) ix it comps') =
      (if D.isEmpty then .ok tc else parseArrays (D.length + 1) tc D) := by
  obtain ⟨info, sfx, m, n, htc, hname, hsfx, hagain⟩ := parseElementary_again et s0 tc h
  have hts : (typeStr tc).toList = et ++ sfx.toList := by
    rw [htc]; simp [typeStr, hname]
  have hlow_ne : ∀ c ∈ et, (c != '[') = true := by
    intro c hc
    have := hlow c hc
    cases hcc : (c != '[') with
    | true => rfl
    | false =>
      have : c = '[' := by simpa using hcc
      subst this
      exact absurd (hlow _ hc) (by decide)
  have hB : ∀ c ∈ (typeStr tc).toList, (c != '[') = true := by
    rw [hts]; intro c hc
    rcases List.mem_append.mp hc with hc | hc
    · exact hlow_ne c hc
    · exact hsfx.2 c hc
  refine ⟨hB, ?_⟩
  obtain ⟨h1, h2, h3⟩ := model_split (typeStr tc).toList D hB hD
  have htw : List.takeWhile isLower (typeStr tc).toList = et := by
    rw [hts, takeWhile_append_of_all _ _ _ hlow]
    rcases hsfx.1 with h0 | ⟨c, t, h0, hc⟩
    · rw [h0]; simp
    · rw [h0]; simp [List.takeWhile_cons, digit_not_lower hc]
  rw [htw] at h1 h2 h3
  have hdrop : List.drop et.length (typeStr tc).toList = sfx.toList := by rw [hts]; simp
  rw [hdrop] at h2
  unfold parseParam
  simp only [String.toList_ofList, h1, h2, h3]
  have hk : (String.ofList et == tupleTypeString) = false := by
    rw [tuple_keyword]
    cases hb : (String.ofList et == "tuple") with
    | false => rfl
    | true => exact absurd (by simpa using hb) hnt
  simp only [hk, Bool.false_eq_true, if_false, hagain]

mutual
  /-- C13, idempotence: a definition that parses, written back out (type string and components), parses to the same tree -/
  theorem reparse : ∀ (p : Param) (t : Ty) (nm : String) (ix : Bool) (it : String), parseParam p = .ok t →
      parseParam (.mk nm (typeStr t) ix it (compsOf t)) = .ok t
    | .mk name type idx it0 comps, t, nm, ix, it, h => by
      obtain ⟨tc, dims, ht, hv, hcase⟩ := parse_decompose name type idx it0 comps t h
      subst ht
      rw [compsOf_wrap]
      rcases hcase with ⟨ts, htc, hp⟩ | ⟨et, s0, hlow, hnt, hpe⟩
      · subst htc
        have hlen := parseParams_length comps ts hp
        have hnames := paramsOf_names (comps.map Param.name) ts (by simp [hlen])
        have hagain := reparse_list comps ts hp
        apply parse_written nm ix it _ dims _ hv (by simp [typeStr])
        intro D hD
        simp only [compsOf]
        exact base_tuple nm ix it _ ts _ hagain hnames D hD
      · have hcomps : compsOf tc = [] := by
          obtain ⟨info, sfx, m, n, htc, _⟩ := parseElementary_again et s0 tc hpe
          rw [htc]; simp [compsOf]
        apply parse_written nm ix it _ dims _ hv (base_elem nm ix it et s0 tc [] hlow hnt hpe [] (Or.inl rfl)).1
        intro D hD
        rw [hcomps]
        exact (base_elem nm ix it et s0 tc [] hlow hnt hpe D hD).2
  theorem reparse_list : ∀ (ps : List Param) (ts : List Ty), parseParams ps = .ok ts →
      parseParams (paramsOf (ps.map Param.name) ts) = .ok ts
    | [], ts, h => by
      simp only [parseParams] at h; injection h with h; subst h
      simp [paramsOf, parseParams]
    | p :: ps, ts, h => by
      simp only [parseParams] at h
      cases hp : parseParam p with
      | err => rw [hp] at h; cases h
      | panic => rw [hp] at h; cases h
      | ok t =>
        rw [hp] at h
        simp only [] at h
        cases hps : parseParams ps with
        | err => rw [hps] at h; cases h
        | panic => rw [hps] at h; cases h
        | ok ts' =>
          rw [hps] at h
          injection h with h; subst h
          simp only [List.map_cons, paramsOf, parseParams]
          rw [reparse p t p.name false "" hp, reparse_list ps ts' hps]
end

/-- a tree with no tuple in it -/
def tupleFree : Ty → Bool
  | .elem _ _ _ _ => true
  | .farr c _ => tupleFree c
  | .darr c => tupleFree c
  | .tuple _ _ => false

/-- for a tuple-free tree the written type string *is* the rendered signature, and there are no components -/
theorem typeStr_render : ∀ t : Ty, tupleFree t = true → typeStr t = render t ∧ compsOf t = []
  | .elem _ _ _ _, _ => by simp [typeStr, render, compsOf]
  | .farr c k, h => by
    have := typeStr_render c (by simpa [tupleFree] using h)
    simp [typeStr, render, compsOf, this.1, this.2]
  | .darr c, h => by
    have := typeStr_render c (by simpa [tupleFree] using h)
    simp [typeStr, render, compsOf, this.1, this.2]
  | .tuple _ _, h => by simp [tupleFree] at h

/-- **Idempotence on rendered signatures**: for an accepted tuple-free type, parsing the rendered signature yields the
    same tree. (For tuples the signature `(a,b)` is not itself a JSON-ABI type string; `reparse` is the statement over the
    written-back definition: keyword `tuple`, the dimensions, and the components written back recursively.) -/
theorem reparse_rendered (p : Param) (t : Ty) (nm : String) (ix : Bool) (it : String)
    (h : parseParam p = .ok t) (hf : tupleFree t = true) : parseParam (.mk nm (render t) ix it []) = .ok t := by
  have := reparse p t nm ix it h
  rw [(typeStr_render t hf).1, (typeStr_render t hf).2] at this
  exact this

/-- … and normalisation is idempotent: the canonical spelling of the re-parsed definition is the same spelling -/
theorem canonical_idempotent (p : Param) (t : Ty) (h : parseParam p = .ok t) :
    canon (toP (.mk p.name (typeStr t) false "" (compsOf t))) = some (render t) :=
  rendered_is_canonical _ t (reparse p t p.name false "" h)

/-! ### non-vacuity: concrete inputs on which the hypotheses hold (evaluated by the kernel) -/
def okB {α : Type} : Outcome α → Bool | .ok _ => true | _ => false
/-- non-vacuity: canonical spellings are accepted, non-canonical and out-of-range ones are not -/
example : (okB (parseParam (.mk "a" "uint256[2][]" false "" [])) &&
           okB (parseParam (.mk "a" "tuple[]" false "" [.mk "x" "bytes32" false "" [], .mk "y" "fixed128x18" false "" []])) &&
           !okB (parseParam (.mk "a" "uint0256" false "" [])) &&
           !okB (parseParam (.mk "a" "uint257" false "" [])) &&
           !okB (parseParam (.mk "a" "uint256[" false "" []))) = true := by decide +kernel
/-- non-vacuity of `reparse`: an aliased nested tuple array is accepted, and its written-back definition differs from
    the input (the alias is expanded) -/
example : okB (parseParam (.mk "a" "tuple[2][]" false "" [.mk "x" "uint" false "" [], .mk "y" "tuple" false "" [.mk "z" "bytes" false "" []]])) = true := by
  decide +kernel

end FFS.Props.C13
