/-
  Property C08 — the filesystem wallet only signs with the key that owns the requested address.
  Model: FFS.Model.FsWallet (sequential; mirrors pkg/fswallet/fswallet.go). The load function (files, passwords,
  metadata, keystore decryption) and the key→address derivation are arbitrary parameters: the safety theorems hold
  whatever key material the file named for an address contains.
-/
import FFS.Model.FsWallet
namespace FFS.Props.C08
open FFS FFS.Model.FsWallet

/-- the regenerated guard facts: negative extension match returns; derived address compared before caching -/
theorem guards : Gen.FsWalletFacts.extMismatchReturns = true ∧ Gen.FsWalletFacts.addressChecked = true := by decide

/-- every cached wallet file's key derives the address it is cached under -/
def CacheInv (derive : Bytes → Addr) (st : State) : Prop :=
  ∀ a key, (a, key) ∈ st.cache → derive key = a

theorem init_inv (derive : Bytes → Addr) : CacheInv derive State.init := by
  intro a key h; simp [State.init] at h

/-- `GetWalletFile` returns only a key that derives the requested address — cached or freshly loaded — and
    keeps the invariant. -/
theorem getWalletFile_sound (derive : Bytes → Addr) (st : State) (addr : Addr) (load : String → Outcome Bytes)
    (hinv : CacheInv derive st) :
    CacheInv derive (getWalletFile derive st addr load).1 ∧
    ∀ key, (getWalletFile derive st addr load).2 = .ok key → derive key = addr := by
  unfold getWalletFile
  split
  · rename_i a' key hfind
    refine ⟨hinv, ?_⟩
    intro k hk
    injection hk with hk; subst hk
    have hmem := List.mem_of_find?_eq_some hfind
    have hp := List.find?_some hfind
    simp only [beq_iff_eq] at hp
    have := hinv _ _ hmem
    rw [this]; exact hp
  · split
    · exact ⟨hinv, by intro k hk; cases hk⟩
    · split
      · rename_i primary _ key hload
        simp only [guards.2, Bool.true_and]
        split
        · exact ⟨hinv, by intro k hk; cases hk⟩
        · rename_i hne
          have heq : derive key = addr := by
            simpa [bne_iff_ne] using hne
          constructor
          · intro a k hmem
            simp only [List.mem_cons] at hmem
            rcases hmem with h | h
            · injection h with h1 h2; subst h1 h2; exact heq
            · exact hinv a k h
          · intro k hk; injection hk with hk; subst hk; exact heq
      · exact ⟨hinv, by intro k hk; cases hk⟩
      · exact ⟨hinv, by intro k hk; cases hk⟩

/-- every operation preserves the invariant (discovery and eviction never add cache entries) -/
theorem step_inv (cfg : Config) (derive : Bytes → Addr) (st : State) (op : Op) (hinv : CacheInv derive st) :
    CacheInv derive (step cfg derive st op) := by
  cases op with
  | notify files =>
    simp only [step]
    -- notifyNewFiles never touches the cache
    have hc : ∀ (fs : List FileView) (acc : State × List Addr),
        (fs.foldl (fun (acc : State × List Addr) f =>
          match matchFilename cfg f with
          | none => acc
          | some addr =>
            match mapLookup acc.1.addressToFileMap addr with
            | some existing =>
              if existing != f.name then ({ acc.1 with addressToFileMap := mapSet acc.1.addressToFileMap addr f.name }, acc.2) else acc
            | none =>
              ({ acc.1 with addressToFileMap := mapSet acc.1.addressToFileMap addr f.name, addressList := acc.1.addressList ++ [addr] },
               acc.2 ++ [addr])) acc).1.cache = acc.1.cache := by
      intro fs
      induction fs with
      | nil => intro acc; rfl
      | cons f t ih =>
        intro acc
        simp only [List.foldl_cons]
        rw [ih]
        split
        · rfl
        · split
          · split <;> rfl
          · rfl
    intro a key hmem
    have : (notifyNewFiles cfg st files).1.cache = st.cache := hc files (st, [])
    rw [this] at hmem
    exact hinv a key hmem
  | get addr load => exact (getWalletFile_sound derive st addr load hinv).1
  | evict keep =>
    intro a key hmem
    simp only [step, List.mem_filter] at hmem
    exact hinv a key hmem.1

/-- **Safety over every history.** After any sequence of discovery, requests (with arbitrary file contents) and
    cache evictions, a request for `addr` that succeeds returns a key deriving exactly `addr`. -/
theorem sign_only_owner (cfg : Config) (derive : Bytes → Addr) (ops : List Op) (addr : Addr)
    (load : String → Outcome Bytes) (key : Bytes)
    (h : (getWalletFile derive (ops.foldl (step cfg derive) State.init) addr load).2 = .ok key) :
    derive key = addr := by
  have hinv : CacheInv derive (ops.foldl (step cfg derive) State.init) := by
    have : ∀ (ops : List Op) (st : State), CacheInv derive st → CacheInv derive (ops.foldl (step cfg derive) st) := by
      intro ops
      induction ops with
      | nil => intro st h; exact h
      | cons op t ih => intro st h; exact ih _ (step_inv cfg derive st op h)
    exact this ops State.init (init_inv derive)
  exact (getWalletFile_sound derive _ addr load hinv).2 key h

end FFS.Props.C08
