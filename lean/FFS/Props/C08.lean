/-
  Property C08 — the filesystem wallet only signs with the key that owns the requested address.
  Model: FFS.Model.FsWallet (sequential; mirrors pkg/fswallet/fswallet.go). The load function (files, passwords,
  metadata, keystore decryption) and the key→address derivation are arbitrary parameters: the safety theorems hold
  whatever key material the file named for an address contains.
-/
import FFS.Model.FsWallet
namespace FFS.Props.C08
open FFS FFS.Model.FsWallet

/-- the regenerated guard facts: negative extension match returns; derived address compared before caching -/
theorem guards : Gen.FsWalletFacts.extMismatchReturns = true ∧ Gen.FsWalletFacts.addressChecked = true := by decide

/-- **Regenerated tie for "directories are never accounts".** The naming rule itself (`matchFilename`) rejects a directory
    before it looks at the name, and every file that reaches `notifyNewFiles` — from a `Refresh` scan or from the file
    listener — goes through that rule; the model applies the rule to files only (`accounts_exact`). -/
theorem dir_guard : Gen.FsWalletFacts.dirsNeverMatch = true ∧ Gen.FsWalletFacts.notifyAppliesRule = true := by decide

/-- every cached wallet file's key derives the address it is cached under -/
def CacheInv (derive : Bytes → Addr) (st : State) : Prop :=
  ∀ a key, (a, key) ∈ st.cache → derive key = a

theorem init_inv (derive : Bytes → Addr) : CacheInv derive State.init := by
  intro a key h; simp [State.init] at h

/-- `GetWalletFile` returns only a key that derives the requested address — cached or freshly loaded — and
    keeps the invariant. -/
theorem getWalletFile_sound (derive : Bytes → Addr) (st : State) (addr : Addr) (load : String → Outcome Bytes)
    (hinv : CacheInv derive st) :
    CacheInv derive (getWalletFile derive st addr load).1 ∧
    ∀ key, (getWalletFile derive st addr load).2 = .ok key → derive key = addr := by
  unfold getWalletFile
  split
  · rename_i a' key hfind
    refine ⟨hinv, ?_⟩
    intro k hk
    injection hk with hk; subst hk
    have hmem := List.mem_of_find?_eq_some hfind
    have hp := List.find?_some hfind
    simp only [beq_iff_eq] at hp
    have := hinv _ _ hmem
    rw [this]; exact hp
  · split
    · exact ⟨hinv, by intro k hk; cases hk⟩
    · split
      · rename_i primary _ key hload
        simp only [guards.2, Bool.true_and]
        split
        · exact ⟨hinv, by intro k hk; cases hk⟩
        · rename_i hne
          have heq : derive key = addr := by
            simpa [bne_iff_ne] using hne
          constructor
          · intro a k hmem
            simp only [List.mem_cons] at hmem
            rcases hmem with h | h
            · injection h with h1 h2; subst h1 h2; exact heq
            · exact hinv a k h
          · intro k hk; injection hk with hk; subst hk; exact heq
      · exact ⟨hinv, by intro k hk; cases hk⟩
      · exact ⟨hinv, by intro k hk; cases hk⟩

/-- every operation preserves the invariant (discovery and eviction never add cache entries) -/
theorem step_inv (cfg : Config) (derive : Bytes → Addr) (st : State) (op : Op) (hinv : CacheInv derive st) :
    CacheInv derive (step cfg derive st op) := by
  cases op with
  | notify files =>
    simp only [step]
    -- notifyNewFiles never touches the cache
    have hc : ∀ (fs : List FileView) (acc : State × List Addr),
        (fs.foldl (fun (acc : State × List Addr) f =>
          match matchFilename cfg f with
          | none => acc
          | some addr =>
            match mapLookup acc.1.addressToFileMap addr with
            | some existing =>
              if existing != f.name then ({ acc.1 with addressToFileMap := mapSet acc.1.addressToFileMap addr f.name }, acc.2) else acc
            | none =>
              ({ acc.1 with addressToFileMap := mapSet acc.1.addressToFileMap addr f.name, addressList := acc.1.addressList ++ [addr] },
               acc.2 ++ [addr])) acc).1.cache = acc.1.cache := by
      intro fs
      induction fs with
      | nil => intro acc; rfl
      | cons f t ih =>
        intro acc
        simp only [List.foldl_cons]
        rw [ih]
        split
        · rfl
        · split
          · split <;> rfl
          · rfl
    intro a key hmem
    have : (notifyNewFiles cfg st files).1.cache = st.cache := hc files (st, [])
    rw [this] at hmem
    exact hinv a key hmem
  | get addr load => exact (getWalletFile_sound derive st addr load hinv).1
  | evict keep =>
    intro a key hmem
    simp only [step, List.mem_filter] at hmem
    exact hinv a key hmem.1

/-- **Safety over every history.** After any sequence of discovery, requests (with arbitrary file contents) and
    cache evictions, a request for `addr` that succeeds returns a key deriving exactly `addr`. -/
theorem sign_only_owner (cfg : Config) (derive : Bytes → Addr) (ops : List Op) (addr : Addr)
    (load : String → Outcome Bytes) (key : Bytes)
    (h : (getWalletFile derive (ops.foldl (step cfg derive) State.init) addr load).2 = .ok key) :
    derive key = addr := by
  have hinv : CacheInv derive (ops.foldl (step cfg derive) State.init) := by
    have : ∀ (ops : List Op) (st : State), CacheInv derive st → CacheInv derive (ops.foldl (step cfg derive) st) := by
      intro ops
      induction ops with
      | nil => intro st h; exact h
      | cons op t ih => intro st h; exact ih _ (step_inv cfg derive st op h)
    exact this ops State.init (init_inv derive)
  exact (getWalletFile_sound derive _ addr load hinv).2 key h

/-! ### the account list -/

/-- the discovery invariant: the list has no duplicates and holds exactly the addresses of the file map -/
def ListInv (st : State) : Prop :=
  st.addressList.Nodup ∧ ∀ a, a ∈ st.addressList ↔ (mapLookup st.addressToFileMap a).isSome = true

theorem mapLookup_mapSet (m : List (Addr × String)) (a : Addr) (v : String) (a' : Addr) :
    mapLookup (mapSet m a v) a' = if a = a' then some v else mapLookup m a' := by
  unfold mapLookup mapSet
  rw [List.find?_cons]
  by_cases e : a = a'
  · subst e; simp
  · have e' : ((a, v).1 == a') = false := by simpa using e
    rw [e', if_neg e]
    congr 1
    induction m with
    | nil => rfl
    | cons q t ih =>
      rw [List.filter_cons]
      by_cases hq : q.1 = a
      · have h1 : (q.1 != a) = false := by simp [hq]
        have h2 : (q.1 == a') = false := by rw [hq]; simpa using e
        rw [h1, List.find?_cons, h2]
        simpa using ih
      · have h1 : (q.1 != a) = true := by simpa using hq
        rw [h1]
        simp only [if_true, List.find?_cons]
        split
        · rfl
        · exact ih

/-- one file of a discovery pass -/
def notifyOne (cfg : Config) (acc : State × List Addr) (f : FileView) : State × List Addr :=
  match matchFilename cfg f with
  | none => acc
  | some addr =>
    match mapLookup acc.1.addressToFileMap addr with
    | some existing =>
      if existing != f.name then ({ acc.1 with addressToFileMap := mapSet acc.1.addressToFileMap addr f.name }, acc.2) else acc
    | none =>
      ({ acc.1 with addressToFileMap := mapSet acc.1.addressToFileMap addr f.name, addressList := acc.1.addressList ++ [addr] },
       acc.2 ++ [addr])

theorem notifyNewFiles_eq (cfg : Config) (st : State) (files : List FileView) :
    notifyNewFiles cfg st files = files.foldl (notifyOne cfg) (st, []) := by
  unfold notifyNewFiles
  congr 1

theorem notifyOne_inv (cfg : Config) (acc : State × List Addr) (f : FileView) (h : ListInv acc.1) :
    ListInv (notifyOne cfg acc f).1 ∧
    (∀ a, a ∈ acc.1.addressList → a ∈ (notifyOne cfg acc f).1.addressList) ∧
    (∀ a, matchFilename cfg f = some a → a ∈ (notifyOne cfg acc f).1.addressList) ∧
    (∀ a, a ∈ (notifyOne cfg acc f).1.addressList → a ∈ acc.1.addressList ∨ matchFilename cfg f = some a) := by
  unfold notifyOne
  cases hm : matchFilename cfg f with
  | none => exact ⟨h, fun a ha => ha, (by intro a e; cases e), fun a ha => Or.inl ha⟩
  | some addr =>
    simp only []
    cases hl : mapLookup acc.1.addressToFileMap addr with
    | some existing =>
      have hin : addr ∈ acc.1.addressList := (h.2 addr).mpr (by simp [hl])
      simp only []
      split
      · refine ⟨⟨h.1, ?_⟩, fun a ha => ha, ?_, fun a ha => Or.inl ha⟩
        · intro a
          simp only []
          rw [mapLookup_mapSet]
          by_cases e : addr = a
          · subst e; simp [hin]
          · simp [e, h.2 a]
        · intro a e; injection e with e; subst e; exact hin
      · exact ⟨h, fun a ha => ha, (by intro a e; injection e with e; subst e; exact hin), fun a ha => Or.inl ha⟩
    | none =>
      have hnin : addr ∉ acc.1.addressList := fun hc => by
        have := (h.2 addr).mp hc; simp [hl] at this
      simp only []
      refine ⟨⟨?_, ?_⟩, ?_, ?_, ?_⟩
      · rw [List.nodup_append]
        refine ⟨h.1, by simp, ?_⟩
        intro x hx y hy e
        simp only [List.mem_singleton] at hy
        subst hy; subst e; exact hnin hx
      · intro a
        rw [mapLookup_mapSet]
        by_cases e : addr = a
        · subst e; simp
        · have e' : a ≠ addr := fun x => e x.symm
          simp [e, e', h.2 a]
      · intro a ha; exact List.mem_append_left _ ha
      · intro a e; injection e with e; subst e; simp
      · intro a ha
        rcases List.mem_append.mp ha with h' | h'
        · exact Or.inl h'
        · simp only [List.mem_singleton] at h'; subst h'; exact Or.inr rfl

theorem fold_inv (cfg : Config) : ∀ (files : List FileView) (acc : State × List Addr), ListInv acc.1 →
    ListInv (files.foldl (notifyOne cfg) acc).1 ∧
    (∀ a, a ∈ acc.1.addressList → a ∈ (files.foldl (notifyOne cfg) acc).1.addressList) ∧
    (∀ f ∈ files, ∀ a, matchFilename cfg f = some a → a ∈ (files.foldl (notifyOne cfg) acc).1.addressList) ∧
    (∀ a, a ∈ (files.foldl (notifyOne cfg) acc).1.addressList → a ∈ acc.1.addressList ∨ ∃ f ∈ files, matchFilename cfg f = some a) := by
  intro files
  induction files with
  | nil => intro acc h; exact ⟨h, fun a ha => ha, (by intro f hf; cases hf), fun a ha => Or.inl ha⟩
  | cons f fs ih =>
    intro acc h
    obtain ⟨h1, h2, h3, h4⟩ := notifyOne_inv cfg acc f h
    obtain ⟨i1, i2, i3, i4⟩ := ih (notifyOne cfg acc f) h1
    simp only [List.foldl_cons]
    refine ⟨i1, fun a ha => i2 a (h2 a ha), ?_, ?_⟩
    · intro g hg a hm
      rcases List.mem_cons.mp hg with rfl | hg
      · exact i2 a (h3 a hm)
      · exact i3 g hg a hm
    · intro a ha
      rcases i4 a ha with h' | ⟨g, hg, hm⟩
      · rcases h4 a h' with h'' | h''
        · exact Or.inl h''
        · exact Or.inr ⟨f, by simp, h''⟩
      · exact Or.inr ⟨g, by simp [hg], hm⟩

/-- **The account list is exactly the set of addresses whose file names match the naming rule, without duplicates**:
    after a discovery pass over `files` from the empty wallet, an address is listed iff some file of the pass
    matches to it, and none is listed twice. (`matchFilename` is the configured rule: extension with / without 0x,
    or the regular expression's capture, directories never.) -/
theorem accounts_exact (cfg : Config) (files : List FileView) :
    let st := (notifyNewFiles cfg State.init files).1
    st.addressList.Nodup ∧ ∀ a, a ∈ st.addressList ↔ ∃ f ∈ files, matchFilename cfg f = some a := by
  have hinit : ListInv State.init := ⟨by simp [State.init], by intro a; simp [State.init, mapLookup]⟩
  obtain ⟨i1, _, i3, i4⟩ := fold_inv cfg files (State.init, []) hinit
  rw [notifyNewFiles_eq]
  refine ⟨i1.1, fun a => ⟨fun ha => ?_, fun ⟨f, hf, hm⟩ => i3 f hf a hm⟩⟩
  rcases i4 a ha with h | h
  · simp [State.init] at h
  · exact h

/-- later passes only add: nothing listed is dropped, and the list stays duplicate-free -/
theorem accounts_monotone (cfg : Config) (st : State) (files : List FileView) (h : ListInv st) :
    ListInv (notifyNewFiles cfg st files).1 ∧ ∀ a, a ∈ st.addressList → a ∈ (notifyNewFiles cfg st files).1.addressList := by
  obtain ⟨i1, i2, _, _⟩ := fold_inv cfg files (st, []) h
  rw [notifyNewFiles_eq]
  exact ⟨i1, i2⟩

section added
open FFS.Model.Keystore

/-! ### availability: a request succeeds whenever the key file and a usable password are present -/

/-- the password `loadWalletFile` ends up using: the per-key / metadata-referenced file (trimmed when configured) when
    it can be read, else the default password file -/
def usablePassword (cfg : Config) (fs : Fs) (passwordFilename : String) : Option Bytes :=
  match (if passwordFilename != "" then
      (fsRead fs passwordFilename).map fun p => if cfg.passwordTrimSpace then trimSpace p else p else none) with
  | some p => some p
  | none => if cfg.defaultPasswordFile == "" then none else fsRead fs cfg.defaultPasswordFile

/-- **Availability of loading.** If the file named for the address exists, the configured rule resolves it to a key
    file that exists, a usable password is present (per-key file, metadata-referenced file or default file, trimmed
    when so configured) and the key file decrypts under it, then loading succeeds with that key. -/
theorem load_available (cfg : Config) (fs : Fs) (ks : Bytes → KsFile) (metaOf : String → MetaResult)
    (addr : Addr) (primary : String) (b kb password key : Bytes) (kf pf : String)
    (hprim : fsRead fs primary = some b)
    (hfiles : keyAndPasswordFiles cfg addr primary (metaOf primary) = some (kf, pf))
    (hkey : (if kf != primary then fsRead fs kf else some b) = some kb)
    (hpw : usablePassword cfg fs pf = some password)
    (hread : readWalletFile (ks kb) password = .ok key) :
    loadWalletFile cfg fs ks metaOf addr primary = .ok key := by
  unfold usablePassword at hpw
  unfold loadWalletFile
  rw [hprim]
  simp only []
  rw [hfiles]
  simp only []
  rw [hkey]
  simp only []
  generalize (if (pf != "") = true then
      Option.map (fun p => if cfg.passwordTrimSpace = true then trimSpace p else p) (fsRead fs pf) else none) = e at hpw ⊢
  cases e with
  | some p =>
    simp only [] at hpw ⊢
    injection hpw with hpw
    subst hpw
    rw [hread]
  | none =>
    simp only [] at hpw ⊢
    rw [hpw]
    simp only []
    rw [hread]

/-- **Availability of a request.** For an address the wallet has discovered (it is in the file map) and has not
    cached, a request returns the key whenever loading is available as above and the key derives the address. -/
theorem request_available (derive : Bytes → Addr) (st : State) (addr : Addr) (load : String → Outcome Bytes)
    (primary : String) (key : Bytes)
    (hmiss : st.cache.find? (·.1 == addr) = none)
    (hmap : mapLookup st.addressToFileMap addr = some primary)
    (hload : load primary = .ok key) (hown : derive key = addr) :
    (getWalletFile derive st addr load).2 = .ok key := by
  unfold getWalletFile
  rw [hmiss]
  simp only [hmap, hload]
  simp [hown]


end added

/-! ### non-vacuity: concrete inputs on which the hypotheses hold (evaluated by the kernel) -/
open FFS.Model.FsWallet
def exCfg : Config := ⟨"/k", ".key.json", false, false, ".pwd", "", true, "", "auto"⟩
def exAddr : Addr := List.replicate 19 0 ++ [1]
def exFile : FileView := { name := "0000000000000000000000000000000000000001.key.json", isDir := false, regexCapture := none }
/-- non-vacuity of `sign_only_owner`: after discovering one matching file, a request whose file holds a key deriving
    the address succeeds (and one whose file holds another key does not) -/
example : ((getWalletFile (fun k => k) ([Op.notify [exFile]].foldl (step exCfg (fun k => k)) State.init) exAddr
    (fun _ => .ok exAddr)).2 == .ok exAddr) = true := by decide +kernel
example : ((getWalletFile (fun k => k) ([Op.notify [exFile]].foldl (step exCfg (fun k => k)) State.init) exAddr
    (fun _ => .ok [7])).2 == .err) = true := by decide +kernel

end FFS.Props.C08
