/-
  Property C14 — typed-data hashing is total on arbitrary documents and never misreads a number.
  Model: FFS.Model.Eip712 (pkg/eip712/typed_data_v4.go) over the ABI type parser and elementary encoders.
  * `encodeTypedDataV4_total` : for every document — any type set (cyclic, with null members, with unparseable
        member types), any domain and message values — the model never panics once the fuel covers the size of the
        values (`docNeed`, which the driver supplies): out-of-fuel is the model's only other panic, so this is also
        the proof that the recursion over the document terminates.
  * `getInteger_same`         : a JSON number and a string with the same text are read identically (the encoder sees
        the literal, `useNumber`), and whatever integer is accepted is the one the text denotes (C19.bigint_sound).
  JSON decoding into `TypedData` is encoding/json's (shared glue in the harness).
-/
import FFS.Model.Eip712
import FFS.Props.C13
import FFS.Props.C19
namespace FFS.Props.C14
open FFS FFS.Model.Abi FFS.Model.Eip712 FFS.Gen.Eip712Facts

theorem facts : nilMemberGuard = true ∧ useNumber = true := by decide

/-! ### how much fuel a value needs -/

theorem need_ge (M : Nat) : ∀ v, 3 ≤ need M v
  | .obj _ vals => by rw [need]; omega
  | .arr xs => by
    rw [need]
    have : 3 ≤ needMax M xs := by
      cases xs with
      | nil => simp [needMax]
      | cons x xs => rw [needMax]; have := need_ge M x; omega
    omega
  | .null => by simp [need]
  | .bool _ => by simp [need]
  | .num _ _ _ => by simp [need]
  | .str _ _ _ => by simp [need]
  | .int _ => by simp [need]
  | .float _ _ => by simp [need]
  | .goBytes _ => by simp [need]

theorem needMax_ge (M : Nat) : ∀ xs, 3 ≤ needMax M xs
  | [] => by simp [needMax]
  | x :: xs => by rw [needMax]; have := need_ge M x; omega

theorem need_le_needMax (M : Nat) : ∀ (xs : List Ext) (x : Ext), x ∈ xs → need M x ≤ needMax M xs
  | [], x, h => by cases h
  | y :: ys, x, h => by
    rw [needMax]
    rcases List.mem_cons.mp h with rfl | h
    · omega
    · have := need_le_needMax M ys x h; omega

theorem lookupKey_mem (keys : List String) (vals : List Ext) (k : String) (x : Ext)
    (h : lookupKey keys vals k = some x) : x ∈ vals := by
  unfold lookupKey at h
  simp only [Option.map_eq_some_iff] at h
  obtain ⟨p, hp, rfl⟩ := h
  have := List.mem_of_find?_eq_some hp
  have := List.mem_reverse.mp this
  exact (List.of_mem_zip this).2

theorem need_lookup (M : Nat) (keys : List String) (vals : List Ext) (k : String) :
    need M ((lookupKey keys vals k).getD .null) ≤ needMax M vals := by
  cases h : lookupKey keys vals k with
  | none => simp [need]; exact needMax_ge M vals
  | some x => simpa using need_le_needMax M vals x (lookupKey_mem keys vals k x h)

/-! ### the leaves never panic -/

theorem table_widths : Gen.AbiTypeTable.table.all (fun i => decide (i.defaultM ≤ 256) && decide (i.mMax ≤ 256)) = true := by decide

theorem elementaryOf_width (info : ElemInfo) (hi : info ∈ Gen.AbiTypeTable.table) (suffix : List Char) (i' : ElemInfo) (sfx : String) (m n : Nat)
    (h : elementaryOf info suffix = .ok (.elem i' sfx m n)) : m ≤ 256 := by
  have hw := List.all_eq_true.mp table_widths info hi
  simp only [Bool.and_eq_true, decide_eq_true_eq] at hw
  unfold elementaryOf at h
  split at h
  · split at h
    · injection h with h; injection h with _ _ h3 _; omega
    · cases h
  · split at h
    · cases h
    · split at h
      · rename_i m' hm
        injection h with h; injection h with _ _ h3 _
        have := (C13.parseM_sound hm).2.2.1
        omega
      · cases h
  · split at h
    · injection h with h; injection h with _ _ h3 _; omega
    · split at h
      · rename_i m' hm
        injection h with h; injection h with _ _ h3 _
        have := (C13.parseM_sound hm).2.2.1
        omega
      · cases h
  · split at h
    · cases h
    · split at h
      · rename_i m' n' hmn
        injection h with h; injection h with _ _ h3 _
        unfold parseMxN at hmn
        simp only [] at hmn
        split at hmn
        · cases hmn
        · split at hmn
          · cases hmn
          · rename_i m'' hm
            split at hmn
            · cases hmn
            · injection hmn with hmn; injection hmn with h1 _
              have := (C13.parseM_sound hm).2.2.1
              omega
      · cases h

theorem parseArrays_not_elem : ∀ (fuel : Nat) (t : Ty) (s : List Char) (i : ElemInfo) (sfx : String) (m n : Nat),
    parseArrays fuel t s ≠ .ok (.elem i sfx m n) := by
  intro fuel
  induction fuel with
  | zero => intro t s i sfx m n h; simp [parseArrays] at h
  | succ fuel ih =>
    intro t s i sfx m n h
    unfold parseArrays at h
    split at h
    · split at h
      · cases h
      · split at h
        · rename_i a ha
          split at h
          · injection h with h
            subst h
            unfold arrayComponent at ha
            split at ha
            · cases ha
            · split at ha <;> cases ha
          · exact ih _ _ _ _ _ _ h
        · cases h
        · cases h
    · cases h

/-- an elementary component produced by the type parser has a width of at most 256 bits -/
theorem parseParam_elem_width (name type : String) (ix : Bool) (it : String) (comps : List Param)
    (i : ElemInfo) (sfx : String) (m n : Nat) (h : parseParam (.mk name type ix it comps) = .ok (.elem i sfx m n)) : m ≤ 256 := by
  unfold parseParam at h
  simp only [] at h
  split at h
  · rename_i tc hbase
    split at h
    · injection h with h
      subst h
      split at hbase
      · split at hbase
        · cases hbase
        · split at hbase <;> cases hbase
      · unfold parseElementary at hbase
        split at hbase
        · cases hbase
        · rename_i info hfind
          exact elementaryOf_width info (List.mem_of_find?_eq_some hfind) _ _ _ _ _ hbase
    · exact absurd h (parseArrays_not_elem _ _ _ _ _ _ _)
  · cases h
  · cases h

theorem getInteger_ne_panic (v : Ext) : getInteger v ≠ .panic := by
  cases v <;> simp [getInteger, Model.EthTypes.bigIntegerFromString]
  all_goals (repeat' split) <;> simp

theorem map_ne_panic {α β : Type} (f : α → β) (x : Outcome α) (h : x ≠ .panic) : x.map f ≠ .panic := by
  cases x <;> simp_all [Outcome.map]

theorem getBool_ne_panic (v : Ext) : getBool v ≠ .panic := by cases v <;> simp [getBool]
theorem getString_ne_panic (v : Ext) : getString v ≠ .panic := by cases v <;> simp [getString]
theorem getBytes_ne_panic (v : Ext) : getBytes v ≠ .panic := by
  cases v <;> simp [getBytes] <;> split <;> simp

theorem readElementary_ne_panic (info : ElemInfo) (v : Ext) : readElementary info v ≠ .panic := by
  unfold readElementary
  split
  · exact map_ne_panic _ _ (getInteger_ne_panic v)
  · split
    · exact map_ne_panic _ _ (getBytes_ne_panic v)
    · split
      · exact map_ne_panic _ _ (getBool_ne_panic v)
      · split
        · exact map_ne_panic _ _ (getBytes_ne_panic v)
        · split
          · exact map_ne_panic _ _ (getString_ne_panic v)
          · simp

theorem bitLen_ge (n m : Nat) (h : bitLen n ≤ m) : n < 2 ^ m := by
  unfold bitLen at h
  split at h
  · rename_i h0; subst h0; exact Nat.pow_pos (by decide)
  · rename_i hn
    exact (Nat.log2_lt hn).mp (by omega)

theorem encodeElem_ne_panic (info : ElemInfo) (m : Nat) (cv : CV) (hm : m ≤ 256) : encodeElem info m cv ≠ .panic := by
  unfold encodeElem
  split
  · split <;> simp
  · rename_i z _
    split
    · simp
    · split
      · simp
      · rename_i hbl
        have hlt : z.toNat < 2 ^ m := bitLen_ge _ _ (by omega)
        have hfill : fillBytes? z.toNat 32 = .ok (toBE 32 z.toNat) := by
          have h1 : 2 ^ m ≤ 2 ^ 256 := Nat.pow_le_pow_right (by decide) hm
          have h2 : (256 : Nat) ^ 32 = 2 ^ 256 := by rw [show (256 : Nat) = 2 ^ 8 from rfl, ← Nat.pow_mul]
          have : z.toNat < 256 ^ 32 := by omega
          unfold fillBytes?
          rw [if_pos this]
        rw [hfill]
        simp [Outcome.bind]
  · split
    · simp
    · split <;> simp
  · simp
  · simp

theorem abiEncode_ne_panic (info : ElemInfo) (m : Nat) (v : Ext) (hm : m ≤ 256) : abiEncode info m v ≠ .panic := by
  unfold abiEncode
  have h1 := readElementary_ne_panic info v
  split
  · rename_i cv _
    have h2 := encodeElem_ne_panic info m cv hm
    split
    · simp
    · simp
    · rename_i h; exact absurd h h2
  · simp
  · rename_i h; exact absurd h h1

theorem encodeType_ne_panic (typeName : String) (allTypes : TypeSet) : encodeType typeName allTypes ≠ .panic := by
  unfold encodeType
  split
  · simp only [facts.1, if_true]
    split <;> simp
  · simp

theorem find_members_le (ts : TypeSet) (n : String) (p : String × TypeDef) (h : ts.find? (·.1 == n) = some p) :
    (p.2.getD []).length ≤ maxMembers ts := by
  induction ts with
  | nil => simp at h
  | cons q r ih =>
    obtain ⟨qn, qt⟩ := q
    rw [List.find?_cons] at h
    rw [maxMembers]
    split at h
    · injection h with h; subst h; simp; omega
    · have := ih h; omega

theorem encodeType_members (typeName : String) (allTypes : TypeSet) (members : List Member) (enc : String)
    (h : encodeType typeName allTypes = .ok (members, enc)) : members.length ≤ maxMembers allTypes := by
  unfold encodeType at h
  split at h
  · rename_i ms hl
    simp only [facts.1, if_true] at h
    split at h
    · cases h
    · injection h with h; injection h with h1 _
      subst h1
      unfold tsLookup at hl
      simp only [Option.map_eq_some_iff] at hl
      obtain ⟨p, hp, hp2⟩ := hl
      have := find_members_le allTypes typeName p hp
      rw [hp2] at this
      simp only [Option.getD_some] at this
      exact Nat.le_trans (List.length_filterMap_le _ _) this
  · cases h

/-! ### the recursion over the document -/

/-- the six mutually recursive functions do not panic at fuel `f` on values the fuel covers -/
structure Safe (types : TypeSet) (f : Nat) : Prop where
  elem : ∀ t v, need (maxMembers types) v ≤ f → encodeElement f t v types ≠ .panic
  strct : ∀ t v, need (maxMembers types) v ≤ f + 1 → hashStruct f t v types ≠ .panic
  data : ∀ t v, need (maxMembers types) v ≤ f + 2 → Model.Eip712.encodeData f t v types ≠ .panic
  members : ∀ ms keys vals, ms.length + needMax (maxMembers types) vals ≤ f → encodeMembers f ms keys vals types ≠ .panic
  array : ∀ t v, need (maxMembers types) v ≤ f + 1 → hashArray f t types v ≠ .panic
  elems : ∀ t xs, xs.length + needMax (maxMembers types) xs ≤ f → hashElems f t xs types ≠ .panic

theorem safe_zero (types : TypeSet) : Safe types 0 := by
  refine ⟨?_, ?_, ?_, ?_, ?_, ?_⟩
  · intro t v h; have := need_ge (maxMembers types) v; omega
  · intro t v h; have := need_ge (maxMembers types) v; omega
  · intro t v h; have := need_ge (maxMembers types) v; omega
  · intro ms keys vals h; have := needMax_ge (maxMembers types) vals; omega
  · intro t v h; have := need_ge (maxMembers types) v; omega
  · intro t xs h; have := needMax_ge (maxMembers types) xs; omega

theorem safe_succ (types : TypeSet) (f : Nat) (ih : Safe types f) : Safe types (f + 1) := by
  refine ⟨?_, ?_, ?_, ?_, ?_, ?_⟩
  · -- encodeElement
    intro t v h
    rw [encodeElement]
    split
    · exact ih.array t v (by omega)
    · split
      · exact ih.strct t v (by omega)
      · split
        · rename_i info suffix m n hp
          have hm : m ≤ 256 := parseParam_elem_width _ _ _ _ _ _ _ _ _ hp
          split
          · exact abiEncode_ne_panic info m v hm
          · split
            · split
              · exact abiEncode_ne_panic info m v hm
              · have := getBytes_ne_panic v
                split
                · simp
                · simp
                · rename_i hh; exact absurd hh this
            · split
              · have := getString_ne_panic v
                split
                · simp
                · simp
                · rename_i hh; exact absurd hh this
              · simp
        · simp
        · simp
        · rename_i hh
          exact absurd hh (C13.parse_total _)
  · -- hashStruct
    intro t v h
    rw [hashStruct]
    have := ih.data t v (by omega)
    split
    · simp
    · simp
    · simp
    · rename_i hh; exact absurd hh this
  · -- encodeData
    intro t v h
    rw [Model.Eip712.encodeData]
    have ht := encodeType_ne_panic t types
    split
    · rename_i members enc hte
      have hlen := encodeType_members t types members enc hte
      split
      · simp
      · rename_i keys vals
        rw [need] at h
        have := ih.members members keys vals (by omega)
        split
        · simp
        · simp
        · rename_i hh; exact absurd hh this
      · simp
    · simp
    · rename_i hh; exact absurd hh ht
  · -- encodeMembers
    intro ms keys vals h
    cases ms with
    | nil => simp [encodeMembers]
    | cons m ms =>
      rw [encodeMembers]
      have hx := need_lookup (maxMembers types) keys vals m.name
      have h1 := ih.elem m.type ((lookupKey keys vals m.name).getD .null) (by simp at h; omega)
      have h2 := ih.members ms keys vals (by simp at h; omega)
      split
      · split
        · simp
        · simp
        · rename_i hh; exact absurd hh h2
      · simp
      · rename_i hh; exact absurd hh h1
  · -- hashArray
    intro t v h
    rw [hashArray]
    simp only []
    split
    · simp
    · split
      · simp
      · split
        · rename_i openPos _ _ _ va
          rw [need] at h
          have := ih.elems (String.ofList (t.toList.take openPos)) va (by omega)
          have hm : ∀ (o : Outcome Bytes), o ≠ .panic →
              (match o with | .ok b => Outcome.ok (keccak b) | .err => .err | .panic => .panic) ≠ .panic := by
            intro o ho; cases o <;> simp_all
          repeat' split
          all_goals first
            | exact hm _ this
            | (rename_i hh; exact absurd hh this)
            | simp
        · simp
  · -- hashElems
    intro t xs h
    cases xs with
    | nil => simp [hashElems]
    | cons x xs =>
      rw [hashElems]
      have hx : need (maxMembers types) x ≤ needMax (maxMembers types) (x :: xs) := need_le_needMax _ _ _ (by simp)
      have hxs : needMax (maxMembers types) xs ≤ needMax (maxMembers types) (x :: xs) := by
        rw [needMax.eq_2]; omega
      have h1 := ih.elem t x (by simp at h; omega)
      have h2 := ih.elems t xs (by simp at h; omega)
      split
      · split
        · simp
        · simp
        · rename_i hh; exact absurd hh h2
      · simp
      · rename_i hh; exact absurd hh h1

theorem safe_all (types : TypeSet) : ∀ f, Safe types f
  | 0 => safe_zero types
  | f + 1 => safe_succ types f (safe_all types f)

/-- **Totality.** Hashing any document never panics (and the recursion over it terminates within `docNeed`). -/
theorem encodeTypedDataV4_total (p : TypedData) (fuel : Nat) (hf : docNeed p ≤ fuel) :
    encodeTypedDataV4 fuel p ≠ .panic := by
  unfold encodeTypedDataV4
  simp only []
  have hs := safe_all (effectiveTypes p) fuel
  have h1 := hs.strct EIP712Domain (p.domain.getD (.obj [] [])) (by unfold docNeed at hf; omega)
  have h2 := hs.strct p.primaryType (p.message.getD .null) (by unfold docNeed at hf; omega)
  unfold effectiveTypes at h1 h2
  split
  · simp
  · split
    · split
      · split
        · simp
        · simp
        · rename_i hh; exact absurd hh h2
      · simp
    · simp
    · rename_i hh; exact absurd hh h1

/-- **A JSON number and a string with the same text are read as the same integer** (the literal reaches the reader:
    `useNumber`), so `1000`, `"1000"` and `"0x3e8"` all go through `bigIntegerFromString`, whose accepted results are
    exactly what the text denotes (C19.bigint_sound). -/
theorem getInteger_same (lit : String) (fl rat : Model.EthTypes.ExtNum) :
    getInteger (.num lit fl rat) = getInteger (.str lit fl rat) := rfl

/-! ### an integer member is hashed as exactly the integer that was read, or rejected -/

/-- **Never a different value.** If an integer member (uint<M>, address-width or int<M> reader) is encoded at all, the
    32-byte word that goes into the hash is the unsigned / two's-complement encoding of exactly the integer the reader
    produced from the input, and that integer lies in the range of the declared width — an out-of-range or inexact
    input yields an error instead (`getInteger` itself only accepts what the text denotes: C19.bigint_sound). -/
theorem int_member_exact (info : ElemInfo) (m : Nat) (v : Ext) (w : Bytes)
    (hr : info.reader = "getIntegerFromInterface") (hm : m ≤ 256)
    (hc : codecOf info.enc = .uint ∨ (codecOf info.enc = .sint ∧ 8 ≤ m ∧ m % 8 = 0))
    (h : abiEncode info m v = .ok w) :
    ∃ z : Int, getInteger v = .ok z ∧
      ((codecOf info.enc = .uint ∧ 0 ≤ z ∧ z < 2 ^ m ∧ w = toBE 32 z.toNat) ∨
       (codecOf info.enc = .sint ∧ -(2 : Int) ^ (m - 1) ≤ z ∧ z < 2 ^ (m - 1) ∧ w = toBE 32 (z % 2 ^ 256).toNat)) := by
  unfold abiEncode at h
  cases hre : readElementary info v with
  | err => rw [hre] at h; cases h
  | panic => rw [hre] at h; cases h
  | ok cv =>
    rw [hre] at h
    simp only [] at h
    unfold readElementary at hre
    rw [if_pos hr] at hre
    cases hg : getInteger v with
    | err => rw [hg] at hre; cases hre
    | panic => rw [hg] at hre; cases hre
    | ok z =>
      rw [hg] at hre
      simp only [Outcome.map] at hre
      injection hre with hre
      subst hre
      refine ⟨z, rfl, ?_⟩
      cases he : encodeElem info m (.int z) with
      | err => rw [he] at h; cases h
      | panic => rw [he] at h; cases h
      | ok p =>
        rw [he] at h
        obtain ⟨d, dyn⟩ := p
        simp only [] at h
        injection h with h
        subst h
        unfold encodeElem at he
        rcases hc with hc | ⟨hc, h8, hmod⟩
        · left
          rw [hc] at he
          simp only [] at he
          by_cases hneg : z < 0
          · rw [if_pos hneg] at he; cases he
          · rw [if_neg hneg] at he
            by_cases hbl : bitLen z.toNat > m
            · rw [if_pos hbl] at he; cases he
            · rw [if_neg hbl] at he
              have hlt : z.toNat < 2 ^ m := bitLen_ge _ _ (by omega)
              have hfill : fillBytes? z.toNat 32 = .ok (toBE 32 z.toNat) := by
                have h1 : 2 ^ m ≤ 2 ^ 256 := Nat.pow_le_pow_right (by decide) hm
                have h2 : (256 : Nat) ^ 32 = 2 ^ 256 := by rw [show (256 : Nat) = 2 ^ 8 from rfl, ← Nat.pow_mul]
                have : z.toNat < 256 ^ 32 := by omega
                unfold fillBytes?
                rw [if_pos this]
              rw [hfill] at he
              simp only [Outcome.bind] at he
              injection he with he; injection he with he1 _
              have hz : (z.toNat : Int) = z := Int.toNat_of_nonneg (by omega)
              have hzlt : z < 2 ^ m := by
                have : ((2 ^ m : Nat) : Int) = (2 : Int) ^ m := by simp
                omega
              exact ⟨hc, by omega, hzlt, he1.symm⟩
        · right
          rw [hc] at he
          simp only [] at he
          by_cases hfit : checkSignedIntFits z m = true
          · rw [if_pos hfit] at he
            injection he with he; injection he with he1 _
            refine ⟨hc, ?_, ?_, by rw [← he1]; rfl⟩
            · unfold checkSignedIntFits at hfit
              by_cases h0 : z = 0
              · subst h0
                have : (0 : Int) < 2 ^ (m - 1) := Int.pow_pos (by decide)
                omega
              · rw [if_neg h0] at hfit
                by_cases hp : z > 0
                · have : (0 : Int) < 2 ^ (m - 1) := Int.pow_pos (by decide)
                  omega
                · rw [if_neg hp] at hfit
                  simp only [Bool.and_eq_true, decide_eq_true_eq] at hfit
                  exact hfit.2
            · unfold checkSignedIntFits at hfit
              by_cases h0 : z = 0
              · subst h0; exact Int.pow_pos (by decide)
              · rw [if_neg h0] at hfit
                by_cases hp : z > 0
                · rw [if_pos hp] at hfit
                  simp only [Bool.and_eq_true, decide_eq_true_eq] at hfit
                  omega
                · have : (0 : Int) < 2 ^ (m - 1) := Int.pow_pos (by decide)
                  omega
          · rw [if_neg hfit] at he; cases he

/-! ### non-vacuity: concrete inputs on which the hypotheses hold (evaluated by the kernel) -/
open FFS.Model.Eip712 FFS.Model.EthTypes
def isOk {α : Type} : Outcome α → Bool | .ok _ => true | _ => false
/-- non-vacuity of `int_member_exact`: for `uint256` (table entry "uint") the three spellings of 255 are accepted and give
    the same word; 2^256 and a fraction are rejected -/
example : (match Gen.AbiTypeTable.table.find? (·.name == "uint") with
    | some info =>
      info.reader == "getIntegerFromInterface" &&
      (abiEncode info 256 (.num "255" (.int 255) (.int 255)) == .ok (toBE 32 255)) &&
      (abiEncode info 256 (.str "255" (.int 255) (.int 255)) == .ok (toBE 32 255)) &&
      (abiEncode info 256 (.str "0xff" .fail .fail) == .ok (toBE 32 255)) &&
      !isOk (abiEncode info 256 (.str "0x10000000000000000000000000000000000000000000000000000000000000000" .fail .fail)) &&
      !isOk (abiEncode info 256 (.num "1.5" .notInt .notInt))
    | none => false) = true := by decide +kernel

end FFS.Props.C14
