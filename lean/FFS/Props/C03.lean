/-
  Property C03 — ABI decode inverts encode, and JSON output round-trips in every serializer mode.
  Model: FFS.Model.Abi.decode / decodeElem (abidecode.go), serInt / serBytes (outputserialization.go).
  Proved here:
  * **`decode_enc`** / **`decodeParams_enc`** : decoding the specification encoding of any well-typed value of any
        valid type — placed anywhere in a block, with anything before and after it — returns exactly that value
        (same integers, bytes, strings, array lengths, tuple structure), by mutual induction over the value tree
        (static values read in place, dynamic ones through their offset word relative to the head start). Hypotheses:
        elementary widths as the type parser admits them (`ElemOK`, discharged from the regenerated table by
        `table_decoders`), every offset / length word below 2^32 (`Small`: the decoder refuses wider words), and a
        dynamic array of more than 65536 elements has elements with a non-empty encoding (the cap of fix 450384a).
  * `int_word_roundtrip`, `uint_word_roundtrip`, `decodeElem_static`, `decode_dynbytes_at` : the leaves, all widths.
  * `number_only_if_exact` : in the "number if it fits" mode an integer is emitted as a JSON number exactly when
        |z| ≤ 2^53 − 1, otherwise as a string — never a rounded number.
  Together with C02.encode_eq_spec (the code's encoder produces the specification encoding) this is
  decode (encode v) = v for the model of the code.
  PARTIAL: the JSON serialisation round trip through the parser (every mode × serializer) is decided by the
  correspondence run (Tier A), not proved here.
-/
import FFS.Model.AbiIO
import FFS.Spec.Abi
import FFS.Lemmas.Bytes
import FFS.Props.C19
namespace FFS.Props.C03
open FFS FFS.Model.Abi

theorem two256 : (256 : Nat) ^ 32 = 2 ^ 256 := by rw [show (256 : Nat) = 2 ^ 8 from rfl, ← Nat.pow_mul]

/-- **int<M> words round-trip.** -/
theorem int_word_roundtrip (z : Int) (hlo : -(2 : Int) ^ 255 ≤ z) (hhi : z < 2 ^ 255) :
    parseInt256 (serializeInt256 z) = z := by
  unfold parseInt256 serializeInt256
  have hpos : (0 : Int) < 2 ^ 256 := Int.pow_pos (by decide)
  have hnn : 0 ≤ z % 2 ^ 256 := Int.emod_nonneg _ (by omega)
  have hlt : z % 2 ^ 256 < 2 ^ 256 := Int.emod_lt_of_pos _ hpos
  have hnat : ((z % 2 ^ 256).toNat : Int) = z % 2 ^ 256 := Int.toNat_of_nonneg hnn
  have hn : (z % 2 ^ 256).toNat < 256 ^ 32 := by
    rw [two256]
    have : (((z % 2 ^ 256).toNat : Nat) : Int) < ((2 ^ 256 : Nat) : Int) := by rw [hnat]; simpa using hlt
    exact Int.ofNat_lt.mp this
  rw [fromBE_toBE, Nat.mod_eq_of_lt hn]
  simp only [hnat]
  have h2 : (2 : Int) ^ 256 = 2 * 2 ^ 255 := by rw [← Int.pow_succ']
  have e255 : (2 : Int) ^ 255 = 57896044618658097711785492504343953926634992332820282019728792003956564819968 := by decide
  have e256 : (2 : Int) ^ 256 = 115792089237316195423570985008687907853269984665640564039457584007913129639936 := by decide
  by_cases hz : 0 ≤ z
  · have : z % 2 ^ 256 = z := Int.emod_eq_of_lt hz (by omega)
    rw [this]
    have hlt' : z < 2 ^ 255 := hhi
    rw [if_pos hlt']
  · have : z % 2 ^ 256 = z + 2 ^ 256 := by
      have h1 : (z + 2 ^ 256) % 2 ^ 256 = z % 2 ^ 256 := by simp
      rw [← h1]
      exact Int.emod_eq_of_lt (by omega) (by omega)
    rw [this]
    have hnlt : ¬ (z + 2 ^ 256 < 2 ^ 255) := by omega
    rw [if_neg hnlt]
    omega

theorem fromBE_drop_toBE : ∀ (w k v : Nat), k ≤ w → fromBE ((toBE w v).drop k) = v % 256 ^ (w - k) := by
  intro w
  induction w with
  | zero => intro k v hk; simp [toBE, fromBE, Nat.mod_one]
  | succ w ih =>
    intro k v hk
    by_cases hkw : k ≤ w
    · have hlen : (toBE w (v / 256)).length = w := by
        clear ih hk hkw
        induction w generalizing v with
        | zero => rfl
        | succ w ih' => simp [toBE, ih']
      rw [toBE, List.drop_append_of_le_length (by omega), fromBE_append_single, ih k (v / 256) hkw]
      have : w + 1 - k = (w - k) + 1 := by omega
      rw [this, Nat.pow_succ]
      have hb : (UInt8.ofNat (v % 256)).toNat = v % 256 := by
        simp [UInt8.toNat_ofNat]
      rw [hb]
      -- (v / 256 % 256^(w-k)) * 256 + v % 256 = v % (256^(w-k) * 256)
      rw [Nat.mul_comm (256 ^ (w - k)) 256, Nat.mod_mul, Nat.add_comm, Nat.mul_comm]
    · have hk' : k = w + 1 := by omega
      subst hk'
      have hlen : (toBE (w + 1) v).length = w + 1 := by
        clear ih hk hkw
        induction w generalizing v with
        | zero => simp [toBE]
        | succ w ih' => rw [toBE]; simp [ih']
      rw [List.drop_of_length_le (by omega)]
      simp [fromBE, Nat.mod_one]

/-- **uint<M> / address / bool words round-trip.** -/
theorem uint_word_roundtrip (info : ElemInfo) (m n : Nat) (hc : codecOf info.dec = .uint)
    (hm : m ≤ 256) (hm8 : m % 8 = 0) (hn : n < 2 ^ m) :
    decodeElem info m (toBE 32 n) 0 0 = .ok (.int n) := by
  have hlenw : ∀ (w v : Nat), (toBE w v).length = w := by
    intro w
    induction w with
    | zero => intro v; rfl
    | succ w ih => intro v; rw [toBE]; simp [ih]
  have hlen : (toBE 32 n).length = 32 := hlenw 32 n
  have hfrom : fromBE ((toBE 32 n).drop (32 - m / 8)) = n := by
    rw [fromBE_drop_toBE 32 (32 - m / 8) n (by omega)]
    have hw : 32 - (32 - m / 8) = m / 8 := by omega
    have hpow : 256 ^ (m / 8) = 2 ^ m := by
      have h8 : 8 * (m / 8) = m := by omega
      rw [show (256 : Nat) = 2 ^ 8 from rfl, ← Nat.pow_mul, h8]
    rw [hw, hpow, Nat.mod_eq_of_lt hn]
  generalize toBE 32 n = blk at hlen hfrom ⊢
  unfold decodeElem
  rw [hc]
  simp only []
  have hguard : ¬ (0 + 32 > blk.length) := by rw [hlen]; omega
  rw [if_neg hguard]
  have hsl : slice? blk (0 + (32 - m / 8)) (0 + 32) = .ok (blk.drop (32 - m / 8)) := by
    unfold slice?
    have hcond : 0 + (32 - m / 8) ≤ 0 + 32 ∧ 0 + 32 ≤ blk.length := ⟨by omega, by rw [hlen]; omega⟩
    rw [if_pos hcond]
    have : (blk.drop (0 + (32 - m / 8))).take (0 + 32 - (0 + (32 - m / 8))) = blk.drop (32 - m / 8) := by
      have e1 : 0 + (32 - m / 8) = 32 - m / 8 := Nat.zero_add _
      rw [e1]
      apply List.take_of_length_le
      rw [List.length_drop, hlen]
      omega
    rw [this]
  rw [hsl]
  show Outcome.ok (CV.int ((fromBE (blk.drop (32 - m / 8)) : Nat) : Int)) = Outcome.ok (CV.int (n : Int))
  rw [hfrom]

/-- **A JSON number only when it is exact.** -/
theorem number_only_if_exact (z : Int) :
    (∃ s, serInt .numberIfFits z = .num s) ↔ (-9007199254740991 ≤ z ∧ z ≤ 9007199254740991) := by
  have hdef : serInt .numberIfFits z =
      if z > 9007199254740991 ∨ z < -9007199254740991 then J.str (asciiBytes (toString z).toList) else J.num (toString z) := rfl
  rw [hdef]
  constructor
  · rintro ⟨s, h⟩
    by_cases hc : z > 9007199254740991 ∨ z < -9007199254740991
    · rw [if_pos hc] at h; cases h
    · omega
  · intro h
    have : ¬ (z > 9007199254740991 ∨ z < -9007199254740991) := by omega
    exact ⟨toString z, by rw [if_neg this]⟩

theorem exact_bound : (9007199254740991 : Int) = 2 ^ 53 - 1 := by decide

/-! ## decode ∘ enc = id on whole value trees -/

/-- `bs` sits in `block` at position `p` -/
def At (block : Bytes) (p : Nat) (bs : Bytes) : Prop := ∃ pre post, block = pre ++ bs ++ post ∧ pre.length = p

theorem At.left {block : Bytes} {p : Nat} {a b : Bytes} (h : At block p (a ++ b)) : At block p a := by
  obtain ⟨pre, post, hb, hp⟩ := h
  exact ⟨pre, b ++ post, by rw [hb]; simp [List.append_assoc], hp⟩

theorem At.right {block : Bytes} {p : Nat} {a b : Bytes} (h : At block p (a ++ b)) : At block (p + a.length) b := by
  obtain ⟨pre, post, hb, hp⟩ := h
  exact ⟨pre ++ a, post, by rw [hb]; simp [List.append_assoc], by simp [hp]⟩

theorem At.bound {block : Bytes} {p : Nat} {bs : Bytes} (h : At block p bs) : p + bs.length ≤ block.length := by
  obtain ⟨pre, post, hb, hp⟩ := h
  rw [hb]; simp; omega

theorem At.slice {block : Bytes} {p : Nat} {bs : Bytes} (h : At block p bs) : (block.drop p).take bs.length = bs := by
  obtain ⟨pre, post, hb, hp⟩ := h
  subst hp
  rw [hb, List.append_assoc, List.drop_left, List.take_left]

theorem At.slice?_eq {block : Bytes} {p : Nat} {bs : Bytes} (h : At block p bs) :
    slice? block p (p + bs.length) = .ok bs := by
  unfold slice?
  have hb := h.bound
  have : p ≤ p + bs.length ∧ p + bs.length ≤ block.length := ⟨by omega, hb⟩
  rw [if_pos this]
  have e : p + bs.length - p = bs.length := by omega
  rw [e, h.slice]

theorem At.nil (block : Bytes) (p : Nat) (hp : p ≤ block.length) : At block p [] :=
  ⟨block.take p, block.drop p, by simp, by simp [hp]⟩

/-- a sub-range of a placed string is placed -/
theorem At.sub {block : Bytes} {p : Nat} {bs : Bytes} (h : At block p bs) (k : Nat) (hk : k ≤ bs.length) :
    At block (p + k) (bs.drop k) := by
  have : bs = bs.take k ++ bs.drop k := (List.take_append_drop k bs).symm
  rw [this] at h
  have := h.right
  simpa [List.length_take, Nat.min_eq_left hk] using this

theorem toBE_length : ∀ (w v : Nat), (toBE w v).length = w := by
  intro w
  induction w with
  | zero => intro v; rfl
  | succ w ih => intro v; rw [toBE]; simp [ih]

theorem bitLen_le_of_lt (n m : Nat) (h : n < 2 ^ m) : bitLen n ≤ m := by
  unfold bitLen
  split
  · omega
  · rename_i hn
    have := (Nat.log2_lt hn).mpr h
    omega

/-- reading a length / offset word that is placed in the block -/
theorem decodeLength_at (block : Bytes) (p n : Nat) (h : At block p (toBE 32 n)) (hn : n < 2 ^ 32) :
    decodeLength block p = .ok n := by
  have hb := h.bound
  rw [toBE_length] at hb
  have hs := h.slice?_eq
  rw [toBE_length] at hs
  unfold decodeLength
  rw [if_neg (by omega), hs]
  simp only []
  have hlt : n < 256 ^ 32 := by
    have : (2 : Nat) ^ 32 ≤ 256 ^ 32 := by rw [two256]; exact Nat.pow_le_pow_right (by decide) (by decide)
    omega
  rw [fromBE_toBE, Nat.mod_eq_of_lt hlt]
  have := bitLen_le_of_lt n 32 hn
  rw [if_neg (by omega)]

/-- name, decoder, dynamic kind and width of an elementary type as `parseElementary` produces them -/
def ElemOK (info : ElemInfo) (suffix : String) (m : Nat) : Prop :=
  (info.name = "int" ∧ codecOf info.dec = .sint ∧ info.dyn = .never ∧ 8 ≤ m ∧ m ≤ 256 ∧ m % 8 = 0) ∨
  (info.name = "uint" ∧ codecOf info.dec = .uint ∧ info.dyn = .never ∧ 8 ≤ m ∧ m ≤ 256 ∧ m % 8 = 0) ∨
  (info.name = "address" ∧ codecOf info.dec = .uint ∧ info.dyn = .never ∧ m = 160) ∨
  (info.name = "bool" ∧ codecOf info.dec = .uint ∧ info.dyn = .never ∧ m = 8) ∨
  (info.name = "bytes" ∧ codecOf info.dec = .bytes ∧ info.dyn = .whenNoSuffix ∧
      ((suffix = "" ∧ m = 0) ∨ (suffix ≠ "" ∧ 1 ≤ m ∧ m ≤ 32))) ∨
  (info.name = "function" ∧ codecOf info.dec = .bytes ∧ info.dyn = .never ∧ m = 24) ∨
  (info.name = "string" ∧ codecOf info.dec = .string ∧ info.dyn = .always ∧ m = 0)

/-- the regenerated type table assigns exactly these decoders and dynamic kinds -/
theorem table_decoders :
    (Gen.AbiTypeTable.table.map fun i => (i.name, codecOf i.dec, i.dyn)) =
      [("address", .uint, .never), ("bool", .uint, .never), ("bytes", .bytes, .whenNoSuffix), ("fixed", .float, .never),
       ("function", .bytes, .never), ("int", .sint, .never), ("string", .string, .always), ("ufixed", .float, .never),
       ("uint", .uint, .never)] := by decide

theorem parseInt256_word (z : Int) (hlo : -(2 : Int) ^ 255 ≤ z) (hhi : z < 2 ^ 255) :
    parseInt256 (toBE 32 (z % 2 ^ 256).toNat) = z := int_word_roundtrip z hlo hhi

theorem pow_mono_int (a b : Nat) (h : a ≤ b) : (2 : Int) ^ a ≤ 2 ^ b := by
  have : (2 : Nat) ^ a ≤ 2 ^ b := Nat.pow_le_pow_right (by decide) h
  exact_mod_cast this

theorem decode_uint_at (info : ElemInfo) (m nat : Nat) (hc : codecOf info.dec = .uint) (hm : m ≤ 256) (hm8 : m % 8 = 0)
    (hn : nat < 2 ^ m) (block : Bytes) (hs hp : Nat) (hat : At block hp (toBE 32 nat)) :
    decodeElem info m block hs hp = .ok (.int nat) := by
  have hb := hat.bound
  rw [toBE_length] at hb
  have hsub := hat.sub (32 - m / 8) (by rw [toBE_length]; omega)
  have hsl := hsub.slice?_eq
  have hdl : ((toBE 32 nat).drop (32 - m / 8)).length = m / 8 := by
    rw [List.length_drop, toBE_length]; omega
  rw [hdl] at hsl
  have hend : hp + (32 - m / 8) + m / 8 = hp + 32 := by omega
  rw [hend] at hsl
  have hfrom : fromBE ((toBE 32 nat).drop (32 - m / 8)) = nat := by
    rw [fromBE_drop_toBE 32 (32 - m / 8) nat (by omega)]
    have hw : 32 - (32 - m / 8) = m / 8 := by omega
    have hpow : 256 ^ (m / 8) = 2 ^ m := by
      have h8 : 8 * (m / 8) = m := by omega
      rw [show (256 : Nat) = 2 ^ 8 from rfl, ← Nat.pow_mul, h8]
    rw [hw, hpow, Nat.mod_eq_of_lt hn]
  unfold decodeElem
  rw [hc]
  simp only []
  rw [if_neg (by omega), hsl]
  simp only [Outcome.bind]
  rw [hfrom]

theorem toNat_lt_pow (z : Int) (m : Nat) (h0 : 0 ≤ z) (h : z < 2 ^ m) : z.toNat < 2 ^ m := by
  have : (z.toNat : Int) = z := Int.toNat_of_nonneg h0
  have h2 : ((2 ^ m : Nat) : Int) = (2 : Int) ^ m := by simp
  omega

theorem padRight32_take (b : Bytes) (m : Nat) (hlen : b.length = m) (h1 : 1 ≤ m) (h32 : m ≤ 32) :
    Spec.Abi.padRight32 (b.take m) = b ++ zeros (32 - m) := by
  unfold Spec.Abi.padRight32
  have ht : b.take m = b := List.take_of_length_le (by omega)
  rw [ht, hlen]
  congr 2
  omega

theorem decode_fixedbytes_at (info : ElemInfo) (m : Nat) (b : Bytes) (hc : codecOf info.dec = .bytes) (hlen : b.length = m)
    (h1 : 1 ≤ m) (h32 : m ≤ 32) (block : Bytes) (hs hp : Nat) (hat : At block hp (b ++ zeros (32 - m))) :
    decodeElem info m block hs hp = .ok (.bytes b) := by
  have hb := hat.bound
  have hl := hat.left
  have hsl := hl.slice
  have hbl := hl.bound
  unfold decodeElem
  rw [hc]
  simp only []
  rw [if_neg (by omega), if_neg (by omega)]
  rw [hlen] at hsl
  rw [hsl]
  simp

/-- a static elementary value read back from where its word sits -/
theorem decodeElem_static (info : ElemInfo) (suffix : String) (m n : Nat) (v : CV) (hok : ElemOK info suffix m)
    (hw : Spec.Abi.WellTyped (.elem info suffix m n) v = true) (hst : Spec.Abi.isDynamic (.elem info suffix m n) = false)
    (block : Bytes) (hs hp : Nat) (hat : At block hp (Spec.Abi.encElem info suffix m v)) :
    decodeElem info m block hs hp = .ok v ∧ (Spec.Abi.encElem info suffix m v).length = 32 := by
  unfold Spec.Abi.WellTyped at hw
  unfold Spec.Abi.isDynamic at hst
  rcases hok with ⟨hn, hc, _, h8, h256, hmod⟩ | ⟨hn, hc, _, h8, h256, hmod⟩ | ⟨hn, hc, _, hm⟩ | ⟨hn, hc, _, hm⟩ |
    ⟨hn, hc, _, hm⟩ | ⟨hn, hc, _, hm⟩ | ⟨hn, hc, _, hm⟩
  · -- int<M>
    cases v with
    | int z =>
      simp only [hn, if_true, Bool.and_eq_true, decide_eq_true_eq, beq_self_eq_true] at hw
      obtain ⟨⟨hlo, hhi⟩, _⟩ := hw
      have henc : Spec.Abi.encElem info suffix m (.int z) = toBE 32 (z % 2 ^ 256).toNat := by
        simp [Spec.Abi.encElem, hn]
      rw [henc] at hat ⊢
      have hb := hat.bound
      have hsl := hat.slice?_eq
      rw [toBE_length] at hb hsl
      have hp1 := pow_mono_int (m - 1) 255 (by omega)
      refine ⟨?_, toBE_length _ _⟩
      unfold decodeElem
      rw [hc]
      simp only []
      rw [if_neg (by omega), hsl]
      simp only [Outcome.bind]
      rw [parseInt256_word z (by omega) (by omega)]
    | bytes b => simp [hn] at hw
    | str s => simp [hn] at hw
    | kids cs => simp at hw
  · -- uint<M>
    cases v with
    | int z =>
      have hw' : 0 ≤ z ∧ z < 2 ^ m := by simpa [hn] using hw
      have henc : Spec.Abi.encElem info suffix m (.int z) = toBE 32 z.toNat := by
        simp [Spec.Abi.encElem, hn, Spec.Abi.encUint]
      rw [henc] at hat ⊢
      have := decode_uint_at info m z.toNat hc h256 hmod (toNat_lt_pow z m hw'.1 hw'.2) block hs hp hat
      rw [Int.toNat_of_nonneg hw'.1] at this
      exact ⟨this, toBE_length _ _⟩
    | bytes b => simp [hn] at hw
    | str s => simp [hn] at hw
    | kids cs => simp at hw
  · -- address
    cases v with
    | int z =>
      subst hm
      have hw' : 0 ≤ z ∧ z < 2 ^ 160 := by simpa [hn] using hw
      have henc : Spec.Abi.encElem info suffix 160 (.int z) = toBE 32 z.toNat := by
        simp [Spec.Abi.encElem, hn, Spec.Abi.encUint]
      rw [henc] at hat ⊢
      have := decode_uint_at info 160 z.toNat hc (by omega) (by omega) (toNat_lt_pow z 160 hw'.1 hw'.2) block hs hp hat
      rw [Int.toNat_of_nonneg hw'.1] at this
      exact ⟨this, toBE_length _ _⟩
    | bytes b => simp [hn] at hw
    | str s => simp [hn] at hw
    | kids cs => simp at hw
  · -- bool
    cases v with
    | int z =>
      subst hm
      have hw' : z = 0 ∨ z = 1 := by simpa [hn] using hw
      have h0 : 0 ≤ z := by omega
      have hlt : z.toNat < 2 ^ 8 := by rcases hw' with rfl | rfl <;> decide
      have henc : Spec.Abi.encElem info suffix 8 (.int z) = toBE 32 z.toNat := by
        simp [Spec.Abi.encElem, hn, Spec.Abi.encUint]
      rw [henc] at hat ⊢
      have := decode_uint_at info 8 z.toNat hc (by omega) (by omega) hlt block hs hp hat
      rw [Int.toNat_of_nonneg h0] at this
      exact ⟨this, toBE_length _ _⟩
    | bytes b => simp [hn] at hw
    | str s => simp [hn] at hw
    | kids cs => simp at hw
  · -- bytes<M> (the dynamic `bytes` is excluded by `hst`)
    cases v with
    | bytes b =>
      rcases hm with ⟨hs', _⟩ | ⟨hs', h1, h32⟩
      · simp [hn, hs'] at hst
      · have hlen : b.length = m := by simpa [hn, hs'] using hw
        have henc : Spec.Abi.encElem info suffix m (.bytes b) = b ++ zeros (32 - m) := by
          simp [Spec.Abi.encElem, hn, hs', padRight32_take b m hlen h1 h32]
        rw [henc] at hat ⊢
        exact ⟨decode_fixedbytes_at info m b hc hlen h1 h32 block hs hp hat, by simp [zeros, hlen]; omega⟩
    | int z => simp [hn] at hw
    | str s => simp [hn] at hw
    | kids cs => simp at hw
  · -- function
    cases v with
    | bytes b =>
      subst hm
      have hlen : b.length = 24 := by simpa [hn] using hw
      have henc : Spec.Abi.encElem info suffix 24 (.bytes b) = b ++ zeros (32 - 24) := by
        simp [Spec.Abi.encElem, hn, padRight32_take b 24 hlen (by omega) (by omega)]
      rw [henc] at hat ⊢
      exact ⟨decode_fixedbytes_at info 24 b hc hlen (by omega) (by omega) block hs hp hat, by simp [zeros, hlen]⟩
    | int z => simp [hn] at hw
    | str s => simp [hn] at hw
    | kids cs => simp at hw
  · -- string is dynamic
    simp [hn] at hst

theorem padRight32_length_ge (b : Bytes) : b.length ≤ (Spec.Abi.padRight32 b).length := by
  simp [Spec.Abi.padRight32]

/-- dynamic bytes / string read back through their offset word -/
theorem decode_dynbytes_at (info : ElemInfo) (b : Bytes) (hc : codecOf info.dec = .bytes ∨ codecOf info.dec = .string)
    (block : Bytes) (hs hp off : Nat) (hoff : At block hp (toBE 32 off)) (hoff32 : off < 2 ^ 32)
    (hdat : At block (hs + off) (Spec.Abi.encUint b.length ++ Spec.Abi.padRight32 b)) (hlen32 : b.length < 2 ^ 32) :
    decodeElem info 0 block hs hp = .ok (if codecOf info.dec = .string then .str b else .bytes b) := by
  have h1 := decodeLength_at block hp off hoff hoff32
  have h2 := decodeLength_at block (hs + off) b.length hdat.left hlen32
  have hr := hdat.right
  rw [Spec.Abi.encUint, toBE_length] at hr
  have hb := hr.bound
  have hpl := padRight32_length_ge b
  have hsl : (block.drop (hs + off + 32)).take b.length = b := by
    have : At block (hs + off + 32) (b ++ zeros ((32 - b.length % 32) % 32)) := by
      simpa [Spec.Abi.padRight32] using hr
    exact this.left.slice
  unfold decodeElem
  rcases hc with hc | hc
  · rw [hc]
    simp only [if_true, h1, h2]
    rw [if_neg (by omega), hsl]
  · rw [hc]
    simp only [if_true, h1, h2]
    rw [if_neg (by omega), hsl]

/-! ### type trees and sizes -/

mutual
  def ValidTy : Ty → Prop
    | .elem info suffix m _ => ElemOK info suffix m
    | .farr t _ => ValidTy t
    | .darr t => ValidTy t
    | .tuple _ ts => ValidTys ts
  def ValidTys : List Ty → Prop
    | [] => True
    | t :: ts => ValidTy t ∧ ValidTys ts
end

mutual
  /-- the model's `isDynamicType` is the specification's notion on valid types -/
  theorem isDynamicType_eq : ∀ (t : Ty), ValidTy t → isDynamicType t = Spec.Abi.isDynamic t
    | .elem info suffix m n, hv => by
      rw [ValidTy] at hv
      rw [isDynamicType, Spec.Abi.isDynamic]
      rcases hv with ⟨hn, _, hd, _⟩ | ⟨hn, _, hd, _⟩ | ⟨hn, _, hd, _⟩ | ⟨hn, _, hd, _⟩ | ⟨hn, _, hd, _⟩ | ⟨hn, _, hd, _⟩ | ⟨hn, _, hd, _⟩ <;>
        simp [hn, hd]
    | .farr t k, hv => by
      rw [ValidTy] at hv
      rw [isDynamicType, Spec.Abi.isDynamic, isDynamicType_eq t hv]
      by_cases hk : k = 0 <;> simp [hk]
    | .darr t, _ => by rw [isDynamicType, Spec.Abi.isDynamic]
    | .tuple ns ts, hv => by
      rw [ValidTy] at hv
      rw [isDynamicType, Spec.Abi.isDynamic, anyDynamic_eq ts hv]
  theorem anyDynamic_eq : ∀ (ts : List Ty), ValidTys ts → anyDynamic ts = Spec.Abi.anyDyn ts
    | [], _ => by rw [anyDynamic, Spec.Abi.anyDyn]
    | t :: ts, hv => by
      rw [ValidTys] at hv
      rw [anyDynamic, Spec.Abi.anyDyn, isDynamicType_eq t hv.1, anyDynamic_eq ts hv.2]
end

/-- bytes placed in the tail area -/
def tailLen : List (Bool × Bytes) → Nat
  | [] => 0
  | (dyn, e) :: r => (if dyn then e.length else 0) + tailLen r

/-- every offset and length word of a node fits 32 bits (the decoder refuses wider ones) -/
def LayoutSmall (items : List (Bool × Bytes)) : Prop := Spec.Abi.headsLen items + tailLen items < 2 ^ 32

mutual
  def Small : Ty → CV → Prop
    | .elem _ _ _ _, .bytes b => b.length < 2 ^ 32
    | .elem _ _ _ _, .str b => b.length < 2 ^ 32
    | .farr t _, .kids cs => SmallSame t cs ∧ LayoutSmall (Spec.Abi.encSame t cs)
    | .darr t, .kids cs => SmallSame t cs ∧ LayoutSmall (Spec.Abi.encSame t cs) ∧ cs.length < 2 ^ 32 ∧
        (cs.length ≤ Gen.AbiCodecFacts.maxEmptyElementCount ∨ Spec.Abi.isDynamic t = true ∨ ∀ c ∈ cs, (Spec.Abi.enc t c).length ≠ 0)
    | .tuple _ ts, .kids cs => SmallEach ts cs ∧ LayoutSmall (Spec.Abi.encEach ts cs)
    | _, _ => True
  def SmallSame : Ty → List CV → Prop
    | _, [] => True
    | t, c :: cs => Small t c ∧ SmallSame t cs
  def SmallEach : List Ty → List CV → Prop
    | t :: ts, c :: cs => Small t c ∧ SmallEach ts cs
    | _, _ => True
end

/-- concatenation of the encodings (what the heads are when nothing is dynamic) -/
def flat : List (Bool × Bytes) → Bytes
  | [] => []
  | (_, e) :: r => e ++ flat r

theorem assembleGo_static (hl : Nat) : ∀ (items : List (Bool × Bytes)) (tb : Nat), (∀ i ∈ items, i.1 = false) →
    Spec.Abi.assembleGo hl items tb = (flat items, []) := by
  intro items
  induction items with
  | nil => intro tb _; rfl
  | cons p r ih =>
    intro tb h
    obtain ⟨dyn, e⟩ := p
    have hd : dyn = false := h (dyn, e) (by simp)
    subst hd
    rw [Spec.Abi.assembleGo]
    simp [ih tb (fun i hi => h i (by simp [hi])), flat]

theorem headsLen_static : ∀ (items : List (Bool × Bytes)), (∀ i ∈ items, i.1 = false) →
    Spec.Abi.headsLen items = (flat items).length := by
  intro items
  induction items with
  | nil => intro _; rfl
  | cons p r ih =>
    intro h
    obtain ⟨dyn, e⟩ := p
    have hd : dyn = false := h (dyn, e) (by simp)
    subst hd
    simp [Spec.Abi.headsLen, flat, ih (fun i hi => h i (by simp [hi]))]

theorem assemble_static (items : List (Bool × Bytes)) (h : ∀ i ∈ items, i.1 = false) :
    Spec.Abi.assemble items = flat items := by
  simp [Spec.Abi.assemble, assembleGo_static _ items 0 h]

theorem encSame_flags (t : Ty) : ∀ cs, ∀ i ∈ Spec.Abi.encSame t cs, i.1 = Spec.Abi.isDynamic t
  | [], i, hi => by simp [Spec.Abi.encSame] at hi
  | c :: cs, i, hi => by
    rw [Spec.Abi.encSame] at hi
    rcases List.mem_cons.mp hi with rfl | hi
    · rfl
    · exact encSame_flags t cs i hi

theorem encEach_flags : ∀ (ts : List Ty) (cs : List CV), Spec.Abi.anyDyn ts = false → ∀ i ∈ Spec.Abi.encEach ts cs, i.1 = false
  | [], _, _, i, hi => by simp [Spec.Abi.encEach] at hi
  | _ :: _, [], _, i, hi => by simp [Spec.Abi.encEach] at hi
  | t :: ts, c :: cs, h, i, hi => by
    rw [Spec.Abi.anyDyn] at h
    simp only [Bool.or_eq_false_iff] at h
    rw [Spec.Abi.encEach] at hi
    rcases List.mem_cons.mp hi with rfl | hi
    · exact h.1
    · exact encEach_flags ts cs h.2 i hi

theorem decodeRepeatDyn_false (dec : Nat → Nat → Outcome (Nat × CV)) : ∀ (n hs hp : Nat),
    decodeRepeatDyn dec false n hs hp = decodeRepeat dec n hs hp := by
  intro n
  induction n with
  | zero => intro hs hp; rfl
  | succ n ih =>
    intro hs hp
    rw [decodeRepeatDyn, decodeRepeat]
    split
    · rename_i r c _
      simp only [Bool.and_false, Bool.false_and, Bool.false_eq_true, if_false, ih]
    · rfl
    · rfl

theorem assembleGo_heads_length (hl : Nat) : ∀ (items : List (Bool × Bytes)) (tb : Nat),
    (Spec.Abi.assembleGo hl items tb).1.length = Spec.Abi.headsLen items := by
  intro items
  induction items with
  | nil => intro tb; rfl
  | cons p r ih =>
    intro tb
    obtain ⟨dyn, e⟩ := p
    cases dyn with
    | true => simp [Spec.Abi.assembleGo, Spec.Abi.headsLen, Spec.Abi.encUint, toBE_length, ih]
    | false => simp [Spec.Abi.assembleGo, Spec.Abi.headsLen, ih]

/-- what "decode inverts encode" means at one node: a static value is read from where its encoding sits; a dynamic
    one through an offset word, relative to the head start -/
def DecOK (t : Ty) (v : CV) (block : Bytes) : Prop :=
  (Spec.Abi.isDynamic t = false → ∀ hs hp, At block hp (Spec.Abi.enc t v) →
      decode t block hs hp = .ok ((Spec.Abi.enc t v).length, v)) ∧
  (Spec.Abi.isDynamic t = true → ∀ hs hp off, off < 2 ^ 32 → At block hp (toBE 32 off) →
      At block (hs + off) (Spec.Abi.enc t v) → decode t block hs hp = .ok (32, v))

theorem decode_elem_ok (info : ElemInfo) (suffix : String) (m n : Nat) (v : CV) (block : Bytes)
    (hok : ElemOK info suffix m) (hw : Spec.Abi.WellTyped (.elem info suffix m n) v = true)
    (hs32 : Small (.elem info suffix m n) v) : DecOK (.elem info suffix m n) v block := by
  constructor
  · intro hst hs hp hat
    rw [Spec.Abi.enc] at hat ⊢
    obtain ⟨h1, h2⟩ := decodeElem_static info suffix m n v hok hw hst block hs hp hat
    rw [decode, h1, h2]
  · intro hdy hs hp off hoff hato hatd
    rw [Spec.Abi.enc] at hatd
    rw [decode]
    unfold Spec.Abi.isDynamic at hdy
    unfold Spec.Abi.WellTyped at hw
    rcases hok with ⟨hn, _⟩ | ⟨hn, _⟩ | ⟨hn, _⟩ | ⟨hn, _⟩ | ⟨hn, hc, _, hm⟩ | ⟨hn, _⟩ | ⟨hn, hc, _, hm⟩
    · simp [hn] at hdy
    · simp [hn] at hdy
    · simp [hn] at hdy
    · simp [hn] at hdy
    · -- bytes
      have hsfx : suffix = "" := by simpa [hn] using hdy
      rcases hm with ⟨_, hm0⟩ | ⟨hne, _⟩
      · subst hm0
        cases v with
        | bytes b =>
          have henc : Spec.Abi.encElem info suffix 0 (.bytes b) = Spec.Abi.encUint b.length ++ Spec.Abi.padRight32 b := by
            simp [Spec.Abi.encElem, hn, hsfx]
          rw [henc] at hatd
          have hlen : b.length < 2 ^ 32 := by simpa [Small] using hs32
          have := decode_dynbytes_at info b (Or.inl hc) block hs hp off hato hoff hatd hlen
          rw [this]
          simp [hc]
        | int z => simp [hn] at hw
        | str s => simp [hn] at hw
        | kids cs => simp at hw
      · exact absurd hsfx hne
    · simp [hn] at hdy
    · -- string
      subst hm
      cases v with
      | str b =>
        have henc : Spec.Abi.encElem info suffix 0 (.str b) = Spec.Abi.encUint b.length ++ Spec.Abi.padRight32 b := by
          simp [Spec.Abi.encElem]
        rw [henc] at hatd
        have hlen : b.length < 2 ^ 32 := by simpa [Small] using hs32
        have := decode_dynbytes_at info b (Or.inr hc) block hs hp off hato hoff hatd hlen
        rw [this]
        simp [hc]
      | int z => simp [hn] at hw
      | bytes b => simp [hn] at hw
      | kids cs => simp at hw

mutual
  /-- **decode inverts encode**, node by node, for every value tree -/
  theorem decode_enc : ∀ (v : CV) (t : Ty) (block : Bytes), ValidTy t → Spec.Abi.WellTyped t v = true → Small t v →
      DecOK t v block
    | .int z, t, block, hv, hw, hs32 => by
      cases t with
      | elem info suffix m n => exact decode_elem_ok info suffix m n _ block (by simpa [ValidTy] using hv) hw hs32
      | farr t k => simp [Spec.Abi.WellTyped] at hw
      | darr t => simp [Spec.Abi.WellTyped] at hw
      | tuple ns ts => simp [Spec.Abi.WellTyped] at hw
    | .bytes b, t, block, hv, hw, hs32 => by
      cases t with
      | elem info suffix m n => exact decode_elem_ok info suffix m n _ block (by simpa [ValidTy] using hv) hw hs32
      | farr t k => simp [Spec.Abi.WellTyped] at hw
      | darr t => simp [Spec.Abi.WellTyped] at hw
      | tuple ns ts => simp [Spec.Abi.WellTyped] at hw
    | .str b, t, block, hv, hw, hs32 => by
      cases t with
      | elem info suffix m n => exact decode_elem_ok info suffix m n _ block (by simpa [ValidTy] using hv) hw hs32
      | farr t k => simp [Spec.Abi.WellTyped] at hw
      | darr t => simp [Spec.Abi.WellTyped] at hw
      | tuple ns ts => simp [Spec.Abi.WellTyped] at hw
    | .kids cs, t, block, hv, hw, hs32 => by
      cases t with
      | elem info suffix m n => simp [Spec.Abi.WellTyped] at hw
      | farr t k =>
        have hvt : ValidTy t := by simpa [ValidTy] using hv
        rw [Spec.Abi.WellTyped] at hw
        simp only [Bool.and_eq_true, beq_iff_eq] at hw
        rw [Small] at hs32
        have hdt := isDynamicType_eq (.farr t k) hv
        constructor
        · -- static fixed array
          intro hst hs hp hat
          rw [Spec.Abi.enc] at hat ⊢
          rw [decode, hdt, hst]
          simp only [Bool.false_eq_true, if_false]
          cases cs with
          | nil =>
            have hk : k = 0 := by simpa using hw.1.symm
            subst hk
            simp [decodeRepeat, Spec.Abi.encSame, Spec.Abi.assemble, Spec.Abi.assembleGo]
          | cons c cs' =>
            have hk : k ≠ 0 := by rw [← hw.1]; simp
            have htst : Spec.Abi.isDynamic t = false := by
              rw [Spec.Abi.isDynamic] at hst
              simpa [hk] using hst
            have hflags : ∀ i ∈ Spec.Abi.encSame t (c :: cs'), i.1 = false := fun i hi => by
              rw [encSame_flags t _ i hi, htst]
            rw [assemble_static _ hflags] at hat ⊢
            have := same_static (c :: cs') t block hvt hw.2 hs32.1 htst hs hp hat
            rw [hw.1] at this
            rw [this]
        · -- dynamic fixed array
          intro hdy hs hp off hoff hato hatd
          rw [Spec.Abi.enc] at hatd
          rw [decode, hdt, hdy]
          simp only [if_true]
          rw [decodeLength_at block hp off hato hoff]
          simp only []
          have hh := hatd.left (a := (Spec.Abi.assembleGo (Spec.Abi.headsLen (Spec.Abi.encSame t cs)) (Spec.Abi.encSame t cs) 0).1)
            (b := (Spec.Abi.assembleGo (Spec.Abi.headsLen (Spec.Abi.encSame t cs)) (Spec.Abi.encSame t cs) 0).2)
          have ht := hatd.right (a := (Spec.Abi.assembleGo (Spec.Abi.headsLen (Spec.Abi.encSame t cs)) (Spec.Abi.encSame t cs) 0).1)
            (b := (Spec.Abi.assembleGo (Spec.Abi.headsLen (Spec.Abi.encSame t cs)) (Spec.Abi.encSame t cs) 0).2)
          rw [assembleGo_heads_length] at ht
          have := same_general cs t block hvt hw.2 hs32.1 false (hs + off) (Spec.Abi.headsLen (Spec.Abi.encSame t cs)) 0 (hs + off)
            (by have := hs32.2; unfold LayoutSmall at this; omega) (by intro h; cases h) hh (by simpa using ht)
          rw [decodeRepeatDyn_false, hw.1] at this
          rw [this]
      | darr t =>
        have hvt : ValidTy t := by simpa [ValidTy] using hv
        rw [Spec.Abi.WellTyped] at hw
        rw [Small] at hs32
        constructor
        · intro hst; simp [Spec.Abi.isDynamic] at hst
        · intro _ hs hp off hoff hato hatd
          rw [Spec.Abi.enc] at hatd
          rw [decode, decodeLength_at block hp off hato hoff]
          simp only []
          have hcnt := hatd.left
          rw [Spec.Abi.encUint] at hcnt
          rw [decodeLength_at block (hs + off) cs.length hcnt hs32.2.2.1]
          simp only []
          have hr := hatd.right
          rw [Spec.Abi.encUint, toBE_length] at hr
          have hh := hr.left (a := (Spec.Abi.assembleGo (Spec.Abi.headsLen (Spec.Abi.encSame t cs)) (Spec.Abi.encSame t cs) 0).1)
            (b := (Spec.Abi.assembleGo (Spec.Abi.headsLen (Spec.Abi.encSame t cs)) (Spec.Abi.encSame t cs) 0).2)
          have ht := hr.right (a := (Spec.Abi.assembleGo (Spec.Abi.headsLen (Spec.Abi.encSame t cs)) (Spec.Abi.encSame t cs) 0).1)
            (b := (Spec.Abi.assembleGo (Spec.Abi.headsLen (Spec.Abi.encSame t cs)) (Spec.Abi.encSame t cs) 0).2)
          rw [assembleGo_heads_length] at ht
          have := same_general cs t block hvt hw hs32.1 (decide (cs.length > Gen.AbiCodecFacts.maxEmptyElementCount))
            (hs + off + 32) (Spec.Abi.headsLen (Spec.Abi.encSame t cs)) 0 (hs + off + 32)
            (by have := hs32.2.1; unfold LayoutSmall at this; omega)
            (by
              intro hov
              have hgt : cs.length > Gen.AbiCodecFacts.maxEmptyElementCount := by simpa using hov
              rcases hs32.2.2.2 with h | h | h
              · omega
              · exact Or.inl h
              · exact Or.inr h)
            hh (by simpa using ht)
          rw [this]
      | tuple ns ts =>
        have hvt : ValidTys ts := by simpa [ValidTy] using hv
        rw [Spec.Abi.WellTyped] at hw
        rw [Small] at hs32
        have hdt := isDynamicType_eq (.tuple ns ts) hv
        constructor
        · intro hst hs hp hat
          rw [Spec.Abi.enc] at hat ⊢
          rw [decode, hdt, hst]
          simp only [Bool.false_eq_true, if_false]
          have hany : Spec.Abi.anyDyn ts = false := by simpa [Spec.Abi.isDynamic] using hst
          have hflags := encEach_flags ts cs hany
          rw [assemble_static _ hflags] at hat ⊢
          rw [each_static cs ts block hvt hw hs32.1 hany hs hp hat]
        · intro hdy hs hp off hoff hato hatd
          rw [Spec.Abi.enc] at hatd
          rw [decode, hdt, hdy]
          simp only [if_true]
          rw [decodeLength_at block hp off hato hoff]
          simp only []
          have hh := hatd.left (a := (Spec.Abi.assembleGo (Spec.Abi.headsLen (Spec.Abi.encEach ts cs)) (Spec.Abi.encEach ts cs) 0).1)
            (b := (Spec.Abi.assembleGo (Spec.Abi.headsLen (Spec.Abi.encEach ts cs)) (Spec.Abi.encEach ts cs) 0).2)
          have ht := hatd.right (a := (Spec.Abi.assembleGo (Spec.Abi.headsLen (Spec.Abi.encEach ts cs)) (Spec.Abi.encEach ts cs) 0).1)
            (b := (Spec.Abi.assembleGo (Spec.Abi.headsLen (Spec.Abi.encEach ts cs)) (Spec.Abi.encEach ts cs) 0).2)
          rw [assembleGo_heads_length] at ht
          have := each_general cs ts block hvt hw hs32.1 (hs + off) (Spec.Abi.headsLen (Spec.Abi.encEach ts cs)) 0 (hs + off)
            (by have := hs32.2; unfold LayoutSmall at this; omega) hh (by simpa using ht)
          rw [this]
  /-- children of an array, read from an assembled head / tail layout whose heads start at `hpos` and whose tails
      start at `p + hl + tb` (`p` = head start of the array) -/
  theorem same_general : ∀ (cs : List CV) (t : Ty) (block : Bytes), ValidTy t → Spec.Abi.wellTypedSame t cs = true → SmallSame t cs →
      ∀ (over : Bool) (p hl tb hpos : Nat), hl + tb + tailLen (Spec.Abi.encSame t cs) < 2 ^ 32 →
        (over = true → Spec.Abi.isDynamic t = true ∨ ∀ c ∈ cs, (Spec.Abi.enc t c).length ≠ 0) →
        At block hpos (Spec.Abi.assembleGo hl (Spec.Abi.encSame t cs) tb).1 →
        At block (p + hl + tb) (Spec.Abi.assembleGo hl (Spec.Abi.encSame t cs) tb).2 →
        decodeRepeatDyn (decode t block) over cs.length p hpos = .ok (Spec.Abi.headsLen (Spec.Abi.encSame t cs), cs)
    | [], t, block, _, _, _ => by
      intro over p hl tb hpos _ _ _ _
      simp [decodeRepeatDyn, Spec.Abi.encSame, Spec.Abi.headsLen]
    | c :: cs, t, block, hv, hw, hs32 => by
      intro over p hl tb hpos hb hov hath hatt
      rw [Spec.Abi.wellTypedSame] at hw
      simp only [Bool.and_eq_true] at hw
      rw [SmallSame] at hs32
      have hnode := decode_enc c t block hv hw.1 hs32.1
      rw [Spec.Abi.encSame] at hath hatt hb ⊢
      rw [Spec.Abi.assembleGo] at hath hatt
      simp only [List.length_cons]
      rw [decodeRepeatDyn]
      cases hdy : Spec.Abi.isDynamic t with
      | true =>
        simp only [hdy, if_true] at hath hatt
        simp only [hdy, tailLen, if_true] at hb
        have hdec := hnode.2 hdy p hpos (hl + tb) (by omega) hath.left (by simpa [Nat.add_assoc] using hatt.left)
        rw [hdec]
        simp only [show ((32 : Nat) == 0) = false from rfl, Bool.and_false, Bool.false_eq_true, if_false]
        have hrest := same_general cs t block hv hw.2 hs32.2 over p hl (tb + (Spec.Abi.enc t c).length) (hpos + 32)
          (by omega) (fun h => by
            rcases hov h with h' | h'
            · exact Or.inl h'
            · exact Or.inr (fun c' hc' => h' c' (by simp [hc'])))
          (by have := hath.right; simpa [Spec.Abi.encUint, toBE_length] using this)
          (by have := hatt.right; simpa [Nat.add_assoc] using this)
        rw [hrest]
        simp [Spec.Abi.headsLen, hdy]
      | false =>
        simp only [hdy, Bool.false_eq_true, if_false] at hath hatt
        simp only [hdy, tailLen, Bool.false_eq_true, if_false, Nat.zero_add] at hb
        have hdec := hnode.1 hdy p hpos hath.left
        rw [hdec]
        simp only []
        have hnz : (Gen.AbiCodecFacts.zeroSizeCountBounded && over && (Spec.Abi.enc t c).length == 0) = false := by
          cases hover : over with
          | false => simp
          | true =>
            rcases hov hover with h' | h'
            · rw [hdy] at h'; cases h'
            · have := h' c (by simp)
              simp [this]
        rw [hnz]
        simp only [Bool.false_eq_true, if_false]
        have hrest := same_general cs t block hv hw.2 hs32.2 over p hl tb (hpos + (Spec.Abi.enc t c).length)
          (by omega) (fun h => by
            rcases hov h with h' | h'
            · exact Or.inl h'
            · exact Or.inr (fun c' hc' => h' c' (by simp [hc'])))
          hath.right hatt
        rw [hrest]
        simp [Spec.Abi.headsLen, hdy]
  /-- children of a static array: one after the other -/
  theorem same_static : ∀ (cs : List CV) (t : Ty) (block : Bytes), ValidTy t → Spec.Abi.wellTypedSame t cs = true → SmallSame t cs →
      Spec.Abi.isDynamic t = false → ∀ (hs hpos : Nat), At block hpos (flat (Spec.Abi.encSame t cs)) →
      decodeRepeat (decode t block) cs.length hs hpos = .ok ((flat (Spec.Abi.encSame t cs)).length, cs)
    | [], t, block, _, _, _, _ => by
      intro hs hpos _
      simp [decodeRepeat, Spec.Abi.encSame, flat]
    | c :: cs, t, block, hv, hw, hs32, hst => by
      intro hs hpos hat
      rw [Spec.Abi.wellTypedSame] at hw
      simp only [Bool.and_eq_true] at hw
      rw [SmallSame] at hs32
      rw [Spec.Abi.encSame, flat] at hat ⊢
      simp only [List.length_cons]
      rw [decodeRepeat, (decode_enc c t block hv hw.1 hs32.1).1 hst hs hpos hat.left]
      simp only []
      rw [same_static cs t block hv hw.2 hs32.2 hst hs (hpos + (Spec.Abi.enc t c).length) hat.right]
      simp
  /-- members of a tuple, read from an assembled head / tail layout -/
  theorem each_general : ∀ (cs : List CV) (ts : List Ty) (block : Bytes), ValidTys ts → Spec.Abi.wellTypedEach ts cs = true → SmallEach ts cs →
      ∀ (p hl tb hpos : Nat), hl + tb + tailLen (Spec.Abi.encEach ts cs) < 2 ^ 32 →
        At block hpos (Spec.Abi.assembleGo hl (Spec.Abi.encEach ts cs) tb).1 →
        At block (p + hl + tb) (Spec.Abi.assembleGo hl (Spec.Abi.encEach ts cs) tb).2 →
        decodeList ts block p hpos = .ok (Spec.Abi.headsLen (Spec.Abi.encEach ts cs), cs)
    | [], [], block, _, _, _ => by
      intro p hl tb hpos _ _ _
      simp [decodeList, Spec.Abi.encEach, Spec.Abi.headsLen]
    | [], _ :: _, block, _, hw, _ => by simp [Spec.Abi.wellTypedEach] at hw
    | _ :: _, [], block, _, hw, _ => by simp [Spec.Abi.wellTypedEach] at hw
    | c :: cs, t :: ts, block, hv, hw, hs32 => by
      intro p hl tb hpos hb hath hatt
      rw [Spec.Abi.wellTypedEach] at hw
      simp only [Bool.and_eq_true] at hw
      rw [SmallEach] at hs32
      rw [ValidTys] at hv
      have hnode := decode_enc c t block hv.1 hw.1 hs32.1
      rw [Spec.Abi.encEach] at hath hatt hb ⊢
      rw [Spec.Abi.assembleGo] at hath hatt
      rw [decodeList]
      cases hdy : Spec.Abi.isDynamic t with
      | true =>
        simp only [hdy, if_true] at hath hatt
        simp only [hdy, tailLen, if_true] at hb
        have hdec := hnode.2 hdy p hpos (hl + tb) (by omega) hath.left (by simpa [Nat.add_assoc] using hatt.left)
        rw [hdec]
        simp only []
        have hrest := each_general cs ts block hv.2 hw.2 hs32.2 p hl (tb + (Spec.Abi.enc t c).length) (hpos + 32)
          (by omega)
          (by have := hath.right; simpa [Spec.Abi.encUint, toBE_length] using this)
          (by have := hatt.right; simpa [Nat.add_assoc] using this)
        rw [hrest]
        simp [Spec.Abi.headsLen, hdy]
      | false =>
        simp only [hdy, Bool.false_eq_true, if_false] at hath hatt
        simp only [hdy, tailLen, Bool.false_eq_true, if_false, Nat.zero_add] at hb
        have hdec := hnode.1 hdy p hpos hath.left
        rw [hdec]
        simp only []
        have hrest := each_general cs ts block hv.2 hw.2 hs32.2 p hl tb (hpos + (Spec.Abi.enc t c).length)
          (by omega) hath.right hatt
        rw [hrest]
        simp [Spec.Abi.headsLen, hdy]
  /-- members of a static tuple: one after the other -/
  theorem each_static : ∀ (cs : List CV) (ts : List Ty) (block : Bytes), ValidTys ts → Spec.Abi.wellTypedEach ts cs = true → SmallEach ts cs →
      Spec.Abi.anyDyn ts = false → ∀ (hs hpos : Nat), At block hpos (flat (Spec.Abi.encEach ts cs)) →
      decodeList ts block hs hpos = .ok ((flat (Spec.Abi.encEach ts cs)).length, cs)
    | [], [], block, _, _, _, _ => by
      intro hs hpos _
      simp [decodeList, Spec.Abi.encEach, flat]
    | [], _ :: _, block, _, hw, _, _ => by simp [Spec.Abi.wellTypedEach] at hw
    | _ :: _, [], block, _, hw, _, _ => by simp [Spec.Abi.wellTypedEach] at hw
    | c :: cs, t :: ts, block, hv, hw, hs32, hany => by
      intro hs hpos hat
      rw [Spec.Abi.wellTypedEach] at hw
      simp only [Bool.and_eq_true] at hw
      rw [SmallEach] at hs32
      rw [ValidTys] at hv
      rw [Spec.Abi.anyDyn] at hany
      simp only [Bool.or_eq_false_iff] at hany
      rw [Spec.Abi.encEach, flat] at hat ⊢
      rw [decodeList, (decode_enc c t block hv.1 hw.1 hs32.1).1 hany.1 hs hpos hat.left]
      simp only []
      rw [each_static cs ts block hv.2 hw.2 hs32.2 hany.2 hs (hpos + (Spec.Abi.enc t c).length) hat.right]
      simp
end

/-- **Round trip of a whole parameter list.** Decoding the specification encoding of any well-typed value of any valid
    parameter list — at any offset, with anything before and after it — returns exactly that value. -/
theorem decodeParams_enc (ns : List String) (ts : List Ty) (cs : List CV) (pre post : Bytes)
    (hv : ValidTys ts) (hw : Spec.Abi.wellTypedEach ts cs = true) (hs32 : Small (.tuple ns ts) (.kids cs)) :
    decodeParams ts (pre ++ Spec.Abi.enc (.tuple ns ts) (.kids cs) ++ post) pre.length = .ok (.kids cs) := by
  rw [Small] at hs32
  have henc : Spec.Abi.enc (.tuple ns ts) (.kids cs) = Spec.Abi.assemble (Spec.Abi.encEach ts cs) := by rw [Spec.Abi.enc]
  rw [henc]
  have hat : At (pre ++ Spec.Abi.assemble (Spec.Abi.encEach ts cs) ++ post) pre.length (Spec.Abi.assemble (Spec.Abi.encEach ts cs)) :=
    ⟨pre, post, rfl, rfl⟩
  have hh := hat.left (a := (Spec.Abi.assembleGo (Spec.Abi.headsLen (Spec.Abi.encEach ts cs)) (Spec.Abi.encEach ts cs) 0).1)
    (b := (Spec.Abi.assembleGo (Spec.Abi.headsLen (Spec.Abi.encEach ts cs)) (Spec.Abi.encEach ts cs) 0).2)
  have ht := hat.right (a := (Spec.Abi.assembleGo (Spec.Abi.headsLen (Spec.Abi.encEach ts cs)) (Spec.Abi.encEach ts cs) 0).1)
    (b := (Spec.Abi.assembleGo (Spec.Abi.headsLen (Spec.Abi.encEach ts cs)) (Spec.Abi.encEach ts cs) 0).2)
  rw [assembleGo_heads_length] at ht
  have := each_general cs ts _ hv hw hs32.1 pre.length (Spec.Abi.headsLen (Spec.Abi.encEach ts cs)) 0 pre.length
    (by have := hs32.2; unfold LayoutSmall at this; omega) hh (by simpa using ht)
  unfold decodeParams
  rw [this]

section jsonReadback
open FFS.Model.EthTypes

/-! ### JSON output read back (flat-array mode, hexadecimal renderings) -/

/-- the text `encoding/json` hands back for a serialized string (the renderings considered here are ASCII) -/
def charsOfBytes (b : Bytes) : List Char := b.map fun x => Char.ofNat x.toNat

theorem charsOfBytes_ascii (cs : List Char) (h : ∀ c ∈ cs, c.toNat < 256) : charsOfBytes (asciiBytes cs) = cs := by
  induction cs with
  | nil => rfl
  | cons c t ih =>
    have hc := h c (by simp)
    have : Char.ofNat (UInt8.ofNat c.toNat).toNat = c := by
      rw [UInt8.toNat_ofNat', Nat.mod_eq_of_lt hc, Char.ofNat_toNat]
    simp only [charsOfBytes, asciiBytes, List.map_cons, List.map_map] at ih ⊢
    rw [this]
    congr 1
    exact ih (fun x hx => h x (by simp [hx]))

theorem hexChar_small (n : Nat) (h : n < 16) : (hexChar n).toNat < 256 := by
  have : n = 0 ∨ n = 1 ∨ n = 2 ∨ n = 3 ∨ n = 4 ∨ n = 5 ∨ n = 6 ∨ n = 7 ∨ n = 8 ∨ n = 9 ∨ n = 10 ∨ n = 11 ∨ n = 12 ∨
      n = 13 ∨ n = 14 ∨ n = 15 := by omega
  rcases this with h | h | h | h | h | h | h | h | h | h | h | h | h | h | h | h <;> subst h <;> decide

theorem natToHex_small (n : Nat) : ∀ c ∈ natToHex n, c.toNat < 256 := by
  induction n using Nat.strongRecOn with
  | _ n ih =>
    rw [natToHex]
    split
    · rename_i h
      intro c hc
      simp only [List.mem_singleton] at hc
      rw [hc]; exact hexChar_small n h
    · intro c hc
      rw [List.mem_append] at hc
      rcases hc with hc | hc
      · exact ih (n / 16) (by omega) c hc
      · simp only [List.mem_singleton] at hc
        rw [hc]; exact hexChar_small _ (by omega)

theorem hexEncode_small : ∀ (b : Bytes), ∀ c ∈ hexEncode b, c.toNat < 256
  | [] => by simp [hexEncode]
  | x :: xs => by
    intro c hc
    simp only [hexEncode, List.mem_cons] at hc
    have hx : x.toNat < 256 := x.toNat_lt
    rcases hc with hc | hc | hc
    · rw [hc]; exact hexChar_small _ (by omega)
    · rw [hc]; exact hexChar_small _ (by omega)
    · exact hexEncode_small xs c hc

theorem scanNat0_hex (n : Nat) : scanNat0 ('0' :: 'x' :: natToHex n) = some n := by
  have := C19.hex_print_parse n
  unfold hexUint64String at this
  have hm0 : ∀ cs, setString0 ('0' :: cs) = (scanNat0 ('0' :: cs)).map (fun n => (n : Int)) := fun cs => rfl
  rw [hm0] at this
  cases h : scanNat0 ('0' :: 'x' :: natToHex n) with
  | none => rw [h] at this; simp at this
  | some m =>
    have hm : ∀ cs, setString0 ('0' :: cs) = (scanNat0 ('0' :: cs)).map (fun n => (n : Int)) := fun cs => rfl
    have h2 := C19.hex_print_parse n
    unfold hexUint64String at h2
    rw [hm, h] at h2
    have h3 : ((m : Nat) : Int) = (n : Int) := by simpa using h2
    congr 1; omega

/-- **An integer printed in hexadecimal (with sign) is read back as exactly that integer.** -/
theorem serInt_hex_readback (z : Int) :
    setString0 ((if z < 0 then ['-'] else []) ++ '0' :: 'x' :: natToHex z.natAbs) = some z := by
  by_cases hz : z < 0
  · simp only [hz, if_true, List.singleton_append, List.cons_append, List.nil_append]
    have hm : ∀ cs, setString0 ('-' :: cs) = (scanNat0 cs).map (fun n => -(n : Int)) := fun cs => rfl
    rw [hm, scanNat0_hex]
    show some (-((z.natAbs : Nat) : Int)) = some z
    congr 1; omega
  · simp only [hz, if_false, List.nil_append]
    have := C19.hex_print_parse z.natAbs
    unfold hexUint64String at this
    rw [this]
    congr 1; omega


mutual
  /-- what the input walk is given when the serialized tree is read back as JSON (`fl`, `rat`: whatever the external
      number parsers say about a string — irrelevant for the hexadecimal renderings) -/
  def jToExt (fl rat : ExtNum) : J → Ext
    | .bool b => .bool b
    | .num lit => .num lit fl rat
    | .str b => .str (String.ofList (charsOfBytes b)) fl rat
    | .arr xs => .arr (jsToExt fl rat xs)
    | .obj ks vs => .obj ks (jsToExt fl rat vs)
  def jsToExt (fl rat : ExtNum) : List J → List Ext
    | [] => []
    | x :: xs => jToExt fl rat x :: jsToExt fl rat xs
end

theorem jsToExt_length (fl rat : ExtNum) : ∀ xs, (jsToExt fl rat xs).length = xs.length
  | [] => rfl
  | _ :: xs => by simp [jsToExt, jsToExt_length fl rat xs]

/-- flat-array or object mode with integers as hexadecimal or decimal strings and hexadecimal bytes / addresses (any of
    the four address renderings, the EIP-55 checksum form included) -/
def HexCfg (cfg : SerCfg) : Prop :=
  (cfg.mode = .flatArrays ∨ cfg.mode = .objects) ∧ (cfg.ints = .hex0x ∨ cfg.ints = .base10) ∧ (cfg.bytes = .hex ∨ cfg.bytes = .hex0x) ∧
  (cfg.addr = .none ∨ cfg.addr = .hex0x ∨ cfg.addr = .plain ∨ cfg.addr = .checksum)

/-- the table assigns each elementary type its reader -/
def ReadOK (info : ElemInfo) : Prop :=
  (info.name = "int" ∨ info.name = "uint" → info.reader = "getIntegerFromInterface") ∧
  (info.name = "address" → info.reader = "getUintBytesFromInterface") ∧
  (info.name = "bool" → info.reader = "getBoolAsUnsignedIntegerFromInterface") ∧
  (info.name = "bytes" ∨ info.name = "function" → info.reader = "getBytesFromInterface") ∧
  (info.name = "string" → info.reader = "getStringFromInterface")

theorem table_readers : ∀ info ∈ Gen.AbiTypeTable.table, ReadOK info := by
  intro info hi
  simp only [Gen.AbiTypeTable.table, List.mem_cons, List.mem_nil_iff, or_false] at hi
  rcases hi with h | h | h | h | h | h | h | h | h <;> subst h <;> simp [ReadOK]

theorem hexish_readback (pre : List Char) (hpre : pre = [] ∨ pre = ['0', 'x']) (a : Bytes) :
    hexDecode (trim0x (charsOfBytes (asciiBytes (pre ++ hexEncode a)))) = some a := by
  have hsmall : ∀ c ∈ pre ++ hexEncode a, c.toNat < 256 := by
    intro c hc
    rw [List.mem_append] at hc
    rcases hc with hc | hc
    · rcases hpre with h | h <;> subst h
      · simp at hc
      · simp only [List.mem_cons, List.mem_nil_iff, or_false] at hc
        rcases hc with h | h <;> subst h <;> decide
    · exact hexEncode_small a c hc
  rw [charsOfBytes_ascii _ hsmall]
  rcases hpre with h | h <;> subst h
  · rw [List.nil_append, C19.trim0x_hexEncode, C19.hexDecode_hexEncode]
  · show hexDecode (trim0x ('0' :: 'x' :: hexEncode a)) = some a
    rw [trim0x, C19.hexDecode_hexEncode]


/-- the EIP-55 checksum rendering of an address reads back as the address (the reader ignores letter case) -/
theorem checksum_readback (a : Bytes) (h20 : a.length = 20) :
    hexDecode (trim0x (charsOfBytes (asciiBytes (addressChecksumString a)))) = some a := by
  rw [C19.checksum_is_eip55 a h20, charsOfBytes_ascii _ (FFS.Lemmas.Eip55.eip55_small a)]
  obtain ⟨cs, he, hd⟩ := FFS.Lemmas.Eip55.eip55_decodes a
  rw [he]
  show hexDecode cs = some a
  rw [hd, C19.hexDecode_hexEncode]

/-- string leaves whose bytes are the UTF-8 encoding of the text a JSON parser reads back (every ASCII string is) -/
def StrLeafOK : CV → Prop
  | .str b => Model.Abi.utf8 (String.ofList (charsOfBytes b)) = b
  | _ => True

theorem serBytes_readback (cfg : SerCfg) (hb : cfg.bytes = .hex ∨ cfg.bytes = .hex0x) (a : Bytes) (fl rat : ExtNum) :
    getBytes (jToExt fl rat (serBytes cfg.bytes a)) = .ok a := by
  rcases hb with h | h <;> rw [h]
  · have := hexish_readback [] (Or.inl rfl) a
    simp only [List.nil_append] at this
    simp [serBytes, jToExt, getBytes, this]
  · have := hexish_readback ['0', 'x'] (Or.inr rfl) a
    simp only [List.cons_append, List.nil_append] at this
    simp [serBytes, jToExt, getBytes, this]

/-- **Leaf: serialize, read the JSON back, get the same value** (hexadecimal renderings). -/
theorem leaf_readback (cfg : SerCfg) (hcfg : HexCfg cfg) (info : ElemInfo) (sfx : String) (m n : Nat) (v : CV)
    (hok : ElemOK info sfx m) (hr : ReadOK info) (hw : Spec.Abi.WellTyped (.elem info sfx m n) v = true)
    (hs : StrLeafOK v) (fl rat : ExtNum) :
    ∃ j, serElem cfg info v = .ok j ∧ readElementary info (jToExt fl rat j) = .ok v := by
  obtain ⟨_, hints, hbytes, haddr⟩ := hcfg
  obtain ⟨rInt, rAddr, rBool, rBytes, rStr⟩ := hr
  have intCase : ∀ z : Int, (info.name = "int" ∨ info.name = "uint") → v = .int z →
      ∃ j, serElem cfg info v = .ok j ∧ readElementary info (jToExt fl rat j) = .ok v := by
    intro z hn hv
    subst hv
    have hread := rInt hn
    refine ⟨serInt cfg.ints z, by simp [serElem, hn], ?_⟩
    rcases hints with hints | hints <;> rw [hints]
    · have hsmall : ∀ c ∈ (if z < 0 then ['-'] else []) ++ '0' :: 'x' :: natToHex z.natAbs, c.toNat < 256 := by
        intro c hc
        rw [List.mem_append] at hc
        rcases hc with hc | hc
        · split at hc
          · simp only [List.mem_singleton] at hc; rw [hc]; decide
          · simp at hc
        · simp only [List.mem_cons] at hc
          rcases hc with h | h | h
          · rw [h]; decide
          · rw [h]; decide
          · exact natToHex_small _ c h
      simp only [serInt, jToExt, readElementary, hread, if_true, getInteger]
      rw [charsOfBytes_ascii _ hsmall, String.toList_ofList]
      simp [bigIntegerFromString, serInt_hex_readback z, Outcome.map]
    · simp only [serInt, jToExt, readElementary, hread, if_true, getInteger]
      rw [charsOfBytes_ascii _ (C19.int_toString_small z), String.toList_ofList]
      have hdec : setString0 z.repr.toList = some z := C19.int_dec_print_parse z
      simp [bigIntegerFromString, hdec, Outcome.map]
  rcases hok with ⟨hn, _⟩ | ⟨hn, _⟩ | ⟨hn, _, _, hm⟩ | ⟨hn, _, _, hm⟩ | ⟨hn, _⟩ | ⟨hn, _⟩ | ⟨hn, _⟩
  · -- int
    cases v with
    | int z => exact intCase z (Or.inl hn) rfl
    | bytes b => simp [Spec.Abi.WellTyped, hn] at hw
    | str b => simp [Spec.Abi.WellTyped, hn] at hw
    | kids cs => simp [Spec.Abi.WellTyped] at hw
  · -- uint
    cases v with
    | int z => exact intCase z (Or.inr hn) rfl
    | bytes b => simp [Spec.Abi.WellTyped, hn] at hw
    | str b => simp [Spec.Abi.WellTyped, hn] at hw
    | kids cs => simp [Spec.Abi.WellTyped] at hw
  · -- address
    subst hm
    cases v with
    | int z =>
      simp [Spec.Abi.WellTyped, hn] at hw
      obtain ⟨h0, h1⟩ := hw
      have hread := rAddr hn
      have hz : z.natAbs < 256 ^ 20 := by
        have h2 : (256 : Nat) ^ 20 = 2 ^ 160 := by rw [show (256 : Nat) = 2 ^ 8 from rfl, ← Nat.pow_mul]
        rw [h2]
        have : ((2 ^ 160 : Nat) : Int) = (2 : Int) ^ 160 := by simp
        omega
      have hfill : fillBytes? z.natAbs 20 = .ok (toBE 20 z.natAbs) := by unfold fillBytes?; rw [if_pos hz]
      have hback : fromBE (toBE 20 z.natAbs) = z.natAbs := by rw [fromBE_toBE, Nat.mod_eq_of_lt hz]
      have hzz : ((z.natAbs : Nat) : Int) = z := by omega
      have hne : ¬ (info.name = "int" ∨ info.name = "uint") := by rw [hn]; decide
      rcases haddr with ha | ha | ha | ha
      · refine ⟨serBytes cfg.bytes (toBE 20 z.natAbs), by simp [serElem, hn, hfill, ha], ?_⟩
        have := serBytes_readback cfg hbytes (toBE 20 z.natAbs) fl rat
        have hr1 : info.reader ≠ "getIntegerFromInterface" := by rw [hread]; decide
        simp [readElementary, hread, this, Outcome.map, hback, hzz]
      · refine ⟨.str (asciiBytes (address0xString (toBE 20 z.natAbs))), by simp [serElem, hn, hfill, ha], ?_⟩
        have := hexish_readback ['0', 'x'] (Or.inr rfl) (toBE 20 z.natAbs)
        simp only [List.cons_append, List.nil_append] at this
        simp [readElementary, hread, jToExt, getBytes, address0xString, this, Outcome.map, hback, hzz]
      · refine ⟨.str (asciiBytes (addressPlainString (toBE 20 z.natAbs))), by simp [serElem, hn, hfill, ha], ?_⟩
        have := hexish_readback [] (Or.inl rfl) (toBE 20 z.natAbs)
        simp only [List.nil_append] at this
        simp [readElementary, hread, jToExt, getBytes, addressPlainString, this, Outcome.map, hback, hzz]
      · refine ⟨.str (asciiBytes (addressChecksumString (toBE 20 z.natAbs))), by simp [serElem, hn, hfill, ha], ?_⟩
        have := checksum_readback (toBE 20 z.natAbs) (toBE_length 20 z.natAbs)
        simp [readElementary, hread, jToExt, getBytes, this, Outcome.map, hback, hzz]
    | bytes b => simp [Spec.Abi.WellTyped, hn] at hw
    | str b => simp [Spec.Abi.WellTyped, hn] at hw
    | kids cs => simp [Spec.Abi.WellTyped] at hw
  · -- bool
    cases v with
    | int z =>
      simp [Spec.Abi.WellTyped, hn] at hw
      have hread := rBool hn
      refine ⟨.bool (FFS.Model.Secp.bigInt64 z == 1), by simp [serElem, hn], ?_⟩
      rcases hw with h | h <;> subst h <;> simp [readElementary, hread, jToExt, getBool, Outcome.map] <;> decide
    | bytes b => simp [Spec.Abi.WellTyped, hn] at hw
    | str b => simp [Spec.Abi.WellTyped, hn] at hw
    | kids cs => simp [Spec.Abi.WellTyped] at hw
  · -- bytes
    cases v with
    | bytes b =>
      have hread := rBytes (Or.inl hn)
      refine ⟨serBytes cfg.bytes b, by simp [serElem, hn], ?_⟩
      simp [readElementary, hread, serBytes_readback cfg hbytes b fl rat, Outcome.map]
    | int z => simp [Spec.Abi.WellTyped, hn] at hw
    | str b => simp [Spec.Abi.WellTyped, hn] at hw
    | kids cs => simp [Spec.Abi.WellTyped] at hw
  · -- function
    cases v with
    | bytes b =>
      have hread := rBytes (Or.inr hn)
      refine ⟨serBytes cfg.bytes b, by simp [serElem, hn], ?_⟩
      simp [readElementary, hread, serBytes_readback cfg hbytes b fl rat, Outcome.map]
    | int z => simp [Spec.Abi.WellTyped, hn] at hw
    | str b => simp [Spec.Abi.WellTyped, hn] at hw
    | kids cs => simp [Spec.Abi.WellTyped] at hw
  · -- string
    cases v with
    | str b =>
      have hread := rStr hn
      refine ⟨.str b, by simp [serElem, hn], ?_⟩
      simp only [StrLeafOK] at hs
      simp [readElementary, hread, jToExt, getString, hs, Outcome.map]
    | int z => simp [Spec.Abi.WellTyped, hn] at hw
    | bytes b => simp [Spec.Abi.WellTyped, hn] at hw
    | kids cs => simp [Spec.Abi.WellTyped] at hw


/-! ### object mode: members are found again by name -/

/-- the key under which tuple member `i` (0-based) named `n` is written and looked up -/
def effName (n : String) (i : Nat) : String := if n == "" then toString i else n

def effNames : List String → Nat → List String
  | [], _ => []
  | n :: ns, i => effName n i :: effNames ns (i + 1)

theorem effNames_length : ∀ (ns : List String) (i : Nat), (effNames ns i).length = ns.length
  | [], _ => rfl
  | _ :: ns, i => by simp [effNames, effNames_length ns (i + 1)]

/-- with pairwise distinct keys, looking a key up returns the value at its position -/
theorem lookupKey_nodup : ∀ (keys : List String) (vals : List Ext) (j : Nat) (k : String) (v : Ext),
    keys.Nodup → keys[j]? = some k → vals[j]? = some v → lookupKey keys vals k = some v
  | [], _, j, k, v, _, hk, _ => by simp at hk
  | _ :: _, [], j, k, v, _, _, hv => by simp at hv
  | k0 :: ks, v0 :: vs, j, k, v, hnd, hk, hv => by
    rw [List.nodup_cons] at hnd
    unfold lookupKey
    simp only [List.zip_cons_cons, List.reverse_cons, List.find?_append]
    cases j with
    | zero =>
      simp only [List.getElem?_cons_zero, Option.some.injEq] at hk hv
      subst hk hv
      have hnone : List.find? (fun x => x.1 == k0) (ks.zip vs).reverse = none := by
        rw [List.find?_eq_none]
        intro x hx
        rw [List.mem_reverse] at hx
        have := (List.of_mem_zip hx).1
        simp only [beq_iff_eq]
        intro h
        exact hnd.1 (h ▸ this)
      rw [hnone]
      simp
    | succ j' =>
      simp only [List.getElem?_cons_succ] at hk hv
      have := lookupKey_nodup ks vs j' k v hnd.2 hk hv
      unfold lookupKey at this
      cases hf : List.find? (fun x => x.1 == k) (ks.zip vs).reverse with
      | none => rw [hf] at this; simp at this
      | some pr => rw [hf] at this; simpa using this


/-- pointwise: value `x` read back as member type `t` gives `c` -/
def AllWalk : List Ty → List Ext → List CV → Prop
  | t :: ts, x :: xs, c :: cs => walkInput t x = .ok c ∧ AllWalk ts xs cs
  | [], [], [] => True
  | _, _, _ => False

theorem allWalk_each : ∀ (ts : List Ty) (xs : List Ext) (cs : List CV), AllWalk ts xs cs → walkEach ts xs = .ok cs
  | [], [], [], _ => by simp [walkEach]
  | t :: ts, x :: xs, c :: cs, h => by
    rw [AllWalk] at h
    rw [walkEach, h.1]
    simp only []
    rw [allWalk_each ts xs cs h.2]; rfl
  | [], _ :: _, _, h => by simp [AllWalk] at h
  | [], [], _ :: _, h => by simp [AllWalk] at h
  | _ :: _, [], _, h => by simp [AllWalk] at h
  | _ :: _, _ :: _, [], h => by simp [AllWalk] at h

/-- the map arm of the tuple walk finds every member again when the keys are the (distinct) effective names -/
theorem walkNamed_ok (K : List String) (V : List Ext) (hnd : K.Nodup) :
    ∀ (ns : List String) (ts : List Ty) (xs : List Ext) (cs : List CV) (i : Nat) (Kpre : List String) (Vpre : List Ext),
      K = Kpre ++ effNames ns i → V = Vpre ++ xs → Kpre.length = i → Vpre.length = i → ns.length = ts.length →
      AllWalk ts xs cs → walkNamed ns ts i K V = .ok cs
  | [], [], [], [], _, _, _, _, _, _, _, _, _ => by simp [walkNamed]
  | n :: ns, t :: ts, x :: xs, c :: cs, i, Kpre, Vpre, hK, hV, hkl, hvl, hl, ha => by
    rw [AllWalk] at ha
    have hk : K[i]? = some (effName n i) := by
      rw [hK, List.getElem?_append_right (by omega), hkl]; simp [effNames]
    have hv : V[i]? = some x := by
      rw [hV, List.getElem?_append_right (by omega), hvl]; simp
    have hlook := lookupKey_nodup K V i (effName n i) x hnd hk hv
    have hrec := walkNamed_ok K V hnd ns ts xs cs (i + 1) (Kpre ++ [effName n i]) (Vpre ++ [x])
      (by rw [hK]; simp [effNames]) (by rw [hV]; simp) (by simp [hkl]) (by simp [hvl]) (by simpa using hl) ha.2
    have hkey : (if n == "" then toString i else n) = effName n i := rfl
    simp only [walkNamed, hkey, hlook, ha.1, hrec]
    rfl
  | [], _ :: _, _, _, _, _, _, _, _, _, _, hl, _ => by simp at hl
  | _ :: _, [], _, _, _, _, _, _, _, _, _, hl, _ => by simp at hl
  | [], [], _ :: _, _, _, _, _, _, _, _, _, _, ha => by simp [AllWalk] at ha
  | [], [], [], _ :: _, _, _, _, _, _, _, _, _, ha => by simp [AllWalk] at ha
  | _ :: _, _ :: _, [], _, _, _, _, _, _, _, _, _, ha => by simp [AllWalk] at ha
  | _ :: _, _ :: _, _ :: _, [], _, _, _, _, _, _, _, _, ha => by simp [AllWalk] at ha

mutual
  /-- types whose leaves are table rows with their readers, and whose tuples name every child -/
  def RT : Ty → Prop
    | .elem info sfx m _ => ElemOK info sfx m ∧ ReadOK info
    | .farr t _ => RT t
    | .darr t => RT t
    | .tuple names ts => names.length = ts.length ∧ (effNames names 0).Nodup ∧ RTs ts
  def RTs : List Ty → Prop
    | [] => True
    | t :: ts => RT t ∧ RTs ts
end

mutual
  def StrOK : CV → Prop
    | .kids cs => StrOKs cs
    | .str b => StrLeafOK (.str b)
    | .int _ => True
    | .bytes _ => True
  def StrOKs : List CV → Prop
    | [] => True
    | c :: cs => StrOK c ∧ StrOKs cs
end

theorem strOK_leaf : ∀ v, StrOK v → StrLeafOK v
  | .kids _, _ => trivial
  | .str _, h => h
  | .int _, _ => trivial
  | .bytes _, _ => trivial

theorem wellTypedEach_length : ∀ (ts : List Ty) (cs : List CV), Spec.Abi.wellTypedEach ts cs = true → cs.length = ts.length
  | [], [], _ => rfl
  | [], _ :: _, h => by simp [Spec.Abi.wellTypedEach] at h
  | _ :: _, [], h => by simp [Spec.Abi.wellTypedEach] at h
  | t :: ts, c :: cs, h => by
    simp only [Spec.Abi.wellTypedEach, Bool.and_eq_true] at h
    simp [wellTypedEach_length ts cs h.2]

mutual
  /-- **JSON output read back.** In flat-array and in object mode (member names distinct), with integers as hexadecimal or decimal strings and
      hexadecimal bytes and addresses, serializing any
      well-typed value of any valid type and walking the resulting JSON tree as input returns exactly that value —
      so encoding it again reproduces the original bytes (`encode_eq_spec` is a function of the value). -/
  theorem readback (cfg : SerCfg) (hcfg : HexCfg cfg) (fl rat : ExtNum) : (v : CV) → (t : Ty) → RT t →
      Spec.Abi.WellTyped t v = true → StrOK v →
      ∃ j, walkOutput cfg t v = .ok j ∧ walkInput t (jToExt fl rat j) = .ok v
    | v, .elem info sfx m n, hrt, hw, hs => by
      rw [RT] at hrt
      obtain ⟨j, h1, h2⟩ := leaf_readback cfg hcfg info sfx m n v hrt.1 hrt.2 hw (strOK_leaf v hs) fl rat
      exact ⟨j, by rw [walkOutput]; exact h1, by rw [walkInput]; exact h2⟩
    | .kids cs, .farr t k, hrt, hw, hs => by
      rw [RT] at hrt
      rw [Spec.Abi.WellTyped] at hw
      simp only [Bool.and_eq_true, beq_iff_eq] at hw
      rw [StrOK] at hs
      obtain ⟨js, h1, h2, h3⟩ := readback_same cfg hcfg fl rat cs t hrt hw.2 hs
      refine ⟨.arr js, by rw [walkOutput, h1]; rfl, ?_⟩
      rw [jToExt, walkInput]
      simp only [asSlice]
      rw [if_neg (by rw [jsToExt_length, h2, hw.1]; simp), h3]
      rfl
    | .kids cs, .darr t, hrt, hw, hs => by
      rw [RT] at hrt
      rw [Spec.Abi.WellTyped] at hw
      rw [StrOK] at hs
      obtain ⟨js, h1, _, h3⟩ := readback_same cfg hcfg fl rat cs t hrt hw hs
      refine ⟨.arr js, by rw [walkOutput, h1]; rfl, ?_⟩
      rw [jToExt, walkInput]
      simp only [asSlice]
      rw [h3]
      rfl
    | .kids cs, .tuple names ts, hrt, hw, hs => by
      rw [RT] at hrt
      rw [Spec.Abi.WellTyped] at hw
      rw [StrOK] at hs
      obtain ⟨kvs, h1, h2, h3, h4⟩ := readback_each cfg hcfg fl rat cs names ts 0 hrt.1 hrt.2.2 hw hs
      rcases hcfg.1 with hm | hm
      · refine ⟨.arr (kvs.map (·.2.2)), by rw [walkOutput, hm]; simp only []; rw [h1]; rfl, ?_⟩
        simp only [jToExt, walkInput, asSlice]
        rw [if_neg (by rw [jsToExt_length, List.length_map, h2, wellTypedEach_length ts cs hw]; simp), allWalk_each _ _ _ h4]
        rfl
      · refine ⟨.obj (kvs.map (·.1)) (kvs.map (·.2.2)), by rw [walkOutput, hm]; simp only []; rw [h1]; rfl, ?_⟩
        simp only [jToExt, walkInput, asSlice]
        have := walkNamed_ok (kvs.map (·.1)) (jsToExt fl rat (kvs.map (·.2.2))) (by rw [h3]; exact hrt.2.1) names ts
          (jsToExt fl rat (kvs.map (·.2.2))) cs 0 [] [] (by rw [h3]; rfl) rfl rfl rfl hrt.1 h4
        rw [this]
        rfl
    | .int _, .farr _ _, _, hw, _ => by simp [Spec.Abi.WellTyped] at hw
    | .bytes _, .farr _ _, _, hw, _ => by simp [Spec.Abi.WellTyped] at hw
    | .str _, .farr _ _, _, hw, _ => by simp [Spec.Abi.WellTyped] at hw
    | .int _, .darr _, _, hw, _ => by simp [Spec.Abi.WellTyped] at hw
    | .bytes _, .darr _, _, hw, _ => by simp [Spec.Abi.WellTyped] at hw
    | .str _, .darr _, _, hw, _ => by simp [Spec.Abi.WellTyped] at hw
    | .int _, .tuple _ _, _, hw, _ => by simp [Spec.Abi.WellTyped] at hw
    | .bytes _, .tuple _ _, _, hw, _ => by simp [Spec.Abi.WellTyped] at hw
    | .str _, .tuple _ _, _, hw, _ => by simp [Spec.Abi.WellTyped] at hw
  theorem readback_same (cfg : SerCfg) (hcfg : HexCfg cfg) (fl rat : ExtNum) : (cs : List CV) → (t : Ty) → RT t →
      Spec.Abi.wellTypedSame t cs = true → StrOKs cs →
      ∃ js, outSame cfg t cs = .ok js ∧ js.length = cs.length ∧ walkSame t (jsToExt fl rat js) = .ok cs
    | [], t, _, _, _ => ⟨[], by rw [outSame], rfl, by rw [jsToExt, walkSame]⟩
    | c :: cs, t, hrt, hw, hs => by
      rw [Spec.Abi.wellTypedSame] at hw
      simp only [Bool.and_eq_true] at hw
      rw [StrOKs] at hs
      obtain ⟨j, h1, h2⟩ := readback cfg hcfg fl rat c t hrt hw.1 hs.1
      obtain ⟨js, g1, g2, g3⟩ := readback_same cfg hcfg fl rat cs t hrt hw.2 hs.2
      refine ⟨j :: js, by rw [outSame, h1]; simp only []; rw [g1]; rfl, by simp [g2], ?_⟩
      rw [jsToExt, walkSame, h2]
      simp only []
      rw [g3]; rfl
  theorem readback_each (cfg : SerCfg) (hcfg : HexCfg cfg) (fl rat : ExtNum) : (cs : List CV) → (names : List String) →
      (ts : List Ty) → (i : Nat) → names.length = ts.length → RTs ts → Spec.Abi.wellTypedEach ts cs = true → StrOKs cs →
      ∃ kvs, outEach cfg names ts cs i = .ok kvs ∧ kvs.length = cs.length ∧ kvs.map (·.1) = effNames names i ∧
        AllWalk ts (jsToExt fl rat (kvs.map (·.2.2))) cs
    | [], names, [], i, hl, _, _, _ => by
      have : names = [] := by cases names with | nil => rfl | cons _ _ => simp at hl
      subst this
      exact ⟨[], by simp [outEach], rfl, rfl, by simp [jsToExt, AllWalk]⟩
    | [], _, _ :: _, _, _, _, hw, _ => by simp [Spec.Abi.wellTypedEach] at hw
    | _ :: _, _, [], _, _, _, hw, _ => by simp [Spec.Abi.wellTypedEach] at hw
    | c :: cs, [], t :: ts, i, hl, _, _, _ => by simp at hl
    | c :: cs, nm :: names, t :: ts, i, hl, hrt, hw, hs => by
      rw [Spec.Abi.wellTypedEach] at hw
      simp only [Bool.and_eq_true] at hw
      rw [StrOKs] at hs
      rw [RTs] at hrt
      obtain ⟨j, h1, h2⟩ := readback cfg hcfg fl rat c t hrt.1 hw.1 hs.1
      obtain ⟨kvs, g1, g2, g3, g4⟩ := readback_each cfg hcfg fl rat cs names ts (i + 1) (by simpa using hl) hrt.2 hw.2 hs.2
      refine ⟨((if nm == "" then toString i else nm), render t, j) :: kvs, by rw [outEach, h1]; simp only []; rw [g1]; rfl, by simp [g2],
        by simp only [List.map_cons, effNames, g3]; rfl, ?_⟩
      simp only [List.map_cons, jsToExt, AllWalk]
      exact ⟨h2, g4⟩
end


end jsonReadback

/-! ### non-vacuity of the hypotheses -/


theorem uint256_ok : ∀ info ∈ Gen.AbiTypeTable.table, info.name = "uint" → ElemOK info "256" 256 := by
  intro info hmem hn
  have hall : Gen.AbiTypeTable.table.all (fun i => i.name != "uint" || (decide (codecOf i.dec = .uint) && decide (i.dyn = .never))) = true := by decide
  have := List.all_eq_true.mp hall info hmem
  simp [hn] at this
  exact Or.inr (Or.inl ⟨hn, this.1, this.2, by decide, by decide, by decide⟩)

theorem string_ok : ∀ info ∈ Gen.AbiTypeTable.table, info.name = "string" → ElemOK info "" 0 := by
  intro info hmem hn
  have hall : Gen.AbiTypeTable.table.all (fun i => i.name != "string" || (decide (codecOf i.dec = .string) && decide (i.dyn = .always))) = true := by decide
  have := List.all_eq_true.mp hall info hmem
  simp [hn] at this
  exact Or.inr (Or.inr (Or.inr (Or.inr (Or.inr (Or.inr ⟨hn, this.1, this.2, rfl⟩)))))

/-- non-vacuity of `decodeParams_enc` / `decode_enc`: `(uint256 a, string[] b)` with the value `(5, ["ab", ""])`
    meets every hypothesis -/
example : ∀ u ∈ Gen.AbiTypeTable.table, u.name = "uint" → ∀ s ∈ Gen.AbiTypeTable.table, s.name = "string" →
    ValidTys [.elem u "256" 256 0, .darr (.elem s "" 0 0)] ∧
    Spec.Abi.wellTypedEach [.elem u "256" 256 0, .darr (.elem s "" 0 0)]
      [.int 5, .kids [.str [0x61, 0x62], .str []]] = true ∧
    Small (.tuple ["a", "b"] [.elem u "256" 256 0, .darr (.elem s "" 0 0)]) (.kids [.int 5, .kids [.str [0x61, 0x62], .str []]]) := by
  intro u hu hun s hs hsn
  refine ⟨⟨uint256_ok u hu hun, string_ok s hs hsn, trivial⟩, ?_, ?_⟩
  · simp [Spec.Abi.WellTyped, Spec.Abi.wellTypedEach, Spec.Abi.wellTypedSame, hun, hsn]
  · simp [Small, SmallEach, SmallSame, LayoutSmall, Spec.Abi.encEach, Spec.Abi.encSame, Spec.Abi.enc, Spec.Abi.isDynamic,
      Spec.Abi.headsLen, tailLen, Spec.Abi.encElem, Spec.Abi.encUint, Spec.Abi.assemble, Spec.Abi.assembleGo, hun, hsn,
      Spec.Abi.padRight32, zeros, Gen.AbiCodecFacts.maxEmptyElementCount]

/-- non-vacuity of `readback`: the table rows for `uint` and `string` give an `RT` type, and an ASCII string leaf is
    `StrOK` (kernel-evaluated) -/
example : ∀ u ∈ Gen.AbiTypeTable.table, u.name = "uint" → ∀ s ∈ Gen.AbiTypeTable.table, s.name = "string" →
    RT (.tuple ["a", "b"] [.elem u "256" 256 0, .darr (.elem s "" 0 0)]) ∧
    StrOK (.kids [.int 5, .kids [.str [0x61, 0x62], .str []]]) ∧
    HexCfg { mode := .flatArrays, ints := .base10, bytes := .hex0x, addr := .hex0x } := by
  intro u hu hun s hs hsn
  refine ⟨?_, ?_, ⟨Or.inl rfl, Or.inr rfl, Or.inr rfl, Or.inr (Or.inl rfl)⟩⟩
  · simp only [RT, RTs, and_true, List.length_cons, List.length_nil, true_and]
    exact ⟨by decide, ⟨uint256_ok u hu hun, table_readers u hu⟩, string_ok s hs hsn, table_readers s hs⟩
  · simp only [StrOK, StrOKs, StrLeafOK, and_true, true_and]
    constructor <;> decide +kernel

end FFS.Props.C03
