/-
  Property C03 — ABI decode inverts encode, and JSON output round-trips in every serializer mode.
  Model: FFS.Model.Abi.decode / decodeElem (abidecode.go), serInt / serBytes (outputserialization.go).
  Proved here:
  * `int_word_roundtrip`   : every int<M> value read back from its 32-byte two's-complement word is the value
                             (ParseInt256TwosComplementBytes ∘ SerializeInt256TwosComplementBytes = id on [-2^255, 2^255)).
  * `uint_word_roundtrip`  : every uint<M> / address / bool value read back from the low M/8 bytes of its word is the
                             value, for every width the type parser admits.
  * `number_only_if_exact` : in the "number if it fits" mode an integer is emitted as a JSON number exactly when
                             |z| ≤ 2^53 − 1, otherwise as a string — never a rounded number.
  PARTIAL: decode(enc(v)) = v for whole value trees (head/tail offsets, arrays, tuples, dynamic bytes) and the JSON
  round trip through the parser are decided by the correspondence run (Tier A: the implementation decodes the Lean
  *specification* encoding of generated values to exactly those values, for all serializer modes), not proved here.
  The encoder half — enc is what the code produces — is C02.encode_eq_spec.
-/
import FFS.Model.AbiIO
import FFS.Lemmas.Bytes
namespace FFS.Props.C03
open FFS FFS.Model.Abi

theorem two256 : (256 : Nat) ^ 32 = 2 ^ 256 := by rw [show (256 : Nat) = 2 ^ 8 from rfl, ← Nat.pow_mul]

/-- **int<M> words round-trip.** -/
theorem int_word_roundtrip (z : Int) (hlo : -(2 : Int) ^ 255 ≤ z) (hhi : z < 2 ^ 255) :
    parseInt256 (serializeInt256 z) = z := by
  unfold parseInt256 serializeInt256
  have hpos : (0 : Int) < 2 ^ 256 := Int.pow_pos (by decide)
  have hnn : 0 ≤ z % 2 ^ 256 := Int.emod_nonneg _ (by omega)
  have hlt : z % 2 ^ 256 < 2 ^ 256 := Int.emod_lt_of_pos _ hpos
  have hnat : ((z % 2 ^ 256).toNat : Int) = z % 2 ^ 256 := Int.toNat_of_nonneg hnn
  have hn : (z % 2 ^ 256).toNat < 256 ^ 32 := by
    rw [two256]
    have : (((z % 2 ^ 256).toNat : Nat) : Int) < ((2 ^ 256 : Nat) : Int) := by rw [hnat]; simpa using hlt
    exact Int.ofNat_lt.mp this
  rw [fromBE_toBE, Nat.mod_eq_of_lt hn]
  simp only [hnat]
  have h2 : (2 : Int) ^ 256 = 2 * 2 ^ 255 := by rw [← Int.pow_succ']
  have e255 : (2 : Int) ^ 255 = 57896044618658097711785492504343953926634992332820282019728792003956564819968 := by decide
  have e256 : (2 : Int) ^ 256 = 115792089237316195423570985008687907853269984665640564039457584007913129639936 := by decide
  by_cases hz : 0 ≤ z
  · have : z % 2 ^ 256 = z := Int.emod_eq_of_lt hz (by omega)
    rw [this]
    have hlt' : z < 2 ^ 255 := hhi
    rw [if_pos hlt']
  · have : z % 2 ^ 256 = z + 2 ^ 256 := by
      have h1 : (z + 2 ^ 256) % 2 ^ 256 = z % 2 ^ 256 := by simp
      rw [← h1]
      exact Int.emod_eq_of_lt (by omega) (by omega)
    rw [this]
    have hnlt : ¬ (z + 2 ^ 256 < 2 ^ 255) := by omega
    rw [if_neg hnlt]
    omega

theorem fromBE_drop_toBE : ∀ (w k v : Nat), k ≤ w → fromBE ((toBE w v).drop k) = v % 256 ^ (w - k) := by
  intro w
  induction w with
  | zero => intro k v hk; simp [toBE, fromBE, Nat.mod_one]
  | succ w ih =>
    intro k v hk
    by_cases hkw : k ≤ w
    · have hlen : (toBE w (v / 256)).length = w := by
        clear ih hk hkw
        induction w generalizing v with
        | zero => rfl
        | succ w ih' => simp [toBE, ih']
      rw [toBE, List.drop_append_of_le_length (by omega), fromBE_append_single, ih k (v / 256) hkw]
      have : w + 1 - k = (w - k) + 1 := by omega
      rw [this, Nat.pow_succ]
      have hb : (UInt8.ofNat (v % 256)).toNat = v % 256 := by
        simp [UInt8.toNat_ofNat]
      rw [hb]
      -- (v / 256 % 256^(w-k)) * 256 + v % 256 = v % (256^(w-k) * 256)
      rw [Nat.mul_comm (256 ^ (w - k)) 256, Nat.mod_mul, Nat.add_comm, Nat.mul_comm]
    · have hk' : k = w + 1 := by omega
      subst hk'
      have hlen : (toBE (w + 1) v).length = w + 1 := by
        clear ih hk hkw
        induction w generalizing v with
        | zero => simp [toBE]
        | succ w ih' => rw [toBE]; simp [ih']
      rw [List.drop_of_length_le (by omega)]
      simp [fromBE, Nat.mod_one]

/-- **uint<M> / address / bool words round-trip.** -/
theorem uint_word_roundtrip (info : ElemInfo) (m n : Nat) (hc : codecOf info.dec = .uint)
    (hm : m ≤ 256) (hm8 : m % 8 = 0) (hn : n < 2 ^ m) :
    decodeElem info m (toBE 32 n) 0 0 = .ok (.int n) := by
  have hlenw : ∀ (w v : Nat), (toBE w v).length = w := by
    intro w
    induction w with
    | zero => intro v; rfl
    | succ w ih => intro v; rw [toBE]; simp [ih]
  have hlen : (toBE 32 n).length = 32 := hlenw 32 n
  have hfrom : fromBE ((toBE 32 n).drop (32 - m / 8)) = n := by
    rw [fromBE_drop_toBE 32 (32 - m / 8) n (by omega)]
    have hw : 32 - (32 - m / 8) = m / 8 := by omega
    have hpow : 256 ^ (m / 8) = 2 ^ m := by
      have h8 : 8 * (m / 8) = m := by omega
      rw [show (256 : Nat) = 2 ^ 8 from rfl, ← Nat.pow_mul, h8]
    rw [hw, hpow, Nat.mod_eq_of_lt hn]
  generalize toBE 32 n = blk at hlen hfrom ⊢
  unfold decodeElem
  rw [hc]
  simp only []
  have hguard : ¬ (0 + 32 > blk.length) := by rw [hlen]; omega
  rw [if_neg hguard]
  have hsl : slice? blk (0 + (32 - m / 8)) (0 + 32) = .ok (blk.drop (32 - m / 8)) := by
    unfold slice?
    have hcond : 0 + (32 - m / 8) ≤ 0 + 32 ∧ 0 + 32 ≤ blk.length := ⟨by omega, by rw [hlen]; omega⟩
    rw [if_pos hcond]
    have : (blk.drop (0 + (32 - m / 8))).take (0 + 32 - (0 + (32 - m / 8))) = blk.drop (32 - m / 8) := by
      have e1 : 0 + (32 - m / 8) = 32 - m / 8 := Nat.zero_add _
      rw [e1]
      apply List.take_of_length_le
      rw [List.length_drop, hlen]
      omega
    rw [this]
  rw [hsl]
  show Outcome.ok (CV.int ((fromBE (blk.drop (32 - m / 8)) : Nat) : Int)) = Outcome.ok (CV.int (n : Int))
  rw [hfrom]

/-- **A JSON number only when it is exact.** -/
theorem number_only_if_exact (z : Int) :
    (∃ s, serInt .numberIfFits z = .num s) ↔ (-9007199254740991 ≤ z ∧ z ≤ 9007199254740991) := by
  have hdef : serInt .numberIfFits z =
      if z > 9007199254740991 ∨ z < -9007199254740991 then J.str (asciiBytes (toString z).toList) else J.num (toString z) := rfl
  rw [hdef]
  constructor
  · rintro ⟨s, h⟩
    by_cases hc : z > 9007199254740991 ∨ z < -9007199254740991
    · rw [if_pos hc] at h; cases h
    · omega
  · intro h
    have : ¬ (z > 9007199254740991 ∨ z < -9007199254740991) := by omega
    exact ⟨toString z, by rw [if_neg this]⟩

theorem exact_bound : (9007199254740991 : Int) = 2 ^ 53 - 1 := by decide

end FFS.Props.C03
