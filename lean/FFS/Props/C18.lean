/-
  Property C18 — RPC clients pair each reply with its request under concurrency and reconnects.
  Model: FFS.Model.RpcClients (Http: SyncRequest's semaphore / id counter / id restoration; Ws: the tables of
  wsRPCClient with every critical section one atomic step, the reconnect callback and the confirmation handler
  split where the code releases the lock in between).
  Every statement is about every reachable state, i.e. about every interleaving of callers, the receive loop and
  the reconnect callback that the lock discipline (`facts`) allows.
-/
import FFS.Model.RpcClients
namespace FFS.Props.C18
open FFS.Model.RpcClients FFS.Gen.RpcFacts

/-- the regenerated facts: guards present, every table access under rc.mux and none from a spawned goroutine,
    all five tables covered -/
theorem facts :
    initialSubscribeGuard = true ∧ unconfiguredSkipped = true ∧ stalePendingDropped = true ∧
    activateChecksConfigured = true ∧ popPendingFirst = true ∧ reconnectFailsCalls = true ∧
    clearResetsTables = true ∧ callChannelBuffered = true ∧
    httpSlotBeforeId = true ∧ httpIdAtomic = true ∧ httpCopiesRequest = true ∧
    wsLockTable.all (fun r => r.2.2.1 && !r.2.2.2) = true ∧
    (["calls", "pendingSubsByReqID", "activeSubsBySubID", "configuredSubs", "requestCounter"].all fun f =>
      wsLockTable.any fun r => r.2.1 == f) = true := by decide

/-! ## HTTP client -/
namespace Http
open FFS.Model.RpcClients.Http

structure Inv (s : St) : Prop where
  bound : ∀ l, s.limit = some l → s.inflight.length ≤ l
  issuedLe : ∀ id ∈ s.issued, id ≤ s.counter
  issuedNodup : s.issued.Nodup
  inflightIssued : ∀ p ∈ s.inflight, p.1 ∈ s.issued
  ownId : ∀ p ∈ s.done, p.2 = p.1

theorem inv_init (limit : Option Nat) : Inv (init limit) :=
  ⟨by intro l _; simp [init], by simp [init], by simp [init], by simp [init], by simp [init]⟩

theorem filter_length_le {α : Type} (p : α → Bool) (l : List α) : (l.filter p).length ≤ l.length :=
  List.length_filter_le p l

theorem inv_step (s : St) (op : Op) (h : Inv s) : Inv (step s op) := by
  cases op with
  | arrive c => exact ⟨h.bound, h.issuedLe, h.issuedNodup, h.inflightIssued, h.ownId⟩
  | acquire c =>
    simp only [step]
    split
    · rename_i hc
      simp only [Bool.and_eq_true] at hc
      refine ⟨?_, ?_, ?_, ?_, h.ownId⟩
      · intro l hl
        have : s.inflight.length < l := by
          have := hc.2
          unfold canAcquire at this
          rw [hl] at this
          simpa using this
        simp; omega
      · intro id hid
        simp only [List.mem_append, List.mem_singleton] at hid
        rcases hid with hid | hid
        · have := h.issuedLe id hid; dsimp only; omega
        · dsimp only; omega
      · rw [List.nodup_append]
        refine ⟨h.issuedNodup, by simp, ?_⟩
        intro a ha b hb e
        simp only [List.mem_singleton] at hb
        have := h.issuedLe a ha
        omega
      · intro p hp
        simp only [List.mem_append, List.mem_singleton] at hp
        rcases hp with hp | hp
        · exact List.mem_append_left _ (h.inflightIssued p hp)
        · subst hp; simp
    · exact h
  | cancel c =>
    simp only [step]
    split
    · refine ⟨h.bound, h.issuedLe, h.issuedNodup, h.inflightIssued, ?_⟩
      intro p hp
      simp only [List.mem_append, List.mem_singleton] at hp
      rcases hp with hp | hp
      · exact h.ownId p hp
      · subst hp; rfl
    · exact h
  | reply beId e =>
    simp only [step]
    split
    · refine ⟨?_, h.issuedLe, h.issuedNodup, ?_, ?_⟩
      · intro l hl
        exact Nat.le_trans (filter_length_le _ _) (h.bound l hl)
      · intro p hp
        exact h.inflightIssued p (List.mem_filter.mp hp).1
      · intro p hp
        simp only [List.mem_append, List.mem_singleton] at hp
        rcases hp with hp | hp
        · exact h.ownId p hp
        · subst hp; rfl
    · exact h

theorem inv_run (ops : List Op) : ∀ s, Inv s → Inv (run s ops) := by
  induction ops with
  | nil => intro s h; simpa [run] using h
  | cons op ops ih => intro s h; exact ih _ (inv_step s op h)

/-- **Never more requests outstanding at the backend than the configured limit**, under every schedule of
    arrivals, slot acquisitions, cancellations and replies. -/
theorem inflight_le_limit (l : Nat) (ops : List Op) : (run (init (some l)) ops).inflight.length ≤ l :=
  (inv_run ops _ (inv_init _)).bound l (by
    have : ∀ (ops : List Op) (s : St), s.limit = some l → (run s ops).limit = some l := by
      intro ops
      induction ops with
      | nil => intro s h; simpa [run] using h
      | cons op ops ih =>
        intro s h
        apply ih
        cases op <;> simp only [step] <;> (try split) <;> (try split) <;> simp_all
    exact this ops _ rfl)

/-- **Every backend request gets a unique id.** -/
theorem ids_unique (limit : Option Nat) (ops : List Op) : (run (init limit) ops).issued.Nodup :=
  (inv_run ops _ (inv_init _)).issuedNodup

/-- **Each caller gets a response carrying its own id, whatever id the backend echoed.** -/
theorem own_id (limit : Option Nat) (ops : List Op) : ∀ p ∈ (run (init limit) ops).done, p.2 = p.1 :=
  (inv_run ops _ (inv_init _)).ownId

/-- the reply of the exchange that carried backend id `beId` completes the caller that sent it, and only that one -/
theorem reply_completes_requester (s : St) (beId echoed c : Nat) (h : s.inflight.find? (·.1 == beId) = some (beId, c)) :
    (step s (.reply beId echoed)).done = s.done ++ [(c, c)] := by
  simp [step, h]

end Http

/-! ## WebSocket client -/
namespace Ws
open FFS.Model.RpcClients.Ws

def sentOf : Ev → Option Nat
  | .sentCall id _ => some id
  | .sentSub id _ => some id
  | _ => none

/-- ids of the frames written so far, in order -/
def sentIds (s : St) : List Nat := s.log.filterMap sentOf

structure IdInv (s : St) : Prop where
  sentLe : ∀ id ∈ sentIds s, id ≤ s.counter
  sentNodup : (sentIds s).Nodup
  callsLe : ∀ p ∈ s.calls, p.1 ≤ s.counter
  pendLe : ∀ p ∈ s.pending, p.1 ≤ s.counter
  callsNodup : (s.calls.map (·.1)).Nodup
  pendNodup : (s.pending.map (·.1)).Nodup
  disjoint : ∀ p ∈ s.calls, ∀ q ∈ s.pending, p.1 ≠ q.1

theorem nodup_map_filter {α : Type} (l : List (Nat × α)) (p : Nat × α → Bool) (h : (l.map (·.1)).Nodup) :
    ((l.filter p).map (·.1)).Nodup :=
  List.Nodup.sublist (List.Sublist.map _ List.filter_sublist) h

theorem nodup_snoc {l : List Nat} {x : Nat} (h : l.Nodup) (hx : ∀ y ∈ l, y < x) : (l ++ [x]).Nodup := by
  rw [List.nodup_append]
  refine ⟨h, by simp, ?_⟩
  intro a ha b hb e
  simp only [List.mem_singleton] at hb
  have := hx a ha
  omega

theorem idInv_init (re : Bool) : IdInv (init re) := by
  refine ⟨?_, ?_, ?_, ?_, ?_, ?_, ?_⟩ <;> simp [init, sentIds]

/-- a step that writes no frame and only removes table entries -/
theorem idInv_shrink (s s' : St) (h : IdInv s) (e1 : sentIds s' = sentIds s) (e2 : s'.counter = s.counter)
    (hc : ∀ p ∈ s'.calls, p ∈ s.calls) (hcn : (s'.calls.map (·.1)).Nodup)
    (hp : ∀ p ∈ s'.pending, p ∈ s.pending) (hpn : (s'.pending.map (·.1)).Nodup) : IdInv s' :=
  ⟨by rw [e1, e2]; exact h.sentLe, by rw [e1]; exact h.sentNodup,
   fun p hp' => by rw [e2]; exact h.callsLe p (hc p hp'), fun p hp' => by rw [e2]; exact h.pendLe p (hp p hp'),
   hcn, hpn, fun p hp' q hq' => h.disjoint p (hc p hp') q (hp q hq')⟩

/-- a step that allocates the next id, writes its frame and registers it in at most one of the two tables -/
theorem idInv_alloc (s s' : St) (h : IdInv s) (e1 : sentIds s' = sentIds s ++ [s.counter + 1])
    (e2 : s'.counter = s.counter + 1)
    (hc : ∀ p ∈ s'.calls, p ∈ s.calls ∨ p.1 = s.counter + 1) (hcn : (s'.calls.map (·.1)).Nodup)
    (hp : ∀ p ∈ s'.pending, p ∈ s.pending ∨ p.1 = s.counter + 1) (hpn : (s'.pending.map (·.1)).Nodup)
    (hx : (∀ p ∈ s'.calls, p ∈ s.calls) ∨ (∀ q ∈ s'.pending, q ∈ s.pending)) : IdInv s' := by
  refine ⟨?_, ?_, ?_, ?_, hcn, hpn, ?_⟩
  · rw [e1, e2]; intro id hid
    simp only [List.mem_append, List.mem_singleton] at hid
    rcases hid with hid | hid
    · have := h.sentLe id hid; omega
    · omega
  · rw [e1]; exact nodup_snoc h.sentNodup (fun y hy => by have := h.sentLe y hy; omega)
  · intro p hp'; rw [e2]
    rcases hc p hp' with h1 | h1
    · have := h.callsLe p h1; omega
    · omega
  · intro p hp'; rw [e2]
    rcases hp p hp' with h1 | h1
    · have := h.pendLe p h1; omega
    · omega
  · intro p hp' q hq' e
    rcases hx with hx | hx
    · have hpo := hx p hp'
      rcases hp q hq' with h1 | h1
      · exact h.disjoint p hpo q h1 e
      · have := h.callsLe p hpo; omega
    · have hqo := hx q hq'
      rcases hc p hp' with h1 | h1
      · exact h.disjoint p h1 q hqo e
      · have := h.pendLe q hqo; omega

theorem sentIds_of_log (s s' : St) (es : List Ev) (hl : s'.log = s.log ++ es) (hes : ∀ e ∈ es, sentOf e = none) :
    sentIds s' = sentIds s := by
  have : es.filterMap sentOf = [] := by
    rw [List.filterMap_eq_nil_iff]; exact hes
  simp [sentIds, hl, List.filterMap_append, this]

theorem mem_stalePending (s : St) (l : Nat) (p : Nat × Nat) (hp : p ∈ stalePending s l) : p ∈ s.pending := by
  unfold stalePending at hp
  split at hp
  · split at hp
    · exact (List.mem_filter.mp hp).1
    · exact hp
  · exact hp

theorem stalePending_nodup (s : St) (l : Nat) (h : (s.pending.map (·.1)).Nodup) : ((stalePending s l).map (·.1)).Nodup := by
  unfold stalePending
  split
  · split
    · exact nodup_map_filter _ _ h
    · exact h
  · exact h

theorem idInv_allocSub (s : St) (l : Nat) (h : IdInv s) : IdInv (allocSub s l) := by
  apply idInv_alloc s _ h
  · simp [sentIds, allocSub, List.filterMap_append, sentOf]
  · simp [allocSub]
  · intro p hp; exact Or.inl (by simpa [allocSub] using hp)
  · simpa [allocSub] using h.callsNodup
  · intro p hp
    simp only [allocSub, List.mem_append, List.mem_singleton] at hp
    rcases hp with hp | hp
    · exact Or.inl (mem_stalePending s l p hp)
    · exact Or.inr (by rw [hp])
  · simp only [allocSub, List.map_append, List.map_cons, List.map_nil]
    exact nodup_snoc (stalePending_nodup s l h.pendNodup) (fun y hy => by
      obtain ⟨p, hp, rfl⟩ := List.mem_map.mp hy
      have := h.pendLe p (mem_stalePending s l p hp); omega)
  · exact Or.inl (fun p hp => by simpa [allocSub] using hp)

theorem idInv_addInflightSub (s : St) (l : Nat) (initial : Bool) (h : IdInv s) : IdInv (addInflightSub s l initial) := by
  unfold addInflightSub
  split
  · exact h
  · exact idInv_allocSub s l h

theorem idInv_step (s : St) (op : Op) (h : IdInv s) : IdInv (step s op) := by
  cases op with
  | call c =>
    apply idInv_alloc s _ h
    · simp [sentIds, step, List.filterMap_append, sentOf]
    · simp [step]
    · intro p hp
      simp only [step, List.mem_append, List.mem_singleton] at hp
      rcases hp with hp | hp
      · exact Or.inl hp
      · exact Or.inr (by rw [hp])
    · simp only [step, List.map_append, List.map_cons, List.map_nil]
      exact nodup_snoc h.callsNodup (fun y hy => by
        obtain ⟨p, hp, rfl⟩ := List.mem_map.mp hy
        have := h.callsLe p hp; omega)
    · intro p hp; exact Or.inl (by simpa [step] using hp)
    · simpa [step] using h.pendNodup
    · exact Or.inr (fun q hq => by simpa [step] using hq)
  | cancelCall id =>
    simp only [step]
    split
    · apply idInv_shrink s _ h
      · exact sentIds_of_log s _ _ rfl (by intro e he; simp at he; subst he; rfl)
      · rfl
      · intro p hp; exact (List.mem_filter.mp hp).1
      · exact nodup_map_filter _ _ h.callsNodup
      · intro p hp; exact hp
      · exact h.pendNodup
    · exact h
  | subscribe l =>
    simp only [step]
    split
    · exact h
    · apply idInv_shrink s _ h
      · simp [sentIds, setSub]
      · simp [setSub]
      · intro p hp; simpa [setSub] using hp
      · simpa [setSub] using h.callsNodup
      · intro p hp; simpa [setSub] using hp
      · simpa [setSub] using h.pendNodup
  | sendSubscribe l => exact idInv_addInflightSub s l true h
  | reply id r =>
    simp only [step]
    split
    · -- a pending subscription is popped
      rename_i l _
      have hpop : IdInv (popSub s id l) := by
        apply idInv_shrink s _ h
        · simp [sentIds, popSub]
        · simp [popSub]
        · intro p hp; simpa [popSub] using hp
        · simpa [popSub] using h.callsNodup
        · intro p hp
          have hp' : p ∈ s.pending ∧ ¬p.1 = id := by simpa [popSub] using hp
          exact hp'.1
        · simpa [popSub] using nodup_map_filter _ _ h.pendNodup
      cases r with
      | error =>
        apply idInv_shrink _ _ hpop
        · apply sentIds_of_log _ _ (if (getSub s l).waiter then [Ev.subConfirmed l false] else []) (by simp [afterPop])
          intro e he; split at he <;> simp at he; subst he; rfl
        · simp [afterPop]
        · intro p hp; simpa [afterPop] using hp
        · simpa [afterPop] using hpop.callsNodup
        · intro p hp; simpa [afterPop] using hp
        · simpa [afterPop] using hpop.pendNodup
      | result o =>
        cases o with
        | none =>
          apply idInv_shrink _ _ hpop
          · apply sentIds_of_log _ _ (if (getSub s l).waiter then [Ev.subConfirmed l false] else []) (by simp [afterPop])
            intro e he; split at he <;> simp at he; subst he; rfl
          · simp [afterPop]
          · intro p hp; simpa [afterPop] using hp
          · simpa [afterPop] using hpop.callsNodup
          · intro p hp; simpa [afterPop] using hp
          · simpa [afterPop] using hpop.pendNodup
        | some sid =>
          apply idInv_shrink _ _ hpop
          · simp [sentIds, afterPop]
          · simp [afterPop]
          · intro p hp; simpa [afterPop] using hp
          · simpa [afterPop] using hpop.callsNodup
          · intro p hp; simpa [afterPop] using hp
          · simpa [afterPop] using hpop.pendNodup
    · split
      · apply idInv_shrink s _ h
        · exact sentIds_of_log s _ _ rfl (by intro e he; simp at he; subst he; rfl)
        · rfl
        · intro p hp; exact (List.mem_filter.mp hp).1
        · exact nodup_map_filter _ _ h.callsNodup
        · intro p hp; exact hp
        · exact h.pendNodup
      · apply idInv_shrink s _ h
        · exact sentIds_of_log s _ _ rfl (by intro e he; simp at he; subst he; rfl)
        · rfl
        · intro p hp; exact hp
        · exact h.callsNodup
        · intro p hp; exact hp
        · exact h.pendNodup
  | activate =>
    simp only [step]
    split
    · exact h
    · rename_i l sid waiter _
      by_cases hcfg : (activateChecksConfigured && !s.configured.contains l) = true
      · simp only [hcfg, if_true]
        apply idInv_shrink s _ h
        · apply sentIds_of_log s _ (if waiter then [Ev.subConfirmed l true] else []) (by simp)
          intro e he; split at he <;> simp at he; subst he; rfl
        · rfl
        · intro p hp; exact hp
        · exact h.callsNodup
        · intro p hp; exact hp
        · exact h.pendNodup
      · simp only [hcfg]
        apply idInv_shrink s _ h
        · apply sentIds_of_log s _ (if waiter then [Ev.subConfirmed l true] else []) (by simp [setSub])
          intro e he; split at he <;> simp at he; subst he; rfl
        · simp [setSub]
        · intro p hp; simpa [setSub] using hp
        · simpa [setSub] using h.callsNodup
        · intro p hp; simpa [setSub] using hp
        · simpa [setSub] using h.pendNodup
  | notify sid =>
    simp only [step]
    split
    · apply idInv_shrink s _ h
      · exact sentIds_of_log s _ _ rfl (by intro e he; simp only [List.mem_singleton] at he; subst he; rfl)
      · rfl
      · intro p hp; exact hp
      · exact h.callsNodup
      · intro p hp; exact hp
      · exact h.pendNodup
    · apply idInv_shrink s _ h
      · exact sentIds_of_log s _ _ rfl (by intro e he; simp only [List.mem_singleton] at he; subst he; rfl)
      · rfl
      · intro p hp; exact hp
      · exact h.callsNodup
      · intro p hp; exact hp
      · exact h.pendNodup
  | reconnectClear order =>
    simp only [step]
    split
    · exact h
    · apply idInv_shrink s _ h
      · apply sentIds_of_log s _ (s.calls.map fun p => Ev.completed p.2 p.1 false) rfl
        intro e he
        obtain ⟨p, _, rfl⟩ := List.mem_map.mp he
        rfl
      · rfl
      · intro p hp; simp at hp
      · simp
      · intro p hp; simp at hp
      · simp
  | resubscribe =>
    simp only [step]
    split
    · exact h
    · rename_i l rest _
      apply idInv_addInflightSub
      exact ⟨h.sentLe, h.sentNodup, h.callsLe, h.pendLe, h.callsNodup, h.pendNodup, h.disjoint⟩
  | unsubscribe l =>
    simp only [step]
    apply idInv_shrink s _ h
    · rfl
    · rfl
    · intro p hp; exact hp
    · exact h.callsNodup
    · intro p hp
      dsimp only at hp
      split at hp
      · exact (List.mem_filter.mp hp).1
      · exact hp
    · dsimp only
      split
      · exact nodup_map_filter _ _ h.pendNodup
      · exact h.pendNodup

theorem idInv_reach {re : Bool} {s : St} (h : Reach re s) : IdInv s := by
  induction h with
  | init => exact idInv_init re
  | step op _ _ ih => exact idInv_step _ op ih

/-- **Every request written to the socket carries an id no earlier request carried**, under every schedule. -/
theorem ids_unique {re : Bool} {s : St} (h : Reach re s) : (sentIds s).Nodup := (idInv_reach h).sentNodup

theorem find_of_mem_nodup {α : Type} (l : List (Nat × α)) (h : (l.map (·.1)).Nodup) (id : Nat) (c : α) (hm : (id, c) ∈ l) :
    l.find? (·.1 == id) = some (id, c) := by
  induction l with
  | nil => cases hm
  | cons p t ih =>
    simp only [List.map_cons, List.nodup_cons] at h
    simp only [List.mem_cons] at hm
    rcases hm with rfl | hm
    · simp
    · have hne : (p.1 == id) = false := by
        have : p.1 ≠ id := fun e => h.1 (by rw [e]; exact List.mem_map.mpr ⟨(id, c), hm, rfl⟩)
        simpa using this
      rw [List.find?_cons, hne]
      exact ih h.2 hm

/-- **Reply pairing.** In any reachable state, a reply frame with id `id` is handed to the caller whose request
    carried `id` — exactly that caller, with the outcome in the frame — and the entry is gone, so a duplicate of the
    frame completes nobody. The order in which replies arrive plays no role. -/
theorem reply_goes_to_requester {re : Bool} {s : St} (h : Reach re s) (id c : Nat) (r : Reply) (hc : (id, c) ∈ s.calls) :
    (step s (.reply id r)).log = s.log ++ [.completed c id (match r with | .result _ => true | .error => false)] ∧
    (step s (.reply id r)).calls = s.calls.filter (·.1 != id) ∧
    (∀ c', (id, c') ∉ (step s (.reply id r)).calls) := by
  have inv := idInv_reach h
  have hnp : s.pending.find? (·.1 == id) = none := by
    rw [List.find?_eq_none]
    intro q hq
    have := inv.disjoint (id, c) hc q hq
    simpa using fun e => this e.symm
  have hf := find_of_mem_nodup s.calls inv.callsNodup id c hc
  simp only [step, hnp, hf]
  refine ⟨rfl, trivial, ?_⟩
  intro c' hmem
  have := (List.mem_filter.mp hmem).2
  simp at this

/-- a reply whose id answers no outstanding request (unknown, stale, duplicate) changes no table and completes nobody -/
theorem unknown_reply_ignored (s : St) (id : Nat) (r : Reply)
    (h1 : ∀ p ∈ s.pending, p.1 ≠ id) (h2 : ∀ p ∈ s.calls, p.1 ≠ id) :
    step s (.reply id r) = { s with log := s.log ++ [.dropped] } := by
  have e1 : s.pending.find? (·.1 == id) = none := by
    rw [List.find?_eq_none]; intro q hq; simpa using h1 q hq
  have e2 : s.calls.find? (·.1 == id) = none := by
    rw [List.find?_eq_none]; intro q hq; simpa using h2 q hq
  simp [step, e1, e2]

/-- **Reconnect fails every outstanding call.** With reconnection enabled, the first half of the reconnect callback
    hands an error to every caller whose request was outstanding, and leaves no call, no pending request and no
    active server id of the old connection behind. -/
theorem reconnect_fails_all (s : St) (order : List Nat) (hre : s.reconnectEnabled = true) :
    let s' := step s (.reconnectClear order)
    (∀ p ∈ s.calls, Ev.completed p.2 p.1 false ∈ s'.log) ∧ s'.calls = [] ∧ s'.pending = [] ∧ s'.active = [] ∧
    s'.resubQueue = order.filter s.configured.contains := by
  simp only [step, hre, Bool.not_true, Bool.false_eq_true, if_false]
  refine ⟨?_, trivial, trivial, trivial, trivial⟩
  intro p hp
  exact List.mem_append_right _ (List.mem_map.mpr ⟨p, hp, rfl⟩)

/-- the callback's loop body issues one eth_subscribe for the next subscription of the queue if it is still
    configured, and nothing for one that has been unsubscribed meanwhile -/
theorem resubscribe_one (s : St) (l : Nat) (rest : List Nat) (hq : s.resubQueue = l :: rest) :
    let s' := step s .resubscribe
    s'.resubQueue = rest ∧
    ((l ∈ s.configured → s'.log = s.log ++ [.sentSub (s.counter + 1) l] ∧ (s.counter + 1, l) ∈ s'.pending) ∧
     (l ∉ s.configured → s'.log = s.log ∧ s'.pending = s.pending)) := by
  simp only [step, hq, addInflightSub, skipSub, facts.2.1, Bool.false_and, Bool.false_or, Bool.true_and]
  by_cases hc : l ∈ s.configured
  · have : s.configured.contains l = true := by simpa using hc
    simp [this, hc, allocSub]
  · have : s.configured.contains l = false := by simpa using hc
    simp [this, hc]

/-- non-vacuity: three callers, replies out of order with a duplicate, a reconnect with one call outstanding -/
example :
    let s := run (init true) [.call 1, .call 2, .call 3, .reply 2 (.result none), .reply 2 (.result none),
      .reply 1 .error, .reconnectClear []]
    s.log = [.sentCall 1 1, .sentCall 2 2, .sentCall 3 3, .completed 2 2 true, .dropped, .completed 1 1 false,
             .completed 3 3 false] ∧ s.calls = [] := by
  decide

end Ws
end FFS.Props.C18
