/-
  Property C18 — RPC clients pair each reply with its request under concurrency and reconnects.
  Model: FFS.Model.RpcClients (Http: SyncRequest's semaphore / id counter / id restoration; Ws: the tables of
  wsRPCClient with every critical section one atomic step, the reconnect callback and the confirmation handler
  split where the code releases the lock in between).
  Every statement is about every reachable state, i.e. about every interleaving of callers, the receive loop and
  the reconnect callback that the lock discipline (`facts`) allows.
-/
import FFS.Model.RpcClients
namespace FFS.Props.C18
open FFS.Model.RpcClients FFS.Gen.RpcFacts

/-- the regenerated facts: guards present, every table access under rc.mux and none from a spawned goroutine,
    all five tables covered -/
theorem facts :
    initialSubscribeGuard = true ∧ unconfiguredSkipped = true ∧ stalePendingDropped = true ∧
    activateChecksConfigured = true ∧ popPendingFirst = true ∧ reconnectFailsCalls = true ∧
    clearResetsTables = true ∧ callChannelBuffered = true ∧
    httpSlotBeforeId = true ∧ httpIdAtomic = true ∧ httpCopiesRequest = true ∧
    wsLockTable.all (fun r => r.2.2.1 && !r.2.2.2) = true ∧
    (["calls", "pendingSubsByReqID", "activeSubsBySubID", "configuredSubs", "requestCounter"].all fun f =>
      wsLockTable.any fun r => r.2.1 == f) = true := by decide

/-! ## HTTP client -/
namespace Http
open FFS.Model.RpcClients.Http

structure Inv (s : St) : Prop where
  bound : ∀ l, s.limit = some l → s.inflight.length ≤ l
  issuedLe : ∀ id ∈ s.issued, id ≤ s.counter
  issuedNodup : s.issued.Nodup
  inflightIssued : ∀ p ∈ s.inflight, p.1 ∈ s.issued
  ownId : ∀ p ∈ s.done, p.2 = p.1

theorem inv_init (limit : Option Nat) : Inv (init limit) :=
  ⟨by intro l _; simp [init], by simp [init], by simp [init], by simp [init], by simp [init]⟩

theorem filter_length_le {α : Type} (p : α → Bool) (l : List α) : (l.filter p).length ≤ l.length :=
  List.length_filter_le p l

theorem inv_step (s : St) (op : Op) (h : Inv s) : Inv (step s op) := by
  cases op with
  | arrive c => exact ⟨h.bound, h.issuedLe, h.issuedNodup, h.inflightIssued, h.ownId⟩
  | acquire c =>
    simp only [step]
    split
    · rename_i hc
      simp only [Bool.and_eq_true] at hc
      refine ⟨?_, ?_, ?_, ?_, h.ownId⟩
      · intro l hl
        have : s.inflight.length < l := by
          have := hc.2
          unfold canAcquire at this
          rw [hl] at this
          simpa using this
        simp; omega
      · intro id hid
        simp only [List.mem_append, List.mem_singleton] at hid
        rcases hid with hid | hid
        · have := h.issuedLe id hid; dsimp only; omega
        · dsimp only; omega
      · rw [List.nodup_append]
        refine ⟨h.issuedNodup, by simp, ?_⟩
        intro a ha b hb e
        simp only [List.mem_singleton] at hb
        have := h.issuedLe a ha
        omega
      · intro p hp
        simp only [List.mem_append, List.mem_singleton] at hp
        rcases hp with hp | hp
        · exact List.mem_append_left _ (h.inflightIssued p hp)
        · subst hp; simp
    · exact h
  | cancel c =>
    simp only [step]
    split
    · refine ⟨h.bound, h.issuedLe, h.issuedNodup, h.inflightIssued, ?_⟩
      intro p hp
      simp only [List.mem_append, List.mem_singleton] at hp
      rcases hp with hp | hp
      · exact h.ownId p hp
      · subst hp; rfl
    · exact h
  | reply beId e =>
    simp only [step]
    split
    · refine ⟨?_, h.issuedLe, h.issuedNodup, ?_, ?_⟩
      · intro l hl
        exact Nat.le_trans (filter_length_le _ _) (h.bound l hl)
      · intro p hp
        exact h.inflightIssued p (List.mem_filter.mp hp).1
      · intro p hp
        simp only [List.mem_append, List.mem_singleton] at hp
        rcases hp with hp | hp
        · exact h.ownId p hp
        · subst hp; rfl
    · exact h

theorem inv_run (ops : List Op) : ∀ s, Inv s → Inv (run s ops) := by
  induction ops with
  | nil => intro s h; simpa [run] using h
  | cons op ops ih => intro s h; exact ih _ (inv_step s op h)

/-- **Never more requests outstanding at the backend than the configured limit**, under every schedule of
    arrivals, slot acquisitions, cancellations and replies. -/
theorem inflight_le_limit (l : Nat) (ops : List Op) : (run (init (some l)) ops).inflight.length ≤ l :=
  (inv_run ops _ (inv_init _)).bound l (by
    have : ∀ (ops : List Op) (s : St), s.limit = some l → (run s ops).limit = some l := by
      intro ops
      induction ops with
      | nil => intro s h; simpa [run] using h
      | cons op ops ih =>
        intro s h
        apply ih
        cases op <;> simp only [step] <;> (try split) <;> (try split) <;> simp_all
    exact this ops _ rfl)

/-- **Every backend request gets a unique id.** -/
theorem ids_unique (limit : Option Nat) (ops : List Op) : (run (init limit) ops).issued.Nodup :=
  (inv_run ops _ (inv_init _)).issuedNodup

/-- **Each caller gets a response carrying its own id, whatever id the backend echoed.** -/
theorem own_id (limit : Option Nat) (ops : List Op) : ∀ p ∈ (run (init limit) ops).done, p.2 = p.1 :=
  (inv_run ops _ (inv_init _)).ownId

/-- the reply of the exchange that carried backend id `beId` completes the caller that sent it, and only that one -/
theorem reply_completes_requester (s : St) (beId echoed c : Nat) (h : s.inflight.find? (·.1 == beId) = some (beId, c)) :
    (step s (.reply beId echoed)).done = s.done ++ [(c, c)] := by
  simp [step, h]

end Http

/-! ## WebSocket client -/
namespace Ws
open FFS.Model.RpcClients.Ws

def sentOf : Ev → Option Nat
  | .sentCall id _ => some id
  | .sentSub id _ => some id
  | _ => none

/-- ids of the frames written so far, in order -/
def sentIds (s : St) : List Nat := s.log.filterMap sentOf

structure IdInv (s : St) : Prop where
  sentLe : ∀ id ∈ sentIds s, id ≤ s.counter
  sentNodup : (sentIds s).Nodup
  callsLe : ∀ p ∈ s.calls, p.1 ≤ s.counter
  pendLe : ∀ p ∈ s.pending, p.1 ≤ s.counter
  callsNodup : (s.calls.map (·.1)).Nodup
  pendNodup : (s.pending.map (·.1)).Nodup
  disjoint : ∀ p ∈ s.calls, ∀ q ∈ s.pending, p.1 ≠ q.1

theorem nodup_map_filter {α : Type} (l : List (Nat × α)) (p : Nat × α → Bool) (h : (l.map (·.1)).Nodup) :
    ((l.filter p).map (·.1)).Nodup :=
  List.Nodup.sublist (List.Sublist.map _ List.filter_sublist) h

theorem nodup_snoc {l : List Nat} {x : Nat} (h : l.Nodup) (hx : ∀ y ∈ l, y < x) : (l ++ [x]).Nodup := by
  rw [List.nodup_append]
  refine ⟨h, by simp, ?_⟩
  intro a ha b hb e
  simp only [List.mem_singleton] at hb
  have := hx a ha
  omega

theorem idInv_init (re : Bool) : IdInv (init re) := by
  refine ⟨?_, ?_, ?_, ?_, ?_, ?_, ?_⟩ <;> simp [init, sentIds]

/-- a step that writes no frame and only removes table entries -/
theorem idInv_shrink (s s' : St) (h : IdInv s) (e1 : sentIds s' = sentIds s) (e2 : s'.counter = s.counter)
    (hc : ∀ p ∈ s'.calls, p ∈ s.calls) (hcn : (s'.calls.map (·.1)).Nodup)
    (hp : ∀ p ∈ s'.pending, p ∈ s.pending) (hpn : (s'.pending.map (·.1)).Nodup) : IdInv s' :=
  ⟨by rw [e1, e2]; exact h.sentLe, by rw [e1]; exact h.sentNodup,
   fun p hp' => by rw [e2]; exact h.callsLe p (hc p hp'), fun p hp' => by rw [e2]; exact h.pendLe p (hp p hp'),
   hcn, hpn, fun p hp' q hq' => h.disjoint p (hc p hp') q (hp q hq')⟩

/-- a step that allocates the next id, writes its frame and registers it in at most one of the two tables -/
theorem idInv_alloc (s s' : St) (h : IdInv s) (e1 : sentIds s' = sentIds s ++ [s.counter + 1])
    (e2 : s'.counter = s.counter + 1)
    (hc : ∀ p ∈ s'.calls, p ∈ s.calls ∨ p.1 = s.counter + 1) (hcn : (s'.calls.map (·.1)).Nodup)
    (hp : ∀ p ∈ s'.pending, p ∈ s.pending ∨ p.1 = s.counter + 1) (hpn : (s'.pending.map (·.1)).Nodup)
    (hx : (∀ p ∈ s'.calls, p ∈ s.calls) ∨ (∀ q ∈ s'.pending, q ∈ s.pending)) : IdInv s' := by
  refine ⟨?_, ?_, ?_, ?_, hcn, hpn, ?_⟩
  · rw [e1, e2]; intro id hid
    simp only [List.mem_append, List.mem_singleton] at hid
    rcases hid with hid | hid
    · have := h.sentLe id hid; omega
    · omega
  · rw [e1]; exact nodup_snoc h.sentNodup (fun y hy => by have := h.sentLe y hy; omega)
  · intro p hp'; rw [e2]
    rcases hc p hp' with h1 | h1
    · have := h.callsLe p h1; omega
    · omega
  · intro p hp'; rw [e2]
    rcases hp p hp' with h1 | h1
    · have := h.pendLe p h1; omega
    · omega
  · intro p hp' q hq' e
    rcases hx with hx | hx
    · have hpo := hx p hp'
      rcases hp q hq' with h1 | h1
      · exact h.disjoint p hpo q h1 e
      · have := h.callsLe p hpo; omega
    · have hqo := hx q hq'
      rcases hc p hp' with h1 | h1
      · exact h.disjoint p h1 q hqo e
      · have := h.pendLe q hqo; omega

theorem sentIds_of_log (s s' : St) (es : List Ev) (hl : s'.log = s.log ++ es) (hes : ∀ e ∈ es, sentOf e = none) :
    sentIds s' = sentIds s := by
  have : es.filterMap sentOf = [] := by
    rw [List.filterMap_eq_nil_iff]; exact hes
  simp [sentIds, hl, List.filterMap_append, this]

theorem mem_stalePending (s : St) (l : Nat) (p : Nat × Nat) (hp : p ∈ stalePending s l) : p ∈ s.pending := by
  unfold stalePending at hp
  split at hp
  · split at hp
    · exact (List.mem_filter.mp hp).1
    · exact hp
  · exact hp

theorem stalePending_nodup (s : St) (l : Nat) (h : (s.pending.map (·.1)).Nodup) : ((stalePending s l).map (·.1)).Nodup := by
  unfold stalePending
  split
  · split
    · exact nodup_map_filter _ _ h
    · exact h
  · exact h

theorem idInv_allocSub (s : St) (l : Nat) (h : IdInv s) : IdInv (allocSub s l) := by
  apply idInv_alloc s _ h
  · simp [sentIds, allocSub, List.filterMap_append, sentOf]
  · simp [allocSub]
  · intro p hp; exact Or.inl (by simpa [allocSub] using hp)
  · simpa [allocSub] using h.callsNodup
  · intro p hp
    simp only [allocSub, List.mem_append, List.mem_singleton] at hp
    rcases hp with hp | hp
    · exact Or.inl (mem_stalePending s l p hp)
    · exact Or.inr (by rw [hp])
  · simp only [allocSub, List.map_append, List.map_cons, List.map_nil]
    exact nodup_snoc (stalePending_nodup s l h.pendNodup) (fun y hy => by
      obtain ⟨p, hp, rfl⟩ := List.mem_map.mp hy
      have := h.pendLe p (mem_stalePending s l p hp); omega)
  · exact Or.inl (fun p hp => by simpa [allocSub] using hp)

theorem idInv_addInflightSub (s : St) (l : Nat) (initial : Bool) (h : IdInv s) : IdInv (addInflightSub s l initial) := by
  unfold addInflightSub
  split
  · exact h
  · exact idInv_allocSub s l h

theorem idInv_step (s : St) (op : Op) (h : IdInv s) : IdInv (step s op) := by
  cases op with
  | call c =>
    apply idInv_alloc s _ h
    · simp [sentIds, step, List.filterMap_append, sentOf]
    · simp [step]
    · intro p hp
      simp only [step, List.mem_append, List.mem_singleton] at hp
      rcases hp with hp | hp
      · exact Or.inl hp
      · exact Or.inr (by rw [hp])
    · simp only [step, List.map_append, List.map_cons, List.map_nil]
      exact nodup_snoc h.callsNodup (fun y hy => by
        obtain ⟨p, hp, rfl⟩ := List.mem_map.mp hy
        have := h.callsLe p hp; omega)
    · intro p hp; exact Or.inl (by simpa [step] using hp)
    · simpa [step] using h.pendNodup
    · exact Or.inr (fun q hq => by simpa [step] using hq)
  | cancelCall id =>
    simp only [step]
    split
    · apply idInv_shrink s _ h
      · exact sentIds_of_log s _ _ rfl (by intro e he; simp at he; subst he; rfl)
      · rfl
      · intro p hp; exact (List.mem_filter.mp hp).1
      · exact nodup_map_filter _ _ h.callsNodup
      · intro p hp; exact hp
      · exact h.pendNodup
    · exact h
  | subscribe l =>
    simp only [step]
    split
    · exact h
    · apply idInv_shrink s _ h
      · simp [sentIds, setSub]
      · simp [setSub]
      · intro p hp; simpa [setSub] using hp
      · simpa [setSub] using h.callsNodup
      · intro p hp; simpa [setSub] using hp
      · simpa [setSub] using h.pendNodup
  | sendSubscribe l => exact idInv_addInflightSub s l true h
  | reply id r =>
    simp only [step]
    split
    · -- a pending subscription is popped
      rename_i l _
      have hpop : IdInv (popSub s id l) := by
        apply idInv_shrink s _ h
        · simp [sentIds, popSub]
        · simp [popSub]
        · intro p hp; simpa [popSub] using hp
        · simpa [popSub] using h.callsNodup
        · intro p hp
          have hp' : p ∈ s.pending ∧ ¬p.1 = id := by simpa [popSub] using hp
          exact hp'.1
        · simpa [popSub] using nodup_map_filter _ _ h.pendNodup
      cases r with
      | error =>
        apply idInv_shrink _ _ hpop
        · apply sentIds_of_log _ _ (if (getSub s l).waiter then [Ev.subConfirmed l false] else []) (by simp [afterPop])
          intro e he; split at he <;> simp at he; subst he; rfl
        · simp [afterPop]
        · intro p hp; simpa [afterPop] using hp
        · simpa [afterPop] using hpop.callsNodup
        · intro p hp; simpa [afterPop] using hp
        · simpa [afterPop] using hpop.pendNodup
      | result o =>
        cases o with
        | none =>
          apply idInv_shrink _ _ hpop
          · apply sentIds_of_log _ _ (if (getSub s l).waiter then [Ev.subConfirmed l false] else []) (by simp [afterPop])
            intro e he; split at he <;> simp at he; subst he; rfl
          · simp [afterPop]
          · intro p hp; simpa [afterPop] using hp
          · simpa [afterPop] using hpop.callsNodup
          · intro p hp; simpa [afterPop] using hp
          · simpa [afterPop] using hpop.pendNodup
        | some sid =>
          apply idInv_shrink _ _ hpop
          · simp [sentIds, afterPop]
          · simp [afterPop]
          · intro p hp; simpa [afterPop] using hp
          · simpa [afterPop] using hpop.callsNodup
          · intro p hp; simpa [afterPop] using hp
          · simpa [afterPop] using hpop.pendNodup
    · split
      · apply idInv_shrink s _ h
        · exact sentIds_of_log s _ _ rfl (by intro e he; simp at he; subst he; rfl)
        · rfl
        · intro p hp; exact (List.mem_filter.mp hp).1
        · exact nodup_map_filter _ _ h.callsNodup
        · intro p hp; exact hp
        · exact h.pendNodup
      · apply idInv_shrink s _ h
        · exact sentIds_of_log s _ _ rfl (by intro e he; simp at he; subst he; rfl)
        · rfl
        · intro p hp; exact hp
        · exact h.callsNodup
        · intro p hp; exact hp
        · exact h.pendNodup
  | activate =>
    simp only [step]
    split
    · exact h
    · rename_i l sid waiter _
      by_cases hcfg : (activateChecksConfigured && !s.configured.contains l) = true
      · simp only [hcfg, if_true]
        apply idInv_shrink s _ h
        · apply sentIds_of_log s _ (if waiter then [Ev.subConfirmed l true] else []) (by simp)
          intro e he; split at he <;> simp at he; subst he; rfl
        · rfl
        · intro p hp; exact hp
        · exact h.callsNodup
        · intro p hp; exact hp
        · exact h.pendNodup
      · simp only [hcfg]
        apply idInv_shrink s _ h
        · apply sentIds_of_log s _ (if waiter then [Ev.subConfirmed l true] else []) (by simp [activateSub])
          intro e he; split at he <;> simp at he; subst he; rfl
        · simp [activateSub]
        · intro p hp; simpa [activateSub] using hp
        · simpa [activateSub] using h.callsNodup
        · intro p hp; simpa [activateSub] using hp
        · simpa [activateSub] using h.pendNodup
  | notify sid =>
    simp only [step]
    split
    · apply idInv_shrink s _ h
      · exact sentIds_of_log s _ _ rfl (by intro e he; simp only [List.mem_singleton] at he; subst he; rfl)
      · rfl
      · intro p hp; exact hp
      · exact h.callsNodup
      · intro p hp; exact hp
      · exact h.pendNodup
    · apply idInv_shrink s _ h
      · exact sentIds_of_log s _ _ rfl (by intro e he; simp only [List.mem_singleton] at he; subst he; rfl)
      · rfl
      · intro p hp; exact hp
      · exact h.callsNodup
      · intro p hp; exact hp
      · exact h.pendNodup
  | reconnectClear order =>
    simp only [step]
    split
    · exact h
    · apply idInv_shrink s _ h
      · apply sentIds_of_log s _ (s.calls.map fun p => Ev.completed p.2 p.1 false) (by simp [clearAll])
        intro e he
        obtain ⟨p, _, rfl⟩ := List.mem_map.mp he
        rfl
      · simp [clearAll]
      · intro p hp; simp [clearAll] at hp
      · simp [clearAll]
      · intro p hp; simp [clearAll] at hp
      · simp [clearAll]
  | resubscribe =>
    simp only [step]
    split
    · exact h
    · rename_i l rest _
      apply idInv_addInflightSub
      exact ⟨h.sentLe, h.sentNodup, h.callsLe, h.pendLe, h.callsNodup, h.pendNodup, h.disjoint⟩
  | unsubscribe l =>
    simp only [step]
    apply idInv_shrink s _ h
    · rfl
    · rfl
    · intro p hp; exact hp
    · exact h.callsNodup
    · intro p hp
      dsimp only at hp
      split at hp
      · exact (List.mem_filter.mp hp).1
      · exact hp
    · dsimp only
      split
      · exact nodup_map_filter _ _ h.pendNodup
      · exact h.pendNodup

theorem idInv_reach {re : Bool} {s : St} (h : Reach re s) : IdInv s := by
  induction h with
  | init => exact idInv_init re
  | step op _ _ ih => exact idInv_step _ op ih

/-- **Every request written to the socket carries an id no earlier request carried**, under every schedule. -/
theorem ids_unique {re : Bool} {s : St} (h : Reach re s) : (sentIds s).Nodup := (idInv_reach h).sentNodup

theorem find_of_mem_nodup {α : Type} (l : List (Nat × α)) (h : (l.map (·.1)).Nodup) (id : Nat) (c : α) (hm : (id, c) ∈ l) :
    l.find? (·.1 == id) = some (id, c) := by
  induction l with
  | nil => cases hm
  | cons p t ih =>
    simp only [List.map_cons, List.nodup_cons] at h
    simp only [List.mem_cons] at hm
    rcases hm with rfl | hm
    · simp
    · have hne : (p.1 == id) = false := by
        have : p.1 ≠ id := fun e => h.1 (by rw [e]; exact List.mem_map.mpr ⟨(id, c), hm, rfl⟩)
        simpa using this
      rw [List.find?_cons, hne]
      exact ih h.2 hm

/-- **Reply pairing.** In any reachable state, a reply frame with id `id` is handed to the caller whose request
    carried `id` — exactly that caller, with the outcome in the frame — and the entry is gone, so a duplicate of the
    frame completes nobody. The order in which replies arrive plays no role. -/
theorem reply_goes_to_requester {re : Bool} {s : St} (h : Reach re s) (id c : Nat) (r : Reply) (hc : (id, c) ∈ s.calls) :
    (step s (.reply id r)).log = s.log ++ [.completed c id (match r with | .result _ => true | .error => false)] ∧
    (step s (.reply id r)).calls = s.calls.filter (·.1 != id) ∧
    (∀ c', (id, c') ∉ (step s (.reply id r)).calls) := by
  have inv := idInv_reach h
  have hnp : s.pending.find? (·.1 == id) = none := by
    rw [List.find?_eq_none]
    intro q hq
    have := inv.disjoint (id, c) hc q hq
    simpa using fun e => this e.symm
  have hf := find_of_mem_nodup s.calls inv.callsNodup id c hc
  simp only [step, hnp, hf]
  refine ⟨rfl, trivial, ?_⟩
  intro c' hmem
  have := (List.mem_filter.mp hmem).2
  simp at this

/-- a reply whose id answers no outstanding request (unknown, stale, duplicate) changes no table and completes nobody -/
theorem unknown_reply_ignored (s : St) (id : Nat) (r : Reply)
    (h1 : ∀ p ∈ s.pending, p.1 ≠ id) (h2 : ∀ p ∈ s.calls, p.1 ≠ id) :
    step s (.reply id r) = { s with log := s.log ++ [.dropped] } := by
  have e1 : s.pending.find? (·.1 == id) = none := by
    rw [List.find?_eq_none]; intro q hq; simpa using h1 q hq
  have e2 : s.calls.find? (·.1 == id) = none := by
    rw [List.find?_eq_none]; intro q hq; simpa using h2 q hq
  simp [step, e1, e2]

/-- **Reconnect fails every outstanding call.** With reconnection enabled, the first half of the reconnect callback
    hands an error to every caller whose request was outstanding, and leaves no call, no pending request and no
    active server id of the old connection behind. -/
theorem reconnect_fails_all (s : St) (order : List Nat) (hre : s.reconnectEnabled = true) :
    let s' := step s (.reconnectClear order)
    (∀ p ∈ s.calls, Ev.completed p.2 p.1 false ∈ s'.log) ∧ s'.calls = [] ∧ s'.pending = [] ∧ s'.active = [] ∧
    s'.resubQueue = order.filter s.configured.contains := by
  simp only [step, hre, Bool.not_true, Bool.false_eq_true, if_false, clearAll]
  refine ⟨?_, trivial, trivial, trivial, trivial⟩
  intro p hp
  exact List.mem_append_right _ (List.mem_map.mpr ⟨p, hp, rfl⟩)

/-- the callback's loop body issues one eth_subscribe for the next subscription of the queue if it is still
    configured, and nothing for one that has been unsubscribed meanwhile -/
theorem resubscribe_one (s : St) (l : Nat) (rest : List Nat) (hq : s.resubQueue = l :: rest) :
    let s' := step s .resubscribe
    s'.resubQueue = rest ∧
    ((l ∈ s.configured → s'.log = s.log ++ [.sentSub (s.counter + 1) l] ∧ (s.counter + 1, l) ∈ s'.pending) ∧
     (l ∉ s.configured → s'.log = s.log ∧ s'.pending = s.pending)) := by
  simp only [step, hq, addInflightSub, skipSub, facts.2.1, Bool.false_and, Bool.false_or, Bool.true_and]
  by_cases hc : l ∈ s.configured
  · have : s.configured.contains l = true := by simpa using hc
    simp [this, hc, allocSub]
  · have : s.configured.contains l = false := by simpa using hc
    simp [this, hc]

/-! ### ownership: one server relationship per subscription -/

theorem getSub_update (s s' : St) (l : Nat) (r : SubRec) (h : s'.subs = (l, r) :: s.subs.filter (·.1 != l)) (l' : Nat) :
    getSub s' l' = if l' = l then r else getSub s l' := by
  unfold getSub
  rw [h, List.find?_cons]
  by_cases e : l' = l
  · subst e; simp
  · have e' : ((l, r).1 == l') = false := by simpa using fun h => e h.symm
    rw [e', if_neg e]
    congr 2
    -- find? on the filtered list
    induction s.subs with
    | nil => rfl
    | cons q t ih =>
      rw [List.filter_cons]
      by_cases hq : q.1 = l
      · have h1 : (q.1 != l) = false := by simp [hq]
        have h2 : (q.1 == l') = false := by simpa [hq] using fun h => e h.symm
        rw [h1, List.find?_cons, h2]
        simpa using ih
      · have h1 : (q.1 != l) = true := by simpa using hq
        rw [h1]
        simp only [if_true, List.find?_cons]
        split
        · rfl
        · exact ih

theorem getSub_setSub (s : St) (l : Nat) (r : SubRec) (l' : Nat) :
    getSub (setSub s l r) l' = if l' = l then r else getSub s l' :=
  getSub_update s (setSub s l r) l r rfl l'

theorem getSub_default (s : St) (l : Nat) (h : ∀ p ∈ s.subs, p.1 ≠ l) : getSub s l = {} := by
  unfold getSub
  have : s.subs.find? (·.1 == l) = none := by
    rw [List.find?_eq_none]; intro p hp; simpa using h p hp
  rw [this]; rfl

def resetRec (r : SubRec) : SubRec := { r with pendingReq := none, current := none }

theorem find_map_reset (cfg : Nat → Bool) : ∀ (subs : List (Nat × SubRec)) (l : Nat),
    ((subs.map fun p => if cfg p.1 then (p.1, resetRec p.2) else p).find? (·.1 == l)).map (·.2) =
    ((subs.find? (·.1 == l)).map (·.2)).map (fun r => if cfg l then resetRec r else r) := by
  intro subs
  induction subs with
  | nil => intro l; rfl
  | cons q t ih =>
    intro l
    simp only [List.map_cons, List.find?_cons]
    by_cases hq : q.1 = l
    · subst hq
      by_cases hc : cfg q.1 = true
      · simp [hc]
      · simp [hc]
    · have h1 : (q.1 == l) = false := by simpa using hq
      have h2 : ((if cfg q.1 = true then (q.1, resetRec q.2) else q).1 == l) = false := by
        split <;> simpa using hq
      rw [h1, h2]
      exact ih l

theorem getSub_clearAll (s : St) (order : List Nat) (l : Nat) :
    getSub (clearAll s order) l = if s.configured.contains l then resetRec (getSub s l) else getSub s l := by
  unfold getSub
  have := find_map_reset (fun x => s.configured.contains x) s.subs l
  have hsubs : (clearAll s order).subs = s.subs.map fun p => if s.configured.contains p.1 then (p.1, resetRec p.2) else p := rfl
  rw [hsubs, this]
  cases s.subs.find? (·.1 == l) with
  | none => simp; intro _; rfl
  | some p => simp

structure Own (s : St) : Prop where
  pend : ∀ p ∈ s.pending, (getSub s p.2).pendingReq = some p.1 ∧ p.2 ∈ s.configured
  act : ∀ p ∈ s.active, (getSub s p.2).current = some p.1 ∧ p.2 ∈ s.configured
  conf : ∀ l sid w, s.confirming = some (l, sid, w) →
    (getSub s l).pendingReq = none ∧ (getSub s l).current = none ∧ (getSub s l).requested = true
  excl : ∀ l, (getSub s l).pendingReq.isSome = true → (getSub s l).current = none
  fresh : ∀ l, (getSub s l).requested = false → (getSub s l).pendingReq = none ∧ (getSub s l).current = none
  window : s.resubQueue ≠ [] → s.active = [] ∧ s.confirming = none

theorem own_init (re : Bool) : Own (init re) := by
  refine ⟨?_, ?_, ?_, ?_, ?_, ?_⟩ <;> simp [init, getSub]

/-- `allocSub l` when `l` is configured and owns no active entry and is not being confirmed -/
theorem own_allocSub (s : St) (l : Nat) (h : Own s) (hc : l ∈ s.configured)
    (hna : ∀ p ∈ s.active, p.2 ≠ l) (hnc : ∀ sid w, s.confirming ≠ some (l, sid, w)) (hw : s.resubQueue ≠ [] → s.active = [] ∧ s.confirming = none) :
    Own (allocSub s l) := by
  have hg := getSub_update s (allocSub s l) l _ (rfl : (allocSub s l).subs = _)
  refine ⟨?_, ?_, ?_, ?_, ?_, ?_⟩
  · intro p hp
    simp only [allocSub, List.mem_append, List.mem_singleton] at hp
    rcases hp with hp | hp
    · have hp' : p ∈ s.pending := mem_stalePending s l p hp
      have := h.pend p hp'
      by_cases e : p.2 = l
      · -- an older request of the same subscription: it was dropped as stale
        exfalso
        unfold stalePending at hp
        simp only [facts.2.2.1, if_true] at hp
        rw [e] at this
        rw [this.1] at hp
        have := (List.mem_filter.mp hp).2
        simp at this
      · rw [hg, if_neg e]; exact ⟨this.1, by simpa [allocSub] using this.2⟩
    · subst hp
      rw [hg]; simp [allocSub, hc]
  · intro p hp
    have hp' : p ∈ s.active := by simpa [allocSub] using hp
    have := h.act p hp'
    rw [hg, if_neg (hna p hp')]
    exact ⟨this.1, by simpa [allocSub] using this.2⟩
  · intro l' sid w hcf
    have hcf' : s.confirming = some (l', sid, w) := by simpa [allocSub] using hcf
    have hne : l' ≠ l := fun e => hnc sid w (e ▸ hcf')
    rw [hg, if_neg hne]
    exact h.conf l' sid w hcf'
  · intro l' hp
    rw [hg] at hp ⊢
    by_cases e : l' = l
    · simp [e]
    · rw [if_neg e] at hp ⊢; exact h.excl l' hp
  · intro l' hr
    rw [hg] at hr ⊢
    by_cases e : l' = l
    · simp [e] at hr
    · rw [if_neg e] at hr ⊢; exact h.fresh l' hr
  · intro hq
    have := hw (by simpa [allocSub] using hq)
    simpa [allocSub] using this

theorem own_addInflightSub (s : St) (l : Nat) (initial : Bool) (h : Own s)
    (hres : initial = false → s.active = [] ∧ s.confirming = none) : Own (addInflightSub s l initial) := by
  unfold addInflightSub
  split
  · exact h
  · rename_i hskip
    have hskip' : skipSub s l initial = false := by simpa using hskip
    unfold skipSub at hskip'
    simp only [facts.1, facts.2.1, Bool.and_true, Bool.true_and, Bool.or_eq_false_iff, Bool.and_eq_false_iff,
      Bool.not_eq_false'] at hskip'
    have hc : l ∈ s.configured := by simpa using hskip'.2
    cases hi : initial with
    | false =>
      obtain ⟨ha, hcn⟩ := hres hi
      exact own_allocSub s l h hc (by rw [ha]; intro p hp; cases hp) (by rw [hcn]; intro _ _ e; cases e) h.window
    | true =>
      have hreq : (getSub s l).requested = false := by
        rcases hskip'.1 with h1 | h1
        · rw [hi] at h1; cases h1
        · exact h1
      have hf := h.fresh l hreq
      refine own_allocSub s l h hc ?_ ?_ h.window
      · intro p hp e
        have := (h.act p hp).1
        rw [e, hf.2] at this; cases this
      · intro sid w e
        have := (h.conf l sid w e).2.2
        rw [hreq] at this; cases this

theorem own_step (s : St) (op : Op) (h : Own s) (hok : okOp s op) : Own (step s op) := by
  cases op with
  | call c => exact ⟨h.pend, h.act, h.conf, h.excl, h.fresh, h.window⟩
  | cancelCall id =>
    simp only [step]
    split
    · exact ⟨h.pend, h.act, h.conf, h.excl, h.fresh, h.window⟩
    · exact h
  | subscribe l =>
    simp only [step]
    split
    · exact h
    · have hfr : ∀ p ∈ s.subs, p.1 ≠ l := hok
      have hd := getSub_default s l hfr
      have hg := getSub_setSub s l {}
      refine ⟨?_, ?_, ?_, ?_, ?_, ?_⟩
      · intro p hp
        have hp' : p ∈ s.pending := by simpa [setSub] using hp
        have := h.pend p hp'
        have hne : p.2 ≠ l := fun e => by rw [e, hd] at this; cases this.1
        simp only [] at *
        rw [show getSub { setSub s l {} with configured := s.configured ++ [l] } p.2 = getSub (setSub s l {}) p.2 from rfl, hg, if_neg hne]
        exact ⟨this.1, by simp [this.2]⟩
      · intro p hp
        have hp' : p ∈ s.active := by simpa [setSub] using hp
        have := h.act p hp'
        have hne : p.2 ≠ l := fun e => by rw [e, hd] at this; cases this.1
        rw [show getSub { setSub s l {} with configured := s.configured ++ [l] } p.2 = getSub (setSub s l {}) p.2 from rfl, hg, if_neg hne]
        exact ⟨this.1, by simp [this.2]⟩
      · intro l' sid w hcf
        have hcf' : s.confirming = some (l', sid, w) := by simpa [setSub] using hcf
        have := h.conf l' sid w hcf'
        have hne : l' ≠ l := fun e => by rw [e, hd] at this; cases this.2.2
        rw [show getSub { setSub s l {} with configured := s.configured ++ [l] } l' = getSub (setSub s l {}) l' from rfl, hg, if_neg hne]
        exact this
      · intro l' hp
        rw [show getSub { setSub s l {} with configured := s.configured ++ [l] } l' = getSub (setSub s l {}) l' from rfl, hg] at hp ⊢
        by_cases e : l' = l
        · simp [e]
        · rw [if_neg e] at hp ⊢; exact h.excl l' hp
      · intro l' hr
        rw [show getSub { setSub s l {} with configured := s.configured ++ [l] } l' = getSub (setSub s l {}) l' from rfl, hg] at hr ⊢
        by_cases e : l' = l
        · simp [e]
        · rw [if_neg e] at hr ⊢; exact h.fresh l' hr
      · intro hq
        have := h.window (by simpa [setSub] using hq)
        simpa [setSub] using this
  | sendSubscribe l => exact own_addInflightSub s l true h (by intro e; cases e)
  | reply id r =>
    simp only [step]
    split
    · rename_i l hf
      have hmem : (id, l) ∈ s.pending := by
        have := List.mem_of_find?_eq_some hf
        have hid := List.find?_some hf
        simp only [beq_iff_eq] at hid
        rw [← hid]; exact this
      have hpl := h.pend (id, l) hmem
      have hcur : (getSub s l).current = none := h.excl l (by simp [hpl.1])
      have hreqd : (getSub s l).requested = true := by
        by_cases hr : (getSub s l).requested = true
        · exact hr
        · have := (h.fresh l (by simpa using hr)).1
          rw [hpl.1] at this; cases this
      have hwin : s.resubQueue = [] ∧ s.confirming = none := by
        cases r with
        | error => exact hok
        | result o => cases o with
          | none => exact hok
          | some sid => exact ⟨hok.1, hok.2.1⟩
      have hg := getSub_update s (popSub s id l) l _ (rfl : (popSub s id l).subs = _)
      have hpop : Own (popSub s id l) := by
        refine ⟨?_, ?_, ?_, ?_, ?_, ?_⟩
        · intro p hp
          have hp' : p ∈ s.pending ∧ p.1 ≠ id := by simpa [popSub] using hp
          have := h.pend p hp'.1
          have hne : p.2 ≠ l := fun e => by
            rw [e, hpl.1] at this
            exact hp'.2 (by injection this.1 with h'; exact h'.symm)
          rw [hg, if_neg hne]; exact ⟨this.1, by simpa [popSub] using this.2⟩
        · intro p hp
          have hp' : p ∈ s.active := by simpa [popSub] using hp
          have := h.act p hp'
          have hne : p.2 ≠ l := fun e => by rw [e, hcur] at this; cases this.1
          rw [hg, if_neg hne]; exact ⟨this.1, by simpa [popSub] using this.2⟩
        · intro l' sid w hcf
          have : s.confirming = some (l', sid, w) := by simpa [popSub] using hcf
          rw [hwin.2] at this; cases this
        · intro l' hp
          rw [hg] at hp ⊢
          by_cases e : l' = l
          · simp [e] at hp
          · rw [if_neg e] at hp ⊢; exact h.excl l' hp
        · intro l' hr
          rw [hg] at hr ⊢
          by_cases e : l' = l
          · simp [e, hreqd] at hr
          · rw [if_neg e] at hr ⊢; exact h.fresh l' hr
        · intro hq
          have : s.resubQueue ≠ [] := by simpa [popSub] using hq
          exact absurd hwin.1 this
      have hgl : getSub (popSub s id l) l = { getSub s l with pendingReq := none, waiter := false } := by rw [hg]; simp
      cases r with
      | error => exact ⟨hpop.pend, hpop.act, hpop.conf, hpop.excl, hpop.fresh, hpop.window⟩
      | result o =>
        cases o with
        | none => exact ⟨hpop.pend, hpop.act, hpop.conf, hpop.excl, hpop.fresh, hpop.window⟩
        | some sid =>
          refine ⟨hpop.pend, hpop.act, ?_, hpop.excl, hpop.fresh, ?_⟩
          · intro l' sid' w hcf
            simp only [afterPop, Option.some.injEq, Prod.mk.injEq] at hcf
            obtain ⟨rfl, _, _⟩ := hcf
            show (getSub (popSub s id l) l).pendingReq = none ∧ (getSub (popSub s id l) l).current = none ∧
              (getSub (popSub s id l) l).requested = true
            rw [hgl]
            exact ⟨rfl, hcur, hreqd⟩
          · intro hq
            have : s.resubQueue ≠ [] := by simpa [afterPop, popSub] using hq
            exact absurd hwin.1 this
    · split
      · exact ⟨h.pend, h.act, h.conf, h.excl, h.fresh, h.window⟩
      · exact ⟨h.pend, h.act, h.conf, h.excl, h.fresh, h.window⟩
  | activate =>
    simp only [step]
    split
    · exact h
    · rename_i l sid waiter hcf
      obtain ⟨hp0, hc0, hr0⟩ := h.conf l sid waiter hcf
      have hq : s.resubQueue = [] := by
        by_cases e : s.resubQueue = []
        · exact e
        · have := (h.window e).2; rw [hcf] at this; cases this
      by_cases hcfg : (activateChecksConfigured && !s.configured.contains l) = true
      · simp only [hcfg, if_true]
        refine ⟨h.pend, h.act, ?_, h.excl, h.fresh, ?_⟩
        · intro l' sid' w e; cases e
        · intro e; exact absurd hq e
      · simp only [hcfg]
        have hin : l ∈ s.configured := by
          simp only [facts.2.2.2.1, Bool.true_and, Bool.not_eq_true', Bool.not_eq_false'] at hcfg
          simpa using hcfg
        have hg := getSub_update s (activateSub s l sid) l _ (rfl : (activateSub s l sid).subs = _)
        have hown : Own (activateSub s l sid) := by
          refine ⟨?_, ?_, ?_, ?_, ?_, ?_⟩
          · intro p hp
            have hp' : p ∈ s.pending := by simpa [activateSub] using hp
            have := h.pend p hp'
            have hne : p.2 ≠ l := fun e => by rw [e, hp0] at this; cases this.1
            rw [hg, if_neg hne]; exact ⟨this.1, by simpa [activateSub] using this.2⟩
          · intro p hp
            simp only [activateSub, List.mem_cons] at hp
            rcases hp with rfl | hp
            · rw [hg]; simp [activateSub, hin]
            · have hp' : p ∈ s.active := (List.mem_filter.mp hp).1
              have := h.act p hp'
              have hne : p.2 ≠ l := fun e => by rw [e, hc0] at this; cases this.1
              rw [hg, if_neg hne]; exact ⟨this.1, by simpa [activateSub] using this.2⟩
          · intro l' sid' w e
            simp [activateSub] at e
          · intro l' hp
            rw [hg] at hp ⊢
            by_cases e : l' = l
            · simp [e, hp0] at hp
            · rw [if_neg e] at hp ⊢; exact h.excl l' hp
          · intro l' hr
            rw [hg] at hr ⊢
            by_cases e : l' = l
            · simp [e, hr0] at hr
            · rw [if_neg e] at hr ⊢; exact h.fresh l' hr
          · intro e
            have : s.resubQueue ≠ [] := by simpa [activateSub] using e
            exact absurd hq this
        exact ⟨hown.pend, hown.act, hown.conf, hown.excl, hown.fresh, hown.window⟩
  | notify sid =>
    simp only [step]
    split <;> exact ⟨h.pend, h.act, h.conf, h.excl, h.fresh, h.window⟩
  | reconnectClear order =>
    simp only [step]
    split
    · exact h
    · have hconf : s.confirming = none := hok.2.1
      have hget : ∀ l', getSub (clearAll s order) l' =
            if s.configured.contains l' then resetRec (getSub s l') else getSub s l' := getSub_clearAll s order
      refine ⟨by intro p hp; simp [clearAll] at hp, by intro p hp; simp [clearAll] at hp, ?_, ?_, ?_, ?_⟩
      · intro l' sid w e
        have : s.confirming = some (l', sid, w) := by simpa [clearAll] using e
        rw [hconf] at this; cases this
      · intro l' hp
        rw [hget] at hp ⊢
        split
        · rfl
        · rename_i hc; rw [if_neg hc] at hp; exact h.excl l' hp
      · intro l' hr
        rw [hget] at hr ⊢
        split
        · exact ⟨rfl, rfl⟩
        · rename_i hc; rw [if_neg hc] at hr; exact h.fresh l' hr
      · intro _; exact ⟨by simp [clearAll], by simpa [clearAll] using hconf⟩
  | resubscribe =>
    simp only [step]
    split
    · exact h
    · rename_i l rest hq
      have hw := h.window (by rw [hq]; simp)
      have hbase : Own { s with resubQueue := rest } :=
        ⟨h.pend, h.act, h.conf, h.excl, h.fresh, fun _ => hw⟩
      exact own_addInflightSub _ l false hbase (fun _ => hw)
  | unsubscribe l =>
    simp only [step]
    refine ⟨?_, ?_, ?_, h.excl, h.fresh, ?_⟩
    · intro p hp
      have hp' : p ∈ s.pending := by
        dsimp only at hp
        split at hp
        · exact (List.mem_filter.mp hp).1
        · exact hp
      have := h.pend p hp'
      refine ⟨this.1, ?_⟩
      have hne : p.2 ≠ l := by
        intro e
        dsimp only at hp
        rw [e] at this
        rw [this.1] at hp
        have := (List.mem_filter.mp hp).2
        simp at this
      exact List.mem_filter.mpr ⟨this.2, by simpa using hne⟩
    · intro p hp
      have hp' : p ∈ s.active := by
        dsimp only at hp
        split at hp
        · exact (List.mem_filter.mp hp).1
        · exact hp
      have := h.act p hp'
      refine ⟨this.1, ?_⟩
      have hne : p.2 ≠ l := by
        intro e
        dsimp only at hp
        rw [e] at this
        rw [this.1] at hp
        have := (List.mem_filter.mp hp).2
        simp at this
      exact List.mem_filter.mpr ⟨this.2, by simpa using hne⟩
    · intro l' sid w e; exact h.conf l' sid w e
    · intro e
      have := h.window e
      dsimp only
      rw [this.1]
      exact ⟨by split <;> simp, this.2⟩

theorem own_reach {re : Bool} {s : St} (h : Reach re s) : Own s := by
  induction h with
  | init => exact own_init re
  | step op _ hok ih => exact own_step _ op ih hok

/-- **A notification goes to the subscription that currently owns its server id**: in every reachable state, a
    frame for server id `sid` is handed to `l` only if `l` is configured and `sid` is `l`'s current server id (which is
    also the id reported to the consumer). -/
theorem notify_routes_to_owner {re : Bool} {s : St} (h : Reach re s) (sid l : Nat)
    (hf : s.active.find? (·.1 == sid) = some (sid, l)) :
    (step s (.notify sid)).log = s.log ++ [.notified l sid] ∧ l ∈ s.configured ∧ (getSub s l).current = some sid := by
  have hmem := List.mem_of_find?_eq_some hf
  have := (own_reach h).act (sid, l) hmem
  simp [step, hf, this.1, this.2]

/-- **…and to none after it is unsubscribed**: a subscription that is not configured owns no server id, in any
    reachable state, so no notification is routed to it — whatever raced with the unsubscribe. -/
theorem unsubscribed_owns_nothing {re : Bool} {s : St} (h : Reach re s) (l : Nat) (hl : l ∉ s.configured) :
    (∀ p ∈ s.active, p.2 ≠ l) ∧ (∀ p ∈ s.pending, p.2 ≠ l) := by
  have ho := own_reach h
  exact ⟨fun p hp e => hl (e ▸ (ho.act p hp).2), fun p hp e => hl (e ▸ (ho.pend p hp).2)⟩

/-- **One server id per subscription**: two active entries of the same subscription carry the same server id, and a
    subscription with a request outstanding owns no active id. -/
theorem one_owner {re : Bool} {s : St} (h : Reach re s) (p q : Nat × Nat) (hp : p ∈ s.active) (hq : q ∈ s.active)
    (hl : p.2 = q.2) : p.1 = q.1 := by
  have ho := own_reach h
  have h1 := (ho.act p hp).1
  have h2 := (ho.act q hq).1
  rw [hl, h2] at h1
  injection h1 with h1
  exact h1.symm

theorem pending_excludes_active {re : Bool} {s : St} (h : Reach re s) (p q : Nat × Nat) (hp : p ∈ s.pending) (hq : q ∈ s.active) :
    p.2 ≠ q.2 := by
  have ho := own_reach h
  intro e
  have h1 := (ho.pend p hp).1
  have h2 := (ho.act q hq).1
  have := ho.excl p.2 (by simp [h1])
  rw [e, h2] at this
  cases this

/-- non-vacuity: three callers, replies out of order with a duplicate, a reconnect with one call outstanding -/
example :
    let s := run (init true) [.call 1, .call 2, .call 3, .reply 2 (.result none), .reply 2 (.result none),
      .reply 1 .error, .reconnectClear []]
    s.log = [.sentCall 1 1, .sentCall 2 2, .sentCall 3 3, .completed 2 2 true, .dropped, .completed 1 1 false,
             .completed 3 3 false] ∧ s.calls = [] := by
  decide

end Ws
end FFS.Props.C18
