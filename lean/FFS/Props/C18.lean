import FFS.Model.RpcClients
