/-
  Property C11 — ABI decoding of arbitrary bytes is total, stable and bounded by the data given.
  Model: FFS.Model.Abi.decode / decodeList / decodeParams (pkg/abi/abidecode.go) for every type tree, every byte
  string and every head position.
  * `decode_total`     : never a panic (every slice is preceded by its bounds check; no fuel anywhere: the loops are
                         structural in the type and in the count read from the data).
  * `decode_heads`     : the head bytes a decode reports as read are a multiple of 32 and, when non-zero, lie inside
                         the block — so a loop over n children that each read something needs 32·n bytes of data.
  * `darr_bounded`     : a dynamic array that decodes has at most max(cap, |block|/32) children: its size is bounded
                         by the data supplied (or by the fixed cap for elements with an empty encoding), never by the
                         magnitude of the count word.
  * `decode_serialisable` : a returned tree can be serialised in every formatting mode with every serializer.
  * `decode_shape`     : a returned tree is a value tree of the definition's type (array lengths, one member per tuple
                         component, unsigned integers below 2^m, signed within 256 bits, bytes<M> of exactly M bytes).
  decode∘encode∘decode stability is checked by the correspondence run (the encoder is modelled, C02/C03 prove
  decode∘encode = id on well-typed values, but a decoded `bool` word other than 0/1 is outside `WellTyped`, so the
  statement over arbitrary returned trees is not proved here).
-/
import FFS.Model.AbiIO
import FFS.Props.C03
import FFS.Props.C02
namespace FFS.Props.C11
open FFS FFS.Model.Abi FFS.Gen.AbiCodecFacts

/-- the regenerated facts the decoder model rests on -/
theorem facts : zeroSizeCountBounded = true ∧ dynArrayNoUpfrontAlloc = true ∧ lengthBoundsChecked = true ∧
    maxEmptyElementCount = 65536 := by decide

theorem decodeLength_ne_panic (block : Bytes) (off : Nat) : decodeLength block off ≠ .panic := by
  unfold decodeLength
  split
  · simp
  · rename_i h
    have hs : slice? block off (off + 32) = .ok ((block.drop off).take (off + 32 - off)) := by
      unfold slice?
      have : off ≤ off + 32 ∧ off + 32 ≤ block.length := ⟨by omega, by omega⟩
      simp [this]
    rw [hs]
    simp only []
    split <;> simp

theorem decodeElem_ne_panic (info : ElemInfo) (m : Nat) (block : Bytes) (hs hp : Nat) :
    decodeElem info m block hs hp ≠ .panic := by
  unfold decodeElem
  split
  · split
    · simp
    · rename_i h
      have : slice? block hp (hp + 32) = .ok ((block.drop hp).take (hp + 32 - hp)) := by
        unfold slice?
        have : hp ≤ hp + 32 ∧ hp + 32 ≤ block.length := ⟨by omega, by omega⟩
        simp [this]
      rw [this]; simp [Outcome.bind]
  · split
    · simp
    · rename_i h
      have : slice? block (hp + (32 - m / 8)) (hp + 32) =
          .ok ((block.drop (hp + (32 - m / 8))).take (hp + 32 - (hp + (32 - m / 8)))) := by
        unfold slice?
        have : hp + (32 - m / 8) ≤ hp + 32 ∧ hp + 32 ≤ block.length := ⟨by omega, by omega⟩
        simp [this]
      rw [this]; simp [Outcome.bind]
  · -- bytes / string
    simp only []
    split
    · have h1 := decodeLength_ne_panic block hp
      split
      · rename_i off _
        have h2 := decodeLength_ne_panic block (hs + off)
        split
        · split <;> simp
        · simp
        · rename_i hp2; exact absurd hp2 h2
      · simp
      · rename_i hp1; exact absurd hp1 h1
    · split <;> simp
  · simp only []
    split
    · have h1 := decodeLength_ne_panic block hp
      split
      · rename_i off _
        have h2 := decodeLength_ne_panic block (hs + off)
        split
        · split <;> simp
        · simp
        · rename_i hp2; exact absurd hp2 h2
      · simp
      · rename_i hp1; exact absurd hp1 h1
    · split <;> simp
  · simp

theorem decodeRepeat_ne_panic (dec : Nat → Nat → Outcome (Nat × CV)) (hd : ∀ a b, dec a b ≠ .panic) :
    ∀ (n hs hp : Nat), decodeRepeat dec n hs hp ≠ .panic := by
  intro n
  induction n with
  | zero => intro hs hp; simp [decodeRepeat]
  | succ n ih =>
    intro hs hp
    unfold decodeRepeat
    split
    · rename_i r c _
      have := ih hs (hp + r)
      split
      · simp
      · simp
      · rename_i hp'; exact absurd hp' this
    · simp
    · rename_i hp'; exact absurd hp' (hd hs hp)

theorem decodeRepeatDyn_ne_panic (dec : Nat → Nat → Outcome (Nat × CV)) (over : Bool) (hd : ∀ a b, dec a b ≠ .panic) :
    ∀ (n hs hp : Nat), decodeRepeatDyn dec over n hs hp ≠ .panic := by
  intro n
  induction n with
  | zero => intro hs hp; simp [decodeRepeatDyn]
  | succ n ih =>
    intro hs hp
    unfold decodeRepeatDyn
    split
    · rename_i r c _
      have := ih hs (hp + r)
      split
      · simp
      · split
        · simp
        · simp
        · rename_i hp'; exact absurd hp' this
    · simp
    · rename_i hp'; exact absurd hp' (hd hs hp)

mutual
  /-- **Totality.** Decoding any bytes as any type at any position never panics. -/
  theorem decode_total : ∀ (t : Ty) (block : Bytes) (hs hp : Nat), decode t block hs hp ≠ .panic
    | .elem info suffix m n, block, hs, hp => by
      unfold decode
      have := decodeElem_ne_panic info m block hs hp
      split
      · simp
      · simp
      · rename_i h; exact absurd h this
    | .farr t k, block, hs, hp => by
      unfold decode
      have hrec : ∀ a b, decode t block a b ≠ .panic := fun a b => decode_total t block a b
      split
      · have h1 := decodeLength_ne_panic block hp
        split
        · rename_i off _
          have := decodeRepeat_ne_panic (decode t block) hrec k (hs + off) (hs + off)
          split
          · simp
          · simp
          · rename_i h; exact absurd h this
        · simp
        · rename_i h; exact absurd h h1
      · have := decodeRepeat_ne_panic (decode t block) hrec k hs hp
        split
        · simp
        · simp
        · rename_i h; exact absurd h this
    | .darr t, block, hs, hp => by
      unfold decode
      have hrec : ∀ a b, decode t block a b ≠ .panic := fun a b => decode_total t block a b
      have h1 := decodeLength_ne_panic block hp
      split
      · rename_i off _
        have h2 := decodeLength_ne_panic block (hs + off)
        split
        · rename_i count _
          have := decodeRepeatDyn_ne_panic (decode t block) (decide (count > maxEmptyElementCount)) hrec count (hs + off + 32) (hs + off + 32)
          split
          · simp
          · simp
          · rename_i h; exact absurd h this
        · simp
        · rename_i h; exact absurd h h2
      · simp
      · rename_i h; exact absurd h h1
    | .tuple ns ts, block, hs, hp => by
      unfold decode
      split
      · have h1 := decodeLength_ne_panic block hp
        split
        · rename_i off _
          have := decodeList_total ts block (hs + off) (hs + off)
          split
          · simp
          · simp
          · rename_i h; exact absurd h this
        · simp
        · rename_i h; exact absurd h h1
      · have := decodeList_total ts block hs hp
        split
        · simp
        · simp
        · rename_i h; exact absurd h this
  theorem decodeList_total : ∀ (ts : List Ty) (block : Bytes) (hs hp : Nat), decodeList ts block hs hp ≠ .panic
    | [], block, hs, hp => by simp [decodeList]
    | t :: ts, block, hs, hp => by
      unfold decodeList
      have h1 := decode_total t block hs hp
      split
      · rename_i r c _
        have := decodeList_total ts block hs (hp + r)
        split
        · simp
        · simp
        · rename_i h; exact absurd h this
      · simp
      · rename_i h; exact absurd h h1
end

/-- `ParameterArray.DecodeABIData(b, offset)` never panics -/
theorem decodeParams_total (ts : List Ty) (block : Bytes) (offset : Nat) : decodeParams ts block offset ≠ .panic := by
  unfold decodeParams
  have := decodeList_total ts block offset offset
  split
  · simp
  · simp
  · rename_i h; exact absurd h this

/-! ### head bytes and the bound on dynamic arrays -/

/-- what a decode reports as read: a multiple of 32 and, when non-zero, starting inside the block -/
def HeadOK (block : Bytes) (hp r : Nat) : Prop := r % 32 = 0 ∧ (r = 0 ∨ hp < block.length)

theorem decodeLength_ok_bound (block : Bytes) (off n : Nat) (h : decodeLength block off = .ok n) :
    off + 32 ≤ block.length := by
  unfold decodeLength at h
  split at h
  · cases h
  · omega

theorem decodeElem_ok_bound (info : ElemInfo) (m : Nat) (hm : codecOf info.dec = .bytes ∨ codecOf info.dec = .string → m = 0 ∨ 0 < m)
    (block : Bytes) (hs hp : Nat) (v : CV) (h : decodeElem info m block hs hp = .ok v) : hp < block.length := by
  unfold decodeElem at h
  split at h
  · split at h
    · cases h
    · omega
  · split at h
    · cases h
    · omega
  · simp only [] at h
    split at h
    · split at h
      · rename_i off hl
        have := decodeLength_ok_bound block hp off hl
        omega
      · cases h
      · cases h
    · rename_i hm0
      split at h
      · cases h
      · omega
  · simp only [] at h
    split at h
    · split at h
      · rename_i off hl
        have := decodeLength_ok_bound block hp off hl
        omega
      · cases h
      · cases h
    · rename_i hm0
      split at h
      · cases h
      · omega
  · cases h

theorem decodeRepeat_heads (block : Bytes) (dec : Nat → Nat → Outcome (Nat × CV))
    (hd : ∀ a b r v, dec a b = .ok (r, v) → HeadOK block b r) :
    ∀ (n hs hp r : Nat) (cs : List CV), decodeRepeat dec n hs hp = .ok (r, cs) → HeadOK block hp r := by
  intro n
  induction n with
  | zero => intro hs hp r cs h; simp [decodeRepeat] at h; obtain ⟨rfl, _⟩ := h; exact ⟨rfl, Or.inl rfl⟩
  | succ n ih =>
    intro hs hp r cs h
    unfold decodeRepeat at h
    split at h
    · rename_i r0 c hdec
      split at h
      · rename_i rs cs' hrest
        injection h with h; injection h with h1 h2
        subst h1
        have a := hd hs hp r0 c hdec
        have b := ih hs (hp + r0) rs cs' hrest
        refine ⟨by have := a.1; have := b.1; omega, ?_⟩
        rcases a.2 with a0 | a0
        · rcases b.2 with b0 | b0
          · left; omega
          · right; omega
        · right; exact a0
      · cases h
      · cases h
    · cases h
    · cases h

theorem decodeRepeatDyn_spec (block : Bytes) (dec : Nat → Nat → Outcome (Nat × CV)) (over : Bool)
    (hd : ∀ a b r v, dec a b = .ok (r, v) → HeadOK block b r) :
    ∀ (n hs hp r : Nat) (cs : List CV), decodeRepeatDyn dec over n hs hp = .ok (r, cs) →
      cs.length = n ∧ (over = true → n = 0 ∨ hp + 32 * (n - 1) < block.length) := by
  intro n
  induction n with
  | zero => intro hs hp r cs h; simp [decodeRepeatDyn] at h; obtain ⟨_, rfl⟩ := h; exact ⟨rfl, fun _ => Or.inl rfl⟩
  | succ n ih =>
    intro hs hp r cs h
    unfold decodeRepeatDyn at h
    split at h
    · rename_i r0 c hdec
      split at h
      · cases h
      · rename_i hnz
        split at h
        · rename_i rs cs' hrest
          injection h with h; injection h with h1 h2
          subst h2
          have a := hd hs hp r0 c hdec
          have b := ih hs (hp + r0) rs cs' hrest
          refine ⟨by simp [b.1], ?_⟩
          intro hov
          right
          have hr0 : r0 ≠ 0 := by
            intro e
            apply hnz
            simp [facts.1, hov, e]
          have hr32 : 32 ≤ r0 := by have := a.1; omega
          have hlt : hp < block.length := by
            rcases a.2 with a0 | a0
            · exact absurd a0 hr0
            · exact a0
          rcases b.2 hov with b0 | b0
          · subst b0; simpa using hlt
          · simp only [Nat.add_sub_cancel]
            omega
        · cases h
        · cases h
    · cases h
    · cases h

/-- widths in the type table: byte-like elementary types have m = 0 (dynamic) or m ≥ 1 -/
theorem width_trivial (m : Nat) : m = 0 ∨ 0 < m := by omega

mutual
  /-- **Head bytes.** Whatever a successful decode reports as read is a multiple of 32 and, if not zero, starts inside
      the block. -/
  theorem decode_heads : ∀ (t : Ty) (block : Bytes) (hs hp r : Nat) (v : CV), decode t block hs hp = .ok (r, v) → HeadOK block hp r
    | .elem info suffix m n, block, hs, hp, r, v => by
      intro h
      unfold decode at h
      split at h
      · rename_i v' hv
        injection h with h; injection h with h1 _
        subst h1
        exact ⟨rfl, Or.inr (decodeElem_ok_bound info m (fun _ => width_trivial m) block hs hp v' hv)⟩
      · cases h
      · cases h
    | .farr t k, block, hs, hp, r, v => by
      intro h
      unfold decode at h
      split at h
      · split at h
        · rename_i off hl
          split at h
          · injection h with h; injection h with h1 _
            subst h1
            have := decodeLength_ok_bound block hp off hl
            exact ⟨rfl, Or.inr (by omega)⟩
          · cases h
          · cases h
        · cases h
        · cases h
      · split at h
        · rename_i r' cs hrep
          injection h with h; injection h with h1 _
          subst h1
          exact decodeRepeat_heads block (decode t block) (fun a b r v hh => decode_heads t block a b r v hh) k hs hp r' cs hrep
        · cases h
        · cases h
    | .darr t, block, hs, hp, r, v => by
      intro h
      unfold decode at h
      split at h
      · rename_i off hl
        split at h
        · split at h
          · injection h with h; injection h with h1 _
            subst h1
            have := decodeLength_ok_bound block hp off hl
            exact ⟨rfl, Or.inr (by omega)⟩
          · cases h
          · cases h
        · cases h
        · cases h
      · cases h
      · cases h
    | .tuple ns ts, block, hs, hp, r, v => by
      intro h
      unfold decode at h
      split at h
      · split at h
        · rename_i off hl
          split at h
          · injection h with h; injection h with h1 _
            subst h1
            have := decodeLength_ok_bound block hp off hl
            exact ⟨rfl, Or.inr (by omega)⟩
          · cases h
          · cases h
        · cases h
        · cases h
      · split at h
        · rename_i r' cs hl
          injection h with h; injection h with h1 _
          subst h1
          exact decodeList_heads ts block hs hp r' cs hl
        · cases h
        · cases h
  theorem decodeList_heads : ∀ (ts : List Ty) (block : Bytes) (hs hp r : Nat) (cs : List CV),
      decodeList ts block hs hp = .ok (r, cs) → HeadOK block hp r
    | [], block, hs, hp, r, cs => by
      intro h; simp [decodeList] at h; obtain ⟨rfl, _⟩ := h; exact ⟨rfl, Or.inl rfl⟩
    | t :: ts, block, hs, hp, r, cs => by
      intro h
      unfold decodeList at h
      split at h
      · rename_i r0 c hdec
        split at h
        · rename_i rs cs' hrest
          injection h with h; injection h with h1 _
          subst h1
          have a := decode_heads t block hs hp r0 c hdec
          have b := decodeList_heads ts block hs (hp + r0) rs cs' hrest
          refine ⟨by have := a.1; have := b.1; omega, ?_⟩
          rcases a.2 with a0 | a0
          · rcases b.2 with b0 | b0
            · left; omega
            · right; omega
          · right; exact a0
        · cases h
        · cases h
      · cases h
      · cases h
end

/-- **Bounded by the data given.** A dynamic array that decodes has exactly as many children as its count word says,
    and that count is at most the fixed cap, or else the children's heads — 32 bytes apart at least — all start
    inside the block: the size of the tree is bounded by the amount of data (and the cap), never by the magnitude of
    a count word alone. -/
theorem darr_bounded (t : Ty) (block : Bytes) (hs hp r : Nat) (cs : List CV)
    (h : decode (.darr t) block hs hp = .ok (r, .kids cs)) :
    cs.length ≤ maxEmptyElementCount ∨ 32 * (cs.length - 1) < block.length := by
  unfold decode at h
  split at h
  · rename_i off _
    split at h
    · rename_i count _
      split at h
      · rename_i r' cs' hrep
        injection h with h; injection h with _ h2
        injection h2 with h2
        subst h2
        have := decodeRepeatDyn_spec block (decode t block) (decide (count > maxEmptyElementCount))
          (fun a b r v hh => decode_heads t block a b r v hh) count (hs + off + 32) (hs + off + 32) r' cs' hrep
        by_cases hc : count > maxEmptyElementCount
        · right
          have h2 := this.2 (by simpa using hc)
          rw [this.1]
          rcases h2 with h2 | h2
          · subst h2; omega
          · omega
        · left; rw [this.1]; omega
      · cases h
      · cases h
    · cases h
    · cases h
  · cases h
  · cases h

/-! ### a returned tree can always be serialised -/

theorem decodeRepeat_all (Q : CV → Prop) (dec : Nat → Nat → Outcome (Nat × CV))
    (hd : ∀ a b r v, dec a b = .ok (r, v) → Q v) :
    ∀ (n hs hp r : Nat) (cs : List CV), decodeRepeat dec n hs hp = .ok (r, cs) → ∀ c ∈ cs, Q c := by
  intro n
  induction n with
  | zero =>
    intro hs hp r cs h
    simp only [decodeRepeat] at h
    injection h with h; injection h with _ h2
    subst h2; intro c hc; simp at hc
  | succ k ih =>
    intro hs hp r cs h
    simp only [decodeRepeat] at h
    cases hdec : dec hs hp with
    | err => rw [hdec] at h; cases h
    | panic => rw [hdec] at h; cases h
    | ok p =>
      obtain ⟨r0, c0⟩ := p
      rw [hdec] at h
      simp only [] at h
      cases hrest : decodeRepeat dec k hs (hp + r0) with
      | err => rw [hrest] at h; cases h
      | panic => rw [hrest] at h; cases h
      | ok q =>
        obtain ⟨rs, cs'⟩ := q
        rw [hrest] at h
        simp only [] at h
        injection h with h; injection h with _ h2
        subst h2
        intro c hc
        simp only [List.mem_cons] at hc
        rcases hc with hc | hc
        · rw [hc]; exact hd hs hp r0 c0 hdec
        · exact ih hs (hp + r0) rs cs' hrest c hc

theorem decodeRepeatDyn_all (Q : CV → Prop) (dec : Nat → Nat → Outcome (Nat × CV)) (over : Bool)
    (hd : ∀ a b r v, dec a b = .ok (r, v) → Q v) :
    ∀ (n hs hp r : Nat) (cs : List CV), decodeRepeatDyn dec over n hs hp = .ok (r, cs) → ∀ c ∈ cs, Q c := by
  intro n
  induction n with
  | zero =>
    intro hs hp r cs h
    simp only [decodeRepeatDyn] at h
    injection h with h; injection h with _ h2
    subst h2; intro c hc; simp at hc
  | succ k ih =>
    intro hs hp r cs h
    simp only [decodeRepeatDyn] at h
    cases hdec : dec hs hp with
    | err => rw [hdec] at h; cases h
    | panic => rw [hdec] at h; cases h
    | ok p =>
      obtain ⟨r0, c0⟩ := p
      rw [hdec] at h
      simp only [] at h
      split at h
      · cases h
      · cases hrest : decodeRepeatDyn dec over k hs (hp + r0) with
        | err => rw [hrest] at h; cases h
        | panic => rw [hrest] at h; cases h
        | ok q =>
          obtain ⟨rs, cs'⟩ := q
          rw [hrest] at h
          simp only [] at h
          injection h with h; injection h with _ h2
          subst h2
          intro c hc
          simp only [List.mem_cons] at hc
          rcases hc with hc | hc
          · rw [hc]; exact hd hs hp r0 c0 hdec
          · exact ih hs (hp + r0) rs cs' hrest c hc

/-- the elementary decoders return the Go value kind the serializer expects for that type -/
theorem decodeElem_serialisable (cfg : SerCfg) (info : ElemInfo) (sfx : String) (m : Nat) (hok : C03.ElemOK info sfx m)
    (block : Bytes) (hs hp : Nat) (v : CV) (h : decodeElem info m block hs hp = .ok v) :
    ∃ j, serElem cfg info v = .ok j := by
  have hkind : (codecOf info.dec = .sint ∨ codecOf info.dec = .uint → ∃ z, v = .int z) ∧
      (codecOf info.dec = .bytes → ∃ b, v = .bytes b) ∧ (codecOf info.dec = .string → ∃ b, v = .str b) := by
    unfold decodeElem at h
    refine ⟨?_, ?_, ?_⟩
    · intro hc
      rcases hc with hc | hc <;> rw [hc] at h <;> simp only [] at h
      · split at h
        · cases h
        · cases hsl : slice? block hp (hp + 32) with
          | ok w => rw [hsl] at h; simp only [Outcome.bind] at h; injection h with h; exact ⟨_, h.symm⟩
          | err => rw [hsl] at h; cases h
          | panic => rw [hsl] at h; cases h
      · split at h
        · cases h
        · cases hsl : slice? block (hp + (32 - m / 8)) (hp + 32) with
          | ok w => rw [hsl] at h; simp only [Outcome.bind] at h; injection h with h; exact ⟨_, h.symm⟩
          | err => rw [hsl] at h; cases h
          | panic => rw [hsl] at h; cases h
    · intro hc
      rw [hc] at h
      simp only [] at h
      split at h
      · split at h
        · split at h
          · split at h
            · cases h
            · injection h with h; exact ⟨_, by rw [← h]; simp; rfl⟩
          · cases h
          · cases h
        · cases h
        · cases h
      · split at h
        · cases h
        · injection h with h; exact ⟨_, by rw [← h]; simp; rfl⟩
    · intro hc
      rw [hc] at h
      simp only [] at h
      split at h
      · split at h
        · split at h
          · split at h
            · cases h
            · injection h with h; exact ⟨_, by rw [← h]; simp; rfl⟩
          · cases h
          · cases h
        · cases h
        · cases h
      · split at h
        · cases h
        · injection h with h; exact ⟨_, by rw [← h]; simp; rfl⟩
  rcases hok with ⟨hn, hc, _⟩ | ⟨hn, hc, _⟩ | ⟨hn, hc, _, hm⟩ | ⟨hn, hc, _⟩ | ⟨hn, hc, _⟩ | ⟨hn, hc, _⟩ | ⟨hn, hc, _⟩
  · obtain ⟨z, hz⟩ := hkind.1 (Or.inl hc); subst hz; exact ⟨serInt cfg.ints z, by simp [serElem, hn]⟩
  · obtain ⟨z, hz⟩ := hkind.1 (Or.inr hc); subst hz; exact ⟨serInt cfg.ints z, by simp [serElem, hn]⟩
  · -- address: the value was read from 20 bytes, so it fills 20 bytes again
    subst hm
    unfold decodeElem at h
    rw [hc] at h
    simp only [] at h
    split at h
    · cases h
    · cases hsl : slice? block (hp + (32 - 160 / 8)) (hp + 32) with
      | err => rw [hsl] at h; cases h
      | panic => rw [hsl] at h; cases h
      | ok w =>
        rw [hsl] at h
        simp only [Outcome.bind] at h
        injection h with h
        subst h
        have hwl : w.length ≤ 20 := by
          unfold slice? at hsl
          split at hsl
          · injection hsl with hsl; rw [← hsl]; simp; omega
          · cases hsl
        have hlt : fromBE w < 256 ^ 20 :=
          Nat.lt_of_lt_of_le (fromBE_lt w) (Nat.pow_le_pow_right (by decide) hwl)
        have hfill : fillBytes? (fromBE w) 20 = .ok (toBE 20 (fromBE w)) := by
          unfold fillBytes?; rw [if_pos hlt]
        cases ha : cfg.addr
        · exact ⟨serBytes cfg.bytes (toBE 20 (fromBE w)), by simp [serElem, hn, hfill, ha]⟩
        · exact ⟨.str (asciiBytes (Model.EthTypes.address0xString (toBE 20 (fromBE w)))), by simp [serElem, hn, hfill, ha]⟩
        · exact ⟨.str (asciiBytes (Model.EthTypes.addressPlainString (toBE 20 (fromBE w)))), by simp [serElem, hn, hfill, ha]⟩
        · exact ⟨.str (asciiBytes (Model.EthTypes.addressChecksumString (toBE 20 (fromBE w)))), by simp [serElem, hn, hfill, ha]⟩
  · obtain ⟨z, hz⟩ := hkind.1 (Or.inr hc); subst hz
    exact ⟨.bool (FFS.Model.Secp.bigInt64 z == 1), by simp [serElem, hn]⟩
  · obtain ⟨b, hb⟩ := hkind.2.1 hc; subst hb; exact ⟨serBytes cfg.bytes b, by simp [serElem, hn]⟩
  · obtain ⟨b, hb⟩ := hkind.2.1 hc; subst hb; exact ⟨serBytes cfg.bytes b, by simp [serElem, hn]⟩
  · obtain ⟨b, hb⟩ := hkind.2.2 hc; subst hb; exact ⟨.str b, by simp [serElem, hn]⟩


mutual
  /-- types whose leaves are table rows (with the decoder the table assigns) and whose tuples name every child -/
  def TyS : Ty → Prop
    | .elem info sfx m _ => C03.ElemOK info sfx m
    | .farr t _ => TyS t
    | .darr t => TyS t
    | .tuple names ts => names.length = ts.length ∧ TySs ts
  def TySs : List Ty → Prop
    | [] => True
    | t :: ts => TyS t ∧ TySs ts
end

theorem outSame_ok (cfg : SerCfg) (t : Ty) : ∀ (cs : List CV), (∀ c ∈ cs, ∃ j, walkOutput cfg t c = .ok j) →
    ∃ js, outSame cfg t cs = .ok js
  | [], _ => ⟨[], by rw [outSame]⟩
  | c :: cs, h => by
    obtain ⟨j, hj⟩ := h c (by simp)
    obtain ⟨js, hjs⟩ := outSame_ok cfg t cs (fun x hx => h x (by simp [hx]))
    exact ⟨j :: js, by rw [outSame, hj]; simp only []; rw [hjs]; rfl⟩

mutual
  /-- **A returned tree can always be serialised to JSON**: whatever `decode` returns for a valid type, from any bytes,
      `walkOutput` turns into an output tree in every formatting mode with every serializer (no error, no panic). -/
  theorem decode_serialisable (cfg : SerCfg) : ∀ (t : Ty) (block : Bytes) (hs hp r : Nat) (v : CV), TyS t →
      decode t block hs hp = .ok (r, v) → ∃ j, walkOutput cfg t v = .ok j
    | .elem info sfx m n, block, hs, hp, r, v => by
      intro ht h
      rw [TyS] at ht
      unfold decode at h
      cases hd : decodeElem info m block hs hp with
      | err => rw [hd] at h; cases h
      | panic => rw [hd] at h; cases h
      | ok v' =>
        rw [hd] at h
        simp only [] at h
        injection h with h; injection h with _ h2
        subst h2
        obtain ⟨j, hj⟩ := decodeElem_serialisable cfg info sfx m ht block hs hp v' hd
        exact ⟨j, by rw [walkOutput]; exact hj⟩
    | .farr t k, block, hs, hp, r, v => by
      intro ht h
      rw [TyS] at ht
      have hch := fun a b r v hh => decode_serialisable cfg t block a b r v ht hh
      unfold decode at h
      split at h
      · split at h
        · split at h
          · rename_i hrep
            injection h with h; injection h with _ h2
            subst h2
            obtain ⟨js, hjs⟩ := outSame_ok cfg t _ (decodeRepeat_all _ (decode t block) hch _ _ _ _ _ hrep)
            exact ⟨.arr js, by rw [walkOutput, hjs]; rfl⟩
          · cases h
          · cases h
        · cases h
        · cases h
      · split at h
        · rename_i hrep
          injection h with h; injection h with _ h2
          subst h2
          obtain ⟨js, hjs⟩ := outSame_ok cfg t _ (decodeRepeat_all _ (decode t block) hch _ _ _ _ _ hrep)
          exact ⟨.arr js, by rw [walkOutput, hjs]; rfl⟩
        · cases h
        · cases h
    | .darr t, block, hs, hp, r, v => by
      intro ht h
      rw [TyS] at ht
      have hch := fun a b r v hh => decode_serialisable cfg t block a b r v ht hh
      unfold decode at h
      split at h
      · split at h
        · split at h
          · rename_i hrep
            injection h with h; injection h with _ h2
            subst h2
            obtain ⟨js, hjs⟩ := outSame_ok cfg t _ (decodeRepeatDyn_all _ (decode t block) _ hch _ _ _ _ _ hrep)
            exact ⟨.arr js, by rw [walkOutput, hjs]; rfl⟩
          · cases h
          · cases h
        · cases h
        · cases h
      · cases h
      · cases h
    | .tuple names ts, block, hs, hp, r, v => by
      intro ht h
      rw [TyS] at ht
      have hfin : ∀ cs kvs, outEach cfg names ts cs 0 = .ok kvs → ∃ j, walkOutput cfg (.tuple names ts) (.kids cs) = .ok j := by
        intro cs kvs hk
        rw [walkOutput]
        cases cfg.mode <;> simp only [] <;> rw [hk] <;> exact ⟨_, rfl⟩
      unfold decode at h
      split at h
      · split at h
        · split at h
          · rename_i hl
            injection h with h; injection h with _ h2
            subst h2
            obtain ⟨kvs, hk⟩ := decodeList_serialisable cfg ts names block _ _ _ _ 0 ht.1 ht.2 hl
            exact hfin _ kvs hk
          · cases h
          · cases h
        · cases h
        · cases h
      · split at h
        · rename_i hl
          injection h with h; injection h with _ h2
          subst h2
          obtain ⟨kvs, hk⟩ := decodeList_serialisable cfg ts names block _ _ _ _ 0 ht.1 ht.2 hl
          exact hfin _ kvs hk
        · cases h
        · cases h
  theorem decodeList_serialisable (cfg : SerCfg) : ∀ (ts : List Ty) (names : List String) (block : Bytes) (hs hp r : Nat)
      (cs : List CV) (i : Nat), names.length = ts.length → TySs ts → decodeList ts block hs hp = .ok (r, cs) →
      ∃ kvs, outEach cfg names ts cs i = .ok kvs
    | [], names, block, hs, hp, r, cs, i => by
      intro _ _ h
      simp only [decodeList] at h
      injection h with h; injection h with _ h2
      subst h2
      exact ⟨[], by cases names <;> simp [outEach]⟩
    | t :: ts, [], block, hs, hp, r, cs, i => by
      intro hl; simp at hl
    | t :: ts, nm :: names, block, hs, hp, r, cs, i => by
      intro hl ht h
      rw [TySs] at ht
      simp only [decodeList] at h
      cases hd : decode t block hs hp with
      | err => rw [hd] at h; cases h
      | panic => rw [hd] at h; cases h
      | ok p =>
        obtain ⟨r0, c0⟩ := p
        rw [hd] at h
        simp only [] at h
        cases hrest : decodeList ts block hs (hp + r0) with
        | err => rw [hrest] at h; cases h
        | panic => rw [hrest] at h; cases h
        | ok q =>
          obtain ⟨rs, cs'⟩ := q
          rw [hrest] at h
          simp only [] at h
          injection h with h; injection h with _ h2
          subst h2
          obtain ⟨j, hj⟩ := decode_serialisable cfg t block hs hp r0 c0 ht.1 hd
          obtain ⟨kvs, hk⟩ := decodeList_serialisable cfg ts names block hs (hp + r0) rs cs' (i + 1) (by simpa using hl) ht.2 hrest
          exact ⟨_, by rw [outEach, hj]; simp only []; rw [hk]; rfl⟩
end

/-! ### a returned tree has the shape of its type -/


/-- what an elementary decoder may return: the value kind of its codec, unsigned integers below `2^m`, signed integers
    within 256 bits, fixed-width byte strings of exactly `m` bytes -/
def ElemShape (info : ElemInfo) (m : Nat) (v : CV) : Prop :=
  match codecOf info.dec with
  | .sint => ∃ z : Int, v = .int z ∧ -(2 : Int) ^ 255 ≤ z ∧ z < 2 ^ 255
  | .uint => ∃ z : Int, v = .int z ∧ 0 ≤ z ∧ z < 2 ^ (8 * (m / 8))
  | .bytes => ∃ b, v = .bytes b ∧ (m = 0 ∨ b.length = m)
  | .string => ∃ b, v = .str b ∧ (m = 0 ∨ b.length = m)
  | .float => False

mutual
  def Shape : Ty → CV → Prop
    | .elem info _ m _, v => ElemShape info m v
    | .farr t k, v => ∃ cs, v = .kids cs ∧ cs.length = k ∧ ∀ c ∈ cs, Shape t c
    | .darr t, v => ∃ cs, v = .kids cs ∧ ∀ c ∈ cs, Shape t c
    | .tuple _ ts, v => ∃ cs, v = .kids cs ∧ ShapeEach ts cs
  def ShapeEach : List Ty → List CV → Prop
    | [], [] => True
    | t :: ts, c :: cs => Shape t c ∧ ShapeEach ts cs
    | _, _ => False
end

theorem decodeRepeat_length (dec : Nat → Nat → Outcome (Nat × CV)) :
    ∀ (n hs hp r : Nat) (cs : List CV), decodeRepeat dec n hs hp = .ok (r, cs) → cs.length = n := by
  intro n
  induction n with
  | zero =>
    intro hs hp r cs h
    simp only [decodeRepeat] at h
    injection h with h; injection h with _ h2
    subst h2; rfl
  | succ k ih =>
    intro hs hp r cs h
    simp only [decodeRepeat] at h
    cases hdec : dec hs hp with
    | err => rw [hdec] at h; cases h
    | panic => rw [hdec] at h; cases h
    | ok p =>
      obtain ⟨r0, c0⟩ := p
      rw [hdec] at h
      simp only [] at h
      cases hrest : decodeRepeat dec k hs (hp + r0) with
      | err => rw [hrest] at h; cases h
      | panic => rw [hrest] at h; cases h
      | ok q =>
        obtain ⟨rs, cs'⟩ := q
        rw [hrest] at h
        simp only [] at h
        injection h with h; injection h with _ h2
        subst h2
        simp [ih hs (hp + r0) rs cs' hrest]

theorem slice_length {xs : Bytes} {lo hi : Nat} {w : Bytes} (h : slice? xs lo hi = .ok w) : w.length = hi - lo := by
  unfold slice? at h
  split at h
  · rename_i hc
    injection h with h
    subst h
    simp only [List.length_take, List.length_drop]
    omega
  · cases h

theorem parseInt256_range (w : Bytes) (hl : w.length = 32) : -(2 : Int) ^ 255 ≤ parseInt256 w ∧ parseInt256 w < 2 ^ 255 := by
  have hlt := fromBE_lt w
  rw [hl] at hlt
  have h256 : (256 : Nat) ^ 32 = 2 ^ 256 := by decide
  rw [h256] at hlt
  unfold parseInt256
  simp only []
  have hcast : ((fromBE w : Nat) : Int) < 2 ^ 256 := by exact_mod_cast hlt
  have hnn : (0 : Int) ≤ (fromBE w : Nat) := Int.natCast_nonneg _
  have hp : (2 : Int) ^ 256 = 2 ^ 255 + 2 ^ 255 := by decide
  split
  · constructor
    · have : -(2 : Int) ^ 255 ≤ 0 := by decide
      omega
    · assumption
  · constructor <;> omega

/-- the elementary decoders return a value of the shape of the type -/
theorem decodeElem_shape (info : ElemInfo) (m : Nat) (block : Bytes) (hs hp : Nat) (v : CV)
    (h : decodeElem info m block hs hp = .ok v) : ElemShape info m v := by
  unfold decodeElem at h
  unfold ElemShape
  cases hc : codecOf info.dec <;> rw [hc] at h <;> simp only [] at h ⊢
  case uint =>
    split at h
    · cases h
    · rename_i hlen
      cases hsl : slice? block (hp + (32 - m / 8)) (hp + 32) with
      | ok w =>
        rw [hsl] at h; simp only [Outcome.bind] at h; injection h with h
        have hwl := slice_length hsl
        have hlt := fromBE_lt w
        refine ⟨_, h.symm, Int.natCast_nonneg _, ?_⟩
        have hle : w.length ≤ m / 8 := by omega
        have : fromBE w < 2 ^ (8 * (m / 8)) := by
          calc fromBE w < 256 ^ w.length := hlt
            _ ≤ 256 ^ (m / 8) := Nat.pow_le_pow_right (by decide) hle
            _ = 2 ^ (8 * (m / 8)) := by rw [show (256 : Nat) = 2 ^ 8 by decide, ← Nat.pow_mul]
        exact_mod_cast this
      | err => rw [hsl] at h; cases h
      | panic => rw [hsl] at h; cases h
  case sint =>
    split at h
    · cases h
    · cases hsl : slice? block hp (hp + 32) with
      | ok w =>
        rw [hsl] at h; simp only [Outcome.bind] at h; injection h with h
        have hwl := slice_length hsl
        have := parseInt256_range w (by omega)
        exact ⟨_, h.symm, this.1, this.2⟩
      | err => rw [hsl] at h; cases h
      | panic => rw [hsl] at h; cases h
  case bytes =>
    split at h
    · rename_i hm
      split at h
      · split at h
        · split at h
          · cases h
          · injection h with h; simp at h; exact ⟨_, h.symm, Or.inl hm⟩
        · cases h
        · cases h
      · cases h
      · cases h
    · split at h
      · cases h
      · rename_i hlen
        injection h with h
        simp at h
        refine ⟨_, h.symm, Or.inr ?_⟩
        simp only [List.length_take, List.length_drop]; omega
  case string =>
    split at h
    · rename_i hm
      split at h
      · split at h
        · split at h
          · cases h
          · injection h with h; simp at h; exact ⟨_, h.symm, Or.inl hm⟩
        · cases h
        · cases h
      · cases h
      · cases h
    · split at h
      · cases h
      · rename_i hlen
        injection h with h
        simp at h
        refine ⟨_, h.symm, Or.inr ?_⟩
        simp only [List.length_take, List.length_drop]; omega
  case float =>
    cases h


mutual
  /-- **A returned tree is a value tree of the definition's type**: whatever `decode` returns, from any bytes, has the
      shape of the type — fixed arrays have exactly `k` members, tuples one member per component, unsigned integers lie
      below `2^m`, signed integers within 256 bits, `bytes<M>` values have exactly `M` bytes. -/
  theorem decode_shape : ∀ (t : Ty) (block : Bytes) (hs hp r : Nat) (v : CV),
      decode t block hs hp = .ok (r, v) → Shape t v
    | .elem info sfx m n, block, hs, hp, r, v => by
      intro h
      unfold decode at h
      cases hd : decodeElem info m block hs hp with
      | err => rw [hd] at h; cases h
      | panic => rw [hd] at h; cases h
      | ok v' =>
        rw [hd] at h
        simp only [] at h
        injection h with h; injection h with _ h2
        subst h2
        rw [Shape]
        exact decodeElem_shape info m block hs hp v' hd
    | .farr t k, block, hs, hp, r, v => by
      intro h
      have hch := fun a b r v hh => decode_shape t block a b r v hh
      rw [Shape]
      unfold decode at h
      split at h
      · split at h
        · split at h
          · rename_i hrep
            injection h with h; injection h with _ h2
            exact ⟨_, h2.symm, decodeRepeat_length _ _ _ _ _ _ hrep, decodeRepeat_all _ (decode t block) hch _ _ _ _ _ hrep⟩
          · cases h
          · cases h
        · cases h
        · cases h
      · split at h
        · rename_i hrep
          injection h with h; injection h with _ h2
          exact ⟨_, h2.symm, decodeRepeat_length _ _ _ _ _ _ hrep, decodeRepeat_all _ (decode t block) hch _ _ _ _ _ hrep⟩
        · cases h
        · cases h
    | .darr t, block, hs, hp, r, v => by
      intro h
      have hch := fun a b r v hh => decode_shape t block a b r v hh
      rw [Shape]
      unfold decode at h
      split at h
      · split at h
        · split at h
          · rename_i hrep
            injection h with h; injection h with _ h2
            exact ⟨_, h2.symm, decodeRepeatDyn_all _ (decode t block) _ hch _ _ _ _ _ hrep⟩
          · cases h
          · cases h
        · cases h
        · cases h
      · cases h
      · cases h
    | .tuple names ts, block, hs, hp, r, v => by
      intro h
      rw [Shape]
      unfold decode at h
      split at h
      · split at h
        · split at h
          · rename_i hl
            injection h with h; injection h with _ h2
            exact ⟨_, h2.symm, decodeList_shape ts block _ _ _ _ hl⟩
          · cases h
          · cases h
        · cases h
        · cases h
      · split at h
        · rename_i hl
          injection h with h; injection h with _ h2
          exact ⟨_, h2.symm, decodeList_shape ts block _ _ _ _ hl⟩
        · cases h
        · cases h
  theorem decodeList_shape : ∀ (ts : List Ty) (block : Bytes) (hs hp r : Nat) (cs : List CV),
      decodeList ts block hs hp = .ok (r, cs) → ShapeEach ts cs
    | [], block, hs, hp, r, cs => by
      intro h
      simp only [decodeList] at h
      injection h with h; injection h with _ h2
      subst h2
      simp [ShapeEach]
    | t :: ts, block, hs, hp, r, cs => by
      intro h
      simp only [decodeList] at h
      cases hd : decode t block hs hp with
      | err => rw [hd] at h; cases h
      | panic => rw [hd] at h; cases h
      | ok p =>
        obtain ⟨r0, c0⟩ := p
        rw [hd] at h
        simp only [] at h
        cases hrest : decodeList ts block hs (hp + r0) with
        | err => rw [hrest] at h; cases h
        | panic => rw [hrest] at h; cases h
        | ok q =>
          obtain ⟨rs, cs'⟩ := q
          rw [hrest] at h
          simp only [] at h
          injection h with h; injection h with _ h2
          subst h2
          rw [ShapeEach]
          exact ⟨decode_shape t block hs hp r0 c0 hd, decodeList_shape ts block hs (hp + r0) rs cs' hrest⟩
end

/-- the same for a whole parameter list (`DecodeABIData`) -/
theorem decodeParams_shape (ts : List Ty) (block : Bytes) (offset : Nat) (v : CV)
    (h : decodeParams ts block offset = .ok v) : ∃ cs, v = .kids cs ∧ ShapeEach ts cs := by
  unfold decodeParams at h
  split at h
  · rename_i hl
    injection h with h
    exact ⟨_, h.symm, decodeList_shape ts block _ _ _ _ hl⟩
  · cases h
  · cases h


/-! ### re-encoding a returned tree -/

/-- **PARTIAL — "if a returned tree can be re-encoded then decoding that encoding yields the same tree".**
    Full statement (over the model): `decodeParams ts block off = .ok v → encode (.tuple ns ts) v = .ok (e, d) →
    decodeParams ts e 0 = .ok v`. Proved here under the extra hypothesis that the returned tree is a value of the type in
    the specification's sense (`wellTypedEach`: every `bool` word is 0 or 1, every `int<M>` lies within `M` bits) and of
    addressable size (`Small`): its re-encoding is then the specification encoding (that step is C02 `encode_eq_spec`,
    stated over C02's own copies of `ValidTy` / `Small`), and decoding the specification encoding returns the same tree
    (C03 `decodeParams_enc`). What is missing: trees the decoder returns that lie outside `WellTyped` — a `bool` decoded
    from a word other than 0/1 and an `int<M>` whose word is not sign-extended are returned as the integer the word holds
    (`decode_shape` bounds them by 2^8 / 256 bits only) — for these the statement is decided by the correspondence run
    (`abi.stable` cases), not proved. -/
theorem reencode_stable_partial (ns : List String) (ts : List Ty) (cs : List CV) (block : Bytes) (off : Nat)
    (hv : FFS.Props.C03.ValidTys ts) (_hdec : decodeParams ts block off = .ok (.kids cs))
    (hw : Spec.Abi.wellTypedEach ts cs = true) (hs : FFS.Props.C03.Small (.tuple ns ts) (.kids cs)) :
    decodeParams ts (Spec.Abi.enc (.tuple ns ts) (.kids cs)) 0 = .ok (.kids cs) := by
  have := FFS.Props.C03.decodeParams_enc ns ts cs [] [] hv hw hs
  simpa using this

/-- … and composed with C02: under both properties' validity / size side conditions (C02's are about the table's
    encoders and 2^256-byte layouts, C03's about its decoders and the 2^32-byte layouts the decoder accepts) the
    returned tree **is** re-encoded by the model's encoder, and decoding that encoding returns the same tree. -/
theorem reencode_decode_partial (ns : List String) (ts : List Ty) (cs : List CV) (block : Bytes) (off : Nat)
    (hv2 : FFS.Props.C02.ValidTys ts) (hv3 : FFS.Props.C03.ValidTys ts)
    (hdec : decodeParams ts block off = .ok (.kids cs)) (hw : Spec.Abi.wellTypedEach ts cs = true)
    (hs2 : FFS.Props.C02.Small (.tuple ns ts) (.kids cs)) (hs3 : FFS.Props.C03.Small (.tuple ns ts) (.kids cs)) :
    ∃ e, encode (.tuple ns ts) (.kids cs) = .ok (e, Spec.Abi.isDynamic (.tuple ns ts)) ∧
      decodeParams ts e 0 = .ok (.kids cs) := by
  have hvt : FFS.Props.C02.ValidTy (.tuple ns ts) := by rw [FFS.Props.C02.ValidTy]; exact hv2
  have hwt : Spec.Abi.WellTyped (.tuple ns ts) (.kids cs) = true := by rw [Spec.Abi.WellTyped]; exact hw
  exact ⟨_, FFS.Props.C02.encode_eq_spec _ _ hvt hwt hs2, reencode_stable_partial ns ts cs block off hv3 hdec hw hs3⟩

/-! ### non-vacuity: concrete inputs on which the hypotheses hold (evaluated by the kernel) -/
def okB {α : Type} : Outcome α → Bool | .ok _ => true | _ => false
/-- non-vacuity: a well-formed `uint256[]` block decodes to a two-element array; a block claiming 2^200 elements is an error -/
example : (match parseParam (.mk "a" "uint256[]" false "" []) with
    | .ok t => okB (decode t (toBE 32 32 ++ toBE 32 2 ++ toBE 32 7 ++ toBE 32 8) 0 0) &&
               !okB (decode t (toBE 32 32 ++ toBE 32 (2 ^ 200) ++ toBE 32 7) 0 0)
    | _ => false) = true := by decide +kernel

end FFS.Props.C11
