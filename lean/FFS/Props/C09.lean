/-
  Property C09 — the proxy signs eth_sendTransaction for `from`, relays everything else unchanged.
  Model: FFS.Model.Proxy (rpcprocessor.go, rpchandler.go, rpcbackend.SyncRequest) for every request, wallet and
  backend script. A forwarded `Fwd.rawTx a tx n fields raw` carries the bytes `raw` the wallet's `Sign` returned for
  the transaction `fields` decoded from the request object `tx` with nonce `n`. `submitted_recovers` composes this
  with C08 (the wallet signs with the key owning the address: `OwnerSigning`) and C01 (`recover_sign_auto`): the
  submitted bytes recover, under the proxy's chain id, to `from` with the requested fields and nonce. The harness
  recovers every raw transaction the real backend received and compares address and fields with the model's.
  Concurrency: the model assigns response slot i to member i (`batchReply` is a `map`); the real handler writes
  slot i from goroutine i and waits for all of them — that is the only schedule-dependent part and is exercised
  by the harness (batches up to 64 against the real process), not proved here.
-/
import FFS.Model.Proxy
import FFS.Props.C16
import FFS.Props.C01
import FFS.Props.C19
namespace FFS.Props.C09
open Lean FFS FFS.Model.Proxy FFS.Gen.ProxyFacts

/-- the dispatch table and the error codes as regenerated from the source -/
theorem facts :
    dispatch.map (·.1) = ["eth_accounts", "personal_accounts", "eth_sendTransaction", "*"] ∧
    idRestored = true ∧ versionForced = true ∧
    nullNonceRejected = true ∧ RPCCodeParseError = -32700 ∧ RPCCodeInvalidRequest = -32600 ∧ RPCCodeInternalError = -32603 := by decide

/-- **Own id, whatever the backend echoed.** -/
theorem syncRequest_id (script : Script) (id : Json) (m : String) : (syncRequest script id m).1.id = id := by
  unfold syncRequest
  split <;> simp [errResp] <;> split <;> simp

/-- **Backend result / error relayed.** -/
theorem syncRequest_result (script : Script) (id : Json) (m : String) (j : Json)
    (h : script m = .result j ∨ script m = .resultNoVersion j ∨ script m = .wrongId j) :
    (syncRequest script id m).1.result = some j ∧ (syncRequest script id m).2 = false := by
  unfold syncRequest
  rcases h with h | h | h <;> simp [h]

theorem syncRequest_error (script : Script) (id : Json) (m : String) (c : Int)
    (h : script m = .rpcError c ∨ script m = .httpErrorWithBody c) :
    (syncRequest script id m).1.errorCode = some c ∧ (syncRequest script id m).2 = true := by
  unfold syncRequest
  rcases h with h | h <;> simp [h]

theorem syncRequest_failure (script : Script) (id : Json) (m : String)
    (h : script m = .httpErrorNoBody ∨ script m = .connFail) :
    (syncRequest script id m).1.errorCode = some RPCCodeInternalError ∧ (syncRequest script id m).2 = true := by
  unfold syncRequest
  rcases h with h | h <;> simp [h, errResp, httpErrorBuildsError]

theorem signAndSend_id (w : Wallet) (script : Script) (id : Json) (fwds : List Fwd) (f p0 : Json) (n : Option Nat)
    (tx : Model.Tx.Tx) : (signAndSend w script id fwds f p0 n tx).2.1.id = id := by
  unfold signAndSend
  split
  · rfl
  · split
    · rfl
    · split
      · exact syncRequest_id _ _ _
      · rfl

theorem sendTransaction_id (mem : Members) (w : Wallet) (script : Script) (id : Json) (params : List Json) :
    (sendTransaction mem w script id params).2.1.id = id := by
  unfold sendTransaction
  split
  · rfl
  · split
    · rfl
    · rfl
    · split
      · simp [badFromIsError, errResp]
      · rfl
      · exact signAndSend_id _ _ _ _ _ _ _ _

/-- **Each response carries the request's own id.** -/
theorem response_id (mem : Members) (w : Wallet) (script : Script) (r : Req) (id : Json) (h : r.id = some id) :
    (processRPC mem w script (some r)).2.1.id = id := by
  unfold processRPC
  simp only [h]
  split
  · rfl
  · split
    · exact sendTransaction_id _ _ _ _ _
    · exact syncRequest_id _ _ _

/-- **eth_accounts returns the wallet's addresses** and reaches no backend. -/
theorem accounts (mem : Members) (w : Wallet) (script : Script) (r : Req) (id : Json) (h : r.id = some id)
    (hm : r.method = "eth_accounts" ∨ r.method = "personal_accounts") :
    processRPC mem w script (some r) = ([], accountsResp w id, false) := by
  unfold processRPC
  simp only [h]
  rcases hm with hm | hm <;> simp [hm, isAccountsMethod]

/-- **Every other method reaches the backend with the same method and parameters**, once, and the reply is
    the backend's. -/
theorem passthrough (mem : Members) (w : Wallet) (script : Script) (r : Req) (id : Json) (h : r.id = some id)
    (h1 : r.method ≠ "eth_accounts") (h2 : r.method ≠ "personal_accounts") (h3 : r.method ≠ "eth_sendTransaction") :
    processRPC mem w script (some r) =
      ([Fwd.plain r.method r.params], (syncRequest script id r.method).1, (syncRequest script id r.method).2) := by
  unfold processRPC
  simp [h, isAccountsMethod, h1, h2, h3]

def isRaw : Fwd → Bool
  | .rawTx _ _ _ _ _ => true
  | .plain _ _ => false

def lookupFwds : NonceLookup → List Fwd
  | .badFrom => []
  | .failed f => f
  | .got f _ => f

theorem nonceLookup_noRaw (script : Script) (f : Json) (nonce : Option Nat) :
    (lookupFwds (nonceLookup script f nonce)).all (fun x => !isRaw x) = true := by
  unfold nonceLookup
  split
  · simp [lookupFwds]
  · split
    · simp [lookupFwds]
    · simp only []
      split
      · simp [lookupFwds, countFwd, isRaw]
      · split
        · simp [lookupFwds, countFwd, isRaw]
        · split <;> simp [lookupFwds, countFwd, isRaw]
        · simp [lookupFwds, countFwd, isRaw]

/-- **The nonce that is signed is a definite one**: the supplied nonce, or else the pending count the backend
    reported for `from` (a successful eth_getTransactionCount whose result is an integer). Never an implied zero. -/
theorem nonceLookup_nonce (script : Script) (f : Json) (nonce : Option Nat) (fwds : List Fwd) (n : Option Nat)
    (h : nonceLookup script f nonce = .got fwds n) :
    (∃ k, nonce = some k ∧ n = some k ∧ fwds = []) ∨
    (nonce = none ∧ ∃ a k, addrOfJson f = some a ∧ fwds = [countFwd a] ∧ n = some k ∧
      (syncRequest script (Json.str "internal") "eth_getTransactionCount").2 = false ∧
      ((syncRequest script (Json.str "internal") "eth_getTransactionCount").1.result.bind fun v => hexIntOf v) = some (some k)) := by
  unfold nonceLookup at h
  split at h
  · rename_i k
    injection h with h1 h2
    exact Or.inl ⟨k, rfl, h2.symm, h1.symm⟩
  · split at h
    · cases h
    · rename_i a ha
      simp only [] at h
      split at h
      · cases h
      · rename_i hne
        split at h
        · rename_i k hk
          injection h with h1 h2
          exact Or.inr ⟨rfl, a, k, ha, h1.symm, h2.symm, by simpa using hne, hk⟩
        · simp only [nullNonceRejected, if_true] at h
          cases h
        · cases h

theorem nonceLookup_definite (script : Script) (f : Json) (nonce : Option Nat) (fwds : List Fwd) (n : Option Nat)
    (h : nonceLookup script f nonce = .got fwds n) : n.isSome = true := by
  rcases nonceLookup_nonce script f nonce fwds n h with ⟨k, _, hn, _⟩ | ⟨_, a, k, _, _, hn, _⟩ <;> simp [hn]

/-- **eth_sendTransaction: at most one raw transaction reaches the backend; its bytes are what the wallet's
    `Sign` returned for `from` (which the wallet holds) and for the transaction decoded from the request's own
    object with the supplied / reported nonce.** -/
theorem sendTransaction_forwards (mem : Members) (w : Wallet) (script : Script) (id : Json) (params : List Json) :
    let fwds := (sendTransaction mem w script id params).1
    (fwds.filter isRaw).length ≤ 1 ∧
    ∀ a tx n fields raw, Fwd.rawTx a tx n fields raw ∈ fwds →
      a ∈ w.accounts ∧ fields = txOfJson (mem tx) n ∧ w.sign a fields = .ok raw ∧
      ∃ t f nonce, params = tx :: t ∧ decodeTx tx (mem tx) = some (some f, nonce) ∧ addrOfJson f = some a ∧
        ∃ pre, nonceLookup script f nonce = .got pre n := by
  unfold sendTransaction
  split
  · simp
  · rename_i p0 t
    split
    · simp
    · simp
    · rename_i f nonce hd
      have hnr := nonceLookup_noRaw script f nonce
      split
      · simp
      · rename_i fw hl
        simp only [hl, lookupFwds] at hnr
        constructor
        · rw [List.filter_eq_nil_iff.mpr]
          · simp
          · intro x hx; have := List.all_eq_true.mp hnr x hx; simpa using this
        · intro a tx n fl raw hmem
          have := List.all_eq_true.mp hnr _ hmem
          simp [isRaw] at this
      · rename_i fw n hl
        simp only [hl, lookupFwds] at hnr
        have hfil : fw.filter isRaw = [] := by
          rw [List.filter_eq_nil_iff]
          intro x hx; have := List.all_eq_true.mp hnr x hx; simpa using this
        have hold : (fw.filter isRaw).length ≤ 1 ∧
            ∀ a tx n' fields raw, Fwd.rawTx a tx n' fields raw ∈ fw →
              a ∈ w.accounts ∧ fields = txOfJson (mem tx) n' ∧ w.sign a fields = .ok raw ∧
              ∃ t' f' nonce', p0 :: t = tx :: t' ∧ decodeTx tx (mem tx) = some (some f', nonce') ∧
                addrOfJson f' = some a ∧ ∃ pre, nonceLookup script f' nonce' = .got pre n' := by
          constructor
          · simp [hfil]
          · intro a tx n' fl raw hmem
            have := List.all_eq_true.mp hnr _ hmem
            simp [isRaw] at this
        unfold signAndSend
        split
        · exact hold
        · rename_i a ha
          split
          · exact hold
          · rename_i hc
            split
            · rename_i raw hs
              constructor
              · simp [List.filter_append, hfil, List.filter, isRaw]
              · intro a' tx n' fl raw' hmem
                rw [List.mem_append] at hmem
                rcases hmem with hmem | hmem
                · have := List.all_eq_true.mp hnr _ hmem
                  simp [isRaw] at this
                · simp only [List.mem_singleton] at hmem
                  injection hmem with h1 h2 h3 h4 h5
                  subst h1 h2 h3 h4 h5
                  refine ⟨?_, rfl, hs, t, f, nonce, rfl, hd, ha, fw, hl⟩
                  simpa using hc
            · exact hold

/-- **Nothing is submitted when `from` is unknown** (not an address, or not one the wallet holds). -/
theorem unknown_from_nothing_submitted (mem : Members) (w : Wallet) (script : Script) (id : Json)
    (params : List Json)
    (h : ∀ tx t f nonce a, params = tx :: t → decodeTx tx (mem tx) = some (some f, nonce) →
          addrOfJson f = some a → a ∉ w.accounts) :
    ((sendTransaction mem w script id params).1.filter isRaw) = [] := by
  rw [List.filter_eq_nil_iff]
  intro x hx
  cases x with
  | plain m ps => simp [isRaw]
  | rawTx a tx n fl raw =>
    obtain ⟨hin, _, _, t, f, nonce, hp, hd, ha, _⟩ := (sendTransaction_forwards mem w script id params).2 a tx n fl raw hx
    exact absurd hin (h tx t f nonce a hp hd ha)

/-- **Nothing is submitted when signing fails.** -/
theorem sign_failure_nothing_submitted (mem : Members) (w : Wallet) (script : Script) (id : Json)
    (params : List Json) (h : ∀ a tx raw, w.sign a tx ≠ .ok raw) :
    ((sendTransaction mem w script id params).1.filter isRaw) = [] := by
  rw [List.filter_eq_nil_iff]
  intro x hx
  cases x with
  | plain m ps => simp [isRaw]
  | rawTx a tx n fl raw =>
    obtain ⟨_, _, hs, _⟩ := (sendTransaction_forwards mem w script id params).2 a tx n fl raw hx
    exact absurd hs (h a fl raw)

/-- **A well-formed eth_sendTransaction for a held account is forwarded exactly once** (nonce supplied). -/
theorem sendTransaction_known (mem : Members) (w : Wallet) (script : Script) (id : Json) (tx f : Json)
    (t : List Json) (k : Nat) (a : Bytes) (raw : Bytes) (hd : decodeTx tx (mem tx) = some (some f, some k))
    (ha : addrOfJson f = some a) (hw : a ∈ w.accounts) (hs : w.sign a (txOfJson (mem tx) (some k)) = .ok raw) :
    sendTransaction mem w script id (tx :: t) =
      ([Fwd.rawTx a tx (some k) (txOfJson (mem tx) (some k)) raw], (syncRequest script id "eth_sendRawTransaction").1,
        (syncRequest script id "eth_sendRawTransaction").2) := by
  simp [sendTransaction, hd, nonceLookup, signAndSend, ha, hw, hs]

/-! ### what the submitted bytes are: C09 ∘ C08 ∘ C01 -/

open FFS.Model.Secp FFS.Model.Tx in
/-- C08's guarantee in the vocabulary of this model: whenever the wallet returns bytes for address `a`, they are
    `Transaction.Sign` (automatic mode, the proxy's chain id) with a valid key whose address is `a`. -/
def OwnerSigning (C : Curve) (cid : Int) (w : Wallet) : Prop :=
  ∀ a tx raw, w.sign a tx = .ok raw → ∃ k, (1 ≤ k ∧ k < C.n) ∧ keyAddress C k = a ∧ raw = signTx C .auto tx k cid

open FFS.Model.Secp FFS.Model.Tx in
/-- a wallet holding the keys `keys`: it looks the address up and signs with the key found -/
def keyWallet (C : Curve) (keys : List Nat) (cid : Int) : Wallet :=
  { accounts := keys.map (keyAddress C),
    sign := fun a tx => match keys.find? (fun k => keyAddress C k == a) with
      | some k => .ok (signTx C .auto tx k cid)
      | none => .err }

open FFS.Model.Secp FFS.Model.Tx in
/-- non-vacuity of `OwnerSigning`: the key-holding wallet is owner-signing -/
theorem keyWallet_ownerSigning (C : Curve) (keys : List Nat) (cid : Int) (hkeys : ∀ k ∈ keys, 1 ≤ k ∧ k < C.n) :
    OwnerSigning C cid (keyWallet C keys cid) := by
  intro a tx raw h
  simp only [keyWallet] at h
  cases hf : keys.find? (fun k => keyAddress C k == a) with
  | none => simp [hf] at h
  | some k =>
    simp only [hf, Outcome.ok.injEq] at h
    have hm := List.mem_of_find?_eq_some hf
    have hp := List.find?_some hf
    exact ⟨k, hkeys k hm, by simpa using hp, h.symm⟩

theorem txOfJson_to (kvs : List (String × Json)) (n : Option Nat) (a : Bytes)
    (h : (txOfJson kvs n).to = some a) : a.length = 20 := by
  simp only [txOfJson] at h
  split at h
  · rename_i s _
    cases hs : FFS.Model.EthTypes.addressSetString s.toList with
    | ok b =>
      simp only [hs, Option.some.injEq] at h
      subst h
      exact ((C19.address_parse_iff _ _).mp hs).2
    | err => simp [hs] at h
    | panic => simp [hs] at h
  · simp at h

theorem txOfJson_nonce (kvs : List (String × Json)) (n : Option Nat) : (txOfJson kvs n).nonce = n := rfl

open FFS.Model.Secp FFS.Model.Tx in
/-- **The eth_sendRawTransaction payload recovers, under the proxy's chain id, to the requested `from` with the
    requested fields and the supplied / reported nonce.** For every owner-signing wallet (C08), every request,
    backend script and lawful curve: the bytes that reach the backend are a transaction from which
    `RecoverRawTransaction` reads back exactly `from`, the decoded request fields with nonce `n` (absent integers as
    0: `C01.normAuto`), and the specification signing payload. `C01.Fits`: integer fields are uint256 and the data is
    below 1 GiB (the `to` part of it always holds for a decoded request: `txOfJson_to`). -/
theorem submitted_recovers (C : Curve) (hC : C.Lawful) (cid : Int) (hc : 0 ≤ cid ∧ cid ≤ 2 ^ 53)
    (mem : Members) (w : Wallet) (hw : OwnerSigning C cid w) (script : Script) (id : Json) (params : List Json)
    (a : Bytes) (tx : Json) (n : Option Nat) (fields : Model.Tx.Tx) (raw : Bytes)
    (hmem : Fwd.rawTx a tx n fields raw ∈ (sendTransaction mem w script id params).1)
    (hfit : C01.Fits fields) :
    fields = txOfJson (mem tx) n ∧ n.isSome = true ∧
    recoverRaw C raw cid = .ok (a, C01.normAuto fields, payloadAuto fields cid) := by
  obtain ⟨_, hf, hs, t, f, nonce, _, _, _, pre, hl⟩ := (sendTransaction_forwards mem w script id params).2 a tx n fields raw hmem
  obtain ⟨k, hk, hka, hraw⟩ := hw a fields raw hs
  refine ⟨hf, nonceLookup_definite script f nonce pre n hl, ?_⟩
  rw [hraw, ← hka]
  exact C01.recover_sign_auto C hC k hk fields cid hc hfit

/-- **Batch responses are positionally aligned with their requests**: slot i is the response to member i, and
    carries member i's id; failures of other members do not move it. -/
theorem batch_aligned (mem : Members) (w : Wallet) (script : Script) (ms : List (Option Req)) :
    ∃ st, (batchReply mem w script ms).2 = .batch st (ms.map fun m => (processRPC mem w script m).2.1) := by
  refine ⟨if (ms.map (processRPC mem w script)).any (·.2.2) then 500 else 200, ?_⟩
  unfold batchReply
  simp only [List.map_map]
  rfl

theorem batch_ids (mem : Members) (w : Wallet) (script : Script) (ms : List (Option Req)) (i : Nat)
    (r : Req) (id : Json) (hi : ms[i]? = some (some r)) (hid : r.id = some id) :
    ∃ st rs, (batchReply mem w script ms).2 = .batch st rs ∧ (rs[i]?).map (·.id) = some id := by
  obtain ⟨st, h⟩ := batch_aligned mem w script ms
  refine ⟨st, _, h, ?_⟩
  simp [List.getElem?_map, hi, response_id mem w script r id hid]

end FFS.Props.C09
