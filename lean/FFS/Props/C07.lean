/-
  Property C07 — Keystore V3 files round-trip keys, reject wrong passwords, detect tampering.
  Model: FFS.Model.Keystore (newScryptWalletFileBytes with the random salt and IV as inputs; ReadWalletFile).
  Primitives (scrypt, PBKDF2-HMAC-SHA256, Keccak-256, AES-128 block) are executable Lean references validated
  against the Go libraries by the correspondence run; the theorems use only that CTR mode is data ⊕ keystream
  (`Prim.aes128Ctr_involutive`) and that the KDFs return the requested number of bytes.
  * `create_read_roundtrip` : for every key, password, salt, 16-byte IV and admissible cost parameters, reading
                              the file just created with the same password returns exactly the key.
  * `created_is_standard`   : the independent V3 reader (Spec.KeystoreV3.v3Read) decrypts the created file to the
                              same key.
  * `accept_iff_mac_partial`: on a well-formed scrypt file the reader returns a key exactly when the MAC recomputed
                              from the password-derived key matches the stored MAC — so a different password or a
                              changed ciphertext / MAC / salt / cost parameter is accepted only on a Keccak-256
                              collision of the MAC input. PARTIAL: "returns an error for ANY other password" is a
                              cryptographic claim (collision resistance), not a theorem.
  * `fresh_randomness`      : salt and IV come from crypto/rand for every new file (regenerated fact).
-/
import FFS.Model.Keystore
import FFS.Spec.KeystoreV3
import FFS.Props.C15
namespace FFS.Props.C07
open FFS FFS.Model.Keystore FFS.Gen.KeystoreConsts

theorem fresh_randomness : freshSaltIV = true ∧ defaultR = 8 := by decide

/-- cost parameters `scrypt.Key` admits (r is the package's constant 8) -/
def CostOK (n p : Nat) : Prop :=
  1 < n ∧ isPow2 n = true ∧ 0 < p ∧ 8 * p < 2 ^ 30 ∧ (n : Int) ≤ maxInt / 128 / 8

theorem scryptKey_of_cost (pw salt : Bytes) (n p : Nat) (h : CostOK n p) :
    scryptKey pw salt n defaultR p 32 = .ok (Prim.scrypt pw salt n 8 p 32) := by
  obtain ⟨h1, h2, h3, h4, h5⟩ := h
  unfold scryptKey
  have e1 : ¬ ((n : Int) ≤ 1 ∨ (!isPow2 (n : Int).toNat) = true) := by
    simp only [Int.toNat_natCast, h2, Bool.not_true, Bool.false_eq_true, or_false]
    omega
  have e2 : ¬ (((defaultR : Nat) : Int) < 0 ∨ (p : Int) < 0) := by omega
  have e3 : ¬ ((p : Int) = 0 ∨ ((defaultR : Nat) : Int) = 0) := by simp [fresh_randomness.2]; try omega
  have hm1 : maxInt / 128 / (p : Int) ≥ 8 := by
    have : (p : Int) ≤ 2 ^ 27 := by omega
    have hp : (0 : Int) < p := by omega
    have : (8 : Int) * p ≤ maxInt / 128 := by
      have : maxInt / 128 = 72057594037927935 := by decide
      rw [this]; omega
    exact (Int.le_ediv_iff_mul_le hp).mpr this
  have e4 : ¬ (((defaultR : Nat) : Int) * p ≥ 2 ^ 30 ∨ ((defaultR : Nat) : Int) > maxInt / 128 / p ∨
      ((defaultR : Nat) : Int) > maxInt / 256 ∨ (n : Int) > maxInt / 128 / ((defaultR : Nat) : Int)) := by
    have h256 : maxInt / 256 = 36028797018963967 := by decide
    rw [fresh_randomness.2, h256]
    have h8 : ((8 : Nat) : Int) = 8 := rfl
    rw [h8]
    omega
  have e5 : ¬ ((32 : Int) < 0) := by decide
  rw [if_neg e1, if_neg e2, if_neg e3, if_neg e4, if_neg e5]
  simp [fresh_randomness.2]

/-- **Create, then read with the same password: the same key.** -/
theorem create_read_roundtrip (pw key salt iv : Bytes) (n p : Nat) (hiv : iv.length = 16) (hc : CostOK n p) :
    readWalletFile (newScryptFile pw key salt iv n p) pw = .ok key := by
  have hdk : (Prim.scrypt pw salt n 8 p 32).length = 32 := Prim.scrypt_length _ _ _ _ _ _
  have hs := scryptKey_of_cost pw salt n p hc
  have hp : ¬ ((p : Int) ≤ 0) := by have := hc.2.2.1; omega
  unfold readWalletFile newScryptFile
  simp only [C15.facts, Bool.false_eq_true, if_false, ne_eq, not_true_eq_false, if_true]
  unfold decryptScrypt
  simp only [C15.facts.1, Bool.true_and, ne_eq, not_true_eq_false, decide_false, Bool.false_eq_true, if_false]
  have hr : ¬ (((defaultR : Nat) : Int) ≤ 0 ∨ (p : Int) ≤ 0) := by simp [fresh_randomness.2]; omega
  simp only [hr, decide_false, Bool.false_eq_true, if_false, hs]
  unfold decryptCommon
  simp only [hdk, ne_eq, not_true_eq_false, if_false, C15.facts.2.1, hiv, decide_false, Bool.and_false,
    Bool.false_eq_true, newScryptWallet, fresh_randomness.2, generateMac]
  simp [Prim.aes128Ctr_involutive]

/-- **The created file is a standard V3 document**: the independent reader decrypts it to the same key. -/
theorem created_is_standard (pw key salt iv : Bytes) (n p : Nat) (hiv : iv.length = 16) (hc : CostOK n p) :
    Spec.KeystoreV3.v3Read (newScryptFile pw key salt iv n p) pw = some key :=
  C15.read_sound_partial _ pw key (by simp [newScryptFile, C15.facts]) (create_read_roundtrip pw key salt iv n p hiv hc)

/-- **Acceptance is exactly MAC agreement** on a well-formed scrypt file (whatever the password). -/
theorem accept_iff_mac_partial (f : KsFile) (pw : Bytes)
    (hwf : f.commonErr = false ∧ f.idNil = false ∧ f.kdfErr = false ∧ f.version = 3 ∧ f.kdf = "scrypt" ∧ f.dklen = 32 ∧
      f.iv.length = 16)
    (dk : Bytes) (hdk : scryptKey pw f.salt f.n f.r f.p 32 = .ok dk) :
    (∃ k, readWalletFile f pw = .ok k) ↔ Prim.keccak256 ((dk.drop 16).take 16 ++ f.ciphertext) = f.mac := by
  obtain ⟨h1, h2, h3, h4, h5, h6, h7⟩ := hwf
  obtain ⟨_, _, hr, hp, _, _, hdkeq⟩ := C15.scryptKey_ok _ _ _ _ _ _ _ hdk
  have hlen : dk.length = 32 := by rw [hdkeq]; exact Prim.scrypt_length _ _ _ _ _ _
  have hrp : ¬ (f.r ≤ 0 ∨ f.p ≤ 0) := by omega
  have hread : readWalletFile f pw = decryptCommon f dk := by
    unfold readWalletFile
    simp only [h1, h2, h3, h4, h5, C15.facts, Bool.false_eq_true, if_false, ne_eq, not_true_eq_false, if_true]
    unfold decryptScrypt
    simp [C15.facts.1, h6, hrp, hdk]
  rw [hread]
  unfold decryptCommon
  simp only [hlen, ne_eq, not_true_eq_false, if_false, C15.facts.2.1, h7, decide_false, Bool.and_false, Bool.false_eq_true,
    generateMac]
  constructor
  · rintro ⟨k, hk⟩
    by_cases hm : Prim.keccak256 ((dk.drop 16).take 16 ++ f.ciphertext) = f.mac
    · exact hm
    · simp [hm] at hk
  · intro hm
    exact ⟨Prim.aes128Ctr (dk.take 16) f.iv f.ciphertext, by simp [hm]⟩

/-- non-vacuity: the package's own cost parameters are admissible -/
example : CostOK nLight pDefault ∧ CostOK nStandard pDefault := by
  refine ⟨⟨by decide, by decide, by decide, by decide, by decide⟩, ⟨by decide, by decide, by decide, by decide, by decide⟩⟩

/-- non-vacuity of every `readWalletFile f pw = .ok k` hypothesis (C07 and C15: `read_ok_shape`, `read_needs_mac`,
    `read_sound_partial`, `cipher_unchecked_witness`): created files are read back, so such `f`, `pw`, `k` exist -/
example : ∃ f pw k, readWalletFile f pw = .ok k :=
  ⟨_, [1, 2], [9, 9], create_read_roundtrip [1, 2] [9, 9] [3] (List.replicate 16 0) nLight pDefault (by simp)
    ⟨by decide, by decide, by decide, by decide, by decide⟩⟩

end FFS.Props.C07
