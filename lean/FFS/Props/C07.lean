import FFS.Model.Keystore
