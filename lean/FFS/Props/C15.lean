/-
  Property C15 — reading a keystore file is total: malformed files give errors, never panics.
  Model: FFS.Model.Keystore.readWalletFile (pkg/keystorev3: ReadWalletFile, the scrypt / PBKDF2 decrypt paths with
  the argument checks of golang.org/x/crypto, decryptCommon). Spec: FFS.Spec.KeystoreV3.v3Read (an independent V3
  reader written from the Web3 Secret Storage Definition). JSON decoding into the package's structs is shared glue
  (hook VerifParse); the decoded fields are the input here, so "any byte string" = any `KsFile` (including the two
  decode-error flags).
  * `read_total`          : no panic for any decoded file and any password.
  * `read_needs_mac`      : a key is returned only when keccak256(DK[16:32] ‖ ciphertext) equals the stored MAC, the IV
                            has 16 bytes, the version is 3 and dklen is 32 — and the key is AES-128-CTR(DK[0:16]).
  * `read_sound_partial`  : every key returned for a file that declares cipher aes-128-ctr is the key the independent
                            reader derives. PARTIAL: without the cipher hypothesis the statement is false of the code
                            (known finding C15-cipher-unchecked: the cipher member is never looked at) —
                            `cipher_unchecked_witness` exhibits the disagreement.
-/
import FFS.Model.Keystore
import FFS.Spec.KeystoreV3
namespace FFS.Props.C15
open FFS FFS.Model.Keystore FFS.Gen.KeystoreConsts

/-- the regenerated guards -/
theorem facts : paramsChecked = true ∧ ivChecked = true ∧ macBeforeDecrypt = true ∧ readShape = true ∧
    version3 = 3 ∧ kdfTypeScrypt = "scrypt" ∧ kdfTypePbkdf2 = "pbkdf2" ∧ prfHmacSHA256 = "hmac-sha256" ∧
    cipherAES128ctr = "aes-128-ctr" := by decide

theorem scryptKey_ne_panic (pw salt : Bytes) (n r p keyLen : Int) (hr : 0 < r) (hp : 0 < p) (hk : 0 ≤ keyLen) :
    scryptKey pw salt n r p keyLen ≠ .panic := by
  unfold scryptKey
  split
  · simp
  · split
    · simp
    · split
      · rename_i h; omega
      · split
        · simp
        · split
          · omega
          · simp

theorem pbkdf2Key_ne_panic (pw salt : Bytes) (c keyLen : Int) (hk : 0 ≤ keyLen) : pbkdf2Key pw salt c keyLen ≠ .panic := by
  unfold pbkdf2Key
  split
  · omega
  · simp

theorem decryptCommon_ne_panic (f : KsFile) (dk : Bytes) : decryptCommon f dk ≠ .panic := by
  unfold decryptCommon
  simp only [facts.2.1, Bool.true_and]
  split
  · simp
  · split
    · simp
    · split
      · simp
      · split
        · rename_i h1 _ h2; simp at h1; exact absurd h2 (by simpa using h1)
        · simp

theorem decryptScrypt_ne_panic (f : KsFile) (pw : Bytes) : decryptScrypt f pw ≠ .panic := by
  unfold decryptScrypt
  simp only [facts.1, Bool.true_and]
  split
  · simp
  · rename_i hd
    split
    · simp
    · rename_i hrp
      have hd' : f.dklen = 32 := by simpa using hd
      have hrp' : 0 < f.r ∧ 0 < f.p := by
        have : ¬ (f.r ≤ 0 ∨ f.p ≤ 0) := by simpa using hrp
        omega
      have := scryptKey_ne_panic pw f.salt f.n f.r f.p f.dklen hrp'.1 hrp'.2 (by omega)
      split
      · exact decryptCommon_ne_panic _ _
      · simp
      · rename_i h; exact absurd h this

theorem decryptPbkdf2_ne_panic (f : KsFile) (pw : Bytes) : decryptPbkdf2 f pw ≠ .panic := by
  unfold decryptPbkdf2
  simp only [facts.1, Bool.true_and]
  split
  · simp
  · split
    · simp
    · rename_i hd
      split
      · simp
      · have hd' : f.dklen = 32 := by simpa using hd
        have := pbkdf2Key_ne_panic pw f.salt f.c f.dklen (by omega)
        split
        · exact decryptCommon_ne_panic _ _
        · simp
        · rename_i h; exact absurd h this

/-- **Totality.** Reading any decoded file with any password never panics. -/
theorem read_total (f : KsFile) (pw : Bytes) : readWalletFile f pw ≠ .panic := by
  unfold readWalletFile
  split
  · simp
  · split
    · simp
    · split
      · simp
      · split
        · split
          · simp
          · exact decryptScrypt_ne_panic f pw
        · split
          · split
            · simp
            · exact decryptPbkdf2_ne_panic f pw
          · simp

theorem decryptCommon_ok (f : KsFile) (dk k : Bytes) (h : decryptCommon f dk = .ok k) :
    dk.length = 32 ∧ f.iv.length = 16 ∧ Prim.keccak256 ((dk.drop 16).take 16 ++ f.ciphertext) = f.mac ∧
    k = Prim.aes128Ctr (dk.take 16) f.iv f.ciphertext := by
  unfold decryptCommon at h
  simp only [facts.2.1, Bool.true_and] at h
  by_cases h1 : dk.length ≠ 32
  · simp [h1] at h
  · by_cases h2 : f.iv.length ≠ 16
    · simp [h1, h2] at h
    · by_cases h3 : generateMac ((dk.drop 16).take 16) f.ciphertext ≠ f.mac
      · simp [h1, h2, h3] at h
      · simp only [h1, h2, h3, decide_false, if_false, Bool.false_eq_true] at h
        injection h with h
        exact ⟨by simpa using h1, by simpa using h2, by simpa [generateMac] using h3, h.symm⟩

theorem scryptKey_ok (pw salt : Bytes) (n r p kl : Int) (dk : Bytes) (h : scryptKey pw salt n r p kl = .ok dk) :
    1 < n ∧ isPow2 n.toNat = true ∧ 0 < r ∧ 0 < p ∧ r * p < 2 ^ 30 ∧ 0 ≤ kl ∧
    dk = Prim.scrypt pw salt n.toNat r.toNat p.toNat kl.toNat := by
  unfold scryptKey at h
  by_cases h1 : n ≤ 1 ∨ (!isPow2 n.toNat) = true
  · rw [if_pos h1] at h; cases h
  · rw [if_neg h1] at h
    by_cases h2 : r < 0 ∨ p < 0
    · rw [if_pos h2] at h; cases h
    · rw [if_neg h2] at h
      by_cases h3 : p = 0 ∨ r = 0
      · rw [if_pos h3] at h; cases h
      · rw [if_neg h3] at h
        by_cases h4 : r * p ≥ 2 ^ 30 ∨ r > maxInt / 128 / p ∨ r > maxInt / 256 ∨ n > maxInt / 128 / r
        · rw [if_pos h4] at h; cases h
        · rw [if_neg h4] at h
          by_cases h5 : kl < 0
          · rw [if_pos h5] at h; cases h
          · rw [if_neg h5] at h
            injection h with h
            have hpow : isPow2 n.toNat = true := by
              have : ¬ (!isPow2 n.toNat) = true := fun e => h1 (Or.inr e)
              simpa using this
            have h4' : ¬ r * p ≥ 2 ^ 30 := fun e => h4 (Or.inl e)
            refine ⟨by omega, hpow, by omega, by omega, by omega, by omega, h.symm⟩

/-- the derived key a successful read used -/
theorem read_ok_shape (f : KsFile) (pw k : Bytes) (h : readWalletFile f pw = .ok k) :
    f.commonErr = false ∧ f.idNil = false ∧ f.kdfErr = false ∧ f.version = 3 ∧ f.dklen = 32 ∧
    ((f.kdf = "scrypt" ∧ 1 < f.n ∧ isPow2 f.n.toNat = true ∧ 1 ≤ f.r ∧ 1 ≤ f.p ∧ f.r * f.p < 2 ^ 30 ∧
        decryptCommon f (Prim.scrypt pw f.salt f.n.toNat f.r.toNat f.p.toNat 32) = .ok k) ∨
     (f.kdf = "pbkdf2" ∧ f.prf = "hmac-sha256" ∧ 1 ≤ f.c ∧
        decryptCommon f (Prim.pbkdf2Sha256 pw f.salt f.c.toNat 32) = .ok k)) := by
  unfold readWalletFile at h
  by_cases h1 : f.commonErr = true
  · simp [h1] at h
  · by_cases h2 : f.idNil = true
    · simp [h1, h2] at h
    · by_cases h3 : f.version ≠ version3
      · simp [h1, h2, h3] at h
      · have hv : f.version = 3 := by simpa [facts.2.2.2.2.1] using h3
        simp only [h1, h2, h3, if_false, Bool.false_eq_true] at h
        by_cases hk : f.kdf = kdfTypeScrypt
        · simp only [hk, if_true] at h
          by_cases hke : f.kdfErr = true
          · simp [hke] at h
          · simp only [hke, if_false, Bool.false_eq_true] at h
            unfold decryptScrypt at h
            simp only [facts.1, Bool.true_and] at h
            by_cases hd : f.dklen ≠ 32
            · simp [hd] at h
            · have hd' : f.dklen = 32 := by simpa using hd
              by_cases hrp : f.r ≤ 0 ∨ f.p ≤ 0
              · simp [hd', hrp] at h
              · simp only [hd', hrp, ne_eq, not_true_eq_false, decide_false, if_false, Bool.false_eq_true] at h
                cases hs : scryptKey pw f.salt f.n f.r f.p 32 with
                | ok dk =>
                  rw [hs] at h
                  obtain ⟨a1, a2, a3, a4, a5, _, a7⟩ := scryptKey_ok _ _ _ _ _ _ _ hs
                  subst a7
                  exact ⟨by simpa using h1, by simpa using h2, by simpa using hke, hv, hd',
                    Or.inl ⟨by simpa [facts.2.2.2.2.2.1] using hk, a1, a2, by omega, by omega, a5, by simpa using h⟩⟩
                | err => rw [hs] at h; cases h
                | panic => rw [hs] at h; cases h
        · simp only [hk, if_false] at h
          by_cases hk2 : f.kdf = kdfTypePbkdf2
          · simp only [hk2, if_true] at h
            by_cases hke : f.kdfErr = true
            · simp [hke] at h
            · simp only [hke, if_false, Bool.false_eq_true] at h
              unfold decryptPbkdf2 at h
              simp only [facts.1, Bool.true_and] at h
              by_cases hprf : f.prf ≠ prfHmacSHA256
              · simp [hprf] at h
              · by_cases hd : f.dklen ≠ 32
                · simp [hprf, hd] at h
                · have hd' : f.dklen = 32 := by simpa using hd
                  by_cases hc : f.c ≤ 0
                  · simp [hprf, hd', hc] at h
                  · simp only [hprf, hd', hc, ne_eq, not_true_eq_false, decide_false, if_false, Bool.false_eq_true] at h
                    have hmax : max f.c 1 = f.c := by omega
                    simp only [pbkdf2Key, show ¬ ((32 : Int) < 0) by decide, if_false, hmax] at h
                    exact ⟨by simpa using h1, by simpa using h2, by simpa using hke, hv, hd',
                      Or.inr ⟨by simpa [facts.2.2.2.2.2.2.1] using hk2, by simpa [facts.2.2.2.2.2.2.2.1] using hprf, by omega, by simpa using h⟩⟩
          · simp [hk2] at h

/-- **A key is returned only under a valid MAC.** -/
theorem read_needs_mac (f : KsFile) (pw k : Bytes) (h : readWalletFile f pw = .ok k) :
    ∃ dk : Bytes, dk.length = 32 ∧ f.iv.length = 16 ∧ Prim.keccak256 ((dk.drop 16).take 16 ++ f.ciphertext) = f.mac ∧
      k = Prim.aes128Ctr (dk.take 16) f.iv f.ciphertext := by
  obtain ⟨_, _, _, _, _, hk⟩ := read_ok_shape f pw k h
  rcases hk with ⟨_, _, _, _, _, _, hd⟩ | ⟨_, _, _, hd⟩
  · exact ⟨Prim.scrypt pw f.salt f.n.toNat f.r.toNat f.p.toNat 32, decryptCommon_ok f _ k hd⟩
  · exact ⟨Prim.pbkdf2Sha256 pw f.salt f.c.toNat 32, decryptCommon_ok f _ k hd⟩

/-- **Soundness against the independent reader (partial: for files declaring aes-128-ctr).** -/
theorem read_sound_partial (f : KsFile) (pw k : Bytes) (hc : f.cipher = "aes-128-ctr")
    (h : readWalletFile f pw = .ok k) : Spec.KeystoreV3.v3Read f pw = some k := by
  obtain ⟨h1, h2, h3, hv, hd, hk⟩ := read_ok_shape f pw k h
  unfold Spec.KeystoreV3.v3Read
  rcases hk with ⟨hkdf, hn, hpow, hr, hp, hrp, hdc⟩ | ⟨hkdf, hprf, hcc, hdc⟩
  · obtain ⟨_, hiv, hmac, hkey⟩ := decryptCommon_ok f _ k hdc
    have hcond : f.n > 1 ∧ isPow2 f.n.toNat = true ∧ f.r ≥ 1 ∧ f.p ≥ 1 ∧ f.r * f.p < 2 ^ 30 := ⟨hn, hpow, hr, hp, hrp⟩
    have hrp' : f.r * f.p < 1073741824 := by simpa using hrp
    simp [h1, h2, h3, hv, hc, hiv, hd, hkdf, hcond, hrp', hmac, hkey]
  · obtain ⟨_, hiv, hmac, hkey⟩ := decryptCommon_ok f _ k hdc
    have hne : ¬ ("pbkdf2" = "scrypt") := by decide
    have hcond : f.prf = "hmac-sha256" ∧ f.c ≥ 1 := ⟨hprf, hcc⟩
    simp [h1, h2, h3, hv, hc, hiv, hd, hkdf, hne, hcond, hmac, hkey]

/-- the full statement fails on the code: a file that declares another cipher is still decrypted as AES-128-CTR by
    the model (mirroring the code), while the independent reader refuses it (known finding C15-cipher-unchecked) -/
theorem cipher_unchecked_witness (f : KsFile) (pw k : Bytes) (h : readWalletFile f pw = .ok k) :
    readWalletFile { f with cipher := "aes-256-cbc" } pw = .ok k ∧
    Spec.KeystoreV3.v3Read { f with cipher := "aes-256-cbc" } pw = none := by
  constructor
  · simpa [readWalletFile, decryptScrypt, decryptPbkdf2, decryptCommon] using h
  · obtain ⟨h1, h2, h3, hv, _⟩ := read_ok_shape f pw k h
    simp [Spec.KeystoreV3.v3Read, h1, h2, h3, hv]

end FFS.Props.C15
