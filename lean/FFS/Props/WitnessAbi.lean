/-
  FFS.Props.WitnessAbi — non-vacuity witnesses of C12 that force Keccak-256 inside the kernel (≈10 s each):
  the hypotheses `decodeCallData … = .ok`, `decodeEventData … = .ok`, `parseError … = some` of the C12 theorems hold
  on concrete ERC-20 inputs. `decide +kernel` only: no axiom.
-/
import FFS.Props.C12
namespace FFS.Props.C12
open FFS FFS.Model.Abi

example : (selector exFn == .ok [0xa9, 0x05, 0x9c, 0xbb]) = true := by decide +kernel
example : isOk (decodeCallData exFn ([0xa9, 0x05, 0x9c, 0xbb] ++ word 1 ++ word 2)) = true := by decide +kernel
/-- a log with the event's own signature topic and two indexed topics decodes; revert data `Error("hi")` is attributed
    to the built-in error (index 0) -/
example : (match signatureHash exEv with
    | .ok h => isOk (decodeEventData exEv [h, word 1, word 2] (word 3))
    | _ => false) = true := by decide +kernel
example : ((parseError [] ([0x08, 0xc3, 0x79, 0xa0] ++ word 32 ++ word 2 ++ ([0x68, 0x69] ++ zeros 30))).map (·.1) == some 0) = true := by
  decide +kernel

end FFS.Props.C12
