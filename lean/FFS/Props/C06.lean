/-
  Property C06 — RLP codec: canonical encoding, exact round trip, total in-bounds decoding.
  Only property theorems and their non-vacuity examples live here; helpers are in FFS.Lemmas.Rlp.
  Model: FFS.Model.Rlp (mirrors /repo/pkg/rlp, constants regenerated into FFS.Gen.RlpConsts).
  Spec : FFS.Spec.Rlp  (Yellow Paper appendix B).
-/
import FFS.Lemmas.Rlp
namespace FFS.Props.C06
open FFS FFS.Model.Rlp FFS.Gen.RlpConsts

mutual
  /-- every string and every list payload of the tree is shorter than `B` bytes -/
  def Small (B : Nat) : Item → Prop
    | .str b => b.length < B
    | .list xs => (Spec.Rlp.rlpSeq xs).length < B ∧ SmallL B xs
  def SmallL (B : Nat) : List Item → Prop
    | [] => True
    | x :: xs => Small B x ∧ SmallL B xs
end

/-! ### 1. The encoder produces the canonical Yellow-Paper encoding -/

mutual
  /-- `Element.Encode()` equals Yellow-Paper RLP for every tree (any depth, any width) whose lengths fit
      Go's `int64(len(..))` conversion — which every Go slice length does. -/
  theorem enc_eq_spec : (t : Item) → Small (2 ^ 64) t → enc t = Spec.Rlp.rlp t
    | .str b, h => by
      simp only [Small] at h
      simp only [enc, Spec.Rlp.rlp]
      exact encodeBytes_str b h
    | .list xs, h => by
      simp only [Small] at h
      simp only [enc, Spec.Rlp.rlp]
      rw [encList_eq_spec xs h.2]
      exact encodeBytes_list _ h.1
  theorem encList_eq_spec : (xs : List Item) → SmallL (2 ^ 64) xs → encList xs = Spec.Rlp.rlpSeq xs
    | [], _ => by simp [encList, Spec.Rlp.rlpSeq]
    | x :: xs, h => by
      simp only [SmallL] at h
      simp only [encList, Spec.Rlp.rlpSeq]
      rw [enc_eq_spec x h.1, encList_eq_spec xs h.2]
end

/-! ### 2. Decoding is total and stays inside the input, for arbitrary bytes -/

/-- **Regenerated tie for "every canonical encoding is accepted".** The recursive decoder still takes the data and an
    element limit and nothing else — no depth or size budget that the model's decoder (fuel = input length, proved
    sufficient by `decode_total`) does not have. -/
theorem decode_unbudgeted : decodeShape = true := by decide

/-- `Decode` never panics (no slice out of range, no fuel exhaustion) on any byte string. -/
theorem decode_total (bs : Bytes) : Decode bs ≠ .panic := by
  unfold Decode
  split
  · simp
  · rename_i b t
    have := (dec_total (fuelFor (b :: t))).1 (b :: t) (by simp) (by simp [fuelFor])
    split
    · simp
    · simp
    · rename_i hp; exact absurd hp this

/-- The reported end position lies within the input (and is ≥ 1 for non-empty input). -/
theorem decode_in_bounds {bs : Bytes} {it : Item} {pos : Nat}
    (h : Decode bs = .ok (some it, pos)) : 1 ≤ pos ∧ pos ≤ bs.length := by
  unfold Decode at h
  split at h
  · simp at h
  · split at h
    · rename_i it' n hd
      injection h with h; injection h with h1 h2
      subst h2
      exact decOne_bounds hd
    · cases h
    · cases h

/-! ### 3. Exact round trip with trailing bytes -/

mutual
  theorem decOne_rlp : (t : Item) → Small (2 ^ 31) t → (rest : Bytes) →
      ∃ f, decOne f (Spec.Rlp.rlp t ++ rest) = .ok (t, (Spec.Rlp.rlp t).length)
    | .str b, h, rest => by
      simp only [Small] at h
      refine ⟨1, ?_⟩
      simp only [Spec.Rlp.rlp, decOne]
      rw [header_Rb b rest (by simp [maxInt32]; omega)]
    | .list xs, h, rest => by
      simp only [Small] at h
      obtain ⟨f, hf⟩ := decMany_rlpSeq xs h.2
      refine ⟨f + 1, ?_⟩
      simp only [Spec.Rlp.rlp, decOne]
      rw [header_Rl _ rest (by simp [maxInt32]; omega)]
      simp only [hf]
  theorem decMany_rlpSeq : (xs : List Item) → SmallL (2 ^ 31) xs →
      ∃ f, decMany f (Spec.Rlp.rlpSeq xs) = .ok xs
    | [], _ => ⟨1, by simp [Spec.Rlp.rlpSeq, decMany]⟩
    | x :: xs, h => by
      simp only [SmallL] at h
      obtain ⟨f1, h1⟩ := decOne_rlp x h.1 (Spec.Rlp.rlpSeq xs)
      obtain ⟨f2, h2⟩ := decMany_rlpSeq xs h.2
      refine ⟨max f1 f2 + 1, ?_⟩
      simp only [Spec.Rlp.rlpSeq]
      have hne : Spec.Rlp.rlp x ++ Spec.Rlp.rlpSeq xs ≠ [] := by
        simp [rlp_ne_nil x]
      cases hc : Spec.Rlp.rlp x ++ Spec.Rlp.rlpSeq xs with
      | nil => exact absurd hc hne
      | cons b t =>
        simp only [decMany]
        rw [← hc]
        have e1 : decOne (max f1 f2) (Spec.Rlp.rlp x ++ Spec.Rlp.rlpSeq xs) = _ :=
          decOne_mono_le (by rw [h1]; simp) (Nat.le_max_left f1 f2)
        rw [e1, h1]
        simp only [List.drop_left]
        have e2 : decMany (max f1 f2) (Spec.Rlp.rlpSeq xs) = _ :=
          decMany_mono_le (by rw [h2]; simp) (Nat.le_max_right f1 f2)
        rw [e2, h2]
end

/-- **Round trip with end position.** Decoding the canonical encoding of any tree, followed by any
    other bytes, returns the identical tree and the position just past it.
    `Small (2^31)`: the decoder's own cap (`maxInt32`); the property's 2^24 bound lies inside. -/
theorem decode_rlp_append (t : Item) (h : Small (2 ^ 31) t) (rest : Bytes) :
    Decode (Spec.Rlp.rlp t ++ rest) = .ok (some t, (Spec.Rlp.rlp t).length) := by
  obtain ⟨f, hf⟩ := decOne_rlp t h rest
  unfold Decode
  have hne : Spec.Rlp.rlp t ++ rest ≠ [] := by simp [rlp_ne_nil t]
  cases hc : Spec.Rlp.rlp t ++ rest with
  | nil => exact absurd hc hne
  | cons b tl =>
    simp only []
    rw [← hc]
    have hnp := (dec_total (fuelFor (Spec.Rlp.rlp t ++ rest))).1 _ hne (by simp [fuelFor])
    have e1 := decOne_mono_le hnp (Nat.le_max_left (fuelFor (Spec.Rlp.rlp t ++ rest)) f)
    have e2 := decOne_mono_le (bs := Spec.Rlp.rlp t ++ rest) (by rw [hf]; simp)
      (Nat.le_max_right (fuelFor (Spec.Rlp.rlp t ++ rest)) f)
    rw [← e1, e2, hf]

theorem small_mono {B B' : Nat} (hB : B ≤ B') : (t : Item) → Small B t → Small B' t
  | .str b, h => by simp only [Small] at *; omega
  | .list xs, h => by
    simp only [Small] at *
    exact ⟨by omega, smallL_mono hB xs h.2⟩
where smallL_mono {B B' : Nat} (hB : B ≤ B') : (xs : List Item) → SmallL B xs → SmallL B' xs
  | [], _ => by simp [SmallL]
  | x :: xs, h => by
    simp only [SmallL] at *
    exact ⟨small_mono hB x h.1, smallL_mono hB xs h.2⟩

/-- The same statement about the model of the Go encoder itself. -/
theorem decode_enc_append (t : Item) (h : Small (2 ^ 31) t) (rest : Bytes) :
    Decode (enc t ++ rest) = .ok (some t, (enc t).length) := by
  rw [enc_eq_spec t (small_mono (by decide) t h)]
  exact decode_rlp_append t h rest


/-! ### 4. Whatever the decoder returns is small, canonical re-encoding never grows, decoding is stable -/

/-- Everything the decoder returns satisfies the decoder's own size cap, and its canonical encoding is
    no longer than the bytes consumed. -/
theorem dec_small : ∀ f,
    (∀ (bs : Bytes) (it : Item) (n : Nat), decOne f bs = .ok (it, n) →
        Small (2 ^ 31) it ∧ (Spec.Rlp.rlp it).length ≤ n) ∧
    (∀ (bs : Bytes) (xs : List Item), decMany f bs = .ok xs →
        SmallL (2 ^ 31) xs ∧ (Spec.Rlp.rlpSeq xs).length ≤ bs.length) := by
  intro f
  induction f with
  | zero =>
    constructor
    · intro bs it n h; simp [decOne] at h
    · intro bs xs h; simp [decMany] at h
  | succ f ih =>
    constructor
    · intro bs it n h
      unfold decOne at h
      split at h
      · rename_i it' n' hh
        injection h with h; injection h with h1 h2; subst h1 h2
        obtain ⟨d, hd, hl, hsm⟩ := header_leaf_canon hh
        subst hd
        exact ⟨by simp only [Small]; exact hsm, by simpa [Spec.Rlp.rlp] using hl⟩
      · rename_i p n' hh
        split at h
        · rename_i child hc
          injection h with h; injection h with h1 h2; subst h1 h2
          have := ih.2 p child hc
          have hb := header_sub_canon hh (Spec.Rlp.rlpSeq child) this.2
          refine ⟨?_, by simpa [Spec.Rlp.rlp] using hb.1⟩
          simp only [Small]
          exact ⟨by omega, this.1⟩
        · cases h
        · cases h
      · cases h
      · cases h
    · intro bs xs h
      unfold decMany at h
      split at h
      · injection h with h; subst h; simp [SmallL, Spec.Rlp.rlpSeq]
      · rename_i b t
        split at h
        · rename_i it n hd
          split at h
          · rename_i more hm
            injection h with h; subst h
            have h1 := ih.1 _ _ _ hd
            have h2 := ih.2 _ _ hm
            have hb := decOne_bounds hd
            simp only [SmallL, Spec.Rlp.rlpSeq, List.length_append]
            refine ⟨⟨h1.1, h2.1⟩, ?_⟩
            have : ((b :: t).drop n).length = (b :: t).length - n := by simp
            omega
          · cases h
          · cases h
        · cases h
        · cases h

/-- **Stability.** If decoding arbitrary bytes returns an element, re-encoding it and decoding again
    returns the same element and consumes exactly the re-encoding. -/
theorem decode_stable {bs : Bytes} {it : Item} {pos : Nat} (h : Decode bs = .ok (some it, pos)) :
    Decode (enc it) = .ok (some it, (enc it).length) := by
  unfold Decode at h
  split at h
  · simp at h
  · split at h
    · rename_i it' n hd
      injection h with h; injection h with h1 h2
      injection h1 with h1; subst h1
      have hs := ((dec_small _).1 _ _ _ hd).1
      have := decode_enc_append it' hs []
      simpa using this
    · cases h
    · cases h

/-- Non-vacuity of the size hypothesis: a depth-3 tree with a 56-byte string (long form) is `Small`. -/
example : Small (2 ^ 31) (.list [.str (List.replicate 56 7), .list [.list [.str [0x80]], .str []]]) := by
  have : (minBE 56).length ≤ 1 := minBE_length_le (by decide)
  simp [Small, SmallL, Spec.Rlp.rlpSeq, Spec.Rlp.rlp, Spec.Rlp.Rb, Spec.Rlp.Rl]
  omega

/-- Every canonical encoding (the Yellow-Paper encoding of some tree — what any strict decoder accepts,
    yielding that tree) is accepted and decoded to exactly that tree, consuming all of it. -/
theorem canonical_accepted (t : Item) (h : Small (2 ^ 31) t) :
    Decode (Spec.Rlp.rlp t) = .ok (some t, (Spec.Rlp.rlp t).length) := by
  simpa using decode_rlp_append t h []

end FFS.Props.C06
