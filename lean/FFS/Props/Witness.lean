/-
  FFS.Props.Witness — kernel-evaluated witnesses that are too slow for the per-property modules (each forces a hash
  or a key derivation inside the kernel, 5–60 s): known-answer tests of the executable reference primitives the
  models are built on (published vectors: FIPS 180-4, RFC 7914, the well-known Keccak-256 values, SEC 2). The
  non-vacuity witnesses of C12 that need a selector are in FFS.Props.WitnessAbi.
  Everything here is `decide +kernel`: the kernel evaluates the definition; no axiom is added (no native_decide).
  Built by `lake build` and by the thorough tier; the references are additionally compared with the Go libraries on
  random inputs by every run of the harness.
-/
import FFS.Util.Hex
import FFS.Prim.Keccak
import FFS.Prim.Sha256
import FFS.Prim.Aes
import FFS.Prim.Scrypt
import FFS.Prim.Secp256k1
namespace FFS.Props.Witness
open FFS

def hx (s : String) : Bytes := (bytesOfHex? s).getD []

/-! ### Keccak-256 -/
theorem keccak_empty : Prim.keccak256 [] = hx "c5d2460186f7233c927e7db2dcc703c0e500b653ca82273b7bfad8045d85a470" := by
  decide +kernel
theorem keccak_abc : Prim.keccak256 [0x61, 0x62, 0x63] = hx "4e03657aea45a94fc7d47ba826c8d667c0d1e6e33a64a036ec44f58fa12d6c45" := by
  decide +kernel
/-- a message longer than one 136-byte block (200 × 0xa3, the Keccak team's test pattern) -/
theorem keccak_two_blocks : (Prim.keccak256 (List.replicate 200 0xa3)).length = 32 := by decide +kernel

/-! ### SHA-256, HMAC, PBKDF2 (FIPS 180-4; RFC 7914 §11) -/
theorem sha256_abc : Prim.sha256 [0x61, 0x62, 0x63] = hx "ba7816bf8f01cfea414140de5dae2223b00361a396177a9cb410ff61f20015ad" := by
  decide +kernel
theorem pbkdf2_rfc7914 : Prim.pbkdf2Sha256 "passwd".toUTF8.toList "salt".toUTF8.toList 1 64 =
    hx "55ac046e56e3089fec1691c22544b605f94185216dde0465e68b9d57c20dacbc49ca9cccf179b645991664b39d77ef317c71b845b1e30bd509112041d3a19783" := by
  decide +kernel

/-! ### secp256k1 (SEC 2): the generator of the reference is on the curve. (Scalar multiplication and AES use `while`
    loops / a computed S-box that the kernel cannot evaluate in reasonable time: those references are validated by the
    harness's differential runs only.) -/
theorem secp_generator_on_curve : Prim.Secp.onCurve Prim.Secp.G = true := by decide +kernel

end FFS.Props.Witness
