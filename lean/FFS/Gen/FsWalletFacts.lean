namespace FFS.Gen.FsWalletFacts
def extMismatchReturns : Bool := true
def addressChecked : Bool := true
def listenersSnapshotUsed : Bool := true
def formatNotWritten : Bool := true
end FFS.Gen.FsWalletFacts
