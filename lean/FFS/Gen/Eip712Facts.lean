namespace FFS.Gen.Eip712Facts
def nilMemberGuard : Bool := true
def useNumber : Bool := true
end FFS.Gen.Eip712Facts
