import FFS.Util.Hex
import FFS.Model.Proxy
import FFS.Spec.JsonRpc
namespace FFS.Driver
open Lean FFS FFS.Model.Proxy

def replyOfJson (j : Json) : Reply :=
  let v := (j.getObjVal? "value").toOption.getD Json.null
  let code : Int := match j.getObjVal? "code" with | .ok (.num n) => n.mantissa | _ => -32000
  match Json.getStr! j "kind" with
  | "result" => .result v
  | "resultNoVersion" => .resultNoVersion v
  | "rpcError" => .rpcError code
  | "httpErrorWithBody" => .httpErrorWithBody code
  | "httpErrorNoBody" => .httpErrorNoBody
  | "nullBody" => .nullBody
  | "wrongId" => .wrongId v
  | "connFail" => .connFail
  | _ => .result v

def respJson (r : Resp) : Json :=
  Json.mkObj ([("jsonrpc", Json.str r.version), ("id", r.id)] ++
    (match r.result with | some v => [("result", v)] | none => []) ++
    (match r.errorCode with | some c => [("errorCode", Json.num (JsonNumber.fromInt c))] | none => []))

def fwdJson : Fwd → Json
  | .plain m ps => Json.mkObj [("method", m), ("params", Json.arr ps.toArray)]
  | .rawTx a tx n f _ =>
    -- `rec`: what recovery of the submitted bytes must read back (C01.normAuto of the decoded transaction)
    let e1559 := Model.Tx.wants1559 f
    let num (x : Option Nat) : Json := Json.str (toString (Model.Tx.big x))
    Json.mkObj [("method", "eth_sendRawTransaction"), ("from", Json.str (hexOfBytes a)), ("tx", tx),
      ("nonce", match n with | some k => Json.str (toString k) | none => Json.null),
      ("rec", Json.mkObj [("nonce", num f.nonce), ("gasPrice", if e1559 then Json.null else num f.gasPrice),
        ("tip", if e1559 then num f.tip else Json.null), ("feeCap", if e1559 then num f.feeCap else Json.null),
        ("gasLimit", num f.gasLimit), ("value", num f.value), ("data", Json.str (hexOfBytes f.data)),
        ("to", match f.to with | some b => Json.str (hexOfBytes b) | none => Json.null)])]

def membersOf (j : Json) : List (String × Json) :=
  match j with | .obj kvs => kvs.toList | _ => []

def opProxyHandle (j : Json) : Json :=
  let body := Json.getHex! j "body"
  let goValid := match j.getObjVal? "goValid" with | .ok (.bool b) => b | _ => false
  let textOpt := String.fromUTF8? (ByteArray.mk (body.toArray))
  let parsed : Option Json := if goValid then (textOpt.bind fun text => (Json.parse text).toOption) else none
  let leanDisagrees := goValid && parsed.isNone
  let scriptTab : List (String × Reply) := match j.getObjVal? "script" with
    | .ok (.obj kvs) => kvs.toList.map fun (k, v) => (k, replyOfJson v)
    | _ => []
  let script : Script := fun m =>
    match scriptTab.find? (·.1 == m) with
    | some (_, r) => r
    | none => ((scriptTab.find? (·.1 == "*")).map (·.2)).getD (.result Json.null)
  let accounts : List Bytes := match j.getObjVal? "accounts" with
    | .ok (.arr xs) => xs.toList.map fun x => match x with | .str s => (bytesOfHex? s).getD [] | _ => []
    | _ => []
  let (fwds, reply) := handle membersOf { accounts := accounts } script body parsed
  let replyJ : Json := match reply with
    | .single st r => Json.mkObj [("status", st), ("single", respJson r)]
    | .batch st rs => Json.mkObj [("status", st), ("batch", Json.arr (rs.map respJson).toArray)]
    | .processCrash => Json.str "processCrash"
  -- Spec verdict on the implementation's actual reply text
  let implReply := Json.getStr! j "implReply"
  let batchLen : Option Nat :=
    match parsed with
    | some (.arr xs) => if sniffFirstByteIsBracket body && xs.size > 0 && xs.all (fun x => match x with | .obj _ => true | .null => true | _ => false) then some xs.size else none
    | _ => none
  let wf : Bool := match Json.parse implReply with
    | .ok r => Spec.JsonRpc.wellFormedReply batchLen r
    | .error _ => false
  Json.mkObj [("forwarded", Json.arr (fwds.map fwdJson).toArray), ("reply", replyJ), ("wellFormed", wf),
    ("leanDisagrees", leanDisagrees)]
where
  sniffFirstByteIsBracket (body : Bytes) : Bool :=
    ((body.find? fun b => !isSpaceByte b).getD 0) == 0x5b

end FFS.Driver
