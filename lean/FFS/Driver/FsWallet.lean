import FFS.Driver.Keystore
import FFS.Driver.Secp
import FFS.Model.FsWallet
namespace FFS.Driver
open Lean FFS FFS.Model.FsWallet

def fswCfgOfJson (j : Json) : Config :=
  let b (k : String) : Bool := match j.getObjVal? k with | .ok (.bool x) => x | _ => false
  { path := Json.getStr! j "path", primaryExt := Json.getStr! j "primaryExt", useRegex := b "useRegex", with0xPrefix := b "with0xPrefix",
    passwordExt := Json.getStr! j "passwordExt", passwordPath := Json.getStr! j "passwordPath", passwordTrimSpace := b "passwordTrimSpace",
    defaultPasswordFile := Json.getStr! j "defaultPasswordFile", metadataFormat := Json.getStr! j "metadataFormat" }

def fileViewOfJson (j : Json) : FileView :=
  { name := Json.getStr! j "name", isDir := (match j.getObjVal? "isDir" with | .ok (.bool x) => x | _ => false),
    regexCapture := match j.getObjVal? "capture" with | .ok (.str s) => some s | _ => none }

def isHex40 (s : String) : Bool :=
  s.length == 40 && s.toList.all fun c => ('0' ≤ c && c ≤ '9') || ('a' ≤ c && c ≤ 'f') || ('A' ≤ c && c ≤ 'F')

/-- the naming rule as the property states it: not a directory and (regex: capture 1 is an address |
    extension: name = ADDRESS ++ ext), ADDRESS = optional 0x + 40 hex digits -/
def specMatches (cfg : Config) (f : FileView) : Option Addr :=
  let addrOf (s : String) : Option Addr :=
    let h := if s.startsWith "0x" then String.ofList (s.toList.drop 2) else s
    if isHex40 h then bytesOfHex? h else none
  if f.isDir then none
  else if cfg.useRegex then f.regexCapture.bind addrOf
  else if f.name.endsWith cfg.primaryExt then addrOf (String.ofList (f.name.toList.take (f.name.length - cfg.primaryExt.length)))
  else none

def dedup (l : List Addr) : List Addr := l.foldl (fun acc a => if acc.contains a then acc else acc ++ [a]) []

def opFswRun (j : Json) : Json :=
  let cfg := fswCfgOfJson ((j.getObjVal? "cfg").toOption.getD Json.null)
  let fs : Fs := match j.getObjVal? "fs" with
    | .ok (.obj kvs) => kvs.toList.map fun (k, v) => (k, match v with | .str s => (bytesOfHex? s).getD [] | _ => [])
    | _ => []
  let ksTab : List (Bytes × Model.Keystore.KsFile) := match j.getObjVal? "ks" with
    | .ok (.obj kvs) => kvs.toList.map fun (k, v) => ((bytesOfHex? k).getD [], ksFileOfJson v)
    | _ => []
  let ks (b : Bytes) : Model.Keystore.KsFile :=
    ((ksTab.find? (·.1 == b)).map (·.2)).getD { (default : Model.Keystore.KsFile) with commonErr := true }
  let metaTab : List (String × MetaResult) := match j.getObjVal? "meta" with
    | .ok (.obj kvs) => kvs.toList.map fun (k, v) => (k, match v.getObjVal? "err" with
        | .ok (.bool true) => MetaResult.parseError
        | _ => MetaResult.files (Json.getStr! v "kf") (Json.getStr! v "pf"))
    | _ => []
  let metaOf (p : String) : MetaResult := ((metaTab.find? (·.1 == p)).map (·.2)).getD .parseError
  let derive (key : Bytes) : Addr := Model.Secp.keyAddress concreteCurve (fromBE key)
  let ops := match j.getObjVal? "ops" with | .ok (.arr xs) => xs.toList | _ => []
  let (_, outs, _) := ops.foldl (fun (acc : State × List Json × List Addr) o =>
    let (st, outs, specAcc) := acc
    match Json.getStr! o "op" with
    | "refresh" =>
      let files := match o.getObjVal? "files" with | .ok (.arr xs) => xs.toList.map fileViewOfJson | _ => []
      let (st', _) := notifyNewFiles cfg st files
      let specAcc' := dedup (specAcc ++ files.filterMap (specMatches cfg))
      (st', outs ++ [Json.mkObj [("accounts", Json.arr (st'.addressList.map (fun a => Json.str (hexOfBytes a))).toArray),
                                 ("specAccounts", Json.arr (specAcc'.map (fun a => Json.str (hexOfBytes a))).toArray)]], specAcc')
    | "get" =>
      let addr := Json.getHex! o "addr"
      let load (primary : String) : Outcome Bytes :=
        loadWalletFile cfg fs ks metaOf addr (pathJoin cfg.path primary)
      let (st', r) := getWalletFile derive st addr load
      (st', outs ++ [Json.mkObj [("get", outcomeJson (fun (k : Bytes) => Json.str (hexOfBytes k)) r)]], specAcc)
    | _ => (st, outs ++ [Json.null], specAcc)) (State.init, [], [])
  Json.mkObj [("results", Json.arr outs.toArray)]

end FFS.Driver
