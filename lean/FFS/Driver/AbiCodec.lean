import FFS.Driver.Abi
import FFS.Driver.Eth
import FFS.Model.AbiIO
import FFS.Spec.AbiJson
namespace FFS.Driver
open Lean FFS FFS.Model.Abi FFS.Model.EthTypes

partial def extOfJson (j : Json) : Ext :=
  match Json.getStr! j "t" with
  | "null" => .null
  | "bool" => .bool (match j.getObjVal? "v" with | .ok (.bool b) => b | _ => false)
  | "num" => .num (Json.getStr! j "v") (extNumOfJson j "fl") (extNumOfJson j "rat")
  | "str" => .str (Json.getStr! j "v") (extNumOfJson j "fl") (extNumOfJson j "rat")
  | "arr" => .arr (match j.getObjVal? "v" with | .ok (.arr xs) => xs.toList.map extOfJson | _ => [])
  | "obj" =>
    let ks := match j.getObjVal? "k" with | .ok (.arr xs) => xs.toList.map (fun x => match x with | .str s => s | _ => "") | _ => []
    let vs := match j.getObjVal? "v" with | .ok (.arr xs) => xs.toList.map extOfJson | _ => []
    .obj ks vs
  | "int" => .int ((Json.getStr! j "v").toInt?.getD 0)
  | "float" => .float (match j.getObjVal? "integral" with | .ok (.bool b) => b | _ => false) ((Json.getStr! j "v").toInt?.getD 0)
  | "bytes" => .goBytes (Json.getHex! j "v")
  | _ => .null

partial def cvJson : CV → Json
  | .int z => Json.mkObj [("i", Json.str (toString z))]
  | .bytes b => Json.mkObj [("b", Json.str (hexOfBytes b))]
  | .str b => Json.mkObj [("s", Json.str (hexOfBytes b))]
  | .kids cs => Json.arr (cs.map cvJson).toArray

partial def cvOfJson (j : Json) : CV :=
  match j with
  | .arr xs => .kids (xs.toList.map cvOfJson)
  | _ =>
    match j.getObjVal? "i", j.getObjVal? "b", j.getObjVal? "s" with
    | .ok (.str s), _, _ => .int (s.toInt?.getD 0)
    | _, .ok (.str s), _ => .bytes ((bytesOfHex? s).getD [])
    | _, _, .ok (.str s) => .str ((bytesOfHex? s).getD [])
    | _, _, _ => .kids []

partial def jJson : J → Json
  | .bool b => Json.mkObj [("B", Json.bool b)]
  | .num lit => Json.mkObj [("n", Json.str lit)]
  | .str b => Json.mkObj [("s", Json.str (hexOfBytes b))]
  | .arr xs => Json.mkObj [("a", Json.arr (xs.map jJson).toArray)]
  | .obj ks vs => Json.mkObj [("o", Json.mkObj (ks.zip (vs.map jJson)))]

def paramsOfJson (j : Json) : List Param :=
  match j.getObjVal? "params" with
  | .ok (.arr xs) => xs.toList.map paramOfJson
  | _ => []

/-- the parameter tuple's type (TypeComponentTreeCtx of a ParameterArray) -/
def tupleTy (ps : List Param) : Outcome Ty :=
  match parseParams ps with
  | .ok ts => .ok (.tuple (ps.map Param.name) ts)
  | .err => .err
  | .panic => .panic

def cfgOfJson (j : Json) : SerCfg :=
  { mode := match Json.getStr! j "mode" with | "flat" => .flatArrays | "self" => .selfDescribing | _ => .objects,
    ints := match Json.getStr! j "ints" with | "hex" => .hex0x | "number" => .jsonNumber | "iffits" => .numberIfFits | _ => .base10,
    bytes := match Json.getStr! j "bytes" with | "hex0x" => .hex0x | "base64" => .base64 | _ => .hex,
    addr := match Json.getStr! j "addr" with | "hex0x" => .hex0x | "plain" => .plain | "checksum" => .checksum | _ => .none }

def hexJson (b : Bytes) : Json := Json.str (hexOfBytes b)

/-- abi.encode: external input → bytes. `expect`: the value the input denotes (judged by Spec.enc), or "reject". -/
def opAbiEncode (j : Json) : Json :=
  match tupleTy (paramsOfJson j) with
  | .ok t =>
    let input := extOfJson ((j.getObjVal? "input").toOption.getD Json.null)
    let cv := walkInput t input
    let model : Outcome Bytes := match cv with | .ok v => encodeData t v | .err => .err | .panic => .panic
    let expect := (j.getObjVal? "expect").toOption.getD Json.null
    let tExp : Ty := match j.getObjVal? "expectParams" with
      | .ok (.arr xs) => (match tupleTy (xs.toList.map paramOfJson) with | .ok te => te | _ => t)
      | _ => t
    let spec : Json := match expect with
      | .arr _ =>
        let v := cvOfJson expect
        if Spec.Abi.WellTyped tExp v then hexJson (Spec.Abi.enc tExp v) else Json.str "ill-typed-expectation"
      | _ => Json.null
    Json.mkObj [("model", outcomeJson hexJson model), ("modelValue", outcomeJson cvJson cv), ("spec", spec)]
  | _ => Json.mkObj [("model", Json.str "err"), ("badtype", true)]

/-- abi.roundtrip: a well-typed value; spec encoding, decode with surrounding bytes, serialize, re-parse -/
def opAbiRoundtrip (j : Json) : Json :=
  match tupleTy (paramsOfJson j) with
  | .ok t =>
    let ts := match t with | .tuple _ ts => ts | _ => []
    let v := cvOfJson ((j.getObjVal? "value").toOption.getD Json.null)
    let pre := Json.getHex! j "pre"; let post := Json.getHex! j "post"
    let wt := Spec.Abi.WellTyped t v
    let specEnc := Spec.Abi.enc t v
    let modelEnc := encodeData t v
    let block := pre ++ specEnc ++ post
    let dec := decodeParams ts block pre.length
    let cfgs := match j.getObjVal? "cfgs" with | .ok (.arr xs) => xs.toList.map cfgOfJson | _ => []
    let sers := cfgs.map fun cfg =>
      let out := match dec with | .ok d => walkOutput cfg t d | .err => .err | .panic => .panic
      let denotes : Json := match out with
        | .ok o => (match Spec.AbiJson.readBack cfg t o with | some back => cvJson back | none => Json.str "unreadable")
        | _ => Json.null
      Json.mkObj [("out", outcomeJson jJson out), ("denotes", denotes)]
    Json.mkObj [("wellTyped", wt), ("specEnc", hexJson specEnc), ("modelEnc", outcomeJson hexJson modelEnc),
      ("modelDec", outcomeJson cvJson dec), ("value", cvJson v), ("sers", Json.arr sers.toArray),
      ("specDynamic", Spec.Abi.isDynamic t), ("modelDynamic", isDynamicType t)]
  | _ => Json.mkObj [("badtype", true)]

/-- abi.decode: arbitrary bytes -/
def opAbiDecode (j : Json) : Json :=
  match tupleTy (paramsOfJson j) with
  | .ok t =>
    let ts := match t with | .tuple _ ts => ts | _ => []
    let block := Json.getHex! j "hex"
    let off := Json.getNat! j "offset"
    let dec := decodeParams ts block off
    let cfg : SerCfg := cfgOfJson ((j.getObjVal? "cfg").toOption.getD Json.null)
    let out := match dec with | .ok d => walkOutput cfg t d | .err => .err | .panic => .panic
    let reenc := match dec with | .ok d => encodeData t d | .err => .err | .panic => .panic
    let again := match reenc with | .ok b => decodeParams ts b 0 | .err => .err | .panic => .panic
    Json.mkObj [("model", outcomeJson cvJson dec), ("out", outcomeJson jJson out),
      ("reenc", outcomeJson hexJson reenc), ("again", outcomeJson cvJson again)]
  | _ => Json.mkObj [("model", Json.str "err"), ("badtype", true)]

end FFS.Driver
