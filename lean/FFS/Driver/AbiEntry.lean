import FFS.Driver.AbiCodec
import FFS.Model.AbiEntry
namespace FFS.Driver
open Lean FFS FFS.Model.Abi

def entryOfJson (j : Json) : Entry :=
  { type := Json.getStr! j "type", name := Json.getStr! j "name",
    anonymous := (match j.getObjVal? "anonymous" with | .ok (.bool b) => b | _ => false),
    inputs := match j.getObjVal? "inputs" with | .ok (.arr xs) => xs.toList.map paramOfJson | _ => [] }

/-- the specification's signature / selector / topic0 for an entry (canonical type spellings) -/
def specSignature (e : Entry) : Option String :=
  match Spec.AbiGrammar.canonList (e.inputs.map specPOfParam) with
  | some inner => some (e.name ++ "(" ++ inner ++ ")")
  | none => none

def opAbiEntry (j : Json) : Json :=
  let e := entryOfJson ((j.getObjVal? "entry").toOption.getD Json.null)
  let specSig := specSignature e
  let specHash := specSig.map fun s => Prim.keccak256 (utf8b s)
  Json.mkObj [("sig", outcomeJson Json.str (signature e)), ("selector", outcomeJson hexJson (selector e)),
    ("hash", outcomeJson hexJson (signatureHash e)),
    ("specSig", match specSig with | some s => Json.str s | none => Json.null),
    ("specSelector", match specHash with | some h => hexJson (h.take 4) | none => Json.null),
    ("specHash", match specHash with | some h => hexJson h | none => Json.null)]

/-- call data: spec = selector ‖ Spec.enc; decode by own entry and by another entry -/
def opAbiCalldata (j : Json) : Json :=
  let e := entryOfJson ((j.getObjVal? "entry").toOption.getD Json.null)
  let other := entryOfJson ((j.getObjVal? "other").toOption.getD Json.null)
  let v := cvOfJson ((j.getObjVal? "value").toOption.getD Json.null)
  match inputsTy e, specSignature e with
  | .ok t, some ssig =>
    let specData := (Prim.keccak256 (utf8b ssig)).take 4 ++ Spec.Abi.enc t v
    let wt := Spec.Abi.WellTyped t v
    let sameSel := (specSignature other).map (fun s => (Prim.keccak256 (utf8b s)).take 4) == some ((Prim.keccak256 (utf8b ssig)).take 4)
    Json.mkObj [("wellTyped", wt), ("specData", hexJson specData),
      ("modelEnc", outcomeJson hexJson (encodeCallData e v)),
      ("modelDec", outcomeJson cvJson (decodeCallData e specData)),
      ("modelCross", outcomeJson cvJson (decodeCallData other specData)),
      ("sameSelector", sameSel), ("value", cvJson v)]
  | _, _ => Json.mkObj [("badtype", true)]

/-- event: build topics / data from the specification, decode with the model, state the expected tree.
    `rawTopics`: one 32-byte topic for every indexed input that is not stored by value. -/
def opAbiEvent (j : Json) : Json :=
  let e := entryOfJson ((j.getObjVal? "entry").toOption.getD Json.null)
  let vs := match cvOfJson ((j.getObjVal? "values").toOption.getD Json.null) with | .kids cs => cs | _ => []
  let raws := match j.getObjVal? "rawTopics" with
    | .ok (.arr xs) => xs.toList.map (fun x => match x with | .str s => (bytesOfHex? s).getD [] | _ => [])
    | _ => []
  match parseParams e.inputs, specSignature e with
  | .ok ts, some ssig =>
    -- value types whose indexed value sits in the topic itself (the property: integers, addresses, booleans)
    let byValue (t : Ty) : Bool := match t with
      | .elem info _ _ _ => info.name == "int" || info.name == "uint" || info.name == "address" || info.name == "bool"
      | _ => false
    let rec build : List Param → List Ty → List CV → List Bytes → List Bytes × List Ty × List CV × List CV
      | p :: ps, t :: ts', v :: vs', raws' =>
        if p.indexed then
          if byValue t then
            let (tp, dt, dv, ex) := build ps ts' vs' raws'
            (Spec.Abi.enc t v :: tp, dt, dv, v :: ex)
          else
            let raw := raws'.headD (List.replicate 32 0)
            let (tp, dt, dv, ex) := build ps ts' vs' (raws'.drop 1)
            (raw :: tp, dt, dv, CV.bytes raw :: ex)
        else
          let (tp, dt, dv, ex) := build ps ts' vs' raws'
          (tp, t :: dt, v :: dv, v :: ex)
      | _, _, _, _ => ([], [], [], [])
    let (argTopics, dataTys, dataVals, expected) := build e.inputs ts vs raws
    let topic0 := Prim.keccak256 (utf8b ssig)
    let topics := if e.anonymous then argTopics else topic0 :: argTopics
    let data := Spec.Abi.enc (.tuple (dataTys.map fun _ => "") dataTys) (.kids dataVals)
    let variant := Json.getStr! j "variant"
    let (topics', expectErr) :=
      if variant == "foreignTopic0" && !e.anonymous then ((Prim.keccak256 (utf8b (ssig ++ "x"))) :: argTopics, true)
      else if variant == "dropLastTopic" && !topics.isEmpty then (topics.dropLast, true)
      else if variant == "noTopics" && !topics.isEmpty then ([], true)
      else (topics, false)
    Json.mkObj [("topics", Json.arr (topics'.map hexJson).toArray), ("data", hexJson data),
      ("expectErr", expectErr), ("expected", cvJson (.kids expected)),
      ("model", outcomeJson cvJson (decodeEventData e topics' data))]
  | _, _ => Json.mkObj [("badtype", true)]

/-- revert data attribution -/
def opAbiError (j : Json) : Json :=
  let abi := match j.getObjVal? "abi" with | .ok (.arr xs) => xs.toList.map entryOfJson | _ => []
  let which := Json.getNat! j "which"     -- index into (default :: abi)
  let all := defaultError :: abi
  let e := all.getD which defaultError
  let v := cvOfJson ((j.getObjVal? "value").toOption.getD Json.null)
  match inputsTy e, specSignature e with
  | .ok t, some ssig =>
    let sel := (Prim.keccak256 (utf8b ssig)).take 4
    let data := sel ++ Spec.Abi.enc t v
    -- the first error entry (default first) whose selector the data carries
    let selOf (x : Entry) : Option Bytes := (specSignature x).map fun s => (Prim.keccak256 (utf8b s)).take 4
    let first := (all.zipIdx.find? fun (x, _) => x.type == "error" && selOf x == some sel).map (·.2)
    let model := parseError abi data
    Json.mkObj [("data", hexJson data), ("expectIndex", match first with | some i => Json.num i | none => Json.null),
      ("expectSameEntry", first == some which), ("value", cvJson v),
      ("model", match model with | some (i, cv) => Json.mkObj [("index", Json.num i), ("cv", cvJson cv)] | none => Json.null)]
  | _, _ => Json.mkObj [("badtype", true)]

/-- the entry points on arbitrary bytes (C11): call data, event topics/data, revert data -/
def opAbiRawEntry (j : Json) : Json :=
  let data := Json.getHex! j "data"
  match Json.getStr! j "kind" with
  | "calldata" =>
    let e := entryOfJson ((j.getObjVal? "entry").toOption.getD Json.null)
    Json.mkObj [("model", outcomeJson cvJson (decodeCallData e data))]
  | "event" =>
    let e := entryOfJson ((j.getObjVal? "entry").toOption.getD Json.null)
    let topics := match j.getObjVal? "topics" with
      | .ok (.arr xs) => xs.toList.map (fun x => match x with | .str s => (bytesOfHex? s).getD [] | _ => [])
      | _ => []
    Json.mkObj [("model", outcomeJson cvJson (decodeEventData e topics data))]
  | "error" =>
    let abi := match j.getObjVal? "abi" with | .ok (.arr xs) => xs.toList.map entryOfJson | _ => []
    Json.mkObj [("model", match parseError abi data with
      | some (i, cv) => Json.mkObj [("index", Json.num i), ("cv", cvJson cv)]
      | none => Json.null)]
  | _ => Json.mkObj [("bad", "kind")]

end FFS.Driver
