import FFS.Driver.AbiEntry
import FFS.Model.Ffi
namespace FFS.Driver
open Lean FFS FFS.Model.Abi FFS.Model.Ffi

def detailsOfJson (j : Json) : Option Details :=
  match j with
  | .obj _ =>
    let ty := Json.getStr! j "type"
    let it := Json.getStr! j "internalType"
    let ix : Bool := match j.getObjVal? "indexed" with | .ok (.bool b) => b | _ => false
    let idx : Option Int := match j.getObjVal? "index" with | .ok (.num n) => some n.mantissa | _ => none
    some (Details.mk ty it ix idx)
  | _ => none

/-- the decoded `*Schema` (what encoding/json produces), described by the harness -/
partial def schemaOfJson (j : Json) : Option Schema :=
  match j with
  | .obj _ =>
    let oneOf : Option (List String) := match j.getObjVal? "oneOf" with
      | .ok (.arr xs) => some (xs.toList.map fun x => Json.getStr! x "type")
      | _ => none
    let props : Option (List (String × Option Schema)) := match j.getObjVal? "properties" with
      | .ok (.obj kvs) => some (kvs.toList.map fun (k, v) => (k, schemaOfJson v))
      | _ => none
    some (.mk (Json.getStr! j "type") oneOf (detailsOfJson ((j.getObjVal? "details").toOption.getD Json.null)) props
      (match j.getObjVal? "items" with | .ok v => schemaOfJson v | _ => none))
  | _ => none

partial def paramJson : Param → Json
  | .mk n t i it cs => Json.mkObj [("name", n), ("type", t), ("indexed", i), ("internalType", it),
      ("components", Json.arr (cs.map paramJson).toArray)]

def opFfiToABI (j : Json) : Json :=
  let s := schemaOfJson ((j.getObjVal? "schema").toOption.getD Json.null)
  let metaOK := match j.getObjVal? "metaOK" with | .ok (.bool b) => b | _ => false
  Json.mkObj [("model", outcomeJson paramJson (convertParam metaOK (Json.getStr! j "name") s))]

def opFfiRoundtrip (j : Json) : Json :=
  let e := entryOfJson ((j.getObjVal? "entry").toOption.getD Json.null)
  let back : List (Outcome Param) := e.inputs.map fun p =>
    match parseParam p with
    | .ok t => processField 64 p.name (some (schemaOf (detailsOf p) p.components t))
    | .err => .err
    | .panic => .panic
  Json.mkObj [("back", Json.arr (back.map (outcomeJson paramJson)).toArray),
    ("original", Json.arr (e.inputs.map paramJson).toArray),
    ("helperSig", Json.str (methodToSignature e)),
    ("modelSig", outcomeJson Json.str (signature e)),
    ("specSig", match specSignature e with | some s => Json.str s | none => Json.null)]

end FFS.Driver
