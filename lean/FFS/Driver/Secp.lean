import FFS.Util.Hex
import FFS.Model.Secp
import FFS.Prim.Secp256k1
namespace FFS.Driver
open Lean FFS FFS.Model.Secp

/-- the executable secp256k1 instance of the abstract curve -/
def concreteCurve : Curve where
  Pub := Nat × Nat
  n := Prim.Secp.N
  pub := fun k => (Prim.Secp.pubOfPriv k).getD (0, 0)
  signCompact := fun _ _ => (0, 0, 0)   -- signatures are taken from the implementation, never produced here
  recoverCompact := fun v r32 s32 digest =>
    Prim.Secp.recoverPub v (fromBE r32) (fromBE s32) (fromBE (digest.take 32))
  ser := fun p => toBE 32 p.1 ++ toBE 32 p.2

def optIntOfJson (j : Json) (k : String) : Option Int :=
  match j.getObjVal? k with
  | .ok (.str s) => s.toInt?
  | _ => none

def intJson (z : Int) : Json := Json.str (toString z)

def getInt! (j : Json) (k : String) : Int := (optIntOfJson j k).getD 0

def sigOfJson (j : Json) : Sig :=
  { V := optIntOfJson j "V", R := optIntOfJson j "R", S := optIntOfJson j "S" }

def opSecpVnorm (j : Json) : Json :=
  Json.mkObj [("model", outcomeJson intJson (getVNormalized (optIntOfJson j "V") (getInt! j "cid")))]

def opSecpRecover (j : Json) : Json :=
  let sig := sigOfJson j
  let digest := Json.getHex! j "digest"
  let base := [("model", outcomeJson (fun b => Json.str (hexOfBytes b))
    (recoverDirect concreteCurve sig digest (getInt! j "cid")))]
  let key := Json.getHex! j "key"
  Json.mkObj (if key.isEmpty then base
    else base ++ [("addr", Json.str (hexOfBytes (keyAddress concreteCurve (fromBE key))))])

/-- judge a signature produced by the implementation for (key, digest): shape, verification, address -/
def opSecpJudgeSig (j : Json) : Json :=
  let key := fromBE (Json.getHex! j "key")
  let digest := Json.getHex! j "digest"
  let v := (getInt! j "V").toNat
  let r := (getInt! j "R").toNat
  let s := (getInt! j "S").toNat
  let n := Prim.Secp.N
  let pub := Prim.Secp.pubOfPriv key
  let shape := (v == 27 || v == 28) && 1 ≤ r && r < n && 1 ≤ s && 2 * s ≤ n
  let verifies := Prim.Secp.verify pub r s (fromBE (digest.take 32))
  let addr := keyAddress concreteCurve key
  Json.mkObj [("shape", shape), ("verifies", verifies), ("addr", Json.str (hexOfBytes addr)),
              ("pub", Json.str (hexOfBytes (Prim.Secp.ptSer pub)))]

def opSecpAddr (j : Json) : Json :=
  let key := fromBE (Json.getHex! j "key")
  let pub := Prim.Secp.pubOfPriv key
  Json.mkObj [("addr", Json.str (hexOfBytes (keyAddress concreteCurve key))),
              ("pub", Json.str (hexOfBytes (Prim.Secp.ptSer pub)))]

def opSecpCompact (j : Json) : Json :=
  let sig := sigOfJson j
  let c := compactRSV sig
  let back : Json := match c with
    | .ok b => outcomeJson (fun (s : Sig) => Json.mkObj [("V", intJson (s.V.getD 0)), ("R", intJson (s.R.getD 0)), ("S", intJson (s.S.getD 0))]) (decodeCompactRSV b)
    | _ => Json.null
  Json.mkObj [("model", outcomeJson (fun b => Json.str (hexOfBytes b)) c), ("decoded", back)]

def opSecpDecodeCompact (j : Json) : Json :=
  Json.mkObj [("model", outcomeJson (fun (s : Sig) => Json.mkObj [("V", intJson (s.V.getD 0)), ("R", intJson (s.R.getD 0)), ("S", intJson (s.S.getD 0))])
    (decodeCompactRSV (Json.getHex! j "hex")))]

def opKeccak (j : Json) : Json :=
  Json.mkObj [("model", Json.str (hexOfBytes (Prim.keccak256 (Json.getHex! j "hex"))))]

end FFS.Driver
