import FFS.Util.Hex
import FFS.Model.FsWalletConc
namespace FFS.Driver
open Lean FFS FFS.Model.FsWalletConc

def natOf (j : Json) (k : String) : Nat := match j.getObjVal? k with | .ok (.num n) => n.mantissa.toNat | _ => 0

/-- run a sequence of operations on the discovery model; `drain` performs every queued send, queue by queue -/
def opFswcRun (j : Json) : Json :=
  let ops := match j.getObjVal? "ops" with | .ok (.arr xs) => xs.toList | _ => []
  let drain (s : St) : St := { s with delivered := s.delivered ++ s.queues.flatten, queues := s.queues.map fun _ => [] }
  let (s, gets) := ops.foldl (fun (acc : St × List Json) o =>
    let (s, gets) := acc
    match Json.getStr! o "t" with
    | "notify" =>
      let files : List (String × Option Addr) := match o.getObjVal? "files" with
        | .ok (.arr xs) => xs.toList.map fun f => match f with
          | .arr #[.str name, .num n] => (name, some n.mantissa.toNat)
          | .arr #[.str name, _] => (name, none)
          | _ => ("", none)
        | _ => []
      (step s (.notify files), gets)
    | "add" => (step s (.addListener (natOf o "l")), gets)
    | "deliver" => (step s (.deliver (natOf o "i")), gets)
    | "drain" => (drain s, gets)
    | "get" => (s, gets ++ [Json.arr (s.known.map fun a => Json.num (JsonNumber.fromNat a)).toArray])
    | _ => (s, gets)) (init, [])
  let perListener := s.listeners.map fun l =>
    (toString l, Json.arr ((s.delivered.filter (·.1 == l)).map fun p => Json.num (JsonNumber.fromNat p.2)).toArray)
  Json.mkObj [("known", Json.arr (s.known.map fun a => Json.num (JsonNumber.fromNat a)).toArray),
    ("delivered", Json.mkObj perListener), ("pending", s.queues.flatten.length), ("gets", Json.arr gets.toArray)]

end FFS.Driver
