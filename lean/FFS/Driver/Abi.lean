import FFS.Util.Hex
import FFS.Model.AbiTypes
import FFS.Spec.AbiGrammar
namespace FFS.Driver
open Lean FFS FFS.Model.Abi

partial def paramOfJson (j : Json) : Param :=
  let comps := match j.getObjVal? "components" with
    | .ok (.arr xs) => xs.toList.map paramOfJson
    | _ => []
  .mk (Json.getStr! j "name") (Json.getStr! j "type")
    (match j.getObjVal? "indexed" with | .ok (.bool b) => b | _ => false)
    (Json.getStr! j "internalType") comps

partial def specPOfParam : Param → Spec.AbiGrammar.P
  | .mk _ t _ _ cs => .mk t (cs.map specPOfParam)

def opAbiValidate (j : Json) : Json :=
  let p := paramOfJson ((j.getObjVal? "param").toOption.getD Json.null)
  let r := parseParam p
  let sig := outcomeJson (fun (t : Ty) => Json.str (render t)) r
  -- idempotence: re-parse the rendered spelling of the outermost type with the same components
  let again : Json := match r with
    | .ok t =>
      let respelled : Param := match t, p with
        | .tuple _ _, .mk n _ i it cs => .mk n "tuple" i it cs
        | _, .mk n _ i it cs =>
          -- tuples render as "(...)": replace the parenthesised part by the keyword for re-parsing
          let s := render t
          let s' := if s.startsWith "(" then "tuple" ++ String.ofList (s.toList.drop ((s.toList.length - ((s.toList.reverse.takeWhile (· != ')')).length)))) else s
          .mk n s' i it cs
      outcomeJson (fun (t2 : Ty) => Json.str (render t2)) (parseParam respelled)
    | _ => Json.null
  let spec := Spec.AbiGrammar.canon (specPOfParam p)
  Json.mkObj [("model", sig), ("reparse", again),
    ("spec", match spec with | some s => Json.str s | none => Json.null)]

end FFS.Driver
