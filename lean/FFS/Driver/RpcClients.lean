import FFS.Util.Hex
import FFS.Model.RpcClients
namespace FFS.Driver
open Lean FFS FFS.Model.RpcClients

private def natOf' (j : Json) (k : String) : Nat := match j.getObjVal? k with | .ok (.num n) => n.mantissa.toNat | _ => 0
private def natOpt (j : Json) (k : String) : Option Nat := match j.getObjVal? k with | .ok (.num n) => some n.mantissa.toNat | _ => none
private def boolOf (j : Json) (k : String) : Bool := match j.getObjVal? k with | .ok (.bool b) => b | _ => false

def opRpcWsRun (j : Json) : Json :=
  let ops := match j.getObjVal? "ops" with | .ok (.arr xs) => xs.toList | _ => []
  let (s, idMismatch, hidden) := ops.foldl (fun (acc : Ws.St × List Json × List Nat) o =>
    let (s, bad, hidden) := acc
    match Json.getStr! o "t" with
    | "call" =>
      let bad' := if s.counter + 1 == natOf' o "obsId" then bad else bad ++ [o]
      (Ws.step s (.call (natOf' o "caller")), bad', if boolOf o "unsub" then natOf' o "caller" :: hidden else hidden)
    | "cancelCall" => (Ws.step s (.cancelCall (natOf' o "id")), bad, hidden)
    | "subscribe" => (Ws.step s (.subscribe (natOf' o "sub")), bad, hidden)
    | "sendSubscribe" =>
      let bad' := if s.counter + 1 == natOf' o "obsId" then bad else bad ++ [o]
      (Ws.step s (.sendSubscribe (natOf' o "sub")), bad', hidden)
    | "reply" =>
      let r : Ws.Reply := if Json.getStr! o "kind" == "error" then .error else .result (natOpt o "serverId")
      (Ws.step (Ws.step s (.reply (natOf' o "id") r)) .activate, bad, hidden)
    | "notify" => (Ws.step s (.notify (natOf' o "serverId")), bad, hidden)
    | "reconnect" =>
      let order := match o.getObjVal? "order" with | .ok (.arr xs) => xs.toList.map fun x => (match x with | .num n => n.mantissa.toNat | _ => 0) | _ => []
      let s1 := Ws.step s (.reconnectClear order)
      -- the property itself: every configured subscription is re-requested (once) on the new connection — the
      -- observed order must be a permutation of the configured ones
      let missing := if s.reconnectEnabled then s.configured.filter (fun l => !order.contains l) else []
      let extra := if s.reconnectEnabled then order.filter (fun l => !s.configured.contains l || order.count l != 1) else []
      let bad' := bad ++ missing.map (fun (l : Nat) => Json.mkObj [("resubscribeMissing", Json.num (JsonNumber.fromNat l))]) ++ extra.map (fun (l : Nat) => Json.mkObj [("resubscribeUnexpected", Json.num (JsonNumber.fromNat l))])
      (s1.resubQueue.foldl (fun st _ => Ws.step st .resubscribe) s1, bad', hidden)
    | "unsubscribe" => (Ws.step s (.unsubscribe (natOf' o "sub")), bad, hidden)
    | _ => (s, bad, hidden)) (Ws.init (boolOf j "reconnectEnabled"), [], [])
  -- per caller: ok / err / pending
  let callers : List Nat := s.log.filterMap fun e => match e with | .sentCall _ c => some c | _ => none
  let callState (c : Nat) : String :=
    match s.log.find? (fun e => match e with | .completed c' _ _ => c' == c | _ => false) with
    | some (.completed _ _ true) => "ok"
    | some _ => "err"
    | none => "pending"
  let callsJ := Json.mkObj ((callers.filter fun c => !hidden.contains c).map fun c => (toString c, Json.str (callState c)))
  let subLids : List Nat := (s.subs.map (·.1)).reverse
  let subState (l : Nat) : String :=
    match s.log.find? (fun e => match e with | .subConfirmed l' _ => l' == l | _ => false) with
    | some (.subConfirmed _ true) => "ok"
    | some _ => "err"
    | none => "pending"
  let notes (l : Nat) : List Json := s.log.filterMap fun e => match e with | .notified l' sid => if l' == l then some (Json.str (toString sid)) else none | _ => none
  let subsJ := Json.mkObj (subLids.map fun l => (toString l, Json.mkObj [("subscribe", Json.str (subState l)), ("notes", Json.arr (notes l).toArray)]))
  let frames := s.log.filterMap fun e => match e with
    | .sentCall id _ => some (Json.mkObj [("id", id), ("kind", "call")])
    | .sentSub id _ => some (Json.mkObj [("id", id), ("kind", "sub")])
    | _ => none
  Json.mkObj [("calls", callsJ), ("subs", subsJ), ("frames", Json.arr frames.toArray),
    ("tables", Json.mkObj [("calls", s.calls.length), ("pending", s.pending.length), ("active", s.active.length), ("configured", s.configured.length)]),
    ("idMismatch", Json.arr (idMismatch.filter fun o => (o.getObjVal? "resubscribeMissing").toOption.isNone && (o.getObjVal? "resubscribeUnexpected").toOption.isNone).toArray),
    ("specViolations", Json.arr ((idMismatch.filterMap fun o =>
        match o.getObjVal? "resubscribeMissing", o.getObjVal? "resubscribeUnexpected" with
        | .ok l, _ => some (Json.str s!"configured subscription {l} was not re-requested on the new connection after a reconnect")
        | _, .ok l => some (Json.str s!"subscription {l} was re-requested after a reconnect although it is not configured (or more than once)")
        | _, _ => none)).toArray)]

def opRpcHttpRun (j : Json) : Json :=
  let ops := match j.getObjVal? "ops" with | .ok (.arr xs) => xs.toList | _ => []
  let limit : Option Nat := match natOf' j "limit" with | 0 => none | n => some n
  let (s, maxIn, rejected) := ops.foldl (fun (acc : Http.St × Nat × Nat) o =>
    let (s, mx, rej) := acc
    let op : Option Http.Op := match Json.getStr! o "t" with
      | "arrive" => some (.arrive (natOf' o "caller"))
      | "acquire" => some (.acquire (natOf' o "caller"))
      | "reply" => some (.reply (natOf' o "id") 0)
      | _ => none
    match op with
    | none => (s, mx, rej)
    | some op =>
      let s' := Http.step s op
      let noEffect := match op with
        | .acquire _ => s'.inflight.length == s.inflight.length
        | .reply _ _ => s'.inflight.length == s.inflight.length
        | _ => false
      (s', max mx s'.inflight.length, if noEffect then rej + 1 else rej)) (Http.init limit, 0, 0)
  Json.mkObj [("issued", s.issued.length), ("maxInflight", maxIn), ("rejected", rejected), ("done", s.done.length)]

end FFS.Driver
