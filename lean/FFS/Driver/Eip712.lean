import FFS.Driver.AbiCodec
import FFS.Model.Eip712
import FFS.Spec.Eip712
namespace FFS.Driver
open Lean FFS FFS.Model.Eip712

def typeSetOfJson (j : Json) : Option TypeSet :=
  match j with
  | .obj kvs => some (kvs.toList.map fun (k, v) =>
      (k, match v with
        | .arr ms => some (ms.toList.map fun m => match m with
            | .null => none
            | o => some { name := Json.getStr! o "name", type := Json.getStr! o "type" })
        | _ => none))
  | _ => none

partial def extDepth : Model.Abi.Ext → Nat
  | .arr xs => 1 + (xs.map extDepth).foldl max 0
  | .obj _ vs => 1 + (vs.map extDepth).foldl max 0
  | _ => 1

/-- eip712.encode: the decoded TypedData (types with nullable members; domain / message as Ext or null) -/
def opEip712Encode (j : Json) : Json :=
  let types := typeSetOfJson ((j.getObjVal? "types").toOption.getD Json.null)
  let optExt (k : String) : Option Model.Abi.Ext := match j.getObjVal? k with
    | .ok .null => none
    | .ok v => some (extOfJson v)
    | _ => none
  let dom := optExt "domain"; let msg := optExt "message"
  let p : TypedData := { types := types, primaryType := Json.getStr! j "primaryType", domain := dom, message := msg }
  let fuel := docNeed p
  Json.mkObj [("model", outcomeJson hexJson (encodeTypedDataV4 fuel p))]

partial def valOfJson (j : Json) : Spec.Eip712.Val :=
  match j with
  | .null => .absent
  | .arr xs => .arr (xs.toList.map valOfJson)
  | _ =>
    match j.getObjVal? "i", j.getObjVal? "fb", j.getObjVal? "db", j.getObjVal? "s", j.getObjVal? "st" with
    | .ok (.str s), _, _, _, _ => .int (s.toInt?.getD 0)
    | _, .ok (.str s), _, _, _ => .fixedBytes ((bytesOfHex? s).getD [])
    | _, _, .ok (.str s), _, _ => .dynBytes ((bytesOfHex? s).getD [])
    | _, _, _, .ok (.str s), _ => .str ((bytesOfHex? s).getD [])
    | _, _, _, _, .ok (.obj kvs) => .struct (kvs.toList.map (·.1)) (kvs.toList.map fun kv => valOfJson kv.2)
    | _, _, _, _, _ => .absent

/-- eip712.spec: digest of an abstract typed message (property oracle) -/
def opEip712Spec (j : Json) : Json :=
  let ts : Spec.Eip712.Types := match (j.getObjVal? "specTypes").toOption.getD Json.null with
    | .obj kvs => kvs.toList.map fun (k, v) => (k, match v with
        | .arr ms => ms.toList.map fun m => { name := Json.getStr! m "name", type := Json.getStr! m "type" }
        | _ => [])
    | _ => []
  let dom := valOfJson ((j.getObjVal? "domainVal").toOption.getD Json.null)
  let msg := valOfJson ((j.getObjVal? "messageVal").toOption.getD Json.null)
  Json.mkObj [("spec", hexJson (Spec.Eip712.digest ts 64 (Json.getStr! j "primaryType") dom msg)),
    ("encodeType", Json.str (Spec.Eip712.encodeType ts (Json.getStr! j "primaryType")))]

/-- both: model on the decoded document, spec on the abstract typed message when one is supplied -/
def opEip712Doc (j : Json) : Json :=
  let m := opEip712Encode j
  match j.getObjVal? "hasAbstract" with
  | .ok (.bool true) => m.mergeObj (opEip712Spec j)
  | _ => m

end FFS.Driver
