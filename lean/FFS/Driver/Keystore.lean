import FFS.Util.Hex
import FFS.Model.Keystore
import FFS.Spec.KeystoreV3
namespace FFS.Driver
open Lean FFS FFS.Model.Keystore

def ksFileOfJson (j : Json) : KsFile :=
  let b (k : String) : Bool := match j.getObjVal? k with | .ok (.bool x) => x | _ => false
  let i (k : String) : Int := match j.getObjVal? k with | .ok (.str s) => s.toInt?.getD 0 | _ => 0
  { commonErr := b "commonErr", idNil := b "idNil", version := i "version", kdf := Json.getStr! j "kdf", kdfErr := b "kdfErr",
    cipher := Json.getStr! j "cipher", ciphertext := Json.getHex! j "ciphertext", iv := Json.getHex! j "iv", mac := Json.getHex! j "mac",
    salt := Json.getHex! j "salt", n := i "n", r := i "r", p := i "p", dklen := i "dklen", c := i "c", prf := Json.getStr! j "prf" }

def opKsRead (j : Json) : Json :=
  let f := ksFileOfJson ((j.getObjVal? "file").toOption.getD Json.null)
  let pw := Json.getHex! j "password"
  Json.mkObj [("model", outcomeJson (fun (k : Bytes) => Json.str (hexOfBytes k)) (readWalletFile f pw)),
    ("spec", match Spec.KeystoreV3.v3Read f pw with | some k => Json.str (hexOfBytes k) | none => Json.null)]

def opKsCreate (j : Json) : Json :=
  let (ct, mac) := newScryptWallet (Json.getHex! j "password") (Json.getHex! j "key") (Json.getHex! j "salt") (Json.getHex! j "iv")
    (Json.getNat! j "n") (Json.getNat! j "p")
  Json.mkObj [("ciphertext", Json.str (hexOfBytes ct)), ("mac", Json.str (hexOfBytes mac))]

def opPrim (j : Json) : Json :=
  let data := Json.getHex! j "data"
  match Json.getStr! j "fn" with
  | "sha256" => Json.mkObj [("model", Json.str (hexOfBytes (Prim.sha256 data)))]
  | "hmac" => Json.mkObj [("model", Json.str (hexOfBytes (Prim.hmacSha256 (Json.getHex! j "key") data)))]
  | "pbkdf2" => Json.mkObj [("model", Json.str (hexOfBytes (Prim.pbkdf2Sha256 (Json.getHex! j "key") data (Json.getNat! j "c") (Json.getNat! j "len"))))]
  | "scrypt" => Json.mkObj [("model", Json.str (hexOfBytes (Prim.scrypt (Json.getHex! j "key") data (Json.getNat! j "n") (Json.getNat! j "r") (Json.getNat! j "p") (Json.getNat! j "len"))))]
  | "aesctr" => Json.mkObj [("model", Json.str (hexOfBytes (Prim.aes128Ctr (Json.getHex! j "key") (Json.getHex! j "iv") data)))]
  | _ => Json.mkObj [("bad", "fn")]

end FFS.Driver
