import FFS.Util.Hex
import FFS.Model.EthTypes
import FFS.Spec.Numeric
namespace FFS.Driver
open Lean FFS FFS.Model.EthTypes

def extNumOfJson (j : Json) (k : String) : ExtNum :=
  match j.getObjVal? k with
  | .ok (.str "fail") => .fail
  | .ok (.str "notint") => .notInt
  | .ok (.str s) => match s.toInt? with | some z => .int z | none => .fail
  | _ => .fail

def jnumOfJson (j : Json) : JNum :=
  let t := (Json.getStr! j "text").toList
  match Json.getStr! j "kind" with
  | "number" => .number t
  | "string" => .string t
  | "other" => .other
  | _ => .invalid

def denJson : Spec.Numeric.Den → Json
  | .outside => Json.str "outside"
  | .nonInteger => Json.str "noninteger"
  | .integer z => Json.mkObj [("int", Json.str (toString z))]

def opEthBigInt (j : Json) : Json :=
  let s := (Json.getStr! j "text").toList
  Json.mkObj [("model", outcomeJson (fun (z : Int) => Json.str (toString z))
      (bigIntegerFromString s (extNumOfJson j "float") (extNumOfJson j "rat"))),
    ("setString0", match setString0 s with | some z => Json.str (toString z) | none => Json.null),
    ("denote", denJson (Spec.Numeric.denote s))]

def opEthHexInt (j : Json) : Json :=
  let jn := jnumOfJson j
  let den := match jn with
    | .number t => denJson (Spec.Numeric.denote t)
    | .string t => denJson (Spec.Numeric.denote t)
    | _ => Json.str "outside"
  Json.mkObj [("model", outcomeJson (fun (z : Int) => Json.str (String.ofList (hexIntegerString z)))
      (hexIntegerUnmarshal jn (extNumOfJson j "float") (extNumOfJson j "rat"))),
    ("modelU64", outcomeJson (fun (n : Nat) => Json.str (String.ofList (hexUint64String n)))
      (hexUint64Unmarshal jn (extNumOfJson j "float") (extNumOfJson j "rat"))),
    ("denote", den)]

def opEthAddr (j : Json) : Json :=
  let s := (Json.getStr! j "text").toList
  let r := addressSetString s
  Json.mkObj [("model", outcomeJson (fun (a : Bytes) =>
      Json.mkObj [("hex0x", Json.str (String.ofList (address0xString a))),
                  ("plain", Json.str (String.ofList (addressPlainString a))),
                  ("checksum", Json.str (String.ofList (addressChecksumString a))),
                  ("eip55", Json.str (String.ofList (Spec.Numeric.eip55 a)))]) r)]

def opEthHexBytes (j : Json) : Json :=
  let s := (Json.getStr! j "text").toList
  Json.mkObj [("model", outcomeJson (fun (b : Bytes) =>
      Json.mkObj [("plain", Json.str (String.ofList (hexEncode b))),
                  ("hex0x", Json.str (String.ofList ('0' :: 'x' :: hexEncode b)))]) (hexBytesParse s))]

end FFS.Driver
