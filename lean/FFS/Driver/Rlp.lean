import FFS.Util.Hex
import FFS.Model.Rlp
import FFS.Spec.Rlp
namespace FFS.Driver
open Lean FFS

partial def itemJson : Item → Json
  | .str b => Json.str (hexOfBytes b)
  | .list xs => Json.arr (xs.map itemJson).toArray

partial def itemOfJson? : Json → Option Item
  | .str s => (bytesOfHex? s).map Item.str
  | .arr xs => (xs.toList.mapM itemOfJson?).map Item.list
  | _ => none



def opRlpDecode (j : Json) : Json :=
  let bs := Json.getHex! j "hex"
  let r := Model.Rlp.Decode bs
  Json.mkObj [("model", outcomeJson (fun (p : Option Item × Nat) =>
      Json.mkObj [("item", match p.1 with | some it => itemJson it | none => Json.null), ("pos", p.2)]) r)]

def opRlpEncode (j : Json) : Json :=
  match (j.getObjVal? "item").toOption.bind itemOfJson? with
  | some it =>
    Json.mkObj [("model", Json.str (hexOfBytes (Model.Rlp.enc it))),
                ("spec", Json.str (hexOfBytes (Spec.Rlp.rlp it)))]
  | none => Json.mkObj [("bad", "item")]


def decJson (r : Outcome (Option Item × Nat)) : Json :=
  outcomeJson (fun (p : Option Item × Nat) =>
      Json.mkObj [("item", match p.1 with | some it => itemJson it | none => Json.null), ("pos", p.2)]) r

def opRlpRoundtrip (j : Json) : Json :=
  match (j.getObjVal? "item").toOption.bind itemOfJson? with
  | some it =>
    let rest := Json.getHex! j "rest"
    let me := Model.Rlp.enc it
    let se := Spec.Rlp.rlp it
    Json.mkObj [("modelEnc", Json.str (hexOfBytes me)),
                ("specEnc", Json.str (hexOfBytes se)),
                ("modelDec", decJson (Model.Rlp.Decode (me ++ rest))),
                ("specDec", decJson (.ok (some it, se.length)))]
  | none => Json.mkObj [("bad", "item")]

end FFS.Driver
