import FFS.Driver.Secp
import FFS.Driver.Rlp
import FFS.Model.Tx
namespace FFS.Driver
open Lean FFS FFS.Model.Tx FFS.Model.Secp

def optNatOfJson (j : Json) (k : String) : Option Nat :=
  match j.getObjVal? k with
  | .ok (.str s) => s.toNat?
  | _ => none

def optHexOfJson (j : Json) (k : String) : Option Bytes :=
  match j.getObjVal? k with
  | .ok (.str s) => bytesOfHex? s
  | _ => none

def txOfJson (j : Json) : Tx :=
  { nonce := optNatOfJson j "nonce", gasPrice := optNatOfJson j "gasPrice", tip := optNatOfJson j "tip",
    feeCap := optNatOfJson j "feeCap", gasLimit := optNatOfJson j "gasLimit", to := optHexOfJson j "to",
    value := optNatOfJson j "value", data := (optHexOfJson j "data").getD [] }

def optNatJson : Option Nat → Json
  | some n => Json.str (toString n)
  | none => Json.null

def txJson (t : Tx) : Json :=
  Json.mkObj [("nonce", optNatJson t.nonce), ("gasPrice", optNatJson t.gasPrice), ("tip", optNatJson t.tip),
    ("feeCap", optNatJson t.feeCap), ("gasLimit", optNatJson t.gasLimit),
    ("to", match t.to with | some a => Json.str (hexOfBytes a) | none => Json.null),
    ("value", optNatJson t.value), ("data", Json.str (hexOfBytes t.data))]

def specFields (t : Tx) : Spec.Tx.Fields := fields t

def modeOfString : String → Mode
  | "legacyOriginal" => .legacyOriginal
  | "eip155" => .eip155
  | "eip1559" => .eip1559
  | _ => .auto

def recJson (r : Outcome (Bytes × Tx × Bytes)) : Json :=
  outcomeJson (fun (p : Bytes × Tx × Bytes) =>
    Json.mkObj [("addr", Json.str (hexOfBytes p.1)), ("tx", txJson p.2.1), ("payload", Json.str (hexOfBytes p.2.2))]) r

def addrOfRecover (v r s : Nat) (z : Bytes) : Option Bytes :=
  match Prim.Secp.recoverPub v r s (fromBE z) with
  | some p => some ((Prim.keccak256 (Prim.Secp.ptSer (some p))).drop 12)
  | none => none

/-- sign: the implementation's signature (V,R,S as produced by signer.Sign(payload)) is an input -/
def opTxSign (j : Json) : Json :=
  let t := txOfJson ((j.getObjVal? "tx").toOption.getD Json.null)
  let mode := modeOfString (Json.getStr! j "mode")
  let cid := getInt! j "cid"
  let key := fromBE (Json.getHex! j "key")
  let v := getInt! j "V"; let r := getInt! j "R"; let s := getInt! j "S"
  let mPayload := payload mode t cid
  let f := specFields t
  let eff : Mode := match mode with | .auto => if f.tip > 0 ∨ f.feeCap > 0 then .eip1559 else .eip155 | m => m
  let sPayload := match eff with
    | .legacyOriginal => Spec.Tx.preimageLegacy f
    | .eip155 => Spec.Tx.preimage155 f cid.toNat
    | _ => Spec.Tx.preimage1559 f cid.toNat
  let par := (v - 27).toNat
  let sSigned := match eff with
    | .legacyOriginal => Spec.Tx.signedLegacy f par r.toNat s.toNat
    | .eip155 => Spec.Tx.signed155 f cid.toNat par r.toNat s.toNat
    | _ => Spec.Tx.signed1559 f cid.toNat par r.toNat s.toNat
  let mSigned := finalize mode t cid v r s
  let z := Prim.keccak256 sPayload
  let pub := Prim.Secp.pubOfPriv key
  let n := Prim.Secp.N
  let sigOK := (v == 27 || v == 28) && 1 ≤ r.toNat && r.toNat < n && 1 ≤ s.toNat && 2 * s.toNat ≤ n &&
    Prim.Secp.verify pub r.toNat s.toNat (fromBE z)
  let addr := keyAddress concreteCurve key
  Json.mkObj [("modelPayload", Json.str (hexOfBytes mPayload)), ("specPayload", Json.str (hexOfBytes sPayload)),
    ("modelSigned", Json.str (hexOfBytes mSigned)), ("specSigned", Json.str (hexOfBytes sSigned)),
    ("sigOK", sigOK), ("addr", Json.str (hexOfBytes addr)),
    ("modelRecover", recJson (recoverRaw concreteCurve mSigned cid))]

/-- is the model's recovery result sound w.r.t. the input bytes (property C10)? -/
def soundRecovery (raw : Bytes) (cid : Int) (res : Bytes × Tx × Bytes) : Bool :=
  let (addr, tx, payload) := res
  let f := specFields tx
  let is1559 := raw.head? == some 2
  let body := if is1559 then raw.drop 1 else raw
  match Model.Rlp.Decode body with
  | .ok (some (.list l), _) =>
    let g (i : Nat) : Item := l.getD i (.list [])
    let (ri, si, vi) := if is1559 then (10, 11, 9) else (7, 8, 6)
    let r := fromBE (itemBytes (g ri)); let s := fromBE (itemBytes (g si))
    let z := Prim.keccak256 payload
    -- the parity the input's V encodes, when V is one of the standard forms (27/28, 35+2·chainId+p, 0/1 for
    -- type 2); for any other V that the code accepts (known finding C05-vmod256) either candidate key is allowed
    let vIn := fromBE (itemBytes (g vi))
    let parity : Option Nat :=
      if is1559 then (if vIn ≤ 1 then some vIn else none)
      else if vIn == 27 || vIn == 28 then some (vIn - 27)
      else if vIn == 35 + 2 * cid.natAbs || vIn == 36 + 2 * cid.natAbs then some (vIn - 35 - 2 * cid.natAbs)
      else none
    let sigMatches := match parity with
      | some p => addrOfRecover (27 + p) r s z == some addr
      | none => addrOfRecover 27 r s z == some addr || addrOfRecover 28 r s z == some addr
    let expected :=
      if is1559 then Spec.Tx.preimage1559 f cid.toNat (g 8)
      else
        let v := fromBE (itemBytes (g vi))
        if v % 2 ^ 64 == 27 || v % 2 ^ 64 == 28 then Spec.Tx.preimageLegacy f else Spec.Tx.preimage155 f cid.natAbs
    sigMatches && expected == payload
  | _ => false

def opTxRecover (j : Json) : Json :=
  let raw := Json.getHex! j "hex"
  let cid := getInt! j "cid"
  let r := match Json.getStr! j "entry" with
    | "legacy" => recoverLegacy concreteCurve raw cid
    | "1559" => recover1559 concreteCurve raw cid
    | _ => recoverRaw concreteCurve raw cid
  let sound : Json := match r with
    | .ok res => Json.bool (soundRecovery raw cid res)
    | _ => Json.null
  Json.mkObj [("model", recJson r), ("sound", sound)]

/-- the property's verdict on an arbitrary claimed result (the implementation's, when it differs from the model's) -/
def opTxJudge (j : Json) : Json :=
  let raw := Json.getHex! j "hex"
  let cid := getInt! j "cid"
  let res := (j.getObjVal? "result").toOption.getD Json.null
  let addr := Json.getHex! res "addr"
  let tx := txOfJson ((res.getObjVal? "tx").toOption.getD Json.null)
  let payload := Json.getHex! res "payload"
  Json.mkObj [("sound", soundRecovery raw cid (addr, tx, payload))]

def opTxDecode1559 (j : Json) : Json :=
  let raw := Json.getHex! j "hex"
  let cid := getInt! j "cid"
  Json.mkObj [("model", outcomeJson (fun (p : List Item × Tx) => txJson p.2) (decode1559 raw cid Gen.TxConsts.min1559Unsigned))]

end FFS.Driver
