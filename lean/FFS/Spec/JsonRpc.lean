/-
  FFS.Spec.JsonRpc — well-formedness of a JSON-RPC 2.0 reply (from the JSON-RPC 2.0 specification, section 5):
  a response object has "jsonrpc":"2.0", an "id", and exactly one of "result" / "error"; an error object has an
  integer "code" and a string "message". A batch request is answered by an array of response objects.
-/
import Lean.Data.Json
namespace FFS.Spec.JsonRpc
open Lean

def hasKey (j : Json) (k : String) : Bool := (j.getObjVal? k).toOption.isSome

def wellFormedResponse (j : Json) : Bool :=
  match j with
  | .obj _ =>
    (match j.getObjVal? "jsonrpc" with | .ok (.str "2.0") => true | _ => false) &&
    hasKey j "id" &&
    (match hasKey j "result", j.getObjVal? "error" with
     | true, .error _ => true
     | false, .ok e =>
       (match e.getObjVal? "code" with | .ok (.num n) => n.exponent == 0 | _ => false) &&
       (match e.getObjVal? "message" with | .ok (.str _) => true | _ => false)
     | _, _ => false)
  | _ => false

/-- `batchLen`: `some n` when the request was a batch that decodes into n members -/
def wellFormedReply (batchLen : Option Nat) (reply : Json) : Bool :=
  match batchLen with
  | some n =>
    (match reply with
     | .arr rs => rs.size == n && rs.all wellFormedResponse
     | _ => false)
  | none => wellFormedResponse reply

end FFS.Spec.JsonRpc
