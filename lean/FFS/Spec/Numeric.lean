/-
  FFS.Spec.Numeric — what a numeric text *denotes*, exactly (no rounding), for the spellings property C19
  names: decimal without leading zeros, 0x-hex, and the JSON number grammar (fraction / exponent).
  Also EIP-55. Written from the JSON (RFC 8259) and EIP-55 texts, independently of the code.
-/
import FFS.Util.Basic
import FFS.Prim.Keccak
namespace FFS.Spec.Numeric
open FFS

def isDigit (c : Char) : Bool := '0' ≤ c && c ≤ '9'
def isHexDigit (c : Char) : Bool := isDigit c || ('a' ≤ c && c ≤ 'f') || ('A' ≤ c && c ≤ 'F')
def hexVal (c : Char) : Nat :=
  if isDigit c then c.toNat - 48 else if 'a' ≤ c && c ≤ 'f' then c.toNat - 87 else c.toNat - 55

def decNat (cs : List Char) : Nat := cs.foldl (fun a c => a * 10 + (c.toNat - 48)) 0
def hexNat (cs : List Char) : Nat := cs.foldl (fun a c => a * 16 + hexVal c) 0

/-- result of reading a text: outside the judged spellings / a non-integer / an integer -/
inductive Den where
  | outside
  | nonInteger
  | integer (z : Int)
deriving Repr, DecidableEq

def splitDigits (cs : List Char) : List Char × List Char := (cs.takeWhile isDigit, cs.dropWhile isDigit)

/-- JSON number grammar: -? (0 | [1-9][0-9]*) (. [0-9]+)? ([eE] [+-]? [0-9]+)?   (exponent magnitude capped at
    `cap` digits of work: larger exponents are reported `outside` so the evaluator stays cheap) -/
def denoteJsonNumber (s : List Char) (cap : Nat := 20000) : Den :=
  let (neg, s1) := match s with | '-' :: r => (true, r) | _ => (false, s)
  let (ip, s2) := splitDigits s1
  if ip.isEmpty then .outside
  else if ip.length > 1 ∧ ip.head? = some '0' then .outside
  else
    let (fp, s3, fracOK) :=
      match s2 with
      | '.' :: r => let (f, r') := splitDigits r; (f, r', !f.isEmpty)
      | _ => ([], s2, true)
    if !fracOK then .outside
    else
      let expPart : Option (Int × List Char) :=
        match s3 with
        | c :: r =>
          if c = 'e' ∨ c = 'E' then
            let (eneg, r1) := match r with | '-' :: q => (true, q) | '+' :: q => (false, q) | _ => (false, r)
            let (ed, r2) := splitDigits r1
            if ed.isEmpty then none
            else if ed.length > 8 then none
            else some ((if eneg then -((decNat ed : Nat) : Int) else ((decNat ed : Nat) : Int)), r2)
          else some (0, s3)
        | [] => some (0, [])
      match expPart with
      | none => .outside
      | some (e, rest) =>
        if !rest.isEmpty then .outside
        else
          let m : Nat := decNat (ip ++ fp)
          let e10 : Int := e - fp.length
          if m = 0 then .integer 0
          else if e10 ≥ 0 then
            if e10.toNat > cap then .outside
            else .integer ((if neg then -1 else 1) * ((m * 10 ^ e10.toNat : Nat) : Int))
          else
            let k := (-e10).toNat
            if k > cap then .outside
            else if m % 10 ^ k = 0 then .integer ((if neg then -1 else 1) * ((m / 10 ^ k : Nat) : Int))
            else .nonInteger

/-- the spellings judged by C19: JSON numbers, decimal strings without leading zeros (a sub-case), 0x-hex -/
def denote (s : List Char) : Den :=
  match s with
  | '0' :: 'x' :: r => if !r.isEmpty ∧ r.all isHexDigit then .integer (hexNat r : Nat) else .outside
  | _ => denoteJsonNumber s

/-- EIP-55 checksum address of 20 bytes -/
def hexLower (n : Nat) : Char := if n < 10 then Char.ofNat (48 + n) else Char.ofNat (87 + n)
def hexOf (bs : Bytes) : List Char := bs.flatMap fun b => [hexLower (b.toNat / 16), hexLower (b.toNat % 16)]
def eip55 (a : Bytes) : List Char :=
  let h := hexOf a
  let hash := Prim.keccak256 (h.map fun c => UInt8.ofNat c.toNat)
  let nib (i : Nat) : Nat := let b := (hash.getD (i / 2) 0).toNat; if i % 2 = 0 then b / 16 else b % 16
  '0' :: 'x' :: (h.zipIdx.map fun (c, i) => if c.isAlpha ∧ nib i ≥ 8 then c.toUpper else c)

end FFS.Spec.Numeric
