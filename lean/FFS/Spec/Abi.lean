/-
  FFS.Spec.Abi — the Solidity "Contract ABI Specification", section *Formal Specification of the Encoding*,
  written from that text. Types and values reuse the model's `Ty` / `CV` data types (data only, no behaviour).

    dynamic types: bytes, string, T[], T[k] for dynamic T (k>0), (T1..Tn) if some Ti dynamic
    enc(X) for tuples:  head(X1)…head(Xk) tail(X1)…tail(Xk)
       static Ti : head = enc(Xi), tail = empty
       dynamic Ti: head = enc(uint256(len(head(X1)…head(Xk) tail(X1)…tail(X(i-1))))), tail = enc(Xi)
    T[k] = tuple of k T;  T[] with k elements: enc(uint256 k) enc(tuple of k T)
    bytes of length k: enc(uint256 k) pad_right(X);  string: enc(utf8 bytes)
    uint<M>: big-endian, left padded to 32;  int<M>: two's complement, sign-extended to 32
    address as uint160, bool as uint8 (0/1), bytes<M>: right padded to 32, function as bytes24
-/
import FFS.Model.AbiCodec
namespace FFS.Spec.Abi
open FFS FFS.Model.Abi

/-- elementary kinds by the table's base name -/
def kindOf (info : ElemInfo) : String := info.name

mutual
  def isDynamic : Ty → Bool
    | .elem info suffix _ _ => info.name == "string" || (info.name == "bytes" && suffix == "")
    | .farr t k => k != 0 && isDynamic t
    | .darr _ => true
    | .tuple _ ts => anyDyn ts
  def anyDyn : List Ty → Bool
    | [] => false
    | t :: ts => isDynamic t || anyDyn ts
end

def padRight32 (b : Bytes) : Bytes := b ++ zeros ((32 - b.length % 32) % 32)

def encUint (n : Nat) : Bytes := toBE 32 n

/-- enc of an elementary value -/
def encElem (info : ElemInfo) (suffix : String) (m : Nat) (v : CV) : Bytes :=
  match v with
  | .int z =>
    if info.name == "int" then toBE 32 (z % 2 ^ 256).toNat   -- two's complement in 256 bits
    else encUint z.toNat                                        -- uint<M>, address, bool
  | .bytes b =>
    if info.name == "bytes" && suffix == "" then encUint b.length ++ padRight32 b
    else padRight32 (b.take m)                                  -- bytes<M>, function (bytes24)
  | .str s => encUint s.length ++ padRight32 s
  | .kids _ => []

/-- head/tail assembly from (isDynamicType, enc) pairs: `pre` = bytes of heads and tails placed so far -/
def headsLen : List (Bool × Bytes) → Nat
  | [] => 0
  | (dyn, e) :: r => (if dyn then 32 else e.length) + headsLen r

/-- heads and tails of the remaining items; `hl` = total length of all heads, `tailsBefore` = tails placed so far -/
def assembleGo (hl : Nat) : List (Bool × Bytes) → Nat → Bytes × Bytes
  | [], _ => ([], [])
  | (dyn, e) :: r, tailsBefore =>
    if dyn then
      ((encUint (hl + tailsBefore) ++ (assembleGo hl r (tailsBefore + e.length)).1), e ++ (assembleGo hl r (tailsBefore + e.length)).2)
    else
      (e ++ (assembleGo hl r tailsBefore).1, (assembleGo hl r tailsBefore).2)

def assemble (items : List (Bool × Bytes)) : Bytes :=
  (assembleGo (headsLen items) items 0).1 ++ (assembleGo (headsLen items) items 0).2

mutual
  /-- enc(X) -/
  def enc : Ty → CV → Bytes
    | .elem info suffix m _, v => encElem info suffix m v
    | .farr t _, .kids cs => assemble (encSame t cs)
    | .darr t, .kids cs => encUint cs.length ++ assemble (encSame t cs)
    | .tuple _ ts, .kids cs => assemble (encEach ts cs)
    | _, _ => []
  def encSame : Ty → List CV → List (Bool × Bytes)
    | _, [] => []
    | t, c :: cs => (isDynamic t, enc t c) :: encSame t cs
  def encEach : List Ty → List CV → List (Bool × Bytes)
    | t :: ts, c :: cs => (isDynamic t, enc t c) :: encEach ts cs
    | _, _ => []
end

mutual
  /-- the value is a value of the type, within range (what "every value of those types" means) -/
  def WellTyped : Ty → CV → Bool
    | .elem info suffix m _, v =>
      match v with
      | .int z =>
        if info.name == "int" then decide (-(2 ^ (m - 1) : Int) ≤ z) && decide (z < 2 ^ (m - 1)) && decide (0 < m)
        else if info.name == "uint" || info.name == "address" then decide (0 ≤ z) && decide (z < 2 ^ m)
        else if info.name == "bool" then decide (z = 0) || decide (z = 1)
        else false
      | .bytes b =>
        if info.name == "bytes" && suffix == "" then true
        else if info.name == "bytes" || info.name == "function" then b.length == m
        else false
      | .str _ => info.name == "string"
      | .kids _ => false
    | .farr t k, .kids cs => cs.length == k && wellTypedSame t cs
    | .darr t, .kids cs => wellTypedSame t cs
    | .tuple _ ts, .kids cs => wellTypedEach ts cs
    | _, _ => false
  def wellTypedSame : Ty → List CV → Bool
    | _, [] => true
    | t, c :: cs => WellTyped t c && wellTypedSame t cs
  def wellTypedEach : List Ty → List CV → Bool
    | [], [] => true
    | t :: ts, c :: cs => WellTyped t c && wellTypedEach ts cs
    | _, _ => false
end

end FFS.Spec.Abi
