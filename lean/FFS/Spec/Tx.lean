/-
  FFS.Spec.Tx — Ethereum transaction wire formats, written from the EIPs (not from the code):
  legacy (pre-EIP-155), EIP-155, EIP-1559 inside the EIP-2718 envelope. Integers are RLP scalars
  (minimal big-endian, 0 ↦ empty string); an absent `to` is the empty string.
-/
import FFS.Spec.Rlp
namespace FFS.Spec.Tx
open FFS FFS.Spec.Rlp

structure Fields where
  nonce : Nat
  gasPrice : Nat
  tip : Nat      -- maxPriorityFeePerGas
  feeCap : Nat   -- maxFeePerGas
  gasLimit : Nat
  to : Option Bytes
  value : Nat
  data : Bytes
deriving Repr, DecidableEq

def scalar (n : Nat) : Item := .str (minBE n)

def toItem : Option Bytes → Item
  | none => .str []
  | some a => .str a

def legacyItems (t : Fields) : List Item :=
  [scalar t.nonce, scalar t.gasPrice, scalar t.gasLimit, toItem t.to, scalar t.value, .str t.data]

/-- access list is carried opaquely (the library neither produces nor interprets one; `[]` when signing) -/
def items1559 (t : Fields) (chainId : Nat) (accessList : Item) : List Item :=
  [scalar chainId, scalar t.nonce, scalar t.tip, scalar t.feeCap, scalar t.gasLimit, toItem t.to,
   scalar t.value, .str t.data, accessList]

/-- signing preimages -/
def preimageLegacy (t : Fields) : Bytes := rlp (.list (legacyItems t))
def preimage155 (t : Fields) (chainId : Nat) : Bytes :=
  rlp (.list (legacyItems t ++ [scalar chainId, scalar 0, scalar 0]))
def preimage1559 (t : Fields) (chainId : Nat) (accessList : Item := .list []) : Bytes :=
  0x02 :: rlp (.list (items1559 t chainId accessList))

/-- signed wire formats; `parity` ∈ {0,1} -/
def signedLegacy (t : Fields) (parity r s : Nat) : Bytes :=
  rlp (.list (legacyItems t ++ [scalar (27 + parity), scalar r, scalar s]))
def signed155 (t : Fields) (chainId parity r s : Nat) : Bytes :=
  rlp (.list (legacyItems t ++ [scalar (35 + 2 * chainId + parity), scalar r, scalar s]))
def signed1559 (t : Fields) (chainId parity r s : Nat) : Bytes :=
  0x02 :: rlp (.list (items1559 t chainId (.list []) ++ [scalar parity, scalar r, scalar s]))

end FFS.Spec.Tx
