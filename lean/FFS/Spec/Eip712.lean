/-
  FFS.Spec.Eip712 — EIP-712 (with the "v4" conventions for arrays, nested and absent structs), written from the EIP:

    encodeType(T)  = T(m1type m1name,…) ‖ the encodings of every struct type T references (transitively,
                     through array suffixes), excluding T itself, sorted by name
    typeHash(T)    = keccak256(encodeType(T))
    hashStruct(s)  = keccak256(typeHash ‖ encodeData(s));  an absent struct value is 32 zero bytes (v4)
    encodeData     : atomic values as their 32-byte ABI words; bytes / string as keccak256 of the contents;
                     arrays as keccak256 of the concatenated encodings of the elements; structs as hashStruct
    digest         = keccak256(0x19 0x01 ‖ hashStruct(domain) ‖ hashStruct(message))   (message part omitted when
                     the primary type is EIP712Domain itself)
-/
import FFS.Util.Basic
import FFS.Prim.Keccak
namespace FFS.Spec.Eip712
open FFS

structure Member where
  name : String
  type : String     -- atomic type, struct name, or either with array suffixes
deriving Repr

abbrev Types := List (String × List Member)

/-- abstract, already-typed message values -/
inductive Val where
  | int (z : Int)              -- uintN / intN / bool (0,1) / address (as uint160)
  | fixedBytes (b : Bytes)     -- bytes1..bytes32
  | dynBytes (b : Bytes)       -- bytes
  | str (b : Bytes)            -- string (UTF-8)
  | arr (xs : List Val)
  | struct (fields : List String) (vals : List Val)
  | absent                     -- a struct reference with no value
deriving Repr, Inhabited

def keccak (b : Bytes) : Bytes := Prim.keccak256 b
def utf8 (s : String) : Bytes := s.toUTF8.toList

def stripArrays (t : String) : String := String.ofList (t.toList.takeWhile (· != '['))

def typeDef (ts : Types) (n : String) : Option (List Member) := (ts.find? (·.1 == n)).map (·.2)

/-- transitive closure of referenced struct types (worklist with a visited list; fuel = |types| + 1 rounds) -/
def closure (ts : Types) : Nat → List String → List String → List String
  | 0, _, visited => visited
  | _, [], visited => visited
  | fuel + 1, n :: work, visited =>
    if visited.contains n then closure ts fuel work visited
    else match typeDef ts n with
      | none => closure ts fuel work visited
      | some ms => closure ts fuel (ms.map (fun m => stripArrays m.type) ++ work) (visited ++ [n])

def bytesLt : Bytes → Bytes → Bool
  | [], [] => false
  | [], _ :: _ => true
  | _ :: _, [] => false
  | a :: as, b :: bs => if a.toNat < b.toNat then true else if a.toNat > b.toNat then false else bytesLt as bs

def insertSorted (x : String) : List String → List String
  | [] => [x]
  | y :: ys => if bytesLt (utf8 x) (utf8 y) then x :: y :: ys else y :: insertSorted x ys

def encodeOne (ts : Types) (n : String) : String :=
  n ++ "(" ++ ",".intercalate (((typeDef ts n).getD []).map fun m => m.type ++ " " ++ m.name) ++ ")"

def encodeType (ts : Types) (n : String) : String :=
  let all := closure ts (ts.length * (ts.length + 2) * 8 + 64) [n] []
  let deps := (all.filter (· != n)).foldr insertSorted []
  encodeOne ts n ++ String.join (deps.map (encodeOne ts))

def typeHash (ts : Types) (n : String) : Bytes := keccak (utf8 (encodeType ts n))

def word (n : Nat) : Bytes := toBE 32 n

def lookupField (fields : List String) (vals : List Val) (k : String) : Val :=
  ((fields.zip vals).find? (·.1 == k)).map (·.2) |>.getD .absent

mutual
  /-- the 32-byte encoding of a member value of declared type `t` -/
  def encodeValue (ts : Types) : Nat → String → Val → Bytes
    | 0, _, _ => []
    | fuel + 1, t, v =>
      if t.toList.getLast? == some ']' then
        -- strip the last array dimension
        let cs := t.toList
        let inner := String.ofList (cs.take (cs.length - 1 - (cs.reverse.findIdx (· == '['))))
        match v with
        | .arr xs => keccak (encodeValues ts fuel inner xs)
        | _ => []
      else match v with
        | .int z => word (z % 2 ^ 256).toNat
        | .fixedBytes b => b ++ zeros (32 - b.length)
        | .dynBytes b => keccak b
        | .str b => keccak b
        | .struct fields vals => hashStruct ts fuel t fields vals
        | .absent => zeros 32
        | .arr _ => []
  def encodeValues (ts : Types) : Nat → String → List Val → Bytes
    | 0, _, _ => []
    | _, _, [] => []
    | fuel + 1, t, x :: xs => encodeValue ts fuel t x ++ encodeValues ts fuel t xs
  def hashStruct (ts : Types) : Nat → String → List String → List Val → Bytes
    | 0, _, _, _ => []
    | fuel + 1, n, fields, vals =>
      keccak (typeHash ts n ++ encodeMembers ts fuel ((typeDef ts n).getD []) fields vals)
  def encodeMembers (ts : Types) : Nat → List Member → List String → List Val → Bytes
    | 0, _, _, _ => []
    | _, [], _, _ => []
    | fuel + 1, m :: ms, fields, vals =>
      encodeValue ts fuel m.type (lookupField fields vals m.name) ++ encodeMembers ts fuel ms fields vals
end

def hashStructVal (ts : Types) (fuel : Nat) (n : String) : Val → Bytes
  | .struct fields vals => hashStruct ts fuel n fields vals
  | _ => zeros 32

/-- the EIP-712 digest; the domain type is `EIP712Domain` (with no members when the document defines none) -/
def digest (ts : Types) (fuel : Nat) (primary : String) (domain message : Val) : Bytes :=
  let ts' := if (typeDef ts "EIP712Domain").isSome then ts else ("EIP712Domain", []) :: ts
  let dh := hashStructVal ts' fuel "EIP712Domain" domain
  if primary == "EIP712Domain" then keccak ([0x19, 0x01] ++ dh)
  else keccak ([0x19, 0x01] ++ dh ++ hashStructVal ts' fuel primary message)

end FFS.Spec.Eip712
