/-
  FFS.Spec.KeystoreV3 — the Web3 Secret Storage Definition, version 3, as an independent reader:

    version = 3; cipher = aes-128-ctr with a 16-byte IV
    kdf = scrypt (N a power of two > 1, r ≥ 1, p ≥ 1) or pbkdf2 (prf = hmac-sha256, c ≥ 1); dklen = 32
    DK = KDF(password, salt, params);  MAC = keccak256(DK[16:32] ‖ ciphertext) must equal the stored mac
    key = AES-128-CTR(DK[0:16], iv, ciphertext)
  Works on the same decoded fields as the model (JSON decoding is shared glue), with its own checks.
-/
import FFS.Model.Keystore
namespace FFS.Spec.KeystoreV3
open FFS FFS.Model.Keystore

def v3Read (f : KsFile) (pw : Bytes) : Option Bytes :=
  if f.commonErr || f.idNil || f.kdfErr then none
  else if f.version ≠ 3 then none
  else if f.cipher ≠ "aes-128-ctr" then none
  else if f.iv.length ≠ 16 then none
  else if f.dklen ≠ 32 then none
  else
    let dk : Option Bytes :=
      if f.kdf = "scrypt" then
        if f.n > 1 ∧ isPow2 f.n.toNat ∧ f.r ≥ 1 ∧ f.p ≥ 1 ∧ f.r * f.p < 2 ^ 30 then
          some (Prim.scrypt pw f.salt f.n.toNat f.r.toNat f.p.toNat 32)
        else none
      else if f.kdf = "pbkdf2" then
        if f.prf = "hmac-sha256" ∧ f.c ≥ 1 then some (Prim.pbkdf2Sha256 pw f.salt f.c.toNat 32) else none
      else none
    match dk with
    | none => none
    | some dk =>
      if Prim.keccak256 ((dk.drop 16).take 16 ++ f.ciphertext) = f.mac then
        some (Prim.aes128Ctr (dk.take 16) f.iv f.ciphertext)
      else none

end FFS.Spec.KeystoreV3
