/-
  FFS.Spec.AbiGrammar — the Solidity ABI type grammar as a decidable recogniser, with the canonical spelling.
  Written from the "Contract ABI Specification" (Types section), independently of the code:

    uint<M>, int<M>      0 < M ≤ 256, M % 8 = 0;  uint / int are aliases of uint256 / int256
    address, bool, function, string
    bytes<M>  0 < M ≤ 32;  bytes (dynamic)
    fixed<M>x<N>, ufixed<M>x<N>   8 ≤ M ≤ 256, M % 8 = 0, 0 < N ≤ 80; fixed / ufixed alias …128x18
    <type>[M] (M ≥ 0 decimal), <type>[]   ;   (T1,…,Tk) written `tuple` with components in JSON
  Numbers in canonical decimal (no sign, no leading zero). Array dimensions must fit 32 bits (implementation
  limit stated by the property) and may carry leading zeros (the property requires canonical form only for
  width / precision).
-/
import FFS.Util.Basic
namespace FFS.Spec.AbiGrammar

def isDigit (c : Char) : Bool := '0' ≤ c && c ≤ '9'
def decVal (s : List Char) : Nat := s.foldl (fun a c => a * 10 + (c.toNat - 48)) 0

/-- canonical decimal numeral: non-empty, digits, no leading zero (except "0" itself) -/
def canonical (s : List Char) : Bool :=
  !s.isEmpty && s.all isDigit && (s.length == 1 || s.head? != some '0')

def validWidth (s : List Char) : Bool :=
  canonical s && s.length ≤ 3 && (let m := decVal s; 8 ≤ m && m ≤ 256 && m % 8 == 0)

def validBytesLen (s : List Char) : Bool :=
  canonical s && s.length ≤ 2 && (let m := decVal s; 1 ≤ m && m ≤ 32)

def validPrecision (s : List Char) : Bool :=
  canonical s && s.length ≤ 2 && (let n := decVal s; 1 ≤ n && n ≤ 80)

/-- `('[' digits* ']')*` with every dimension below 2^32; returns the dimensions (none = dynamic) -/
def arrayDims : Nat → List Char → Option (List (Option Nat))
  | 0, _ => none
  | _, [] => some []
  | fuel + 1, '[' :: rest =>
    let ds := rest.takeWhile isDigit
    match rest.dropWhile isDigit with
    | ']' :: more =>
      let dim : Option (Option Nat) :=
        if ds.isEmpty then some none
        else if decVal ds < 2 ^ 32 then some (some (decVal ds))
        else none
      match dim, arrayDims fuel more with
      | some d, some r => some (d :: r)
      | _, _ => none
    | _ => none
  | _, _ => none

/-- the canonical spelling of a base type name with its (possibly empty) suffix, if valid -/
def canonBase (base suffix : List Char) : Option String :=
  let b := String.ofList base
  let s := String.ofList suffix
  if b == "uint" || b == "int" then
    if suffix.isEmpty then some (b ++ "256") else if validWidth suffix then some (b ++ s) else none
  else if b == "bytes" then
    if suffix.isEmpty then some "bytes" else if validBytesLen suffix then some (b ++ s) else none
  else if b == "fixed" || b == "ufixed" then
    if suffix.isEmpty then some (b ++ "128x18")
    else
      let m := suffix.takeWhile (· != 'x')
      match suffix.dropWhile (· != 'x') with
      | _ :: n => if validWidth m && validPrecision n then some (b ++ s) else none
      | [] => none
  else if b == "address" || b == "bool" || b == "function" || b == "string" then
    if suffix.isEmpty then some b else none
  else none

def renderDims : List (Option Nat) → String
  | [] => ""
  | none :: r => "[]" ++ renderDims r
  | some k :: r => "[" ++ toString k ++ "]" ++ renderDims r

/-- a JSON ABI parameter: type string + components -/
inductive P where
  | mk (type : String) (components : List P)
deriving Inhabited

mutual
  /-- canonical signature spelling of a parameter, `none` when the type string is not in the grammar -/
  def canon : P → Option String
    | .mk type comps =>
      let cs := type.toList
      let baseAll := cs.takeWhile (· != '[')
      let arrs := cs.dropWhile (· != '[')
      let letters := baseAll.takeWhile (fun c => 'a' ≤ c && c ≤ 'z')
      let suffix := baseAll.drop letters.length
      match arrayDims (arrs.length + 1) arrs with
      | none => none
      | some dims =>
        if String.ofList letters == "tuple" then
          if !suffix.isEmpty then none
          else match canonList comps with
            | some inner => some ("(" ++ inner ++ ")" ++ renderDims dims)
            | none => none
        else match canonBase letters suffix with
          | some b => some (b ++ renderDims dims)
          | none => none
  def canonList : List P → Option String
    | [] => some ""
    | [p] => canon p
    | p :: ps =>
      match canon p, canonList ps with
      | some a, some b => some (a ++ "," ++ b)
      | _, _ => none
end

end FFS.Spec.AbiGrammar
