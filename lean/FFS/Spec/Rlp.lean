/-
  FFS.Spec.Rlp — RLP exactly as in the Ethereum Yellow Paper, appendix B
  (R_b for byte arrays, R_l for sequences, BE = minimal big-endian), plus a strict
  decoder used only as the reference "strict decoder" of property C06.
  Written from the paper, not from the code.
-/
import FFS.Util.Basic
namespace FFS

/-- The RLP data model: a tree of byte strings and lists. -/
inductive Item where
  | str (b : Bytes)
  | list (xs : List Item)
deriving Repr, Inhabited

namespace Spec.Rlp

/-- (180) R_b. -/
def Rb (x : Bytes) : Bytes :=
  match x with
  | [b] => if b.toNat < 128 then [b] else [UInt8.ofNat (128 + 1), b]
  | _ =>
    if x.length < 56 then UInt8.ofNat (128 + x.length) :: x
    else UInt8.ofNat (183 + (minBE x.length).length) :: (minBE x.length ++ x)

/-- (183) R_l applied to an already concatenated payload s(x). -/
def Rl (s : Bytes) : Bytes :=
  if s.length < 56 then UInt8.ofNat (192 + s.length) :: s
  else UInt8.ofNat (247 + (minBE s.length).length) :: (minBE s.length ++ s)

mutual
  def rlp : Item → Bytes
    | .str b => Rb b
    | .list xs => Rl (rlpSeq xs)
  /-- s(x) = RLP(x₀) · RLP(x₁) · … -/
  def rlpSeq : List Item → Bytes
    | [] => []
    | x :: xs => rlp x ++ rlpSeq xs
end

end Spec.Rlp
end FFS
