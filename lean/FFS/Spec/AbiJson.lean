import FFS.Spec.Abi
import FFS.Model.AbiIO

namespace FFS.Spec.AbiJson
open FFS FFS.Model.Abi

/-! ### An independent reader of serialized JSON output, per serializer configuration (property C03:
    "yields JSON that denotes the same value, with names, order and type labels matching the ABI definition") -/

def hexVal? (c : Char) : Option Nat :=
  if '0' ≤ c ∧ c ≤ '9' then some (c.toNat - 48)
  else if 'a' ≤ c ∧ c ≤ 'f' then some (c.toNat - 87)
  else if 'A' ≤ c ∧ c ≤ 'F' then some (c.toNat - 55) else none

def readHexNat (cs : List Char) : Option Nat :=
  if cs.isEmpty then none else cs.foldl (fun acc c => match acc, hexVal? c with | some a, some d => some (a * 16 + d) | _, _ => none) (some 0)

def readDecInt (cs : List Char) : Option Int :=
  (String.ofList cs).toInt?

def readHexBytes : List Char → Option Bytes
  | [] => some []
  | [_] => none
  | a :: b :: r => match hexVal? a, hexVal? b, readHexBytes r with
    | some x, some y, some t => some (UInt8.ofNat (x * 16 + y) :: t)
    | _, _, _ => none

def b64Val? (c : Char) : Option Nat :=
  if 'A' ≤ c ∧ c ≤ 'Z' then some (c.toNat - 65) else if 'a' ≤ c ∧ c ≤ 'z' then some (c.toNat - 71)
  else if '0' ≤ c ∧ c ≤ '9' then some (c.toNat + 4) else if c = '+' then some 62 else if c = '/' then some 63 else none

def readBase64 : List Char → Option Bytes
  | [] => some []
  | [a, b, '=', '='] => match b64Val? a, b64Val? b with
    | some x, some y => some [UInt8.ofNat (x * 4 + y / 16)] | _, _ => none
  | [a, b, c, '='] => match b64Val? a, b64Val? b, b64Val? c with
    | some x, some y, some z => some [UInt8.ofNat (x * 4 + y / 16), UInt8.ofNat (y % 16 * 16 + z / 4)] | _, _, _ => none
  | a :: b :: c :: d :: r => match b64Val? a, b64Val? b, b64Val? c, b64Val? d, readBase64 r with
    | some x, some y, some z, some w, some t =>
      some (UInt8.ofNat (x * 4 + y / 16) :: UInt8.ofNat (y % 16 * 16 + z / 4) :: UInt8.ofNat (z % 4 * 64 + w) :: t)
    | _, _, _, _, _ => none
  | _ => none

def charsOf (b : Bytes) : List Char := b.map fun x => Char.ofNat x.toNat

def strip0x : List Char → Option (List Char)
  | '0' :: 'x' :: r => some r
  | _ => none

def readInt (s : IntSer) (j : J) : Option Int :=
  match s, j with
  | .base10, .str b => readDecInt (charsOf b)
  | .hex0x, .str b =>
    match charsOf b with
    | '-' :: r => (strip0x r).bind fun h => (readHexNat h).map fun n => -(n : Int)
    | r => (strip0x r).bind fun h => (readHexNat h).map fun n => (n : Int)
  | .jsonNumber, .num lit => lit.toInt?
  | .numberIfFits, .num lit => lit.toInt?.bind fun z => if z.natAbs ≤ 9007199254740991 then some z else none
  | .numberIfFits, .str b => (readDecInt (charsOf b)).bind fun z => if z.natAbs > 9007199254740991 then some z else none
  | _, _ => none

def readBytes (s : ByteSer) (j : J) : Option Bytes :=
  match s, j with
  | .hex, .str b => readHexBytes (charsOf b)
  | .hex0x, .str b => (strip0x (charsOf b)).bind readHexBytes
  | .base64, .str b => readBase64 (charsOf b)
  | _, _ => none

def readElem (cfg : SerCfg) (info : ElemInfo) (j : J) : Option CV :=
  if info.name == "int" || info.name == "uint" then (readInt cfg.ints j).map .int
  else if info.name == "address" then
    match cfg.addr, j with
    | .none, _ => (readBytes cfg.bytes j).bind fun b => if b.length = 20 then some (.int (fromBE b)) else none
    | .plain, .str b => (readHexBytes (charsOf b)).bind fun a => if a.length = 20 then some (.int (fromBE a)) else none
    | _, .str b => (strip0x (charsOf b)).bind fun h => (readHexBytes h).bind fun a => if a.length = 20 then some (.int (fromBE a)) else none
    | _, _ => none
  else if info.name == "bool" then match j with | .bool b => some (.int (if b then 1 else 0)) | _ => none
  else if info.name == "bytes" || info.name == "function" then (readBytes cfg.bytes j).map .bytes
  else if info.name == "string" then match j with | .str b => some (.str b) | _ => none
  else none

def findKey (keys : List String) (vals : List J) (k : String) : Option J :=
  ((keys.zip vals).reverse.find? (·.1 == k)).map (·.2)

mutual
  /-- read a serialized tree back into a value, checking names / order / type labels against the type -/
  def readBack (cfg : SerCfg) : Ty → J → Option CV
    | .elem info _ _ _, j => readElem cfg info j
    | .farr t _, .arr xs => (readSame cfg t xs).map .kids
    | .darr t, .arr xs => (readSame cfg t xs).map .kids
    | .tuple names ts, j =>
      match cfg.mode, j with
      | .objects, .obj keys vals =>
        if keys.length ≠ ts.length then none else (readNamed cfg names ts 0 keys vals).map .kids
      | .flatArrays, .arr xs => if xs.length ≠ ts.length then none else (readEach cfg ts xs).map .kids
      | .selfDescribing, .arr xs => if xs.length ≠ ts.length then none else (readSelf cfg names ts 0 xs).map .kids
      | _, _ => none
    | _, _ => none
  def readSame (cfg : SerCfg) : Ty → List J → Option (List CV)
    | _, [] => some []
    | t, x :: xs => match readBack cfg t x, readSame cfg t xs with
      | some c, some cs => some (c :: cs) | _, _ => none
  def readEach (cfg : SerCfg) : List Ty → List J → Option (List CV)
    | t :: ts, x :: xs => match readBack cfg t x, readEach cfg ts xs with
      | some c, some cs => some (c :: cs) | _, _ => none
    | _, _ => some []
  def readNamed (cfg : SerCfg) : List String → List Ty → Nat → List String → List J → Option (List CV)
    | n :: ns, t :: ts, i, keys, vals =>
      match findKey keys vals (if n == "" then toString i else n) with
      | some x => match readBack cfg t x, readNamed cfg ns ts (i + 1) keys vals with
        | some c, some cs => some (c :: cs) | _, _ => none
      | none => none
    | _, _, _, _, _ => some []
  def readSelf (cfg : SerCfg) : List String → List Ty → Nat → List J → Option (List CV)
    | n :: ns, t :: ts, i, (.obj keys vals) :: xs =>
      match findKey keys vals "name", findKey keys vals "type", findKey keys vals "value" with
      | some (.str nm), some (.str ty), some v =>
        if nm == utf8 (if n == "" then toString i else n) && ty == utf8 (render t) then
          match readBack cfg t v, readSelf cfg ns ts (i + 1) xs with
          | some c, some cs => some (c :: cs) | _, _ => none
        else none
      | _, _, _ => none
    | [], [], _, [] => some []
    | _, _, _, _ => none
end

end FFS.Spec.AbiJson
