import FFS.Util.Basic
import FFS.Spec.Rlp
import FFS.Model.Rlp
