package main

import (
	"fmt"
	"go/ast"
	"go/token"
	"path/filepath"
	"strings"
)

// TxConsts: constants and guards of pkg/ethsigner/transaction.go.
func genTx() *leanFile {
	l := newLean("TxConsts", "pkg/ethsigner")
	p, err := loadPkg(filepath.Join(repo, "pkg/ethsigner"))
	if err != nil {
		l.failed = append(l.failed, "load")
		l.raw("def load_failed : Nat := extraction_failed_load\n")
		return l
	}
	v, ok := p.constVal("TransactionType1559")
	l.natConst("type1559", v, ok, "TransactionType1559")
	// RecoverRawTransaction: switch on the first byte
	if fd := p.funcDecl("RecoverRawTransaction"); fd != nil {
		cl := findSwitchClauses(fd, 0)
		env := trEnv{p: p, failed: &l.failed, names: map[string]string{"txTypeByte": "b"}}
		if len(cl) == 3 && len(cl[0].List) == 1 && len(cl[1].List) == 1 && cl[2].List == nil &&
			strings.Contains(p.src(cl[0].Body[0]), "RecoverLegacyRawTransaction") && strings.Contains(p.src(cl[1].Body[0]), "RecoverEIP1559Transaction") {
			fmt.Fprintf(&l.sb, "/-- RecoverRawTransaction → legacy when `%s` -/\ndef rawIsLegacy (b : Nat) : Bool := %s\n", p.src(cl[0].List[0]), env.boolean(cl[0].List[0]))
			fmt.Fprintf(&l.sb, "/-- RecoverRawTransaction → EIP-1559 when `%s` -/\ndef rawIs1559 (b : Nat) : Bool := %s\n", p.src(cl[1].List[0]), env.boolean(cl[1].List[0]))
		} else {
			l.failed = append(l.failed, "RecoverRawTransaction.switch")
			l.raw("def rawIsLegacy (b : Nat) : Bool := extraction_failed_RecoverRawTransaction\n")
		}
	} else {
		l.failed = append(l.failed, "RecoverRawTransaction")
		l.raw("def rawIsLegacy (b : Nat) : Bool := extraction_failed_RecoverRawTransaction\n")
	}
	// RecoverLegacyRawTransaction: minimum element count, V tests, EIP-155 arithmetic, validTxScalars arguments
	if fd := p.funcDecl("RecoverLegacyRawTransaction"); fd != nil {
		env := trEnv{p: p, failed: &l.failed, ints: true, names: map[string]string{"vValue": "v", "chainID": "cid", "len(rlpList)": "n", "!isList": "false"}}
		var lenCond, vCond ast.Expr
		for _, c := range findIfConds(fd) {
			s := p.src(c)
			if strings.Contains(s, "len(rlpList)") && lenCond == nil {
				lenCond = c
			}
			if strings.Contains(s, "vValue") && vCond == nil {
				vCond = c
			}
		}
		if lenCond != nil {
			fmt.Fprintf(&l.sb, "/-- RecoverLegacyRawTransaction rejects a decoded list when `%s` (isList already known true) -/\ndef legacyTooShort (n : Nat) : Bool := %s\n", p.src(lenCond), env.boolean(lenCond))
		} else {
			l.failed = append(l.failed, "legacy.len")
			l.raw("def legacyTooShort (n : Nat) : Bool := extraction_failed_legacy_len\n")
		}
		if vCond != nil {
			fmt.Fprintf(&l.sb, "/-- `%s` : V is not a bare 27/28 -/\ndef vNotLegacy (v : Int) : Bool := %s\n", p.src(vCond), env.boolean(vCond))
		} else {
			l.failed = append(l.failed, "legacy.vcond")
			l.raw("def vNotLegacy (v : Int) : Bool := extraction_failed_legacy_vcond\n")
		}
		found := false
		ast.Inspect(fd, func(n ast.Node) bool {
			if as, ok := n.(*ast.AssignStmt); ok && as.Tok == token.ASSIGN && len(as.Lhs) == 1 && p.src(as.Lhs[0]) == "vValue" && !found {
				fmt.Fprintf(&l.sb, "/-- `vValue = %s` (in wrapping int64) -/\ndef v155ToLegacy (v cid : Int) : Int := %s\n", p.src(as.Rhs[0]), env.nat(as.Rhs[0]))
				found = true
			}
			return true
		})
		if !found {
			l.failed = append(l.failed, "legacy.v155")
			l.raw("def v155ToLegacy (v cid : Int) : Int := extraction_failed_legacy_v155\n")
		}
		emitScalars(l, p, fd, "legacy")
	} else {
		l.failed = append(l.failed, "RecoverLegacyRawTransaction")
	}
	if fd := p.funcDecl("decodeEIP1559SignaturePayload"); fd != nil {
		emitScalars1559(l, p, fd)
	} else {
		l.failed = append(l.failed, "decodeEIP1559SignaturePayload")
	}
	// minimum lengths passed by the two callers
	for _, c := range []struct{ fn, name string }{{"DecodeEIP1559SignaturePayload", "min1559Unsigned"}, {"RecoverEIP1559Transaction", "min1559Signed"}} {
		val := ""
		if fd := p.funcDecl(c.fn); fd != nil {
			ast.Inspect(fd, func(n ast.Node) bool {
				if call, ok := n.(*ast.CallExpr); ok && p.src(call.Fun) == "decodeEIP1559SignaturePayload" && len(call.Args) == 4 {
					if tv, ok := p.info.Types[call.Args[3]]; ok && tv.Value != nil {
						val = tv.Value.ExactString()
					}
				}
				return true
			})
		}
		l.natConst(c.name, val, val != "", c.fn+" passes this rlpMinLen")
	}
	return l
}

func intListLit(p *pkgInfo, e ast.Expr) (string, bool) {
	cl, ok := e.(*ast.CompositeLit)
	if !ok {
		return "", false
	}
	var xs []string
	for _, el := range cl.Elts {
		tv, ok := p.info.Types[el]
		if !ok || tv.Value == nil {
			return "", false
		}
		xs = append(xs, tv.Value.ExactString())
	}
	return "[" + strings.Join(xs, ", ") + "]", true
}

func emitScalars(l *leanFile, p *pkgInfo, fd *ast.FuncDecl, pfx string) {
	done := false
	ast.Inspect(fd, func(n ast.Node) bool {
		if call, ok := n.(*ast.CallExpr); ok && p.src(call.Fun) == "validTxScalars" && len(call.Args) == 4 && !done {
			a, ok1 := intListLit(p, call.Args[1])
			b, ok3 := intListLit(p, call.Args[3])
			tv, ok2 := p.info.Types[call.Args[2]]
			if ok1 && ok3 && ok2 && tv.Value != nil {
				fmt.Fprintf(&l.sb, "/-- %s: validTxScalars(rlpList, ints, to, bytes) -/\ndef %sInts : List Nat := %s\ndef %sTo : Nat := %s\ndef %sBytes : List Nat := %s\n", pfx, pfx, a, pfx, tv.Value.ExactString(), pfx, b)
				done = true
			}
		}
		return true
	})
	if !done {
		// the unfixed tree has no validation: empty lists, and `hasValidation := false`
		fmt.Fprintf(&l.sb, "def %sInts : List Nat := []\ndef %sTo : Nat := 0\ndef %sBytes : List Nat := []\n", pfx, pfx, pfx)
	}
	fmt.Fprintf(&l.sb, "/-- the fix: commit's shape validation is present in this function -/\ndef %sValidates : Bool := %v\n", pfx, done)
}

func emitScalars1559(l *leanFile, p *pkgInfo, fd *ast.FuncDecl) {
	// intFields / bytesFields initial literals, the `rlpMinLen >= 12` extension, and the to index
	src := p.src(fd.Body)
	vals := map[string]string{}
	ast.Inspect(fd, func(n ast.Node) bool {
		if as, ok := n.(*ast.AssignStmt); ok && as.Tok == token.DEFINE && len(as.Lhs) == 1 {
			name := p.src(as.Lhs[0])
			if name == "intFields" || name == "bytesFields" {
				if s, ok := intListLit(p, as.Rhs[0]); ok {
					vals[name] = s
				}
			}
		}
		if call, ok := n.(*ast.CallExpr); ok && p.src(call.Fun) == "append" && len(call.Args) >= 2 {
			name := p.src(call.Args[0])
			if name == "intFields" || name == "bytesFields" {
				var xs []string
				for _, a := range call.Args[1:] {
					if tv, ok := p.info.Types[a]; ok && tv.Value != nil {
						xs = append(xs, tv.Value.ExactString())
					}
				}
				vals[name+"+"] = "[" + strings.Join(xs, ", ") + "]"
			}
		}
		if call, ok := n.(*ast.CallExpr); ok && p.src(call.Fun) == "validTxScalars" && len(call.Args) == 4 {
			if tv, ok := p.info.Types[call.Args[2]]; ok && tv.Value != nil {
				vals["to"] = tv.Value.ExactString()
			}
		}
		return true
	})
	has := strings.Contains(src, "validTxScalars(")
	if has && vals["intFields"] != "" && vals["bytesFields"] != "" && vals["to"] != "" && strings.Contains(src, "rlpMinLen >= 12") {
		fmt.Fprintf(&l.sb, "def e1559Ints : List Nat := %s\ndef e1559IntsSigned : List Nat := %s\ndef e1559Bytes : List Nat := %s\ndef e1559BytesSigned : List Nat := %s\ndef e1559To : Nat := %s\n",
			vals["intFields"], vals["intFields+"], vals["bytesFields"], vals["bytesFields+"], vals["to"])
	} else {
		l.raw("def e1559Ints : List Nat := []\ndef e1559IntsSigned : List Nat := []\ndef e1559Bytes : List Nat := []\ndef e1559BytesSigned : List Nat := []\ndef e1559To : Nat := 0\n")
		has = false
	}
	fmt.Fprintf(&l.sb, "def e1559Validates : Bool := %v\n", has)
	fmt.Fprintf(&l.sb, "/-- chain id compared as a big integer (not after Int64 truncation) -/\ndef e1559ChainIdExact : Bool := %v\n", strings.Contains(src, ".Cmp(big.NewInt(chainID))"))
}
