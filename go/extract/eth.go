package main

import (
	"fmt"
	"path/filepath"
	"strings"
)

// EthConsts: structural facts of pkg/ethtypes the model depends on.
func genEth() *leanFile {
	l := newLean("EthConsts", "pkg/ethtypes")
	p, err := loadPkg(filepath.Join(repo, "pkg/ethtypes"))
	if err != nil {
		l.failed = append(l.failed, "load")
		l.raw("def load_failed : Nat := extraction_failed_load\n")
		return l
	}
	has := func(fn string, subs ...string) (bool, bool) {
		fd := p.funcDecl(fn)
		if fd == nil {
			l.failed = append(l.failed, fn)
			return false, false
		}
		src := p.src(fd.Body)
		for _, s := range subs {
			if !strings.Contains(src, s) {
				return false, true
			}
		}
		return true, true
	}
	emit := func(name string, v, found bool, doc string) {
		if !found {
			fmt.Fprintf(&l.sb, "def %s : Bool := extraction_failed_%s\n", name, name)
			return
		}
		fmt.Fprintf(&l.sb, "/-- %s -/\ndef %s : Bool := %v\n", doc, name, v)
	}
	v, f := has("BigIntegerFromString", "new(big.Rat).SetString(s)", "r.IsInt()", "r.Num().Cmp(i) != 0")
	emit("ratConfirmed", v, f, "BigIntegerFromString confirms the float fallback with exact rational arithmetic")
	v, f = has("BigIntegerFromString", "SetString(s, 0)", "big.ParseFloat(s, 10, 256, big.ToNearestEven)", "accuracy != big.Exact")
	emit("bigIntShape", v, f, "SetString base 0 first, then ParseFloat(10, 256, ToNearestEven) with the Exact test")
	v, f = has("HexInteger.UnmarshalJSON", "bi.Sign() < 0")
	emit("hexIntRejectsNegative", v, f, "HexInteger.UnmarshalJSON rejects negative values")
	v, f = has("HexUint64.UnmarshalJSON", "!bi.IsUint64()")
	emit("hexU64ChecksRange", v, f, "HexUint64.UnmarshalJSON rejects values outside uint64")
	v, f = has("Address0xHex.SetString", `strings.TrimPrefix(s, "0x")`, "len(b) != 20")
	emit("addrChecksLen", v, f, "Address0xHex.SetString trims 0x and requires 20 bytes")
	return l
}
