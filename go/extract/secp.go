package main

import (
	"fmt"
	"go/ast"
	"go/token"
	"path/filepath"
	"strings"
)

// SecpConsts: the `switch v` of getVNormalized (case lists, the value assigned to vB in each arm before the
// byte() narrowing, the acceptance test) and the offsets used by UpdateEIP155 / UpdateEIP2930.
func genSecp() *leanFile {
	l := newLean("SecpConsts", "pkg/secp256k1")
	p, err := loadPkg(filepath.Join(repo, "pkg/secp256k1"))
	if err != nil {
		l.failed = append(l.failed, "load")
		l.raw("def load_failed : Nat := extraction_failed_load\n")
		return l
	}
	fd := p.funcDecl("SignatureData.getVNormalized")
	if fd == nil {
		l.failed = append(l.failed, "getVNormalized")
		l.raw("def vArm (v cid : Int) : Int := extraction_failed_getVNormalized\n")
		return l
	}
	env := trEnv{p: p, failed: &l.failed, ints: true, names: map[string]string{"v": "v", "chainID": "cid", "vB": "vB"}}
	cl := findSwitchClauses(fd, 0)
	// vArm: nested if over the clauses in source order; each arm's value is the argument of byte(...)
	var sb strings.Builder
	closing := 0
	okAll := len(cl) > 0
	var deflt string
	for _, c := range cl {
		val := ""
		if len(c.Body) == 1 {
			if as, ok := c.Body[0].(*ast.AssignStmt); ok && len(as.Rhs) == 1 && p.src(as.Lhs[0]) == "vB" {
				if call, ok := as.Rhs[0].(*ast.CallExpr); ok && p.src(call.Fun) == "byte" && len(call.Args) == 1 {
					val = env.nat(call.Args[0])
				}
			}
		}
		if val == "" {
			okAll = false
			break
		}
		if c.List == nil {
			deflt = val
			continue
		}
		var conds []string
		for _, e := range c.List {
			conds = append(conds, "decide (v = "+env.nat(e)+")")
		}
		fmt.Fprintf(&sb, "if %s then %s else ", strings.Join(conds, " || "), val)
		closing++
	}
	if !okAll || deflt == "" {
		l.failed = append(l.failed, "getVNormalized.switch")
		l.raw("def vArm (v cid : Int) : Int := extraction_failed_getVNormalized_switch\n")
	} else {
		fmt.Fprintf(&l.sb, "/-- getVNormalized: the int64 value passed to byte(...) in the arm selected by `switch v` -/\ndef vArm (v cid : Int) : Int := %s%s\n", sb.String(), deflt)
	}
	// the acceptance test is the last `if` of the function whose condition mentions vB
	var test ast.Expr
	for _, c := range findIfConds(fd) {
		if strings.Contains(p.src(c), "vB") {
			test = c
		}
	}
	if test != nil {
		fmt.Fprintf(&l.sb, "/-- getVNormalized rejects when: `%s` (vB: the byte, as ℤ in [0,256)) -/\ndef vReject (vB : Int) : Bool := %s\n", p.src(test), env.boolean(test))
	} else {
		l.failed = append(l.failed, "getVNormalized.test")
		l.raw("def vReject (vB : Int) : Bool := extraction_failed_getVNormalized_test\n")
	}
	// does the function test V for nil / IsInt64 before use? (added by the fix: commit)
	src := p.src(fd.Body)
	fmt.Fprintf(&l.sb, "/-- getVNormalized begins by rejecting nil V and V outside int64 -/\ndef vChecksInt64 : Bool := %v\n", strings.Contains(src, "IsInt64()") && strings.Contains(src, "s.V == nil"))
	// UpdateEIP155: V += chainID*2 + (35-27)
	if fd := p.funcDecl("SignatureData.UpdateEIP155"); fd != nil {
		found := false
		ast.Inspect(fd, func(n ast.Node) bool {
			if call, ok := n.(*ast.CallExpr); ok && p.src(call.Fun) == "big.NewInt" && len(call.Args) == 1 {
				if be, ok := call.Args[0].(*ast.BinaryExpr); ok && be.Op == token.SUB {
					if tv, ok := p.info.Types[call.Args[0]]; ok && tv.Value != nil {
						l.natConst("eip155Add", tv.Value.ExactString(), true, "UpdateEIP155 adds chainID*2 + this")
						found = true
					}
				}
			}
			return true
		})
		if !found {
			l.natConst("eip155Add", "", false, "")
		}
		mul := ""
		ast.Inspect(fd, func(n ast.Node) bool {
			if call, ok := n.(*ast.CallExpr); ok && strings.HasSuffix(p.src(call.Fun), ".Mul") && len(call.Args) == 2 {
				if c2, ok := call.Args[1].(*ast.CallExpr); ok && p.src(c2.Fun) == "big.NewInt" {
					if tv, ok := p.info.Types[c2.Args[0]]; ok && tv.Value != nil {
						mul = tv.Value.ExactString()
					}
				}
			}
			return true
		})
		l.natConst("eip155Mul", mul, mul != "", "UpdateEIP155 multiplies chainID by this")
	} else {
		l.natConst("eip155Add", "", false, "")
	}
	if fd := p.funcDecl("SignatureData.UpdateEIP2930"); fd != nil {
		conds := findIfConds(fd)
		sub := ""
		ast.Inspect(fd, func(n ast.Node) bool {
			if call, ok := n.(*ast.CallExpr); ok && strings.HasSuffix(p.src(call.Fun), ".Sub") && len(call.Args) == 2 {
				if c2, ok := call.Args[1].(*ast.CallExpr); ok && p.src(c2.Fun) == "big.NewInt" {
					if tv, ok := p.info.Types[c2.Args[0]]; ok && tv.Value != nil {
						sub = tv.Value.ExactString()
					}
				}
			}
			return true
		})
		if len(conds) == 1 && sub != "" {
			env2 := trEnv{p: p, failed: &l.failed, ints: true, names: map[string]string{"vi64": "v"}}
			fmt.Fprintf(&l.sb, "/-- UpdateEIP2930: `if %s` then V -= %s -/\ndef eip2930Cond (v : Int) : Bool := %s\ndef eip2930Sub : Nat := %s\n", p.src(conds[0]), sub, env2.boolean(conds[0]), sub)
		} else {
			l.failed = append(l.failed, "UpdateEIP2930")
			l.raw("def eip2930Cond (v : Int) : Bool := extraction_failed_UpdateEIP2930\n")
		}
	}
	return l
}
