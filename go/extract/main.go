// extract: the regenerated part of the tie between /repo and the Lean model.
// Parses the current working tree of the repository (syntax + constant evaluation only) and writes
// lean/FFS/Gen/*.lean: constants, tables and small translated guard expressions that the Lean models
// import. Anything that cannot be found or translated is emitted as an undefined identifier
// `extraction_failed_<what>`, so the Lean build fails closed instead of silently using a stale value.
package main

import (
	"flag"
	"fmt"
	"go/ast"
	"go/constant"
	"go/parser"
	"go/token"
	"go/types"
	"os"
	"path/filepath"
	"sort"
	"strings"
)

type pkgInfo struct {
	fset  *token.FileSet
	files map[string]*ast.File // base name -> file
	info  *types.Info
	pkg   *types.Package
}

type fakeImporter struct{ pkgs map[string]*types.Package }

func (f *fakeImporter) Import(path string) (*types.Package, error) {
	if p, ok := f.pkgs[path]; ok {
		return p, nil
	}
	name := filepath.Base(path)
	p := types.NewPackage(path, name)
	p.MarkComplete()
	f.pkgs[path] = p
	return p, nil
}

func loadPkg(dir string) (*pkgInfo, error) {
	fset := token.NewFileSet()
	ents, err := os.ReadDir(dir)
	if err != nil {
		return nil, err
	}
	pi := &pkgInfo{fset: fset, files: map[string]*ast.File{}}
	var files []*ast.File
	for _, e := range ents {
		n := e.Name()
		if e.IsDir() || !strings.HasSuffix(n, ".go") || strings.HasSuffix(n, "_test.go") {
			continue
		}
		f, err := parser.ParseFile(fset, filepath.Join(dir, n), nil, parser.ParseComments)
		if err != nil {
			return nil, err
		}
		// skip files guarded by build tags (e.g. verif hooks)
		skip := false
		for _, cg := range f.Comments {
			if cg.Pos() < f.Package {
				for _, c := range cg.List {
					if strings.HasPrefix(c.Text, "//go:build") {
						skip = true
					}
				}
			}
		}
		if skip {
			continue
		}
		pi.files[n] = f
		files = append(files, f)
	}
	conf := types.Config{Importer: &fakeImporter{pkgs: map[string]*types.Package{}}, Error: func(error) {}}
	pi.info = &types.Info{Defs: map[*ast.Ident]types.Object{}, Types: map[ast.Expr]types.TypeAndValue{}, Uses: map[*ast.Ident]types.Object{}}
	pi.pkg, _ = conf.Check(filepath.Base(dir), fset, files, pi.info)
	return pi, nil
}

// constVal returns the exact value of a package-level constant as a decimal string.
func (p *pkgInfo) constVal(name string) (string, bool) {
	if p.pkg == nil {
		return "", false
	}
	obj := p.pkg.Scope().Lookup(name)
	c, ok := obj.(*types.Const)
	if !ok {
		return "", false
	}
	v := c.Val()
	if v.Kind() == constant.Int {
		return v.ExactString(), true
	}
	if v.Kind() == constant.String {
		return constant.StringVal(v), true
	}
	return "", false
}

func (p *pkgInfo) funcDecl(name string) *ast.FuncDecl {
	var names []string
	for n := range p.files {
		names = append(names, n)
	}
	sort.Strings(names)
	for _, n := range names {
		for _, d := range p.files[n].Decls {
			fd, ok := d.(*ast.FuncDecl)
			if !ok {
				continue
			}
			fn := fd.Name.Name
			if fd.Recv != nil && len(fd.Recv.List) == 1 {
				fn = recvName(fd.Recv.List[0].Type) + "." + fn
			}
			if fn == name {
				return fd
			}
		}
	}
	return nil
}

func recvName(e ast.Expr) string {
	switch t := e.(type) {
	case *ast.StarExpr:
		return recvName(t.X)
	case *ast.Ident:
		return t.Name
	}
	return "?"
}

// allFuncs lists the short names of the methods whose qualified name starts with prefix (e.g. "wsRPCClient.")
func (p *pkgInfo) allFuncs(prefix string) []string {
	var out []string
	for _, f := range p.files {
		for _, d := range f.Decls {
			fd, ok := d.(*ast.FuncDecl)
			if !ok || fd.Recv == nil || len(fd.Recv.List) == 0 || fd.Body == nil {
				continue
			}
			t := fd.Recv.List[0].Type
			if st, isStar := t.(*ast.StarExpr); isStar {
				t = st.X
			}
			if id, isID := t.(*ast.Ident); isID && id.Name+"." == prefix {
				out = append(out, fd.Name.Name)
			}
		}
	}
	sort.Strings(out)
	return out
}

func (p *pkgInfo) src(n ast.Node) string {
	if n == nil {
		return ""
	}
	var sb strings.Builder
	_ = printerFprint(&sb, p.fset, n)
	return sb.String()
}

// ---- the Go-expression → Lean translator (a deliberately tiny fragment) ----
//
// Supported: integer literals, identifiers (renamed through `env`, or package constants by value),
// parenthesis, unary !, binary < <= > >= == != && || + and `len(x)` / `x[0]` / conversions when the
// whole sub-expression text is present in `env`. Result is a Lean `Bool` expression over `Nat`s.
type trEnv struct {
	p      *pkgInfo
	names  map[string]string // Go source text of a sub-expression -> Lean term
	failed *[]string
	ints   bool // expressions are over ℤ (subtraction allowed)
}

func (e trEnv) fail(what string) string {
	*e.failed = append(*e.failed, what)
	return "extraction_failed_" + sanitize(what)
}

func sanitize(s string) string {
	var sb strings.Builder
	for _, r := range s {
		if (r >= 'a' && r <= 'z') || (r >= 'A' && r <= 'Z') || (r >= '0' && r <= '9') {
			sb.WriteRune(r)
		} else {
			sb.WriteRune('_')
		}
	}
	return sb.String()
}

func (e trEnv) nat(x ast.Expr) string {
	if s, ok := e.names[e.p.src(x)]; ok {
		return s
	}
	switch t := x.(type) {
	case *ast.ParenExpr:
		return "(" + e.nat(t.X) + ")"
	case *ast.BasicLit:
		if t.Kind == token.INT {
			if tv, ok := e.p.info.Types[x]; ok && tv.Value != nil {
				return tv.Value.ExactString()
			}
			return e.fail("lit " + t.Value)
		}
	case *ast.Ident:
		if v, ok := e.p.constVal(t.Name); ok {
			return v
		}
	case *ast.BinaryExpr:
		if t.Op == token.ADD {
			return "(" + e.nat(t.X) + " + " + e.nat(t.Y) + ")"
		}
		if t.Op == token.MUL {
			return "(" + e.nat(t.X) + " * " + e.nat(t.Y) + ")"
		}
		if t.Op == token.SUB && e.ints {
			return "(" + e.nat(t.X) + " - " + e.nat(t.Y) + ")"
		}
	case *ast.CallExpr:
		// constant-valued conversions such as int64(27)
		if tv, ok := e.p.info.Types[x]; ok && tv.Value != nil && tv.Value.Kind() == constant.Int {
			return tv.Value.ExactString()
		}
	}
	return e.fail("nat " + e.p.src(x))
}

func (e trEnv) boolean(x ast.Expr) string {
	if s, ok := e.names[e.p.src(x)]; ok {
		return s
	}
	switch t := x.(type) {
	case *ast.ParenExpr:
		return "(" + e.boolean(t.X) + ")"
	case *ast.UnaryExpr:
		if t.Op == token.NOT {
			return "(!" + e.boolean(t.X) + ")"
		}
	case *ast.BinaryExpr:
		switch t.Op {
		case token.LAND:
			return "(" + e.boolean(t.X) + " && " + e.boolean(t.Y) + ")"
		case token.LOR:
			return "(" + e.boolean(t.X) + " || " + e.boolean(t.Y) + ")"
		case token.LSS:
			return "decide (" + e.nat(t.X) + " < " + e.nat(t.Y) + ")"
		case token.LEQ:
			return "decide (" + e.nat(t.X) + " ≤ " + e.nat(t.Y) + ")"
		case token.GTR:
			return "decide (" + e.nat(t.X) + " > " + e.nat(t.Y) + ")"
		case token.GEQ:
			return "decide (" + e.nat(t.X) + " ≥ " + e.nat(t.Y) + ")"
		case token.EQL:
			return "decide (" + e.nat(t.X) + " = " + e.nat(t.Y) + ")"
		case token.NEQ:
			return "decide (" + e.nat(t.X) + " ≠ " + e.nat(t.Y) + ")"
		}
	}
	return e.fail("bool " + e.p.src(x))
}

type leanFile struct {
	ns     string
	sb     strings.Builder
	failed []string
}

func newLean(ns, from string) *leanFile {
	l := &leanFile{ns: ns}
	fmt.Fprintf(&l.sb, "/- GENERATED by /verif/go/extract from %s — do not edit; rewritten on every run. -/\nnamespace FFS.Gen.%s\n", from, ns)
	return l
}

func (l *leanFile) natConst(name, val string, ok bool, doc string) {
	if doc != "" {
		fmt.Fprintf(&l.sb, "/-- %s -/\n", doc)
	}
	if !ok {
		l.failed = append(l.failed, name)
		fmt.Fprintf(&l.sb, "def %s : Nat := extraction_failed_%s\n", name, sanitize(name))
		return
	}
	fmt.Fprintf(&l.sb, "def %s : Nat := %s\n", name, val)
}

func (l *leanFile) raw(s string) { l.sb.WriteString(s) }

func (l *leanFile) write(dir string) error {
	fmt.Fprintf(&l.sb, "end FFS.Gen.%s\n", l.ns)
	path := filepath.Join(dir, l.ns+".lean")
	newb := []byte(l.sb.String())
	if old, err := os.ReadFile(path); err == nil && string(old) == string(newb) {
		return nil // unchanged: keep mtime so lake does not rebuild
	}
	return os.WriteFile(path, newb, 0o644)
}

var repo, outDir string
var allFailed []string

func main() {
	flag.StringVar(&repo, "repo", "/repo", "repository root")
	flag.StringVar(&outDir, "out", "/verif/lean/FFS/Gen", "output directory")
	flag.Parse()
	if err := os.MkdirAll(outDir, 0o755); err != nil {
		panic(err)
	}
	gens := []func() *leanFile{genRlp, genSecp, genTx, genEth, genAbi, genAbiEntry, genFfi, genKeystore, genFsWallet, genProxy, genRpc, genAbiCodec, genEip712}
	for _, g := range gens {
		l := g()
		if err := l.write(outDir); err != nil {
			fmt.Fprintln(os.Stderr, "write:", err)
			os.Exit(2)
		}
		for _, f := range l.failed {
			allFailed = append(allFailed, l.ns+":"+f)
		}
	}
	for _, f := range allFailed {
		fmt.Println("EXTRACTION-FAILED", f)
	}
}

// findIfConds returns the condition expressions of all `if` statements in fd, in source order.
func findIfConds(fd *ast.FuncDecl) []ast.Expr {
	var out []ast.Expr
	ast.Inspect(fd, func(n ast.Node) bool {
		if s, ok := n.(*ast.IfStmt); ok {
			out = append(out, s.Cond)
		}
		return true
	})
	return out
}

// findSwitchCases returns the case expressions of the first tagless switch in fd (one per clause;
// multiple expressions in one clause are OR-ed by the caller), and whether a default exists.
func findSwitchClauses(fd *ast.FuncDecl, nth int) []*ast.CaseClause {
	var out []*ast.CaseClause
	cnt := 0
	ast.Inspect(fd, func(n ast.Node) bool {
		if s, ok := n.(*ast.SwitchStmt); ok {
			if cnt == nth {
				for _, c := range s.Body.List {
					out = append(out, c.(*ast.CaseClause))
				}
			}
			cnt++
		}
		return true
	})
	return out
}
