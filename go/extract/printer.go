package main

import (
	"go/printer"
	"go/token"
	"io"
)

func printerFprint(w io.Writer, fset *token.FileSet, n any) error {
	return printer.Fprint(w, fset, n)
}

func sortStrings(xs []string) {
	for i := 1; i < len(xs); i++ {
		for j := i; j > 0 && xs[j] < xs[j-1]; j-- {
			xs[j], xs[j-1] = xs[j-1], xs[j]
		}
	}
}
