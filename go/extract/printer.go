package main

import (
	"go/printer"
	"go/token"
	"io"
)

func printerFprint(w io.Writer, fset *token.FileSet, n any) error {
	return printer.Fprint(w, fset, n)
}
