package main

import (
	"fmt"
	"path/filepath"
	"strings"
)

// RlpConsts: prefix constants, maxInt32, and the guards of encodeBytes / decode translated to Lean.
func genRlp() *leanFile {
	l := newLean("RlpConsts", "pkg/rlp")
	p, err := loadPkg(filepath.Join(repo, "pkg/rlp"))
	if err != nil {
		l.failed = append(l.failed, "load:"+err.Error())
		l.raw("def load_failed : Nat := extraction_failed_load\n")
		return l
	}
	for _, c := range []string{"shortString", "longString", "shortList", "longList", "shortToLong", "maxInt32"} {
		v, ok := p.constVal(c)
		l.natConst(c, v, ok, "")
	}
	// encodeBytes: first `if` = single-byte rule, second `if` = short form
	if fd := p.funcDecl("encodeBytes"); fd != nil {
		conds := findIfConds(fd)
		// conds[0] is `if isList {` ; [1] single-byte ; [2] short
		if len(conds) >= 3 {
			env := trEnv{p: p, failed: &l.failed, names: map[string]string{
				"len(inBytes)": "len", "inBytes[0]": "b0", "isList": "isList",
			}}
			fmt.Fprintf(&l.sb, "/-- encodeBytes: `%s` -/\ndef encSingle (len b0 : Nat) (isList : Bool) : Bool := %s\n", p.src(conds[1]), env.boolean(conds[1]))
			fmt.Fprintf(&l.sb, "/-- encodeBytes: `%s` -/\ndef encShort (len : Nat) : Bool := %s\n", p.src(conds[2]), env.boolean(conds[2]))
		} else {
			l.failed = append(l.failed, "encodeBytes.ifs")
			l.raw("def encSingle (len b0 : Nat) (isList : Bool) : Bool := extraction_failed_encodeBytes\n")
		}
	} else {
		l.failed = append(l.failed, "encodeBytes")
		l.raw("def encSingle (len b0 : Nat) (isList : Bool) : Bool := extraction_failed_encodeBytes\n")
	}
	// decode: the recursive decoder takes the data and an element limit, nothing else (no depth or size budget)
	if fd := p.funcDecl("decode"); fd != nil {
		sig := strings.Join(strings.Fields(p.src(fd.Type)), " ")
		fmt.Fprintf(&l.sb, "/-- decode's signature is `func(rlpData []byte, limit int) (List, int, error)`; found `%s` -/\ndef decodeShape : Bool := %v\n", sig,
			sig == "func(rlpData []byte, limit int) (List, int, error)")
	} else {
		l.raw("def decodeShape : Bool := extraction_failed_decode\n")
	}
	// decode: the six-way switch on prefix
	if fd := p.funcDecl("decode"); fd != nil {
		cl := findSwitchClauses(fd, 0)
		if len(cl) == 6 {
			env := trEnv{p: p, failed: &l.failed, names: map[string]string{"prefix": "p"}}
			for i, c := range cl {
				if len(c.List) != 1 {
					l.failed = append(l.failed, fmt.Sprintf("decode.case%d", i))
					continue
				}
				fmt.Fprintf(&l.sb, "/-- decode case %d: `%s` -/\ndef decCase%d (p : Nat) : Bool := %s\n", i, p.src(c.List[0]), i, env.boolean(c.List[0]))
			}
		} else {
			l.failed = append(l.failed, "decode.switch")
			l.raw("def decCase0 (p : Nat) : Bool := extraction_failed_decode_switch\n")
		}
	} else {
		l.failed = append(l.failed, "decode")
		l.raw("def decCase0 (p : Nat) : Bool := extraction_failed_decode\n")
	}
	// minimalBytesToInt64: the range test
	if fd := p.funcDecl("minimalBytesToInt64"); fd != nil {
		conds := findIfConds(fd)
		if len(conds) >= 2 {
			env := trEnv{p: p, failed: &l.failed, names: map[string]string{"v < 0": "decide (v ≥ 2 ^ 63)", "v": "v"}}
			last := conds[len(conds)-1]
			fmt.Fprintf(&l.sb, "/-- minimalBytesToInt64 (v: the int64 as its unsigned 64-bit pattern): `%s` -/\ndef lenReject (v : Nat) : Bool := %s\n", p.src(last), env.boolean(last))
		} else {
			l.failed = append(l.failed, "minimalBytesToInt64.ifs")
			l.raw("def lenReject (v : Nat) : Bool := extraction_failed_minimalBytesToInt64\n")
		}
	} else {
		l.failed = append(l.failed, "minimalBytesToInt64")
		l.raw("def lenReject (v : Nat) : Bool := extraction_failed_minimalBytesToInt64\n")
	}
	return l
}
