//go:build verif

package rpcbackend

import (
	"context"
	"sort"

	"github.com/hyperledger/firefly-common/pkg/fftypes"
	"github.com/hyperledger/firefly-common/pkg/wsclient"
)

// VerifNewWS builds the WebSocket RPC client around a caller-supplied transport, starts its receive loop and
// returns the reconnect callback that wsclient would invoke after every (re)connect.
func VerifNewWS(ctx context.Context, transport wsclient.WSClient, disableReconnect bool) (WebSocketRPCClient, func(context.Context) error) {
	rc := &wsRPCClient{
		calls:              make(map[string]chan *RPCResponse),
		configuredSubs:     make(map[fftypes.UUID]*sub),
		pendingSubsByReqID: make(map[string]*sub),
		activeSubsBySubID:  make(map[string]*sub),
		client:             transport,
	}
	rc.wsConf.DisableReconnect = disableReconnect
	go rc.receiveLoop(ctx)
	return rc, func(ctx context.Context) error { return rc.handleReconnect(ctx, transport) }
}

// VerifWSTables returns the keys of the client's tables (under its mutex).
func VerifWSTables(c WebSocketRPCClient) map[string][]string {
	rc := c.(*wsRPCClient)
	rc.mux.Lock()
	defer rc.mux.Unlock()
	out := map[string][]string{"calls": {}, "pending": {}, "active": {}, "configured": {}}
	for k := range rc.calls {
		out["calls"] = append(out["calls"], k)
	}
	for k, s := range rc.pendingSubsByReqID {
		out["pending"] = append(out["pending"], k+"="+s.localID.String())
	}
	for k, s := range rc.activeSubsBySubID {
		out["active"] = append(out["active"], k+"="+s.localID.String())
	}
	for k := range rc.configuredSubs {
		out["configured"] = append(out["configured"], k.String())
	}
	for _, v := range out {
		sort.Strings(v)
	}
	return out
}
