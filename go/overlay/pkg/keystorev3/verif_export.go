//go:build verif

package keystorev3

import "encoding/json"

// VerifParse runs exactly the JSON decoding steps of ReadWalletFile / readScryptWalletFile / readPbkdf2WalletFile
// (same types, same json.Unmarshal calls) and reports the decoded fields to the verification harness.
// Add-only hook, build tag verif; it does not change any behaviour.
func VerifParse(jsonWallet []byte) map[string]interface{} {
	out := map[string]interface{}{}
	var w walletFileCommon
	err := json.Unmarshal(jsonWallet, &w)
	if err == nil {
		err = json.Unmarshal(jsonWallet, &w.metadata)
	}
	out["commonErr"] = err != nil
	if err != nil {
		return out
	}
	out["idNil"] = w.ID == nil
	out["version"] = w.Version
	out["kdf"] = w.Crypto.KDF
	fill := func(c *cryptoCommon) {
		out["cipher"] = c.Cipher
		out["ciphertext"] = []byte(c.CipherText)
		out["iv"] = []byte(c.CipherParams.IV)
		out["mac"] = []byte(c.MAC)
	}
	switch w.Crypto.KDF {
	case kdfTypeScrypt:
		var ws *walletFileScrypt
		if err := json.Unmarshal(jsonWallet, &ws); err != nil || ws == nil {
			out["kdfErr"] = true
			return out
		}
		fill(&ws.Crypto.cryptoCommon)
		out["n"], out["r"], out["p"], out["dklen"] = ws.Crypto.KDFParams.N, ws.Crypto.KDFParams.R, ws.Crypto.KDFParams.P, ws.Crypto.KDFParams.DKLen
		out["salt"] = []byte(ws.Crypto.KDFParams.Salt)
	case kdfTypePbkdf2:
		var wp *walletFilePbkdf2
		if err := json.Unmarshal(jsonWallet, &wp); err != nil || wp == nil {
			out["kdfErr"] = true
			return out
		}
		fill(&wp.Crypto.cryptoCommon)
		out["c"], out["dklen"], out["prf"] = wp.Crypto.KDFParams.C, wp.Crypto.KDFParams.DKLen, wp.Crypto.KDFParams.PRF
		out["salt"] = []byte(wp.Crypto.KDFParams.Salt)
	}
	return out
}
