//go:build verif

package secp256k1

// VerifGetVNormalized exposes getVNormalized to the verification harness (add-only hook, build tag verif).
func VerifGetVNormalized(s *SignatureData, chainID int64) (byte, error) {
	return s.getVNormalized(chainID)
}
