//go:build verif

package main

import (
	"bytes"
	"context"
	"encoding/json"
	"fmt"
	"io"
	"math/big"
	"net"
	"net/http"
	"net/http/httptest"
	"os"
	"os/exec"
	"path"
	"sort"
	"strings"
	"sync"
	"time"

	"github.com/hyperledger/firefly-signer/pkg/ethsigner"
	"github.com/hyperledger/firefly-signer/pkg/secp256k1"
)

// ---- the rig: real ffsigner binary + scripted backend ----
type proxyRig struct {
	root     string
	bin      string
	backend  *httptest.Server
	proc     *exec.Cmd
	url      string
	chainID  int64
	accounts []string // hex
	keys     map[string][]byte
	mu       sync.Mutex
	script   map[string]map[string]any
	fwd      []map[string]any
	crashes  int
	stderr   *bytes.Buffer
}

func freePort() int {
	l, _ := net.Listen("tcp", "127.0.0.1:0")
	defer l.Close()
	return l.Addr().(*net.TCPAddr).Port
}

func (rg *proxyRig) backendHandler(w http.ResponseWriter, r *http.Request) {
	b, _ := io.ReadAll(r.Body)
	var req map[string]any
	d := json.NewDecoder(bytes.NewReader(b))
	d.UseNumber()
	_ = d.Decode(&req)
	method, _ := req["method"].(string)
	rg.mu.Lock()
	entry := map[string]any{"method": method, "params": req["params"], "jsonrpc": req["jsonrpc"], "id": req["id"]}
	rg.fwd = append(rg.fwd, entry)
	rep, has := rg.script[method]
	if !has {
		rep = rg.script["*"]
	}
	rg.mu.Unlock()
	if method == "net_version" {
		rep = map[string]any{"kind": "result", "value": fmt.Sprint(rg.chainID)}
	}
	if rep == nil {
		rep = map[string]any{"kind": "result", "value": nil}
	}
	write := func(status int, body any) {
		w.Header().Set("Content-Type", "application/json")
		w.WriteHeader(status)
		bb, _ := json.Marshal(body)
		_, _ = w.Write(bb)
	}
	code := rep["code"]
	if code == nil {
		code = -32000
	}
	switch rep["kind"] {
	case "result":
		write(200, map[string]any{"jsonrpc": "2.0", "id": req["id"], "result": rep["value"]})
	case "resultNoVersion":
		write(200, map[string]any{"id": req["id"], "result": rep["value"]})
	case "rpcError":
		write(200, map[string]any{"jsonrpc": "2.0", "id": req["id"], "error": map[string]any{"code": code, "message": "backend says no", "data": map[string]any{"x": []any{1}}}})
	case "httpErrorWithBody":
		write(500, map[string]any{"jsonrpc": "2.0", "id": req["id"], "error": map[string]any{"code": code, "message": "backend failed"}})
	case "httpErrorNoBody":
		if rep["text"] == true {
			w.Header().Set("Content-Type", "text/plain")
			w.WriteHeader(502)
			_, _ = w.Write([]byte("Bad Gateway"))
		} else {
			w.WriteHeader(500)
		}
	case "nullBody":
		w.Header().Set("Content-Type", "application/json")
		w.WriteHeader(200)
		_, _ = w.Write([]byte("null"))
	case "wrongId":
		write(200, map[string]any{"jsonrpc": "2.0", "id": "someone-else", "result": rep["value"]})
	case "connFail":
		if hj, okk := w.(http.Hijacker); okk {
			conn, _, _ := hj.Hijack()
			_ = conn.Close()
		}
	default:
		write(200, map[string]any{"jsonrpc": "2.0", "id": req["id"], "result": nil})
	}
}

func newProxyRig(discoverChainID bool, listener bool) (*proxyRig, error) {
	root, _ := os.MkdirTemp("", "proxyrig")
	rg := &proxyRig{root: root, chainID: 1337, keys: map[string][]byte{}, script: map[string]map[string]any{}}
	rg.bin = os.Getenv("VERIF_FFSIGNER")
	if rg.bin == "" {
		rg.bin = "/verif/go/bin/ffsigner"
	}
	wdir := path.Join(root, "wallet")
	_ = os.MkdirAll(wdir, 0o755)
	r := NewRng(99)
	for i := 0; i < 2; i++ {
		key := big.NewInt(int64(1000 + i)).FillBytes(make([]byte, 32))
		kp := secp256k1.KeyPairFromBytes(key)
		a := hx(kp.Address[:])
		rg.accounts = append(rg.accounts, a)
		rg.keys[a] = key
		_ = os.WriteFile(path.Join(wdir, a+".key.json"), externalV3(r, "scrypt", []byte("pw"), key, 2, 1, 1, 0), 0o600)
		_ = os.WriteFile(path.Join(wdir, a+".pwd"), []byte("pw"), 0o600)
	}
	sort.Strings(rg.accounts)
	rg.backend = httptest.NewServer(http.HandlerFunc(rg.backendHandler))
	port := freePort()
	cid := fmt.Sprint(rg.chainID)
	if discoverChainID {
		cid = "-1"
	}
	cfg := fmt.Sprintf("fileWallet:\n  path: %q\n  disableListener: "+fmt.Sprint(!listener)+"\n  filenames:\n    primaryExt: \".key.json\"\n    passwordExt: \".pwd\"\n  metadata:\n    format: none\nbackend:\n  url: %q\n  chainId: %s\nserver:\n  address: 127.0.0.1\n  port: %d\nlog:\n  level: error\n", wdir, rg.backend.URL, cid, port)
	cfgPath := path.Join(root, "ffsigner.yaml")
	_ = os.WriteFile(cfgPath, []byte(cfg), 0o600)
	rg.url = fmt.Sprintf("http://127.0.0.1:%d/", port)
	if err := rg.start(cfgPath); err != nil {
		return nil, err
	}
	return rg, nil
}

func (rg *proxyRig) start(cfgPath string) error {
	rg.stderr = &bytes.Buffer{}
	rg.proc = exec.Command(rg.bin, "-f", cfgPath)
	rg.proc.Stderr = rg.stderr
	rg.proc.Stdout = rg.stderr
	if err := rg.proc.Start(); err != nil {
		return err
	}
	for i := 0; i < 200; i++ {
		if rg.alive() {
			return nil
		}
		time.Sleep(25 * time.Millisecond)
	}
	return fmt.Errorf("ffsigner did not start: %s", trunc(rg.stderr.String(), 500))
}

func (rg *proxyRig) alive() bool {
	c := http.Client{Timeout: 2 * time.Second}
	res, err := c.Post(rg.url, "application/json", strings.NewReader(`{"jsonrpc":"2.0","id":"probe","method":"eth_accounts"}`))
	if err != nil {
		return false
	}
	defer res.Body.Close()
	b, _ := io.ReadAll(res.Body)
	return res.StatusCode == 200 && strings.Contains(string(b), rg.accounts[0])
}

// dead: the probe fails three times in a row (one failed probe on a busy machine is not a dead proxy)
func (rg *proxyRig) dead() bool {
	for i := 0; i < 3; i++ {
		if rg.alive() {
			return false
		}
		time.Sleep(300 * time.Millisecond)
	}
	return true
}

// addAccount drops one more key file (and its password file) into the wallet directory of the running proxy and
// waits until eth_accounts lists it (the file-system listener is on for this rig), for at most 10 seconds. From now
// on the wallet's addresses include it whether or not the proxy noticed.
func (rg *proxyRig) addAccount(n int64) bool {
	key := big.NewInt(n).FillBytes(make([]byte, 32))
	kp := secp256k1.KeyPairFromBytes(key)
	a := hx(kp.Address[:])
	wdir := path.Join(rg.root, "wallet")
	_ = os.WriteFile(path.Join(wdir, a+".pwd"), []byte("pw"), 0o600)
	tmp := path.Join(rg.root, a+".tmp")
	_ = os.WriteFile(tmp, externalV3(NewRng(uint64(n)), "scrypt", []byte("pw"), key, 2, 1, 1, 0), 0o600)
	_ = os.Rename(tmp, path.Join(wdir, a+".key.json"))
	rg.keys[a] = key
	// a fresh slice (earlier requests keep the list they were made with), in discovery order as the wallet lists them
	rg.accounts = append(append([]string{}, rg.accounts...), a)
	c := http.Client{Timeout: 2 * time.Second}
	for i := 0; i < 200; i++ {
		res, err := c.Post(rg.url, "application/json", strings.NewReader(`{"jsonrpc":"2.0","id":"probe","method":"eth_accounts"}`))
		if err == nil {
			b, _ := io.ReadAll(res.Body)
			res.Body.Close()
			if strings.Contains(string(b), a) {
				return true
			}
		}
		time.Sleep(50 * time.Millisecond)
	}
	return false
}

func (rg *proxyRig) stop() {
	if rg.proc != nil && rg.proc.Process != nil {
		_ = rg.proc.Process.Kill()
		_, _ = rg.proc.Process.Wait()
	}
	rg.backend.Close()
	_ = os.RemoveAll(rg.root)
}

// post sends one body with the given backend script; returns the observation
func (rg *proxyRig) post(body []byte, script map[string]map[string]any) map[string]any {
	rg.mu.Lock()
	rg.script = script
	rg.fwd = nil
	rg.mu.Unlock()
	c := http.Client{Timeout: 20 * time.Second}
	t0 := time.Now()
	res, err := c.Post(rg.url, "application/json", bytes.NewReader(body))
	obs := map[string]any{}
	if err != nil {
		obs["transportErr"] = true
		obs["transportErrText"] = fmt.Sprintf("%v after %.1fs", err, time.Since(t0).Seconds())
	} else {
		b, _ := io.ReadAll(res.Body)
		res.Body.Close()
		obs["status"] = res.StatusCode
		obs["reply"] = string(b)
	}
	rg.mu.Lock()
	obs["forwarded"] = rg.fwd
	rg.fwd = nil
	rg.script = map[string]map[string]any{}
	rg.mu.Unlock()
	if rg.dead() {
		obs["crashed"] = true
		obs["stderr"] = trunc(rg.stderr.String(), 1500)
		rg.crashes++
		_ = rg.proc.Process.Kill()
		_, _ = rg.proc.Process.Wait()
		_ = rg.start(path.Join(rg.root, "ffsigner.yaml"))
	}
	return obs
}

// canonical forwarded list: raw transactions are replaced by what they recover to
func (rg *proxyRig) canonFwd(fwd any) []any {
	l, _ := fwd.([]map[string]any)
	var out []string
	for _, f := range l {
		m := map[string]any{"method": f["method"], "params": f["params"]}
		if f["method"] == "eth_sendRawTransaction" {
			if ps, isList := f["params"].([]any); isList && len(ps) == 1 {
				if s, isStr := ps[0].(string); isStr {
					raw := unhx(strings.TrimPrefix(s, "0x"))
					a, tx, err := ethsigner.RecoverRawTransaction(context.Background(), raw, rg.chainID)
					if err == nil {
						m = map[string]any{"method": "eth_sendRawTransaction", "from": hx(a[:]), "rec": txToJSON(tx.Transaction)}
					} else {
						m["recoverErr"] = true
					}
				}
			}
		}
		if f["jsonrpc"] != "2.0" {
			m["badVersion"] = f["jsonrpc"]
		}
		b, _ := json.Marshal(m)
		out = append(out, string(b))
	}
	sort.Strings(out)
	var res []any
	for _, s := range out {
		var v any
		d := json.NewDecoder(strings.NewReader(s))
		d.UseNumber()
		_ = d.Decode(&v)
		res = append(res, v)
	}
	return res
}

var proxyReplyKinds = []map[string]any{
	{"kind": "result", "value": "0xabc"}, {"kind": "result", "value": map[string]any{"a": []any{1, "ü", nil}, "big": json.Number("123456789012345678901234567890")}},
	{"kind": "result", "value": nil}, {"kind": "result", "value": []any{}}, {"kind": "result", "value": true}, {"kind": "result", "value": json.Number("42")},
	{"kind": "resultNoVersion", "value": "0x1"}, {"kind": "rpcError", "code": -32000}, {"kind": "rpcError", "code": 3}, {"kind": "httpErrorWithBody", "code": -32005},
	{"kind": "httpErrorNoBody"}, {"kind": "httpErrorNoBody", "text": true}, {"kind": "nullBody"}, {"kind": "wrongId", "value": "0x2"}, {"kind": "connFail"},
}

func genRPCID(r *Rng) any {
	return Pick(r, []any{json.Number("1"), json.Number("0"), "abc", json.Number("123456789012345678901234567890"), "", json.Number("-5"), json.Number("1.5"), "ünï", []any{1}, map[string]any{"x": 1}, true})
}

func genMember(r *Rng, rg *proxyRig) map[string]any {
	m := map[string]any{"jsonrpc": "2.0", "id": genRPCID(r)}
	switch r.Intn(10) {
	case 0:
		m["method"] = Pick(r, []string{"eth_accounts", "personal_accounts"})
	case 1, 2, 3, 4:
		from := Pick(r, append(append([]string{}, rg.accounts...), rg.accounts...))
		tx := map[string]any{"from": "0x" + from, "gas": Pick(r, []any{"0x5208", json.Number("21000"), "21000"}), "value": Pick(r, []any{"0x0", "0x1", json.Number("1000"), nil})}
		if r.Bool() {
			tx["nonce"] = Pick(r, []any{"0x0", "0x7", json.Number("12"), "0x10000000000"})
		}
		switch r.Intn(8) {
		case 0, 1:
			tx["gasPrice"] = "0x3b9aca00"
		case 2:
			tx["maxFeePerGas"], tx["maxPriorityFeePerGas"] = "0x77359400", "0x1"
		case 3: // one fee-market field alone
			tx["maxFeePerGas"] = Pick(r, []any{"0x77359400", json.Number("5")})
		case 4:
			tx["maxPriorityFeePerGas"] = Pick(r, []any{"0x2", json.Number("7")})
		case 5: // one of them present but zero / null, with or without a legacy gas price
			tx["maxFeePerGas"], tx["maxPriorityFeePerGas"] = Pick(r, []any{"0x77359400", "0x0"}), Pick(r, []any{"0x0", nil, json.Number("0")})
			if r.Bool() {
				tx["gasPrice"] = "0x3b9aca00"
			}
		case 6: // both styles at once
			tx["gasPrice"], tx["maxFeePerGas"], tx["maxPriorityFeePerGas"] = "0x3b9aca00", "0x77359400", "0x1"
		}
		if r.Bool() {
			tx["to"] = "0x" + hx(r.Bytes(20))
		}
		if r.Bool() {
			tx["data"] = "0x" + hx(r.Bytes(Pick(r, []int{0, 4, 36, 100, 1000})))
		}
		switch r.Intn(12) {
		case 0:
			tx["from"] = "0x" + hx(r.Bytes(20)) // unknown account
		case 1:
			tx["from"] = Pick(r, []any{"zz", "0x1234", json.Number("5"), nil, true, ""})
		case 2:
			delete(tx, "from")
		case 3:
			tx["nonce"] = Pick(r, []any{"zz", json.Number("-1"), true, "0x"})
		case 4:
			tx["to"] = "0x12"
		}
		m["method"] = "eth_sendTransaction"
		m["params"] = []any{tx}
		if r.Intn(15) == 0 {
			m["params"] = Pick(r, []any{[]any{}, []any{"notanobject"}, []any{nil}, []any{tx, "extra"}})
		}
	default:
		m["method"] = Pick(r, []string{"eth_call", "eth_getBalance", "web3_clientVersion", "debug_traceTransaction", "eth_sendRawTransaction", "eth_getTransactionCount", "", "ünïcode_method", "eth_chainId"})
		switch r.Intn(4) {
		case 0:
		case 1:
			m["params"] = []any{}
		default:
			m["params"] = []any{map[string]any{"to": "0x" + hx(r.Bytes(20)), "data": "0x", "nested": []any{[]any{1, 2}, map[string]any{"k": nil}}}, "latest", json.Number("123456789012345678901234567890"), "<>& ü", json.Number("1e3"), nil, true}
		}
	}
	switch r.Intn(25) {
	case 0:
		delete(m, "id")
	case 1:
		m["id"] = nil
	case 2:
		delete(m, "method")
	case 3:
		delete(m, "jsonrpc")
	}
	return m
}

func proxyScript(r *Rng) map[string]map[string]any {
	s := map[string]map[string]any{"*": Pick(r, proxyReplyKinds)}
	s["eth_getTransactionCount"] = Pick(r, []map[string]any{{"kind": "result", "value": "0x5"}, {"kind": "result", "value": "0x5"}, {"kind": "result", "value": json.Number("9")}, {"kind": "result", "value": nil},
		{"kind": "result", "value": "zz"}, {"kind": "rpcError", "code": -32000}, {"kind": "httpErrorNoBody"}, {"kind": "connFail"}, {"kind": "nullBody"}})
	s["eth_sendRawTransaction"] = Pick(r, append(proxyReplyKinds, map[string]any{"kind": "result", "value": "0x" + hx(r.Bytes(32))}, map[string]any{"kind": "result", "value": "0x" + hx(r.Bytes(32))}))
	return s
}

func addProxyCase(c *Ctx, rg *proxyRig, body []byte, script map[string]map[string]any, expect map[string]any, tags ...string) {
	obs := rg.post(body, script)
	if obs["transportErr"] == true && obs["crashed"] != true {
		// no reply, yet the proxy is up and answers the probe: a proxy that drops this body does so every time, a
		// connection lost to the machine (a stall under load, a keep-alive race) does not - ask once more, after
		// whatever the first attempt set in motion has had time to finish, and keep what happened for the evidence
		l, _ := c.Notes["transport_errors"].([]string)
		if len(l) < 10 {
			c.Notes["transport_errors"] = append(l, fmt.Sprint(obs["transportErrText"]))
		}
		time.Sleep(750 * time.Millisecond)
		obs2 := rg.post(body, script)
		if obs2["transportErr"] != true {
			n, _ := c.Notes["transport_recovered_on_retry"].(int)
			c.Notes["transport_recovered_on_retry"] = n + 1
		}
		obs = obs2
	}
	req := map[string]any{"op": "proxy.handle", "body": hx(body), "goValid": json.Valid(body), "script": script, "accounts": rg.accounts,
		"implReply": obs["reply"], "implStatus": obs["status"], "implForwarded": rg.canonFwd(obs["forwarded"]), "crashed": obs["crashed"], "transportErr": obs["transportErr"], "transportErrText": obs["transportErrText"], "stderr": obs["stderr"]}
	for k, v := range expect {
		req[k] = v
	}
	c.Add(req, tags...)
}

// normJ: numbers by value, absent / null / empty params alike
func normJ(v any) any {
	switch t := v.(type) {
	case json.Number:
		if rt, okk := new(big.Rat).SetString(t.String()); okk {
			return "num:" + rt.RatString()
		}
		return t
	case float64:
		return "num:" + new(big.Rat).SetFloat64(t).RatString()
	case int:
		return "num:" + fmt.Sprint(t)
	case []any:
		out := make([]any, len(t))
		for i, x := range t {
			out[i] = normJ(x)
		}
		return out
	case map[string]any:
		out := map[string]any{}
		for k, x := range t {
			out[k] = normJ(x)
		}
		return out
	}
	return v
}

func normParams(v any) any {
	if l, isList := v.([]any); isList && len(l) == 0 {
		return nil
	}
	return normJ(v)
}

func proxyJudge(prop string) func(c *Ctx, req map[string]any, impl any, orc map[string]any) []Finding {
	return func(c *Ctx, req map[string]any, impl any, orc map[string]any) []Finding {
		var fs []Finding
		if req["crashed"] == true {
			return []Finding{{Kind: "violation", Region: "proxy.crash", Detail: "the proxy process died / stopped serving after this request: " + trunc(fmt.Sprint(req["stderr"]), 300)}}
		}
		if req["transportErr"] == true {
			fs = append(fs, Finding{Kind: "violation", Region: "proxy.noreply", Detail: "no HTTP reply (connection dropped): " + fmt.Sprint(req["transportErrText"])})
			return fs
		}
		if orc["wellFormed"] != true {
			fs = append(fs, Finding{Kind: "violation", Region: "proxy.reply.malformed", Detail: "reply is not a well-formed JSON-RPC 2.0 response (object with result xor error{code,message}; array of the batch's length for a batch): " + trunc(fmt.Sprint(req["implReply"]), 200)})
		}
		if orc["leanDisagrees"] == true {
			return fs // the two JSON parsers disagree about the body: no model comparison
		}
		// Tier B: status, canonical reply, forwarded requests
		var reply any
		d := json.NewDecoder(strings.NewReader(fmt.Sprint(req["implReply"])))
		d.UseNumber()
		_ = d.Decode(&reply)
		canonResp := func(v any) any {
			m, isMap := v.(map[string]any)
			if !isMap {
				return v
			}
			out := map[string]any{"jsonrpc": m["jsonrpc"], "id": m["id"]}
			if _, has := m["id"]; !has {
				out["id"] = "<absent>"
			}
			if rv, has := m["result"]; has {
				out["result"] = rv
			}
			if e, has := m["error"].(map[string]any); has {
				out["errorCode"] = e["code"]
			}
			return out
		}
		var implCanon any
		if l, isList := reply.([]any); isList {
			var rs []any
			for _, x := range l {
				rs = append(rs, canonResp(x))
			}
			implCanon = map[string]any{"status": req["implStatus"], "batch": rs}
		} else {
			implCanon = map[string]any{"status": req["implStatus"], "single": canonResp(reply)}
		}
		if !same(normJ(implCanon), normJ(orc["reply"])) {
			fs = append(fs, Finding{Kind: "mismatch", Region: "proxy.reply", Detail: "status / reply differs from model: impl=" + trunc(canon(implCanon), 300) + " model=" + trunc(canon(orc["reply"]), 300)})
		}
		// forwarded: the model's list, with rawTx entries compared through recovery
		var modelFwd []string
		for _, f := range normList(orc["forwarded"]) {
			fm := f.(map[string]any)
			if fm["method"] == "eth_sendRawTransaction" && fm["from"] != nil {
				modelFwd = append(modelFwd, canon(map[string]any{"method": "eth_sendRawTransaction", "from": fm["from"], "rec": fm["rec"]}))
			} else {
				modelFwd = append(modelFwd, canon(map[string]any{"method": fm["method"], "params": normParams(fm["params"])}))
			}
		}
		sort.Strings(modelFwd)
		var implFwd []string
		for _, f := range normList(req["implForwarded"]) {
			fm := f.(map[string]any)
			if fm["badVersion"] != nil {
				fs = append(fs, Finding{Kind: "violation", Region: "proxy.forward.version", Detail: "request forwarded without jsonrpc 2.0"})
			}
			if fm["method"] == "eth_sendRawTransaction" && fm["from"] != nil {
				implFwd = append(implFwd, canon(map[string]any{"method": "eth_sendRawTransaction", "from": fm["from"], "rec": fm["rec"]}))
			} else {
				implFwd = append(implFwd, canon(map[string]any{"method": fm["method"], "params": normParams(fm["params"])}))
			}
		}
		sort.Strings(implFwd)
		if strings.Join(modelFwd, "\n") != strings.Join(implFwd, "\n") {
			fs = append(fs, Finding{Kind: "mismatch", Region: "proxy.forwarded", Detail: "forwarded requests differ from model: impl=" + trunc(strings.Join(implFwd, " ; "), 300) + " model=" + trunc(strings.Join(modelFwd, " ; "), 300)})
		}
		// Tier A (C09), independent of the model: ids, relayed results / errors, and what was signed
		fs = append(fs, proxySpecCheck(c, req, reply)...)
		return fs
	}
}

// ---- the property's own reading of one exchange (no model involved) ----
func bigOf(v any) (*big.Int, bool) {
	switch t := v.(type) {
	case nil:
		return nil, true
	case string:
		z, okk := new(big.Int).SetString(t, 0)
		return z, okk && z.Sign() >= 0
	case json.Number:
		z, okk := new(big.Int).SetString(t.String(), 10)
		return z, okk && z.Sign() >= 0
	}
	return nil, false
}

type expTx struct {
	from                                     string
	nonce, gas, value, gasPrice, feeCap, tip string
	to, data                                 string
	is1559                                   bool
}

func z(b *big.Int) string {
	if b == nil {
		return "0"
	}
	return b.String()
}

// cleanSendTx: a member that must be signed and submitted; (nil,true) = must not be submitted; (nil,false) = no verdict
func cleanSendTx(m map[string]any, script map[string]any, accounts []string) (*expTx, bool) {
	if m["id"] == nil || m["method"] != "eth_sendTransaction" {
		return nil, false
	}
	ps, _ := m["params"].([]any)
	if len(ps) < 1 {
		return nil, true
	}
	tx, isObj := ps[0].(map[string]any)
	if !isObj {
		return nil, true
	}
	for k := range tx { // only the canonical member names (Go's case folding is the model's business)
		switch k {
		case "from", "nonce", "gas", "gasPrice", "maxFeePerGas", "maxPriorityFeePerGas", "value", "to", "data":
		default:
			return nil, false
		}
	}
	from, isStr := tx["from"].(string)
	known := false
	for _, a := range accounts {
		if isStr && strings.EqualFold(strings.TrimPrefix(from, "0x"), a) && len(strings.TrimPrefix(from, "0x")) == 40 {
			known = true
		}
	}
	e := &expTx{from: strings.ToLower(strings.TrimPrefix(from, "0x"))}
	allOK := true
	num := func(k string) string {
		b, okk := bigOf(tx[k])
		if !okk {
			allOK = false
		}
		return z(b)
	}
	e.gas, e.value, e.gasPrice, e.feeCap, e.tip = num("gas"), num("value"), num("gasPrice"), num("maxFeePerGas"), num("maxPriorityFeePerGas")
	e.is1559 = e.feeCap != "0" || e.tip != "0"
	if tx["nonce"] != nil {
		e.nonce = num("nonce")
	}
	if t, has := tx["to"]; has && t != nil {
		ts, isS := t.(string)
		if !isS || len(strings.TrimPrefix(ts, "0x")) != 40 {
			allOK = false
		}
		e.to = strings.ToLower(strings.TrimPrefix(ts, "0x"))
	}
	if d, has := tx["data"]; has && d != nil {
		ds, isS := d.(string)
		if !isS {
			allOK = false
		}
		e.data = strings.ToLower(strings.TrimPrefix(ds, "0x"))
		if !isHexStr(e.data) || len(e.data)%2 != 0 {
			allOK = false
		}
	}
	if !isHexStr(e.to) || !isHexStr(e.from) {
		allOK = false
	}
	if !allOK {
		return nil, false // malformed field: rejected, but which error is not the property's business
	}
	if !known {
		return nil, true
	}
	if tx["nonce"] == nil {
		gc, _ := script["eth_getTransactionCount"].(map[string]any)
		if gc["kind"] != "result" {
			if gc["kind"] == "resultNoVersion" || gc["kind"] == "wrongId" {
				return nil, false
			}
			return nil, true // the nonce could not be obtained: nothing may be submitted
		}
		b, okk := bigOf(gc["value"])
		if !okk {
			return nil, true
		}
		if b == nil {
			return nil, true // a null pending count is no nonce: nothing may be submitted
		}
		e.nonce = b.String()
	}
	return e, true
}

func proxySpecCheck(c *Ctx, req map[string]any, reply any) []Finding {
	var fs []Finding
	body := unhx(fmt.Sprint(req["body"]))
	var parsed any
	d := json.NewDecoder(bytes.NewReader(body))
	d.UseNumber()
	if d.Decode(&parsed) != nil || req["goValid"] != true {
		return nil
	}
	script := map[string]any{}
	if sm, isSM := req["script"].(map[string]map[string]any); isSM {
		for k, v := range sm {
			script[k] = v
		}
	} else if sm, isSM := req["script"].(map[string]any); isSM {
		script = sm
	}
	accounts := []string{}
	if sl, isSL := req["accounts"].([]string); isSL {
		accounts = sl
	}
	for _, a := range normList(req["accounts"]) {
		accounts = append(accounts, fmt.Sprint(a))
	}
	var members, replies []any
	trimmed := bytes.TrimLeft(body, " \t\r\n")
	if l, isList := parsed.([]any); isList && len(trimmed) > 0 && trimmed[0] == '[' {
		rl, isRL := reply.([]any)
		if !isRL || len(rl) != len(l) {
			return nil // malformed batches / parse errors are C16's
		}
		members, replies = l, rl
	} else {
		members, replies = []any{parsed}, []any{reply}
	}
	scriptFor := func(method string) map[string]any {
		if s, has := script[method].(map[string]any); has {
			return s
		}
		s, _ := script["*"].(map[string]any)
		return s
	}
	var expected []*expTx
	verdictForAll := true
	for i, mv := range members {
		m, isObj := mv.(map[string]any)
		rp, isRObj := replies[i].(map[string]any)
		if !isObj || !isRObj {
			continue
		}
		canonicalNames := true
		for k := range m {
			if k != "id" && k != "method" && k != "params" && k != "jsonrpc" {
				canonicalNames = false
			}
		}
		method, methodIsStr := m["method"].(string)
		if v, has := m["jsonrpc"]; has && v != nil {
			if _, isStr := v.(string); !isStr {
				canonicalNames = false // not a well-formed request: C16's business
			}
		}
		if !canonicalNames || !methodIsStr {
			if m["method"] == "eth_sendTransaction" || !methodIsStr {
				verdictForAll = false
			}
			continue
		}
		// each response carries the request's own id
		if m["id"] != nil && !same(normJ(rp["id"]), normJ(m["id"])) {
			fs = append(fs, Finding{Kind: "violation", Region: "proxy.reply.id", Detail: fmt.Sprintf("member %d: response id %s is not the request's id %s", i, canon(rp["id"]), canon(m["id"]))})
		}
		if m["id"] == nil {
			continue
		}
		if _, isList := m["params"].([]any); m["params"] != nil && !isList {
			continue
		}
		switch method {
		case "eth_accounts", "personal_accounts":
			var want []any
			for _, a := range accounts {
				want = append(want, "0x"+a)
			}
			got := normList(rp["result"])
			gs, ws := []string{}, []string{}
			for _, x := range got {
				gs = append(gs, fmt.Sprint(x))
			}
			for _, x := range want {
				ws = append(ws, fmt.Sprint(x))
			}
			sort.Strings(gs)
			sort.Strings(ws)
			if strings.Join(gs, ",") != strings.Join(ws, ",") {
				fs = append(fs, Finding{Kind: "violation", Region: "proxy.accounts", Detail: fmt.Sprintf("member %d: eth_accounts returned %v, wallet holds %v", i, gs, ws)})
			}
		case "eth_sendTransaction":
			e, verdict := cleanSendTx(m, script, accounts)
			if !verdict {
				verdictForAll = false
			} else if e != nil {
				expected = append(expected, e)
				relayCheck(&fs, i, rp, scriptFor("eth_sendRawTransaction"))
			}
		default:
			relayCheck(&fs, i, rp, scriptFor(method))
			// reaches the backend with the same method and parameters
			found := false
			for _, g := range normList(req["implForwarded"]) {
				gm := g.(map[string]any)
				if gm["method"] == method && same(normParams(gm["params"]), normParams(m["params"])) {
					found = true
				}
			}
			if !found {
				fs = append(fs, Finding{Kind: "violation", Region: "proxy.passthrough", Detail: fmt.Sprintf("member %d: %s did not reach the backend with the same method and parameters", i, method)})
			}
		}
	}
	// what was signed and submitted: the multiset of recovered raw transactions = the multiset expected
	if verdictForAll {
		var got, want []string
		for _, g := range normList(req["implForwarded"]) {
			gm := g.(map[string]any)
			if gm["method"] != "eth_sendRawTransaction" {
				continue
			}
			rec, _ := gm["rec"].(map[string]any)
			if rec == nil {
				// a raw transaction the client itself sent through, or one that does not recover
				if gm["recoverErr"] == true {
					got = append(got, "unrecoverable")
				}
				continue
			}
			gs := func(k string) string {
				if sv, isStr := rec[k].(string); isStr {
					return sv
				}
				return "0"
			}
			fee := "legacy:" + gs("gasPrice")
			if rec["type"] == "1559" || gs("feeCap") != "0" || gs("tip") != "0" {
				fee = "1559:" + gs("feeCap") + "/" + gs("tip")
			}
			got = append(got, strings.Join([]string{fmt.Sprint(gm["from"]), gs("nonce"), gs("gasLimit"), gs("value"), fee, strOrEmpty(rec["to"]), strOrEmpty(rec["data"])}, "|"))
		}
		for _, e := range expected {
			fee := "legacy:" + e.gasPrice
			if e.is1559 {
				fee = "1559:" + e.feeCap + "/" + e.tip
			}
			want = append(want, strings.Join([]string{e.from, e.nonce, e.gas, e.value, fee, e.to, e.data}, "|"))
		}
		// pass-through eth_sendRawTransaction members carry params that are not transactions: they are not in `got`
		sort.Strings(got)
		sort.Strings(want)
		if strings.Join(got, "\n") != strings.Join(want, "\n") {
			fs = append(fs, Finding{Kind: "violation", Region: "proxy.sendtx.fields", Detail: "raw transactions that reached the backend (recovered: from|nonce|gas|value|fee|to|data) = [" + trunc(strings.Join(got, " ; "), 400) + "], required by the requests = [" + trunc(strings.Join(want, " ; "), 400) + "]"})
		} else {
			n, _ := c.Notes["signed_forwards_field_checked"].(int)
			c.Notes["signed_forwards_field_checked"] = n + len(want)
		}
	}
	return fs
}

func isHexStr(s string) bool {
	for _, ch := range s {
		if !(ch >= '0' && ch <= '9' || ch >= 'a' && ch <= 'f') {
			return false
		}
	}
	return true
}

func strOrEmpty(v any) string {
	if sv, isStr := v.(string); isStr {
		return sv
	}
	return ""
}

// the backend's result or error is what the caller gets
func relayCheck(fs *[]Finding, i int, rp map[string]any, sc map[string]any) {
	switch sc["kind"] {
	case "result", "resultNoVersion", "wrongId":
		if _, has := rp["result"]; !has || !same(normJ(rp["result"]), normJ(sc["value"])) {
			*fs = append(*fs, Finding{Kind: "violation", Region: "proxy.relay.result", Detail: fmt.Sprintf("member %d: backend result %s was relayed as %s", i, trunc(canon(sc["value"]), 120), trunc(canon(rp), 200))})
		}
	case "rpcError", "httpErrorWithBody":
		e, _ := rp["error"].(map[string]any)
		code := sc["code"]
		if code == nil {
			code = json.Number("-32000")
		}
		if e == nil || !same(normJ(e["code"]), normJ(code)) {
			*fs = append(*fs, Finding{Kind: "violation", Region: "proxy.relay.error", Detail: fmt.Sprintf("member %d: backend error code %v was relayed as %s", i, code, trunc(canon(rp), 200))})
		}
	case "httpErrorNoBody", "connFail":
		if _, has := rp["error"].(map[string]any); !has {
			*fs = append(*fs, Finding{Kind: "violation", Region: "proxy.relay.error", Detail: fmt.Sprintf("member %d: backend failure was relayed as %s", i, trunc(canon(rp), 200))})
		}
	}
}

func proxyGen(prop string) func(c *Ctx) {
	return func(c *Ctx) {
		r := c.R
		rg, err := newProxyRig(prop == "C09" && c.Seed%2 == 0, prop == "C09")
		if err != nil {
			c.Notes["rig_error"] = err.Error()
			c.Add(map[string]any{"op": "proxy.handle", "body": "", "goValid": false, "rigError": err.Error(), "crashed": true, "stderr": err.Error()}, "rig-error")
			return
		}
		defer rg.stop()
		n := 250
		if c.Thorough() {
			n = 4000
		}
		// batches of every size around the powers of two and the round numbers a worker pool, window or chunk might
		// use: each member keeps its own position and id whatever the size
		sizes := []int{9, 10, 11, 15, 16, 17, 19, 20, 21, 24, 25, 26, 31, 32, 33, 49, 50, 51, 63, 64, 65, 99, 100, 101, 127, 128, 129, 199, 200, 201, 255, 256, 257}
		if c.Thorough() {
			sizes = append(sizes, 499, 500, 501, 511, 512, 513, 999, 1000, 1001, 1023, 1024, 1025)
		}
		for _, k := range sizes {
			var arr []any
			for q := 0; q < k; q++ {
				m := genMember(r, rg)
				m["id"] = json.Number(fmt.Sprint(1000 + q))
				arr = append(arr, m)
			}
			b, _ := json.Marshal(arr)
			addProxyCase(c, rg, b, proxyScript(r), nil, "batch.sizes")
		}
		if prop == "C09" {
			for i := 0; i < n; i++ {
				if i == n/2 || i == n*3/4 {
					// the wallet gains an address while the proxy is serving: eth_accounts must list it from now on and
					// eth_sendTransaction must sign for it
					c.Notes[fmt.Sprintf("account_added_at_%d_seen", i)] = rg.addAccount(int64(2000 + i))
					for q := 0; q < 3; q++ {
						b, _ := json.Marshal(map[string]any{"jsonrpc": "2.0", "id": json.Number(fmt.Sprint(q)), "method": Pick(r, []string{"eth_accounts", "personal_accounts"})})
						addProxyCase(c, rg, b, proxyScript(r), nil, "accounts.after-add")
					}
				}
				script := proxyScript(r)
				if r.Intn(3) == 0 {
					k := 1 + r.Intn(Pick(r, []int{3, 8, 64}))
					var arr []any
					for q := 0; q < k; q++ {
						arr = append(arr, genMember(r, rg))
					}
					b, _ := json.Marshal(arr)
					addProxyCase(c, rg, b, script, nil, "batch")
				} else {
					b, _ := json.Marshal(genMember(r, rg))
					addProxyCase(c, rg, b, script, nil, "single")
				}
			}
		} else {
			// C16: arbitrary bodies against one long-lived process
			corner := []string{"", " ", "null", "true", "5", `"x"`, "{}", "[]", "[null]", "[null,null]", "[1]", `["x"]`, "[[]]", "[{}]", `[{"id":1}]`, `{"id":1}`, `{"id":1,"method":5}`, `{"id":1,"method":"eth_call","params":{}}`,
				`{"id":1,"method":"eth_call","params":"x"}`, `{"jsonrpc":2,"id":1,"method":"eth_call"}`, `{"id":1,"method":"eth_sendTransaction"}`, `{"id":1,"method":"eth_sendTransaction","params":[{"from":"zz"}]}`,
				`{"id":1,"method":"eth_sendTransaction","params":[{"from":null}]}`, `{"id":1,"method":"eth_sendTransaction","params":[{}]}`, `{"id":1,"method":"eth_sendTransaction","params":[{"from":"0x1234"}]}`,
				`{"id":1,"method":"eth_sendTransaction","params":[{"from":5,"nonce":"0x1"}]}`, `{"id":1,"method":"eth_sendTransaction","params":[[]]}`, `[{"id":1,"method":"eth_accounts"},null,{"id":2,"method":"eth_accounts"}]`,
				`[{"id":1,"method":"eth_accounts"},5]`, `{`, `[`, `[{"id":1,"method":"eth_accounts"}`, "\xff\xfe", `{"id":1,"method":"eth_accounts"} trailing`, `{"id":1,"method":"eth_accounts"}{"id":2}`, "\ufeff{}", `{"ID":7,"METHOD":"eth_accounts"}`,
				strings.Repeat("[", 10001) + strings.Repeat("]", 10001), strings.Repeat(`{"a":`, 5000) + "1" + strings.Repeat("}", 5000)}
			for _, ws := range []int{0, 1, 99, 100, 101, 150, 10000} {
				corner = append(corner, strings.Repeat(" ", ws)+`[{"jsonrpc":"2.0","id":1,"method":"eth_accounts"}]`, strings.Repeat("\n\t ", ws/3+1)+`{"jsonrpc":"2.0","id":1,"method":"eth_accounts"}`, strings.Repeat(" ", ws)+"[null]")
			}
			// eth_sendTransaction: every kind and size of `from` x nonce present / absent / null x single / batch member
			for _, from := range []string{`5`, `0`, `-1`, `1.5`, `true`, `null`, `""`, `"z"`, `"0"`, `"0x"`, `"0x1"`, `[]`, `{}`, `[1]`, `"` + strings.Repeat("a", 39) + `"`, `"` + strings.Repeat("a", 41) + `"`,
				`"0x` + strings.Repeat("b", 40) + `"`, `"` + strings.Repeat("0x", 5000) + `"`, `"0X` + rg.accounts[0] + `"`, `"` + strings.ToUpper(rg.accounts[0]) + `"`, `" 0x` + rg.accounts[0] + `"`} {
				for _, nonce := range []string{``, `,"nonce":"0x1"`, `,"nonce":null`, `,"nonce":0`, `,"nonce":"0x0"`} {
					one := `{"jsonrpc":"2.0","id":7,"method":"eth_sendTransaction","params":[{"from":` + from + nonce + `,"gas":"0x5208"}]}`
					corner = append(corner, one, `[`+one+`]`)
				}
			}
			for _, p0 := range []string{`5`, `"x"`, `[]`, `[[]]`, `true`, `{"from":{}}`, `{"gas":[]}`, `{"to":5,"from":"0x` + rg.accounts[0] + `"}`, `{"data":"0x1","from":"0x` + rg.accounts[0] + `"}`, `{"value":-1,"from":"0x` + rg.accounts[0] + `"}`, `{"FROM":"0x` + rg.accounts[0] + `","gas":1}`} {
				one := `{"jsonrpc":"2.0","id":8,"method":"eth_sendTransaction","params":[` + p0 + `]}`
				corner = append(corner, one, `[`+one+`,`+one+`]`)
			}
			// strings of every escape class (control characters, DEL, quotes, backslashes, invalid UTF-8 replaced by the
			// decoder, astral and non-printable code points) as method name, as string id and inside params — with the
			// id present, absent and null, single and as a batch member: whatever the proxy echoes or embeds of the
			// request must still come back as JSON
			oddStrings := []string{`\u0000`, `\u0001`, `\u0007`, `\u000b`, `\u001f`, `\u007f`, `\\`, `\"`, `\/`, `\b\f\n\r\t`, `ÿ`, `  `, `🙂`,
				`󠀁`, `\ud800`, `a\u0000b`, `%s%d%q`, `<script>&amp;`, `￾￿`, `\u0085 `}
			for _, o := range oddStrings {
				for _, idPart := range []string{`"id":1,`, ``, `"id":null,`, `"id":"` + o + `",`} {
					one := `{"jsonrpc":"2.0",` + idPart + `"method":"` + o + `","params":["` + o + `"]}`
					two := `{"jsonrpc":"2.0",` + idPart + `"method":"eth_call","params":[{"data":"` + o + `"}]}`
					corner = append(corner, one, `[`+one+`,{"jsonrpc":"2.0","id":2,"method":"eth_accounts"}]`, two)
				}
			}
			for _, s := range corner {
				addProxyCase(c, rg, []byte(s), proxyScript(r), nil, "corner")
			}
			// later requests are served after a request that failed half way: a transaction without nonce for an address
			// the wallet has no key for (the nonce lookup succeeds, signing fails), then transactions without nonce for
			// an address it has
			for rep := 0; rep < 2; rep++ {
				okScript := map[string]map[string]any{"*": {"kind": "result", "value": "0x1"}, "eth_getTransactionCount": {"kind": "result", "value": "0x5"},
					"eth_sendRawTransaction": {"kind": "result", "value": "0x" + hx(r.Bytes(32))}}
				mk := func(from string, id int) []byte {
					b, _ := json.Marshal(map[string]any{"jsonrpc": "2.0", "id": json.Number(fmt.Sprint(id)), "method": "eth_sendTransaction",
						"params": []any{map[string]any{"from": from, "gas": "0x5208", "value": "0x1"}}})
					return b
				}
				addProxyCase(c, rg, mk("0x"+hx(r.Bytes(20)), 1), okScript, nil, "history.unsignable")
				addProxyCase(c, rg, mk("0x"+rg.accounts[0], 2), okScript, nil, "history.after-unsignable")
				b1, b2 := mk("0x"+rg.accounts[0], 3), mk("0x"+rg.accounts[len(rg.accounts)-1], 4)
				addProxyCase(c, rg, []byte("["+string(b1)+","+string(b2)+"]"), okScript, nil, "history.after-unsignable")
			}
			// large replies (well beyond one kilobyte, mostly structural characters rather than string contents): big
			// batches of mixed members, long structured ids, large structured backend results
			nl := 12
			if c.Thorough() {
				nl = 150
			}
			for i := 0; i < nl; i++ {
				script := proxyScript(r)
				nums := func(k int) []any {
					var a []any
					for q := 0; q < k; q++ {
						a = append(a, json.Number(fmt.Sprint(r.Intn(10))))
					}
					return a
				}
				switch i % 3 {
				case 0:
					k := 10 + r.Intn(Pick(r, []int{10, 40, 120}))
					var arr []any
					for q := 0; q < k; q++ {
						if r.Intn(5) == 0 {
							arr = append(arr, Pick(r, []any{nil, map[string]any{}, map[string]any{"method": "eth_call"}}))
						} else {
							m := genMember(r, rg)
							m["id"] = json.Number(fmt.Sprint(q))
							arr = append(arr, m)
						}
					}
					b, _ := json.Marshal(arr)
					addProxyCase(c, rg, b, script, nil, "large.batch")
				case 1:
					m := genMember(r, rg)
					m["id"] = nums(300 + r.Intn(900))
					b, _ := json.Marshal(m)
					addProxyCase(c, rg, b, script, nil, "large.id")
				default:
					script["*"] = map[string]any{"kind": "result", "value": map[string]any{"rows": []any{nums(200 + r.Intn(400)), nums(300), map[string]any{"k": nums(100)}}}}
					b, _ := json.Marshal(map[string]any{"jsonrpc": "2.0", "id": json.Number(fmt.Sprint(i)), "method": "eth_getLogs", "params": []any{map[string]any{}}})
					addProxyCase(c, rg, b, script, nil, "large.result")
				}
			}
			for i := 0; i < n; i++ {
				script := proxyScript(r)
				switch r.Intn(6) {
				case 0:
					addProxyCase(c, rg, r.Bytes(r.LogLen(300)), script, nil, "randombytes")
				case 1: // valid mixed with invalid batch members
					k := 1 + r.Intn(6)
					var arr []any
					for q := 0; q < k; q++ {
						if r.Intn(3) == 0 {
							arr = append(arr, Pick(r, []any{nil, json.Number("5"), "x", []any{}, map[string]any{}, true}))
						} else {
							arr = append(arr, genMember(r, rg))
						}
					}
					b, _ := json.Marshal(arr)
					addProxyCase(c, rg, b, script, nil, "batch.mixed")
				case 2: // mutate bytes of a valid request
					b, _ := json.Marshal(genMember(r, rg))
					if len(b) > 0 {
						for q := 0; q < 1+r.Intn(3); q++ {
							b[r.Intn(len(b))] = byte(r.Intn(256))
						}
					}
					addProxyCase(c, rg, b, script, nil, "mutated")
				case 3:
					b, _ := json.Marshal(genMember(r, rg))
					addProxyCase(c, rg, b[:r.Intn(len(b)+1)], script, nil, "truncated")
				case 4:
					b, _ := json.Marshal(Pick(r, []any{nil, json.Number("5"), "x", true, []any{[]any{}}, map[string]any{"method": []any{}}, map[string]any{"id": map[string]any{}, "method": "eth_call", "params": []any{}}}))
					addProxyCase(c, rg, b, script, nil, "kinds")
				default:
					b, _ := json.Marshal(genMember(r, rg))
					if c.Thorough() && i%200 == 0 {
						big := map[string]any{"jsonrpc": "2.0", "id": 1, "method": "eth_call", "params": []any{strings.Repeat("a", 1<<20)}}
						b, _ = json.Marshal(big)
					}
					addProxyCase(c, rg, b, script, nil, "valid")
				}
			}
		}
		c.Notes["process_crashes"] = rg.crashes
	}
}

func init() {
	register(&Suite{Prop: "C09", Gen: proxyGen("C09"), Impl: func(req map[string]any) any { return "precomputed" }, Judge: proxyJudge("C09")})
	register(&Suite{Prop: "C16", Gen: proxyGen("C16"), Impl: func(req map[string]any) any { return "precomputed" }, Judge: proxyJudge("C16")})
}
